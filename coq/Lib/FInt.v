(* Lib/FInt.v - integer-valued binary64 floats: of_Z, ceil, casts, exact +/*, monotone bounds for -,/ . *)
From Coq Require Import ZArith Reals Floats Lia Lra.
From Flocq Require Import Core BinarySingleNaN PrimFloat.
From V Require Import FExact.
From V Require Import F64.
Open Scope R_scope.

Definition IntF (x : PrimFloat.float) (z : Z) : Prop := fin x /\ RV x = IZR z.

Lemma bpow_1024_big : forall z : Z, (Z.abs z <= 2 ^ 53)%Z -> Rabs (IZR z) < bpow radix2 1024.
Proof.
  intros z Hz. rewrite <- abs_IZR.
  apply Rle_lt_trans with (IZR (2 ^ 53)). { apply IZR_le. exact Hz. }
  change (bpow radix2 1024) with (IZR (2 ^ 1024)). apply IZR_lt. reflexivity.
Qed.

Lemma of_uint63_int : forall p : positive, (Zpos p < 2 ^ 53)%Z ->
  IntF (of_uint63 (Uint63.of_Z (Zpos p))) (Zpos p).
Proof.
  intros p Hp. unfold IntF, fin, RV.
  rewrite of_int63_equiv.
  assert (Hto : Uint63.to_Z (Uint63.of_Z (Zpos p)) = Zpos p).
  { rewrite Uint63.of_Z_spec. apply Z.mod_small. change Uint63.wB with (2 ^ 63)%Z.
    split; [lia|]. apply Z.lt_trans with (2 ^ 53)%Z; [exact Hp|reflexivity]. }
  rewrite Hto.
  generalize (binary_normalize_correct prec emax Hprec Hmax mode_NE (Zpos p) 0 false).
  cbv zeta.
  assert (HF : F2R (Float radix2 (Zpos p) 0) = IZR (Zpos p)) by (unfold F2R; simpl; lra).
  rewrite HF.
  rewrite round_generic; [| apply valid_rnd_N | apply int_format; lia].
  rewrite Rlt_bool_true by (apply bpow_1024_big; lia).
  intros [H1 [H2 _]]. split; assumption.
Qed.

Lemma ldexp0_int : forall x z, IntF x z -> (Z.abs z <= 2 ^ 53)%Z -> IntF (FloatOps.Z.ldexp x 0) z.
Proof.
  intros x z [Fx Rx] Hz. unfold IntF, fin, RV in *.
  rewrite ldexp_equiv.
  generalize (Bldexp_correct prec emax Hprec Hmax mode_NE (Prim2B x) 0).
  simpl bpow. rewrite Rmult_1_r, Rx.
  rewrite round_generic; [| apply valid_rnd_N | apply int_format; exact Hz].
  rewrite Rlt_bool_true by (apply bpow_1024_big; exact Hz).
  intros [H1 [H2 _]]. rewrite H2. split; assumption.
Qed.

Lemma opp_int : forall x z, IntF x z -> IntF (- x)%float (- z).
Proof.
  intros x z [Fx Rx]. unfold IntF, fin, RV in *.
  rewrite opp_equiv. rewrite is_finite_Bopp, B2R_Bopp, Rx, opp_IZR. split; [assumption|reflexivity].
Qed.

Lemma zero_int : IntF 0%float 0.
Proof.
  unfold IntF, fin, RV. change 0%float with PrimFloat.zero.
  rewrite zero_equiv, Prim2B_B2Prim. simpl. split; reflexivity.
Qed.

Lemma negzero_int : IntF (-0)%float 0.
Proof. generalize (opp_int _ _ zero_int). simpl. auto. Qed.

Lemma of_Z_int : forall z : Z, (Z.abs z < 2 ^ 53)%Z -> IntF (of_Z z) z.
Proof.
  intros [|p|p] Hz; unfold of_Z.
  - exact zero_int.
  - unfold SF2Prim. apply ldexp0_int; [apply of_uint63_int; lia | lia].
  - unfold SF2Prim. change (Zneg p) with (- Zpos p)%Z. apply opp_int.
    apply ldexp0_int; [apply of_uint63_int; lia | lia].
Qed.

Lemma RV_SF : forall x, RV x = SF2R radix2 (Prim2SF x).
Proof. intros x. unfold RV, Prim2B. apply B2R_SF2B. Qed.

Lemma fin_SF : forall x, fin x <-> is_finite_SF (Prim2SF x) = true.
Proof. intros x. unfold fin, Prim2B. rewrite is_finite_SF2B. tauto. Qed.

Lemma F2R_pos_exp : forall (m e : Z), (0 <= e)%Z -> F2R (Float radix2 m e) = IZR (m * 2 ^ e).
Proof.
  intros m e He. unfold F2R. simpl Fnum. simpl Fexp.
  rewrite mult_IZR. f_equal. symmetry. exact (IZR_Zpower radix2 e He).
Qed.

Lemma cast_int_R : forall lo hi y z, fin y -> RV y = IZR z -> cast_int lo hi y = sat lo hi z.
Proof.
  intros lo hi y z Fy Ry. apply fin_SF in Fy. rewrite RV_SF in Ry. unfold cast_int.
  destruct (Prim2SF y) as [s|s| |s m e]; try discriminate Fy.
  - simpl in Ry. apply eq_IZR in Ry. subst z. reflexivity.
  - unfold SF2R in Ry. unfold sf_trunc.
    destruct (Z.leb_spec 0 e) as [He|He].
    + rewrite F2R_pos_exp in Ry by exact He. apply eq_IZR in Ry. subst z.
      destruct s; simpl cond_Zopp; f_equal; lia.
    + (* e < 0: the value is integral, so the mantissa is a multiple of 2^-e *)
      assert (Hm : (cond_Zopp s (Zpos m) = z * 2 ^ (- e))%Z).
      { apply eq_IZR. rewrite mult_IZR. unfold F2R in Ry. simpl Fnum in Ry. simpl Fexp in Ry.
        rewrite <- Ry. rewrite Rmult_assoc.
        replace (IZR (2 ^ (- e))) with (bpow radix2 (- e)) by (symmetry; apply (IZR_Zpower radix2); lia).
        rewrite <- bpow_plus. replace (e + - e)%Z with 0%Z by lia. simpl. lra. }
      assert (Hp : (0 < 2 ^ (- e))%Z) by (apply Z.pow_pos_nonneg; lia).
      destruct s; simpl cond_Zopp in Hm.
      * assert (Hq : (Zpos m / 2 ^ (- e) = - z)%Z).
        { replace (Zpos m) with ((- z) * 2 ^ (- e))%Z by lia. apply Z.div_mul. lia. }
        rewrite Hq. f_equal. lia.
      * assert (Hq : (Zpos m / 2 ^ (- e) = z)%Z).
        { rewrite Hm. apply Z.div_mul. lia. }
        rewrite Hq. reflexivity.
Qed.

Lemma div_bounds : forall m P : Z, (0 < P)%Z ->
  IZR (m / P) <= IZR m * / IZR P < IZR (m / P) + 1.
Proof.
  intros m P HP.
  assert (HPr : 0 < IZR P) by (apply IZR_lt; lia).
  assert (H1 : (P * (m / P) <= m)%Z) by (apply Z.mul_div_le; lia).
  assert (H2 : (m < P * (m / P + 1))%Z).
  { generalize (Z.mod_pos_bound m P HP) (Z.div_mod m P). lia. }
  apply IZR_le in H1. apply IZR_lt in H2. rewrite mult_IZR in H1, H2. rewrite plus_IZR in H2.
  split.
  - apply Rmult_le_reg_l with (IZR P); [exact HPr|].
    replace (IZR P * (IZR m * / IZR P)) with (IZR m) by (field; lra). exact H1.
  - apply Rmult_lt_reg_l with (IZR P); [exact HPr|].
    replace (IZR P * (IZR m * / IZR P)) with (IZR m) by (field; lra). exact H2.
Qed.

Lemma bpow_neg_inv : forall e : Z, (e < 0)%Z -> bpow radix2 e = / IZR (2 ^ (- e)).
Proof.
  intros e He. replace e with (- (- e))%Z at 1 by lia. rewrite bpow_opp. f_equal.
  symmetry. apply (IZR_Zpower radix2). lia.
Qed.

(* f64::ceil: an integer-valued float, the least integer not below the argument *)
Lemma fceil_spec : forall x, fin x -> Rabs (RV x) < IZR (2 ^ 52) ->
  exists z, IntF (fceil x) z /\ RV x <= IZR z < RV x + 1.
Proof.
  intros x Fx Hb. unfold fceil.
  assert (Fx' := Fx). apply fin_SF in Fx'.
  assert (Rx := RV_SF x).
  destruct (Prim2SF x) as [s|s| |s m e] eqn:E; try discriminate Fx'.
  - exists 0%Z. simpl in Rx. split; [split; [exact Fx|exact Rx]|]. rewrite Rx. simpl. lra.
  - unfold SF2R in Rx.
    destruct (Z.leb_spec 0 e) as [He|He].
    + rewrite F2R_pos_exp in Rx by exact He.
      exists (cond_Zopp s (Zpos m) * 2 ^ e)%Z. split; [split; [exact Fx|exact Rx]|]. rewrite Rx. lra.
    + unfold F2R in Rx. simpl Fnum in Rx. simpl Fexp in Rx.
      rewrite (bpow_neg_inv e He) in Rx.
      assert (HP : (0 < 2 ^ (- e))%Z) by (apply Z.pow_pos_nonneg; lia).
      set (P := (2 ^ (- e))%Z) in *.
      generalize (div_bounds (Zpos m) P HP). set (q := (Zpos m / P)%Z). intros [Hq1 Hq2].
      assert (Hq0 : (0 <= q)%Z) by (apply Z.div_pos; lia).
      change (2 ^ 52)%Z with 4503599627370496%Z in Hb.
      destruct s; simpl cond_Zopp in Rx.
      * (* negative *)
        change (Zneg m) with (- Zpos m)%Z in Rx. rewrite opp_IZR in Rx.
        assert (Hqb : IZR q < 4503599627370496).
        { rewrite Rx in Hb. rewrite Ropp_mult_distr_l_reverse, Rabs_Ropp in Hb.
          rewrite Rabs_pos_eq in Hb; [lra|]. apply Rle_trans with (IZR q); [apply IZR_le; lia|lra]. }
        apply lt_IZR in Hqb.
        destruct (Z.eqb_spec q 0) as [Hz|Hz].
        -- exists 0%Z. split; [exact negzero_int|]. rewrite Rx. rewrite Hz in Hq1, Hq2. simpl in *. lra.
        -- exists (- q)%Z. split; [apply of_Z_int; change (2 ^ 53)%Z with 9007199254740992%Z; lia|].
           rewrite Rx, opp_IZR. lra.
      * assert (Hqb : IZR q < 4503599627370496).
        { rewrite Rx in Hb. rewrite Rabs_pos_eq in Hb; [lra|].
          apply Rle_trans with (IZR q); [apply IZR_le; lia|lra]. }
        apply lt_IZR in Hqb.
        destruct (Z.eqb_spec (q * P) (Zpos m)) as [Hex|Hex].
        -- exists q. split; [apply of_Z_int; change (2 ^ 53)%Z with 9007199254740992%Z; lia|].
           rewrite Rx. rewrite <- Hex, mult_IZR.
           assert (0 < IZR P) by (apply IZR_lt; lia).
           replace (IZR q * IZR P * / IZR P) with (IZR q) by (field; lra). lra.
        -- exists (q + 1)%Z. split; [apply of_Z_int; change (2 ^ 53)%Z with 9007199254740992%Z; lia|].
           rewrite Rx, plus_IZR. split; [lra|].
           (* strict: m is not a multiple of P, so q < m / P *)
           assert (Hlt : (q * P < Zpos m)%Z).
           { generalize (Z.mul_div_le (Zpos m) P HP). fold q. lia. }
           apply IZR_lt in Hlt. rewrite mult_IZR in Hlt.
           assert (HPr : 0 < IZR P) by (apply IZR_lt; lia).
           assert (IZR q < IZR (Zpos m) * / IZR P).
           { apply Rmult_lt_reg_r with (IZR P); [exact HPr|].
             replace (IZR (Zpos m) * / IZR P * IZR P) with (IZR (Zpos m)) by (field; lra). exact Hlt. }
           lra.
Qed.

Local Instance P53 : Prec_gt_0 53.
Proof. unfold Prec_gt_0. lia. Qed.
Notation fexp64 := (FLT_exp (3 - 1024 - 53) 53).
Notation rndNE := (round radix2 fexp64 ZnearestE).

Lemma round_between : forall (x : R) (lo hi : Z),
  (Z.abs lo <= 2 ^ 53)%Z -> (Z.abs hi <= 2 ^ 53)%Z -> IZR lo <= x <= IZR hi ->
  IZR lo <= rndNE x <= IZR hi /\ Rabs (rndNE x) < bpow radix2 1024.
Proof.
  intros x lo hi Hlo Hhi [H1 H2].
  assert (A : IZR lo <= rndNE x).
  { apply (round_ge_generic radix2 fexp64 ZnearestE); [apply int_format; exact Hlo | exact H1]. }
  assert (B : rndNE x <= IZR hi).
  { apply (round_le_generic radix2 fexp64 ZnearestE); [apply int_format; exact Hhi | exact H2]. }
  split; [split; assumption|].
  generalize (bpow_1024_big lo Hlo) (bpow_1024_big hi Hhi).
  unfold Rabs. repeat destruct Rcase_abs; lra.
Qed.

Lemma sub_between : forall x y (lo hi : Z), fin x -> fin y ->
  (Z.abs lo <= 2 ^ 53)%Z -> (Z.abs hi <= 2 ^ 53)%Z -> IZR lo <= RV x - RV y <= IZR hi ->
  fin (x - y)%float /\ IZR lo <= RV (x - y)%float <= IZR hi.
Proof.
  intros x y lo hi Fx Fy Hlo Hhi Hb. unfold fin, RV in *.
  rewrite sub_equiv.
  generalize (Bminus_correct prec emax Hprec Hmax mode_NE (Prim2B x) (Prim2B y) Fx Fy).
  destruct (round_between _ lo hi Hlo Hhi Hb) as [Hr Ho].
  simpl round_mode. rewrite Rlt_bool_true by exact Ho.
  intros [H1 [H2 _]]. rewrite H1. split; assumption.
Qed.

Lemma div_between : forall x L (l lo hi : Z), fin x -> IntF L l -> (0 < l)%Z ->
  (Z.abs lo <= 2 ^ 53)%Z -> (Z.abs hi <= 2 ^ 53)%Z -> IZR lo <= RV x / IZR l <= IZR hi ->
  fin (x / L)%float /\ IZR lo <= RV (x / L)%float <= IZR hi.
Proof.
  intros x L l lo hi Fx [FL RL] Hl Hlo Hhi Hb. unfold fin, RV in *.
  rewrite div_equiv.
  assert (Hnz : B2R (Prim2B L) <> 0).
  { rewrite RL. apply not_0_IZR. lia. }
  generalize (Bdiv_correct prec emax Hprec Hmax mode_NE (Prim2B x) (Prim2B L) Hnz).
  rewrite RL.
  destruct (round_between _ lo hi Hlo Hhi Hb) as [Hr Ho].
  simpl round_mode. rewrite Rlt_bool_true by exact Ho.
  intros [H1 [H2 _]]. rewrite H1, H2. split; assumption.
Qed.

Lemma mul_int : forall x y a b, IntF x a -> IntF y b -> (Z.abs (a * b) <= 2 ^ 53)%Z ->
  IntF (x * y)%float (a * b).
Proof.
  intros x y a b [Fx Rx] [Fy Ry] Hb. unfold IntF, fin, RV in *.
  rewrite mul_equiv.
  generalize (Bmult_correct prec emax Hprec Hmax mode_NE (Prim2B x) (Prim2B y)).
  rewrite Rx, Ry, <- mult_IZR.
  simpl round_mode.
  rewrite round_generic; [| apply valid_rnd_N | apply int_format; exact Hb].
  rewrite Rlt_bool_true by (apply bpow_1024_big; exact Hb).
  intros [H1 [H2 _]]. rewrite H2, Fx, Fy. split; [reflexivity|exact H1].
Qed.
