(* Lib/FDy.v - dyadic binary64 values m * 2^e with |m| < 2^53: exact products and sums, truncating casts (Flocq bridge). *)
(* dyadic values m * 2^e with |m| < 2^53: exact products and sums, truncating casts *)
From Coq Require Import ZArith Reals Floats Lia Lra.
From Flocq Require Import Core BinarySingleNaN PrimFloat.
From V Require Import FExact FInt.
From V Require Import F64.
Open Scope R_scope.

Definition DyF (x : PrimFloat.float) (m e : Z) : Prop := fin x /\ RV x = IZR m * bpow radix2 e.

Lemma dy_format : forall m e : Z, (Z.abs m < 2 ^ 53)%Z -> (-1074 <= e)%Z ->
  generic_format radix2 (FLT_exp (3 - 1024 - 53) 53) (IZR m * bpow radix2 e).
Proof.
  intros m e Hm He. apply generic_format_FLT.
  exists (Float radix2 m e).
  - unfold F2R. simpl. reflexivity.
  - simpl. change (2 ^ 53)%Z with 9007199254740992%Z in Hm. lia.
  - simpl. lia.
Qed.

Lemma dy_small : forall m e : Z, (Z.abs m < 2 ^ 53)%Z -> (e <= 0)%Z ->
  Rabs (IZR m * bpow radix2 e) < bpow radix2 1024.
Proof.
  intros m e Hm He. rewrite Rabs_mult.
  assert (H1 : Rabs (IZR m) < bpow radix2 1024).
  { apply bpow_1024_big. lia. }
  assert (H2 : 0 < bpow radix2 e <= 1).
  { split; [apply bpow_gt_0|]. change 1 with (bpow radix2 0). apply bpow_le. exact He. }
  rewrite (Rabs_pos_eq (bpow radix2 e)) by lra.
  assert (0 <= Rabs (IZR m)) by apply Rabs_pos.
  apply Rle_lt_trans with (Rabs (IZR m) * 1); [apply Rmult_le_compat_l; lra|lra].
Qed.

Lemma int_dy : forall x z, IntF x z -> DyF x z 0.
Proof. intros x z [F R]. split; [exact F|]. rewrite R. simpl. lra. Qed.

Lemma mul_dy : forall x y m1 e1 m2 e2, DyF x m1 e1 -> DyF y m2 e2 ->
  (Z.abs (m1 * m2) < 2 ^ 53)%Z -> (-1074 <= e1 + e2 <= 0)%Z ->
  DyF (x * y)%float (m1 * m2) (e1 + e2).
Proof.
  intros x y m1 e1 m2 e2 [Fx Rx] [Fy Ry] Hm He. unfold DyF, fin, RV in *.
  rewrite mul_equiv.
  generalize (Bmult_correct prec emax Hprec Hmax mode_NE (Prim2B x) (Prim2B y)).
  assert (Hv : B2R (Prim2B x) * B2R (Prim2B y) = IZR (m1 * m2) * bpow radix2 (e1 + e2)).
  { rewrite Rx, Ry, mult_IZR, bpow_plus. ring. }
  rewrite Hv. simpl round_mode.
  rewrite round_generic; [| apply valid_rnd_N | apply dy_format; [exact Hm|lia]].
  rewrite Rlt_bool_true by (apply dy_small; [exact Hm|lia]).
  intros [H1 [H2 _]]. rewrite H2, Fx, Fy. split; [reflexivity|exact H1].
Qed.

(* sum of two dyadics brought to the smaller exponent *)
Lemma add_dy : forall x y m1 m2 e, DyF x m1 e -> DyF y m2 e ->
  (Z.abs (m1 + m2) < 2 ^ 53)%Z -> (-1074 <= e <= 0)%Z ->
  DyF (x + y)%float (m1 + m2) e.
Proof.
  intros x y m1 m2 e [Fx Rx] [Fy Ry] Hm He.
  assert (Hv : RV x + RV y = IZR (m1 + m2) * bpow radix2 e).
  { rewrite Rx, Ry, plus_IZR. ring. }
  destruct (add_exact x y Fx Fy) as [F E].
  - rewrite Hv. apply dy_format; [exact Hm|lia].
  - rewrite Hv. apply dy_small; [exact Hm|lia].
  - split; [exact F|]. rewrite E. exact Hv.
Qed.

Lemma dy_rescale : forall x m e k, DyF x m e -> (0 <= k)%Z -> DyF x (m * 2 ^ k) (e - k).
Proof.
  intros x m e k [F R] Hk. split; [exact F|]. rewrite R, mult_IZR.
  replace (IZR (2 ^ k)) with (bpow radix2 k) by (symmetry; apply (IZR_Zpower radix2 k Hk)).
  rewrite Rmult_assoc, <- bpow_plus. f_equal. f_equal. lia.
Qed.

(* `as i32` / `as u32` of a non-negative dyadic: the floor *)
Lemma cast_int_dy : forall lo hi y m e, DyF y m e -> (0 <= m)%Z -> (e <= 0)%Z ->
  cast_int lo hi y = sat lo hi (m / 2 ^ (- e)).
Proof.
  intros lo hi y m e [Fy Ry] Hm He. apply fin_SF in Fy. rewrite RV_SF in Ry. unfold cast_int.
  assert (HP : (0 < 2 ^ (- e))%Z) by (apply Z.pow_pos_nonneg; lia).
  assert (Hbe : bpow radix2 e = / IZR (2 ^ (- e))).
  { destruct (Z.eq_dec e 0) as [->|Hne]; [simpl; lra|apply bpow_neg_inv; lia]. }
  destruct (Prim2SF y) as [s|s| |s my ey]; try discriminate Fy.
  - (* zero *)
    simpl in Ry. unfold sf_trunc. f_equal.
    assert (Hm0 : m = 0%Z).
    { assert (Hpos : 0 < bpow radix2 e) by apply bpow_gt_0.
      destruct (Z.eq_dec m 0) as [->|Hne]; [reflexivity|exfalso].
      assert (0 < IZR m) by (apply IZR_lt; lia).
      assert (0 < IZR m * bpow radix2 e) by (apply Rmult_lt_0_compat; assumption). lra. }
    rewrite Hm0. rewrite Z.div_0_l by lia. reflexivity.
  - unfold SF2R in Ry. unfold sf_trunc.
    (* the sign must be positive unless the value is 0, which a finite mantissa excludes *)
    assert (Hs : s = false).
    { destruct s; [exfalso|reflexivity].
      unfold F2R in Ry. simpl in Ry.
      assert (IZR (Zneg my) * bpow radix2 ey < 0).
      { assert (0 < bpow radix2 ey) by apply bpow_gt_0.
        assert (IZR (Zneg my) < 0) by (apply IZR_lt; lia).
        replace (IZR (Zneg my) * bpow radix2 ey) with (- ((- IZR (Zneg my)) * bpow radix2 ey)) by ring.
        assert (0 < (- IZR (Zneg my)) * bpow radix2 ey) by (apply Rmult_lt_0_compat; lra). lra. }
      assert (0 <= IZR m * bpow radix2 e).
      { apply Rmult_le_pos; [apply IZR_le; lia|apply Rlt_le, bpow_gt_0]. }
      lra. }
    subst s. simpl cond_Zopp in *.
    (* both sides are the floor of the same real *)
    assert (Hfl : forall (a : Z) (b : Z), (0 <= a)%Z -> (b <= 0)%Z ->
              Zfloor (IZR a * bpow radix2 b) = (a / 2 ^ (- b))%Z).
    { intros a b Ha Hb.
      assert (HPb : (0 < 2 ^ (- b))%Z) by (apply Z.pow_pos_nonneg; lia).
      assert (Hbb : bpow radix2 b = / IZR (2 ^ (- b))).
      { destruct (Z.eq_dec b 0) as [->|Hne]; [simpl; lra|apply bpow_neg_inv; lia]. }
      rewrite Hbb. apply Zfloor_imp. rewrite plus_IZR. apply (div_bounds a (2 ^ (- b)) HPb). }
    f_equal.
    destruct (Z.leb_spec 0 ey) as [Hey|Hey].
    + rewrite F2R_pos_exp in Ry by exact Hey.
      rewrite <- (Hfl m e Hm He). rewrite <- Ry. symmetry. apply Zfloor_IZR.
    + unfold F2R in Ry. simpl Fnum in Ry. simpl Fexp in Ry.
      rewrite <- (Hfl m e Hm He). rewrite <- Ry. symmetry. apply Hfl; lia.
Qed.
