(* Lib/FOps.v - correctly rounded binary64 +, -, *, / on bounded operands (value = rounding of the exact result),
   the basis of the monotonicity arguments (Flocq bridge). *)
(* correctly rounded binary64 operations on bounded operands, and monotonicity consequences *)
From Coq Require Import ZArith Reals Floats Lia Lra.
From Flocq Require Import Core BinarySingleNaN PrimFloat.
From V Require Import FExact FInt.
From V Require Import F64.
Open Scope R_scope.

Local Instance P53o : Prec_gt_0 53.
Proof. unfold Prec_gt_0. lia. Qed.

(* finite with magnitude at most 2^k *)
Definition BF (k : Z) (x : PrimFloat.float) : Prop := fin x /\ Rabs (RV x) <= bpow radix2 k.

Lemma rnd_abs_le : forall x (k : Z), (-1074 <= k)%Z -> Rabs x <= bpow radix2 k -> Rabs (rndNE x) <= bpow radix2 k.
Proof.
  intros x k Hk Hx.
  apply (abs_round_le_generic radix2 fexp64 ZnearestE); [|exact Hx].
  apply generic_format_bpow. unfold FLT_exp. lia.
Qed.

Lemma lt_emax : forall x (k : Z), (k < 1024)%Z -> Rabs x <= bpow radix2 k -> Rabs x < bpow radix2 1024.
Proof. intros x k Hk Hx. apply Rle_lt_trans with (bpow radix2 k); [exact Hx|]. apply bpow_lt. exact Hk. Qed.

Lemma rnd_mono : forall x y, x <= y -> rndNE x <= rndNE y.
Proof. intros x y H. apply round_le; [apply FLT_exp_valid; exact P53o | apply valid_rnd_N | exact H]. Qed.

Lemma add_R : forall (k : Z) x y, (0 <= k < 1000)%Z -> BF k x -> BF k y ->
  BF (k + 1) (x + y)%float /\ RV (x + y)%float = rndNE (RV x + RV y).
Proof.
  intros k x y Hk [Fx Bx] [Fy By].
  assert (Hs : Rabs (RV x + RV y) <= bpow radix2 (k + 1)).
  { rewrite Z.add_comm, bpow_plus. simpl (bpow radix2 1).
    apply Rle_trans with (Rabs (RV x) + Rabs (RV y)); [apply Rabs_triang|lra]. }
  assert (Hr := rnd_abs_le _ (k + 1) ltac:(lia) Hs).
  unfold BF, fin, RV in *. rewrite add_equiv.
  generalize (Bplus_correct prec emax Hprec Hmax mode_NE (Prim2B x) (Prim2B y) Fx Fy).
  simpl round_mode. rewrite Rlt_bool_true by (apply (lt_emax _ (k + 1)); [lia|exact Hr]).
  intros [H1 [H2 _]]. rewrite H1. split; [split; [exact H2|exact Hr]|reflexivity].
Qed.

Lemma sub_R : forall (k : Z) x y, (0 <= k < 1000)%Z -> BF k x -> BF k y ->
  BF (k + 1) (x - y)%float /\ RV (x - y)%float = rndNE (RV x - RV y).
Proof.
  intros k x y Hk [Fx Bx] [Fy By].
  assert (Hs : Rabs (RV x - RV y) <= bpow radix2 (k + 1)).
  { rewrite Z.add_comm, bpow_plus. simpl (bpow radix2 1).
    apply Rle_trans with (Rabs (RV x) + Rabs (- RV y)); [apply Rabs_triang|rewrite Rabs_Ropp; lra]. }
  assert (Hr := rnd_abs_le _ (k + 1) ltac:(lia) Hs).
  unfold BF, fin, RV in *. rewrite sub_equiv.
  generalize (Bminus_correct prec emax Hprec Hmax mode_NE (Prim2B x) (Prim2B y) Fx Fy).
  simpl round_mode. rewrite Rlt_bool_true by (apply (lt_emax _ (k + 1)); [lia|exact Hr]).
  intros [H1 [H2 _]]. rewrite H1. split; [split; [exact H2|exact Hr]|reflexivity].
Qed.

Lemma mul_R : forall (k j : Z) x y, (0 <= k)%Z -> (0 <= j)%Z -> (k + j < 1000)%Z -> BF k x -> BF j y ->
  BF (k + j) (x * y)%float /\ RV (x * y)%float = rndNE (RV x * RV y).
Proof.
  intros k j x y Hk Hj Hkj [Fx Bx] [Fy By].
  assert (Hs : Rabs (RV x * RV y) <= bpow radix2 (k + j)).
  { rewrite Rabs_mult, bpow_plus. apply Rmult_le_compat; try apply Rabs_pos; assumption. }
  assert (Hr := rnd_abs_le _ (k + j) ltac:(lia) Hs).
  unfold BF, fin, RV in *. rewrite mul_equiv.
  generalize (Bmult_correct prec emax Hprec Hmax mode_NE (Prim2B x) (Prim2B y)).
  simpl round_mode. rewrite Rlt_bool_true by (apply (lt_emax _ (k + j)); [lia|exact Hr]).
  intros [H1 [H2 _]]. rewrite H1, H2, Fx, Fy. split; [split; [reflexivity|exact Hr]|reflexivity].
Qed.

(* division by a divisor of magnitude at least 1 *)
Lemma div_R : forall (k : Z) x y, (0 <= k < 1000)%Z -> BF k x -> fin y -> 1 <= Rabs (RV y) ->
  BF k (x / y)%float /\ RV (x / y)%float = rndNE (RV x / RV y).
Proof.
  intros k x y Hk [Fx Bx] Fy Hy.
  assert (Hnz : RV y <> 0). { intros E. rewrite E, Rabs_R0 in Hy. lra. }
  assert (Hs : Rabs (RV x / RV y) <= bpow radix2 k).
  { unfold Rdiv. rewrite Rabs_mult, Rabs_inv.
    assert (Hi : 0 < / Rabs (RV y) <= 1).
    { split; [apply Rinv_0_lt_compat; lra|]. rewrite <- Rinv_1. apply Rinv_le_contravar; lra. }
    apply Rle_trans with (Rabs (RV x) * 1); [apply Rmult_le_compat_l; [apply Rabs_pos|lra]|lra]. }
  assert (Hr := rnd_abs_le _ k ltac:(lia) Hs).
  unfold BF, fin, RV in *. rewrite div_equiv.
  generalize (Bdiv_correct prec emax Hprec Hmax mode_NE (Prim2B x) (Prim2B y) Hnz).
  simpl round_mode. rewrite Rlt_bool_true by (apply (lt_emax _ k); [lia|exact Hr]).
  intros [H1 [H2 _]]. rewrite H1, H2. split; [split; [exact Fx|exact Hr]|reflexivity].
Qed.

Lemma BF_weaken : forall k k' x, (k <= k')%Z -> BF k x -> BF k' x.
Proof.
  intros k k' x H [F B]. split; [exact F|]. apply Rle_trans with (bpow radix2 k); [exact B|apply bpow_le; exact H].
Qed.

Lemma BF_int : forall z, (Z.abs z <= 2 ^ 40)%Z -> BF 40 (of_Z z) /\ RV (of_Z z) = IZR z.
Proof.
  intros z Hz. change (2 ^ 40)%Z with 1099511627776%Z in Hz.
  destruct (of_Z_int z) as [F R]. { change (2 ^ 53)%Z with 9007199254740992%Z. lia. }
  split; [|exact R]. split; [exact F|]. rewrite R, <- abs_IZR.
  change (bpow radix2 40) with (IZR (2 ^ 40)). apply IZR_le. change (2 ^ 40)%Z with 1099511627776%Z. lia.
Qed.

Lemma ltb_RR : forall x y, fin x -> fin y -> PrimFloat.ltb x y = Rlt_bool (RV x) (RV y).
Proof. intros x y Fx Fy. rewrite ltb_equiv. apply Bltb_correct; assumption. Qed.

(* division by a divisor of magnitude at least 2^-j *)
Lemma div_R2 : forall (k j : Z) x y, (0 <= k)%Z -> (0 <= j)%Z -> (k + j < 1000)%Z -> BF k x -> fin y ->
  bpow radix2 (- j) <= Rabs (RV y) ->
  BF (k + j) (x / y)%float /\ RV (x / y)%float = rndNE (RV x / RV y).
Proof.
  intros k j x y Hk Hj Hkj [Fx Bx] Fy Hy.
  assert (Hp : 0 < bpow radix2 (- j)) by apply bpow_gt_0.
  assert (Hnz : RV y <> 0). { intros E. rewrite E, Rabs_R0 in Hy. lra. }
  assert (Hs : Rabs (RV x / RV y) <= bpow radix2 (k + j)).
  { unfold Rdiv. rewrite Rabs_mult, Rabs_inv, bpow_plus.
    apply Rmult_le_compat; [apply Rabs_pos | apply Rlt_le, Rinv_0_lt_compat; lra | exact Bx |].
    replace (bpow radix2 j) with (/ bpow radix2 (- j)) by (rewrite bpow_opp, Rinv_inv; reflexivity).
    apply Rinv_le_contravar; [exact Hp|exact Hy]. }
  assert (Hr := rnd_abs_le _ (k + j) ltac:(lia) Hs).
  unfold BF, fin, RV in *. rewrite div_equiv.
  generalize (Bdiv_correct prec emax Hprec Hmax mode_NE (Prim2B x) (Prim2B y) Hnz).
  simpl round_mode. rewrite Rlt_bool_true by (apply (lt_emax _ (k + j)); [lia|exact Hr]).
  intros [H1 [H2 _]]. rewrite H1, H2. split; [split; [exact Fx|exact Hr]|reflexivity].
Qed.
