(* Lib/SumZero.v - adding +0.0 never changes a binary64 accumulator except for the sign of a zero: the zero
   entries of a sum can be skipped (Flocq bridge). *)
From Coq Require Import ZArith Reals Floats Lia Lra List Bool.
From Flocq Require Import Core BinarySingleNaN PrimFloat.
From V Require Import FExact FInt FDy.
From V Require Import F64.
Import ListNotations.
Local Existing Instance Hprec.
Local Existing Instance Hmax.

(* a float is a zero (of either sign) *)
Definition Zero (x : PrimFloat.float) : Prop := exists s, Prim2B x = B754_zero s.
(* equal, or both zeros *)
Definition zsim (a b : PrimFloat.float) : Prop := a = b \/ (Zero a /\ Zero b).

Lemma Zero_dec : forall x, {Zero x} + {~ Zero x}.
Proof.
  intros x. unfold Zero. destruct (Prim2B x) as [s|s| |s m e B].
  - left. eexists; reflexivity.
  - right. intros [s' H]. discriminate H.
  - right. intros [s' H]. discriminate H.
  - right. intros [s' H]. discriminate H.
Qed.

Lemma pzero_B : Prim2B 0%float = B754_zero false.
Proof. change 0%float with PrimFloat.zero. rewrite zero_equiv, Prim2B_B2Prim. reflexivity. Qed.

(* x + (+0.0) is x, except that -0.0 becomes +0.0 *)
Lemma add_pzero : forall x, zsim (x + 0)%float x.
Proof.
  intros x. unfold zsim, Zero.
  assert (E : Prim2B (x + 0)%float = Bplus mode_NE (Prim2B x) (B754_zero false)).
  { rewrite add_equiv, pzero_B. reflexivity. }
  destruct (Prim2B x) as [s|s| |s m e B] eqn:Px.
  - right. split; [|eexists; reflexivity]. rewrite E. cbn. destruct s; cbn; eexists; reflexivity.
  - left. apply Prim2B_inj. rewrite E, Px. reflexivity.
  - left. apply Prim2B_inj. rewrite E, Px. reflexivity.
  - left. apply Prim2B_inj. rewrite E, Px. reflexivity.
Qed.

(* a zero plus a non-zero v is v *)
Lemma zero_add : forall a v, Zero a -> ~ Zero v -> (a + v)%float = v.
Proof.
  intros a v [s Ha] Hv. apply Prim2B_inj. rewrite add_equiv, Ha.
  unfold Zero in Hv. destruct (Prim2B v) as [s'|s'| |s' m e B]; try reflexivity.
  exfalso. apply Hv. eexists; reflexivity.
Qed.

Lemma zsim_add : forall a b v, zsim a b -> ~ Zero v -> (a + v)%float = (b + v)%float.
Proof.
  intros a b v [->|[Za Zb]] Hv; [reflexivity|]. rewrite (zero_add a v Za Hv), (zero_add b v Zb Hv). reflexivity.
Qed.

Lemma zsim_trans_l : forall a b c, zsim a b -> zsim b c -> zsim a c.
Proof.
  intros a b c [->|[Za Zb]] [->|[Zb' Zc]].
  - left; reflexivity.
  - right; split; assumption.
  - right; split; assumption.
  - right; split; assumption.
Qed.

(* folding + over a list whose elements are +0.0 or non-zero: the +0.0 elements can be skipped, up
   to the sign of a zero result *)
Definition fadd_all (l : list PrimFloat.float) (acc : PrimFloat.float) : PrimFloat.float :=
  fold_left (fun a x => (a + x)%float) l acc.

Theorem skip_pzeros : forall (l : list PrimFloat.float) (keep : PrimFloat.float -> bool) acc acc',
  (forall x, In x l -> if keep x then ~ Zero x else x = 0%float) ->
  zsim acc acc' -> zsim (fadd_all l acc) (fadd_all (filter keep l) acc').
Proof.
  induction l as [|x l IH]; intros keep acc acc' Hl Hs; cbn [fadd_all fold_left filter]; [exact Hs|].
  assert (Hx := Hl x (or_introl eq_refl)).
  assert (Hl' : forall y, In y l -> if keep y then ~ Zero y else y = 0%float).
  { intros y Hy. apply Hl. right. exact Hy. }
  destruct (keep x).
  - cbn [fold_left]. apply IH; [exact Hl'|]. left. apply zsim_add; assumption.
  - subst x. apply IH; [exact Hl'|]. apply zsim_trans_l with acc; [apply add_pzero|exact Hs].
Qed.

(* ---- words ---- *)
Lemma of_bits_zero : of_bits 0 = 0%float.
Proof. vm_compute. reflexivity. Qed.

Open Scope Z_scope.

Lemma digits_sub : forall p : positive, Zpos p < 4503599627370496 -> Zpos (SpecFloat.digits2_pos p) <= 52.
Proof.
  intros p Hp. rewrite Zpos_digits2_pos. apply Zdigits_le_Zpower.
  change (Zpower radix2 52) with 4503599627370496. lia.
Qed.

Lemma digits_norm : forall p : positive, 4503599627370496 <= Zpos p < 9007199254740992 ->
  Zpos (SpecFloat.digits2_pos p) = 53.
Proof.
  intros p Hp. rewrite Zpos_digits2_pos.
  assert (H1 : Zdigits radix2 (Zpos p) <= 53).
  { apply Zdigits_le_Zpower. change (Zpower radix2 53) with 9007199254740992. lia. }
  assert (H2 : 52 < Zdigits radix2 (Zpos p)).
  { apply Zdigits_gt_Zpower. change (Zpower radix2 52) with 4503599627370496. lia. }
  lia.
Qed.

Lemma valid_sub : forall p : positive, Zpos p < 4503599627370496 ->
  SpecFloat.valid_binary prec emax (S754_finite false p (-1074)) = true.
Proof.
  intros p Hp. unfold SpecFloat.valid_binary, SpecFloat.bounded, SpecFloat.canonical_mantissa, SpecFloat.fexp, SpecFloat.emin.
  generalize (digits_sub p Hp). intros Hd. change prec with 53. change emax with 1024.
  apply andb_true_intro. split; [apply Zeq_bool_true; lia|apply Zle_bool_true; lia].
Qed.

Lemma valid_norm : forall (p : positive) (e : Z), 4503599627370496 <= Zpos p < 9007199254740992 ->
  -1074 <= e <= 971 -> SpecFloat.valid_binary prec emax (S754_finite false p e) = true.
Proof.
  intros p e Hp He. unfold SpecFloat.valid_binary, SpecFloat.bounded, SpecFloat.canonical_mantissa, SpecFloat.fexp, SpecFloat.emin.
  rewrite (digits_norm p Hp). change prec with 53. change emax with 1024.
  apply andb_true_intro. split; [apply Zeq_bool_true; lia|apply Zle_bool_true; lia].
Qed.

Lemma finite_not_zero : forall s p e, SpecFloat.valid_binary prec emax (S754_finite s p e) = true ->
  ~ Zero (SF2Prim (S754_finite s p e)).
Proof.
  intros s p e Hv [s' Hz]. unfold Prim2B in Hz.
  assert (E : Prim2SF (SF2Prim (S754_finite s p e)) = S754_finite s p e) by (apply Prim2SF_SF2Prim; exact Hv).
  assert (H : B2SF (SF2B (Prim2SF (SF2Prim (S754_finite s p e))) (Prim2SF_valid _)) = S754_zero s').
  { rewrite Hz. reflexivity. }
  rewrite B2SF_SF2B, E in H. discriminate H.
Qed.

(* a word in (0, +inf] denotes a float that is not a zero *)
Lemma of_bits_pos_nonzero : forall w, 0 < w <= POS_INF_BITS -> ~ Zero (of_bits w).
Proof.
  intros w Hw. unfold POS_INF_BITS in Hw. unfold of_bits, SIGN, TWO52.
  destruct (Z.leb_spec 9223372036854775808 w) as [Hs|Hs]; [lia|].
  set (e := w / 4503599627370496). set (m := w mod 4503599627370496).
  assert (Hdm : w = 4503599627370496 * e + m) by (unfold e, m; apply Z.div_mod; lia).
  assert (Hm : 0 <= m < 4503599627370496) by (unfold m; apply Z.mod_pos_bound; lia).
  assert (He : 0 <= e <= 2047).
  { unfold e. split; [apply Z.div_pos; lia|]. apply Z.div_le_upper_bound; lia. }
  destruct (Z.eqb_spec e 0) as [E0|E0].
  - destruct (Z.eqb_spec m 0) as [M0|M0]; [lia|].
    apply finite_not_zero. apply valid_sub. rewrite Z2Pos.id by lia. lia.
  - destruct (Z.eqb_spec e 2047) as [E1|E1].
    + assert (Hm0 : m = 0) by lia. rewrite Hm0. cbn [Z.eqb].
      intros [s Hz]. cbn [SF2Prim] in Hz. change infinity with (B2Prim (B754_infinity false)) in Hz.
      rewrite Prim2B_B2Prim in Hz. discriminate Hz.
    + apply finite_not_zero. apply valid_norm; [rewrite Z2Pos.id by lia; lia|lia].
Qed.

(* sum over words: zero words may be skipped up to the sign of a zero result *)
Definition wsum_from (l : list Z) (acc : PrimFloat.float) : PrimFloat.float :=
  fold_left (fun a w => (a + of_bits w)%float) l acc.

Theorem wsum_skip_zeros : forall (l : list Z) (acc : PrimFloat.float),
  (forall w, In w l -> w = 0 \/ 0 < w <= POS_INF_BITS) ->
  zsim (wsum_from l acc) (wsum_from (filter (fun w => negb (w =? 0)) l) acc).
Proof.
  intros l acc Hl.
  assert (E : forall l a, wsum_from l a = fadd_all (map of_bits l) a).
  { induction l0 as [|x l0 IH]; intros a; cbn; [reflexivity|]. apply IH. }
  rewrite !E.
  assert (Hf : map of_bits (filter (fun w => negb (w =? 0)) l)
               = filter (fun x => negb (PrimFloat.eqb x 0 && true) || true) (map of_bits l) -> True) by auto.
  clear Hf.
  (* filter on the word list = filter "not a zero" on the float list *)
  revert acc. induction l as [|w l IH]; intros acc; cbn [map filter fadd_all fold_left]; [left; reflexivity|].
  assert (Hw := Hl w (or_introl eq_refl)).
  assert (Hl' : forall y, In y l -> y = 0 \/ 0 < y <= POS_INF_BITS) by (intros y Hy; apply Hl; right; exact Hy).
  destruct (Z.eqb_spec w 0) as [->|Hne]; cbn [negb].
  - rewrite of_bits_zero.
    (* (acc + 0) then the rest  vs  acc then the filtered rest *)
    specialize (IH Hl').
    assert (Hgen : forall l a a', (forall y, In y l -> y = 0 \/ 0 < y <= POS_INF_BITS) -> zsim a a' ->
              zsim (fadd_all (map of_bits l) a) (fadd_all (map of_bits (filter (fun w => negb (w =? 0)) l)) a')).
    { clear. induction l as [|w l IH]; intros a a' Hl Hs; cbn [map filter fadd_all fold_left]; [exact Hs|].
      assert (Hw := Hl w (or_introl eq_refl)).
      assert (Hl' : forall y, In y l -> y = 0 \/ 0 < y <= POS_INF_BITS) by (intros y Hy; apply Hl; right; exact Hy).
      destruct (Z.eqb_spec w 0) as [->|Hne]; cbn [negb].
      - rewrite of_bits_zero. apply IH; [exact Hl'|]. apply zsim_trans_l with a; [apply add_pzero|exact Hs].
      - cbn [map fold_left]. apply IH; [exact Hl'|]. left. apply zsim_add; [exact Hs|].
        apply of_bits_pos_nonzero. destruct Hw as [?|?]; [lia|assumption]. }
    apply Hgen; [exact Hl'|apply add_pzero].
  - cbn [map fold_left]. apply IH. exact Hl'.
Qed.
