(* Lib/F64.v — IEEE binary64 values as 64-bit words and as Coq primitive floats.

   The Rust code moves between `f64` and `u64` (`to_bits`, unions, transmute), so the
   models keep strain values as words in [0, 2^64) and convert to the kernel's primitive
   floats only for arithmetic.  Rust casts (`as u32`, `as i32`, `floor`, `ceil`, ...) are
   defined here once from `Prim2SF`. *)
From Coq Require Import ZArith Floats List Bool Lia.
Import ListNotations.
Open Scope Z_scope.

Definition SIGN : Z := 9223372036854775808.          (* 2^63 *)
Definition TWO64 : Z := 18446744073709551616.        (* 2^64 *)
Definition TWO52 : Z := 4503599627370496.            (* 2^52 *)
Definition TWO53 : Z := 9007199254740992.            (* 2^53 *)
Definition POS_INF_BITS : Z := 9218868437227405312.  (* 0x7FF0_0000_0000_0000 *)
Definition QNAN_BITS : Z := 9221120237041090560.     (* 0x7FF8_0000_0000_0000 *)

(* f64::from_bits for words in [0, 2^64).  Every NaN payload maps to the one NaN Coq has. *)
Definition of_bits (w : Z) : float :=
  let s := SIGN <=? w in
  let r := if s then w - SIGN else w in
  let e := r / TWO52 in
  let m := r mod TWO52 in
  SF2Prim
    (if e =? 0 then
       (if m =? 0 then S754_zero s else S754_finite s (Z.to_pos m) (-1074))
     else if e =? 2047 then
       (if m =? 0 then S754_infinity s else S754_nan)
     else S754_finite s (Z.to_pos (m + TWO52)) (e - 1075)).

(* f64::to_bits; NaN gives the canonical quiet NaN (sign and payload are not observable
   on primitive floats). *)
Definition to_bits (f : float) : Z :=
  match Prim2SF f with
  | S754_zero s => if s then SIGN else 0
  | S754_infinity s => (if s then SIGN else 0) + POS_INF_BITS
  | S754_nan => QNAN_BITS
  | S754_finite s m e =>
      (if s then SIGN else 0) +
      (if TWO52 <=? Zpos m then (e + 1075) * TWO52 + (Zpos m - TWO52) else Zpos m)
  end.

Definition is_nan_bits (w : Z) : bool :=
  let r := w mod SIGN in (POS_INF_BITS <? r).

(* f64::total_cmp on bit patterns: map the word to a signed key, as std does. *)
Definition total_key (w : Z) : Z :=
  if SIGN <=? w then (SIGN - 1) - (w - SIGN) - SIGN  (* negative: flip magnitude *)
  else w.
Definition total_leb (a b : Z) : bool := total_key a <=? total_key b.

(* ---- integer conversions (Rust `as`) -------------------------------------------- *)

(* truncation toward zero of a spec float to Z; None for NaN/inf *)
Definition sf_trunc (x : spec_float) : option Z :=
  match x with
  | S754_zero _ => Some 0
  | S754_finite s m e =>
      let mag := if 0 <=? e then Zpos m * 2 ^ e else Zpos m / 2 ^ (- e) in
      Some (if s then - mag else mag)
  | _ => None
  end.

Definition sat (lo hi v : Z) : Z := if v <? lo then lo else if hi <? v then hi else v.

(* `x as u32`, `x as i32`, `x as usize`(64 bit): saturating, NaN -> 0 *)
Definition cast_int (lo hi : Z) (f : float) : Z :=
  match Prim2SF f with
  | S754_nan => 0
  | S754_infinity s => if s then lo else hi
  | x => match sf_trunc x with Some v => sat lo hi v | None => 0 end
  end.
Definition to_u32 := cast_int 0 4294967295.
Definition to_i32 := cast_int (-2147483648) 2147483647.
Definition to_usize := cast_int 0 18446744073709551615.

(* exact for |z| < 2^53; beyond that rounds to nearest even like `as f64` on u64 does not
   matter for the models (all integer inputs are < 2^53 and this is stated where used) *)
Definition of_Z (z : Z) : float :=
  match z with
  | Z0 => 0%float
  | Zpos p => SF2Prim (S754_finite false p 0)
  | Zneg p => SF2Prim (S754_finite true p 0)
  end.

Definition ffloor (f : float) : float :=
  match Prim2SF f with
  | S754_finite s m e =>
      if 0 <=? e then f else
        let q := Zpos m / 2 ^ (- e) in
        let exact := (q * 2 ^ (- e) =? Zpos m) in
        if s then (if exact then of_Z (- q) else of_Z (- q - 1))
        else (if (q =? 0) then 0%float else of_Z q)
  | _ => f
  end.

Definition fceil (f : float) : float :=
  match Prim2SF f with
  | S754_finite s m e =>
      if 0 <=? e then f else
        let q := Zpos m / 2 ^ (- e) in
        let exact := (q * 2 ^ (- e) =? Zpos m) in
        if s then (if q =? 0 then (-0)%float else of_Z (- q))
        else (if exact then of_Z q else of_Z (q + 1))
  | _ => f
  end.

Definition fmax (a b : float) : float :=      (* f64::max: NaN is ignored *)
  if PrimFloat.is_nan a then b else if PrimFloat.is_nan b then a
  else if PrimFloat.ltb a b then b else a.
Definition fmin (a b : float) : float :=
  if PrimFloat.is_nan a then b else if PrimFloat.is_nan b then a
  else if PrimFloat.ltb b a then b else a.
(* f64::clamp (lo <= hi assumed, NaN stays NaN) *)
Definition fclamp (x lo hi : float) : float :=
  if PrimFloat.ltb x lo then lo else if PrimFloat.ltb hi x then hi else x.

Definition NEG_ZERO : float := (-0)%float.
