(* Lib/FExact.v - exactness of binary64 operations on representable results (Flocq bridge). *)
From Coq Require Import ZArith Reals Floats Lia Lra.
From Flocq Require Import Core BinarySingleNaN PrimFloat.
Open Scope R_scope.

Definition fin (x : PrimFloat.float) : Prop := is_finite (Prim2B x) = true.
Definition RV (x : PrimFloat.float) : R := B2R (Prim2B x).

Lemma int_format : forall z : Z, (Z.abs z <= 2 ^ 53)%Z ->
  generic_format radix2 (FLT_exp (3 - 1024 - 53) 53) (IZR z).
Proof.
  intros z Hz. change (2 ^ 53)%Z with 9007199254740992%Z in Hz.
  destruct (Z.eq_dec (Z.abs z) 9007199254740992%Z) as [He|Hne].
  - assert (Hz2 : (z = 9007199254740992 \/ z = -9007199254740992)%Z) by lia.
    apply generic_format_FLT.
    destruct Hz2 as [-> | ->].
    + exists (Float radix2 4503599627370496 1); [unfold F2R; simpl; lra | simpl; lia | simpl; lia].
    + exists (Float radix2 (-4503599627370496) 1); [unfold F2R; simpl; lra | simpl; lia | simpl; lia].
  - apply generic_format_FLT.
    exists (Float radix2 z 0).
    + unfold F2R; simpl. lra.
    + simpl. lia.
    + simpl. lia.
Qed.

Lemma add_exact : forall x y : PrimFloat.float, fin x -> fin y ->
  generic_format radix2 (FLT_exp (3 - 1024 - 53) 53) (RV x + RV y) ->
  Rabs (RV x + RV y) < bpow radix2 1024 ->
  fin (x + y)%float /\ RV (x + y)%float = RV x + RV y.
Proof.
  intros x y Fx Fy G B. unfold fin, RV in *.
  rewrite add_equiv.
  generalize (Bplus_correct prec emax eq_refl eq_refl mode_NE (Prim2B x) (Prim2B y) Fx Fy).
  rewrite round_generic; [| apply valid_rnd_N | exact G].
  rewrite Rlt_bool_true by exact B.
  intros [H1 [H2 _]]. split; assumption.
Qed.
