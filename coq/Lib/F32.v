(* Lib/F32.v — binary32 arithmetic on top of the kernel's binary64 floats.
   Every binary32 value is a binary64 value; for + - * / of two binary32 values, rounding the
   binary64 result to binary32 (round to nearest even) equals the directly rounded binary32
   result because 53 >= 2*24+2 (the classical double-rounding innocuousness; relied upon, and
   exercised bit-for-bit by the correspondence run against the real builder). *)
From Coq Require Import ZArith Floats SpecFloat.
From V Require Import F64.
Open Scope Z_scope.

(* `x as f32` (round to nearest even; overflow to infinity), result embedded in binary64 *)
Definition to_f32 (x : float) : float :=
  match Prim2SF x with
  | S754_finite s m e => SF2Prim (binary_round 24 128 s m e)
  | _ => x
  end.

Definition f32_add (a b : float) : float := to_f32 (a + b)%float.
Definition f32_sub (a b : float) : float := to_f32 (a - b)%float.
Definition f32_mul (a b : float) : float := to_f32 (a * b)%float.
Definition f32_div (a b : float) : float := to_f32 (a / b)%float.

(* f32 constants as written in the source *)
Definition F32_1_4 : float := to_f32 1.4%float.
Definition F32_1_3 : float := to_f32 1.3%float.

(* round half to even to an integer (f32/f64::round_ties_even) *)
Definition fround_even (f : float) : float :=
  match Prim2SF f with
  | S754_finite s m e =>
      if 0 <=? e then f else
        let d := 2 ^ (- e) in
        let q := Zpos m / d in
        let r := Zpos m mod d in
        let q' := if 2 * r <? d then q else if d <? 2 * r then q + 1
                  else (if Z.even q then q else q + 1) in
        if s then (if q' =? 0 then (-0)%float else of_Z (- q')) else of_Z q'
  | _ => f
  end.

(* bit pattern of a binary32 value held in a float: sign, 8 exponent bits, 23 mantissa bits *)
Definition f32_to_bits (f : float) : Z :=
  match Prim2SF f with
  | S754_zero s => if s then 2147483648 else 0
  | S754_infinity s => (if s then 2147483648 else 0) + 2139095040
  | S754_nan => 2143289344
  | S754_finite s m e =>
      (* normalise to a 24-bit mantissa where possible *)
      let dg := Z.log2 (Zpos m) + 1 in
      let e24 := e + dg - 24 in                    (* exponent if the mantissa had 24 digits *)
      let sgn := if s then 2147483648 else 0 in
      if -149 <=? e24 then
        let m24 := if 24 <=? dg then Zpos m / 2 ^ (dg - 24) else Zpos m * 2 ^ (24 - dg) in
        sgn + (e24 + 150) * 8388608 + (m24 - 8388608)
      else (* subnormal: exponent -149 *)
        sgn + Zpos m / 2 ^ (-149 - e)
  end.
Definition f32_of_bits (w : Z) : float :=
  let s := 2147483648 <=? w in
  let r := if s then w - 2147483648 else w in
  let e := r / 8388608 in
  let m := r mod 8388608 in
  SF2Prim
    (if e =? 0 then (if m =? 0 then S754_zero s else S754_finite s (Z.to_pos m) (-149))
     else if e =? 255 then (if m =? 0 then S754_infinity s else S754_nan)
     else S754_finite s (Z.to_pos (m + 8388608)) (e - 150)).
