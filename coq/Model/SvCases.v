(* Model/SvCases.v — evaluation of recorded StrainsVec traces against the model. *)
From Coq Require Import ZArith NArith List Bool Floats.
From V Require Import F64 StrainsVec Aggregate.
Import ListNotations.
Open Scope Z_scope.

Fixpoint list_eqb (a b : list Z) : bool :=
  match a, b with
  | [], [] => true
  | x :: a', y :: b' => (x =? y) && list_eqb a' b'
  | _, _ => false
  end.
Definition olist_eqb (a : option (list Z)) (b : list Z) : bool :=
  match a with Some l => list_eqb l b | None => false end.

Record sv_expect := mk_sv_expect {
  e_len : Z; e_iter : list Z; e_into_vec : list Z; e_sum : Z; e_sorted : list Z;
  e_iter_mut : list Z; e_dv : Z }.

(* which observation of case [ops] disagrees (0 = none) *)
Definition sv_check (ops : list op) (e : sv_expect) : N :=
  let '(s, ok) := run sv_empty ops in
  if negb ok then 1%N
  else if negb (len s =? e_len e) then 2%N
  else if negb (list_eqb (iter_all s) (e_iter e)) then 3%N
  else if negb (olist_eqb (into_vec s) (e_into_vec e)) then 4%N
  else if negb (to_bits (sum s) =? e_sum e) then 5%N
  else if negb (olist_eqb (transmute_into_vec (retain_non_zero_and_sort s)) (e_sorted e))
       then 6%N
  else if negb (olist_eqb (transmute_into_vec (retain_non_zero_and_sort s)) (e_iter_mut e))
       then 7%N
  else match difficulty_value DECAY_DEFAULT s with
       | Some d => if to_bits d =? e_dv e then 0%N else 8%N
       | None => 9%N
       end.

Definition sv_bad (cases : list (N * list op * sv_expect)) : list (N * N) :=
  flat_map (fun c => let '(id, ops, e) := c in
                     match sv_check ops e with 0%N => [] | k => [(id, k)] end) cases.
