(* Model/Interleave.v — concurrent use of the library (C20) as far as it is logic:
   * calculations are deterministic steppers over PRIVATE state that read a shared, read-only
     environment (the maps, the settings); the effect inventory (Proofs/EffectsProofs.v,
     regenerated from the source) is what justifies "no shared mutable state";
   * a schedule is the order in which the OS runs the steps of the workers;
   * the `sync` cells (src/util/sync.rs): Rc<RefCell<T>> and Arc<RwLock<T>> as borrow-state
     machines that differ only in what happens on a conflicting access (panic vs blocking).
   Definitions only. *)
From Coq Require Import List Bool Arith.
Import ListNotations.

Section Workers.
Variable Env S : Type.
Variable step : Env -> nat -> S -> S.     (* one step of worker i on its own state *)

Definition upd (st : nat -> S) (i : nat) (v : S) : nat -> S :=
  fun j => if Nat.eqb i j then v else st j.
Definition exec (env : Env) (st : nat -> S) (i : nat) : nat -> S := upd st i (step env i (st i)).
Definition run (env : Env) (sched : list nat) (st : nat -> S) : nat -> S := fold_left (exec env) sched st.

(* running the workers one after another: worker i does all of its n i steps, then the next *)
Definition sequential (workers : list nat) (n : nat -> nat) : list nat :=
  flat_map (fun i => repeat i (n i)) workers.

(* a stepper whose state is handed from thread to thread: the state carries the id of the
   thread that currently owns it; a step never looks at it *)
Definition owned := (nat * S)%type.
Definition step_on (env : Env) (i : nat) (thread : nat) (o : owned) : owned := (thread, step env i (snd o)).
End Workers.

(* ---- the two cell implementations ------------------------------------------------------ *)
Inductive cell_op := CBorrow | CBorrowMut | CReleaseShared | CReleaseMut.
Inductive cell_res := COk | CConflict.
Record cell := mk_cell { readers : nat; writer : bool }.
Definition cell_new := mk_cell 0 false.

(* Rc<RefCell>: a conflicting borrow panics.  Arc<RwLock>: it blocks (on one thread: deadlock).
   Either way the access does not complete; both are the same state machine otherwise. *)
Definition cell_step (c : cell) (o : cell_op) : cell * cell_res :=
  match o with
  | CBorrow => if writer c then (c, CConflict) else (mk_cell (S (readers c)) false, COk)
  | CBorrowMut => if writer c || negb (Nat.eqb (readers c) 0) then (c, CConflict)
                  else (mk_cell 0 true, COk)
  | CReleaseShared => (mk_cell (pred (readers c)) (writer c), COk)
  | CReleaseMut => (mk_cell (readers c) false, COk)
  end.
Inductive flavour := RefCellFlavour | RwLockFlavour.
Inductive outcome := Done (c : cell) | Panicked | Blocked.
Fixpoint cell_run (f : flavour) (c : cell) (ops : list cell_op) : outcome :=
  match ops with
  | [] => Done c
  | o :: tl => match cell_step c o with
               | (c', COk) => cell_run f c' tl
               | (_, CConflict) => match f with RefCellFlavour => Panicked | RwLockFlavour => Blocked end
               end
  end.
(* the access pattern of the taiko object graph: `get()` guards are temporaries (borrowed and
   released within one expression, possibly nested reads), `get_mut()` only during construction
   with no other guard alive *)
Fixpoint well_nested (depth : nat) (mut_held : bool) (ops : list cell_op) : bool :=
  match ops with
  | [] => true
  | CBorrow :: tl => negb mut_held && well_nested (S depth) mut_held tl
  | CReleaseShared :: tl => match depth with 0 => false | S d => well_nested d mut_held tl end
  | CBorrowMut :: tl => negb mut_held && Nat.eqb depth 0 && well_nested depth true tl
  | CReleaseMut :: tl => mut_held && well_nested depth false tl
  end.
