(* Model/Gradual.v — bookkeeping of the four gradual difficulty calculators and of the
   one-shot calculations they must agree with (M3).  Written after
   src/{osu,taiko,catch,mania}/difficulty/{mod,gradual}.rs.  Skill evaluation is an oracle:
   a state type S, an initial state and `process : S -> Z -> S` (the index of the
   difficulty object processed).  Definitions only. *)
From Coq Require Import ZArith List Bool Floats.
From V Require Import F64.
Import ListNotations.
Open Scope Z_scope.

Definition USIZE_MAX : Z := 18446744073709551615.
Definition U32_MAX : Z := 4294967295.
Definition wrap64 (z : Z) : Z := z mod 18446744073709551616.
Definition sat_sub (a b : Z) : Z := if a <? b then 0 else a - b.

Fixpoint zrange (start : Z) (n : nat) : list Z :=
  match n with O => [] | S k => start :: zrange (start + 1) k end.
Definition zlen {A} (l : list A) : Z := Z.of_nat (length l).
Definition znth {A} (l : list A) (i : Z) : option A :=
  if i <? 0 then None else nth_error l (Z.to_nat i).
Definition ztake {A} (n : Z) (l : list A) : list A := firstn (Z.to_nat n) l.
Definition zskip {A} (n : Z) (l : list A) : list A := skipn (Z.to_nat n) l.

(* outputs of one gradual call *)
Inductive gout {V : Type} :=
| GSome (v : V)
| GNone
| GLen (n : Z).
Arguments gout : clear implicits.

Inductive gop := GNext | GNth (n : Z) | GLenOp.

Section Skill.
Variable S : Type.
Variable process : S -> Z -> S.
Variable s0 : S.

Definition process_range (s : S) (from : Z) (count : Z) : S :=
  fold_left process (zrange from (Z.to_nat count)) s.

(* ====================== the osu! / catch / mania gradual machine ====================== *)
(* OsuGradualDifficulty, CatchGradualDifficulty and ManiaGradualDifficulty share one
   shape: an index, running counts, the skills, one difficulty object per object after the
   first.  They differ in the object/count types, in the number [d] of difficulty objects
   the constructor creates, and in whether the first object is counted by the constructor
   ([precount], osu! and mania) or by the first `next` (catch). *)
Section Machine.
Context {Obj Cnt : Type}.
Variable inc : Cnt -> Obj -> Cnt.
Variable c0 : Cnt.
Variable precount : bool.
Variable objs : list Obj.
Variable d : Z.                       (* diff_objects.len() *)

Record gstate := mk_g { g_idx : Z; g_counts : Cnt; g_skill : S }.

Definition g_new : gstate :=
  mk_g 0 (match objs with
          | h :: _ => if precount then inc c0 h else c0
          | [] => c0 end) s0.

(* ExactSizeIterator::len (after the fix: 0 without a first object) *)
Definition g_len (g : gstate) : Z :=
  match objs with [] => 0 | _ => d + 1 - g_idx g end.

Definition g_first (g : gstate) : gstate :=          (* the step from idx 0 to idx 1 *)
  mk_g 1 (match objs with
          | h :: _ => if precount then g_counts g else inc (g_counts g) h
          | [] => g_counts g end) (g_skill g).

Definition g_next (g : gstate) : option (Cnt * S) * gstate :=
  if 0 <? g_idx g then
    if g_idx g - 1 <? d then                          (* diff_objects.get(idx - 1)? *)
      match znth objs (g_idx g) with                  (* curr.base / count[idx] *)
      | Some h =>
          let g' := mk_g (g_idx g + 1) (inc (g_counts g) h)
                         (process (g_skill g) (g_idx g - 1)) in
          (Some (g_counts g', g_skill g'), g')
      | None => (None, g)                             (* index panic; unreachable *)
      end
    else (None, g)
  else match objs with
       | [] => (None, g)
       | _ => let g' := g_first g in (Some (g_counts g', g_skill g'), g')
       end.

(* `for curr in skip_iter.take(take)`: processes difficulty objects from, from+1, ... *)
Fixpoint g_loop (k : nat) (from : Z) (g : gstate) : gstate :=
  match k with
  | O => g
  | Datatypes.S k' =>
      match znth objs (from + 1) with
      | Some h => g_loop k' (from + 1)
                    (mk_g (g_idx g + 1) (inc (g_counts g) h) (process (g_skill g) from))
      | None => g
      end
  end.

Definition g_nth (n : Z) (g : gstate) : option (Cnt * S) * gstate :=
  let skip := sat_sub (g_idx g) 1 in
  let tk := Z.min n (g_len g) in                      (* after the fix: min(n, len) *)
  let '(tk, g) := if (g_idx g =? 0) && (0 <? tk) then (tk - 1, g_first g) else (tk, g) in
  let k := Z.min tk (sat_sub d skip) in               (* skip_iter has d - skip elements *)
  g_next (g_loop (Z.to_nat k) skip g).
End Machine.

(* ================================ osu! ================================ *)
Inductive okind := OCircle | OSlider (nested large : Z) | OSpinner.

(* counts = [n_circles; n_sliders; n_large_ticks; n_spinners; max_combo] *)
Record ocounts := mk_oc { oc_c : Z; oc_s : Z; oc_l : Z; oc_sp : Z; oc_combo : Z }.
Definition oc0 := mk_oc 0 0 0 0 0.
Definition oc_list (c : ocounts) := [oc_c c; oc_s c; oc_l c; oc_sp c; oc_combo c].
Definition o_inc (c : ocounts) (k : okind) : ocounts :=
  match k with
  | OCircle => mk_oc (oc_c c + 1) (oc_s c) (oc_l c) (oc_sp c) (oc_combo c + 1)
  | OSlider nested large =>
      mk_oc (oc_c c) (oc_s c + 1) (oc_l c + large) (oc_sp c) (oc_combo c + 1 + nested)
  | OSpinner => mk_oc (oc_c c) (oc_s c) (oc_l c) (oc_sp c + 1) (oc_combo c + 1)
  end.

(* create_difficulty_objects: one per object after the first, none when take = 0 *)
Definition osu_n_diff (objs : list okind) (take : Z) : Z :=
  if (0 <? take) && (0 <? zlen objs) then zlen objs - 1 else 0.
(* DifficultyValues::calculate with passed_objects = take *)
Definition osu_oneshot (objs : list okind) (take : Z) : ocounts * S :=
  let n := Z.min take (zlen objs) in
  let counts := fold_left o_inc (ztake n objs) oc0 in
  let processed := Z.min (sat_sub n 1) (osu_n_diff objs take) in
  (counts, process_range s0 0 processed).

(* [take] is the passed_objects setting of the Difficulty handed to the constructor *)
Definition osu_new (objs : list okind) := g_new o_inc oc0 true objs.
Definition osu_len (objs : list okind) (take : Z) := g_len (Cnt:=ocounts) objs (osu_n_diff objs take).
Definition osu_next (objs : list okind) (take : Z) := g_next o_inc true objs (osu_n_diff objs take).
Definition osu_nth (objs : list okind) (take : Z) := g_nth o_inc true objs (osu_n_diff objs take).

(* ================================ catch ================================ *)
(* record events in record order: (is_fruit, tiny droplets since the previous record) *)
Definition cevent := (bool * Z)%type.
Record ccounts := mk_cc { cc_f : Z; cc_d : Z; cc_t : Z }.
Definition cc0 := mk_cc 0 0 0.
Definition cc_list (c : ccounts) := [cc_f c; cc_d c; cc_t c].
Definition c_add (c : ccounts) (e : cevent) : ccounts :=
  let '(fruit, tiny) := e in
  if fruit then mk_cc (cc_f c + 1) (cc_d c) (cc_t c + tiny)
  else mk_cc (cc_f c) (cc_d c + 1) (cc_t c + tiny).

(* ObjectCountBuilder::Regular with `take`: tiny droplets are recorded while take > 0,
   i.e. together with the record that follows them *)
Definition catch_oneshot (evs : list cevent) (take : Z) : ccounts * S :=
  let n := Z.min take (zlen evs) in
  (fold_left c_add (ztake n evs) cc0, process_range s0 0 (sat_sub n 1)).

Definition catch_n_diff (evs : list cevent) : Z := sat_sub (zlen evs) 1.
Definition catch_new (evs : list cevent) := g_new c_add cc0 false evs.
Definition catch_len (evs : list cevent) := g_len (Cnt:=ccounts) evs (catch_n_diff evs).
Definition catch_next (evs : list cevent) := g_next c_add false evs (catch_n_diff evs).
Definition catch_nth (evs : list cevent) := g_nth c_add false evs (catch_n_diff evs).

(* ================================ mania ================================ *)
(* per object: is_circle and the combo it adds (1 + (duration / 100) as u32 for long
   objects), as computed by ManiaObject::new in both paths (after the fix) *)
Record mobj := mk_mobj { m_circle : bool; m_combo : Z }.
(* counts = [n_objects; n_hold_notes; max_combo] *)
Record mcounts := mk_mc { mc_n : Z; mc_hold : Z; mc_combo : Z }.
Definition mc0 := mk_mc 0 0 0.
Definition mc_list (c : mcounts) := [mc_n c; mc_hold c; mc_combo c].
Definition m_inc (c : mcounts) (o : mobj) : mcounts :=
  mk_mc (mc_n c + 1) (if m_circle o then mc_hold c else mc_hold c + 1) (mc_combo c + m_combo o).

Definition mania_oneshot (objs : list mobj) (take : Z) : mcounts * S :=
  let n := Z.min take (zlen objs) in
  (fold_left m_inc (ztake n objs) mc0, process_range s0 0 (sat_sub n 1)).

(* [take]: passed_objects of the Difficulty handed to the constructor *)
Definition mania_n_diff (objs : list mobj) (take : Z) : Z :=
  sat_sub (Z.min take (zlen objs)) 1.
Definition mania_new (objs : list mobj) := g_new m_inc mc0 true objs.
Definition mania_len (objs : list mobj) (take : Z) := g_len (Cnt:=mcounts) objs (mania_n_diff objs take).
Definition mania_next (objs : list mobj) (take : Z) := g_next m_inc true objs (mania_n_diff objs take).
Definition mania_nth (objs : list mobj) (take : Z) := g_nth m_inc true objs (mania_n_diff objs take).

(* ================================ taiko ================================ *)
(* objects as hit flags.  passed_objects counts hits. *)
Fixpoint taiko_inspect (flags : list bool) (take combo n : Z) : Z * Z :=
  match flags with
  | [] => (combo, n)
  | h :: tl => if combo <? take then taiko_inspect tl take (combo + (if h then 1 else 0)) (n + 1)
               else taiko_inspect tl take combo n
  end.

Definition taiko_n_diff_objects (flags : list bool) : Z := sat_sub (zlen flags) 2.
Definition taiko_total_hits (flags : list bool) : Z := zlen (filter (fun b => b) flags).

(* since the fix for F6c: "passing the last hit means passing the whole map, including trailing
   drum rolls and swells" — `take` becomes u32::MAX once it reaches the number of hits *)
Definition taiko_take (flags : list bool) (take : Z) : Z :=
  if (0 <? taiko_total_hits flags) && (taiko_total_hits flags <=? take) then U32_MAX else take.

(* create_difficulty_objects: (max_combo, n_diff_objects as left in the out-parameter) *)
Definition taiko_create (flags : list bool) (take : Z) : Z * Z :=
  let take := taiko_take flags take in
  let '(combo, n) := taiko_inspect flags take 0 0 in
  if zlen flags <? 2 then (combo, n)             (* early return: no adjustment *)
  else (combo, if (0 <? take) && (0 <? n) then n - 1 else n).

Definition taiko_oneshot (flags : list bool) (take : Z) : Z * S :=
  let '(combo, n) := taiko_create flags take in
  let processed := Z.min (sat_sub n 1) (taiko_n_diff_objects flags) in
  (combo, process_range s0 0 processed).

(* TaikoGradualDifficulty: objects are passed one by one up to the next hit; every object after
   the second one has a difficulty object (index pos - 2); the last hit also passes everything
   that comes after it. *)
Record tgstate := mk_tg { tg_idx : Z; tg_combo : Z; tg_pos : Z; tg_skill : S }.
Definition taiko_new : tgstate := mk_tg 0 0 0 s0.
(* usize subtraction *)
Definition taiko_len (flags : list bool) (g : tgstate) : Z :=
  wrap64 (taiko_total_hits flags - tg_idx g).

(* the `while let Some(&is_hit) = self.is_hit.get(self.pos)` loop of pass_next_hit on the
   remaining objects (flags from position pos on): stops after a hit that is not the last *)
Fixpoint taiko_pass_loop (total : Z) (rest : list bool) (g : tgstate) : tgstate :=
  match rest with
  | [] => g
  | h :: tl =>
      let s' := if 2 <=? tg_pos g then process (tg_skill g) (tg_pos g - 2) else tg_skill g in
      if h then
        let g' := mk_tg (tg_idx g + 1) (tg_combo g + 1) (tg_pos g + 1) s' in
        if tg_idx g' <? total then g' else taiko_pass_loop total tl g'
      else taiko_pass_loop total tl (mk_tg (tg_idx g) (tg_combo g) (tg_pos g + 1) s')
  end.

(* pass_next_hit: None (state untouched) when every hit has been passed already *)
Definition taiko_pass (flags : list bool) (g : tgstate) : option tgstate * tgstate :=
  if tg_idx g =? taiko_total_hits flags then (None, g)
  else let g' := taiko_pass_loop (taiko_total_hits flags) (zskip (tg_pos g) flags) g in (Some g', g').

Definition taiko_next (flags : list bool) (g : tgstate) : option (Z * S) * tgstate :=
  match taiko_pass flags g with
  | (Some g', _) => (Some (tg_combo g', tg_skill g'), g')
  | (None, g') => (None, g')
  end.

(* `for _ in 0..min(n, len) { pass_next_hit()? }` *)
Fixpoint taiko_nth_loop (flags : list bool) (k : nat) (g : tgstate) : option tgstate * tgstate :=
  match k with
  | O => (Some g, g)
  | Datatypes.S k' =>
      match taiko_pass flags g with
      | (Some g', _) => taiko_nth_loop flags k' g'
      | (None, g') => (None, g')
      end
  end.

Definition taiko_nth (flags : list bool) (n : Z) (g : tgstate) : option (Z * S) * tgstate :=
  match taiko_nth_loop flags (Z.to_nat (Z.min n (taiko_len flags g))) g with
  | (Some g', _) => taiko_next flags g'
  | (None, g') => (None, g')
  end.

End Skill.

Arguments g_idx {S Cnt} g.
Arguments g_counts {S Cnt} g.
Arguments g_skill {S Cnt} g.
Arguments mk_g {S Cnt} g_idx g_counts g_skill.
Arguments tg_idx {S} t.
Arguments tg_combo {S} t.
Arguments tg_pos {S} t.
Arguments tg_skill {S} t.
Arguments mk_tg {S} tg_idx tg_combo tg_pos tg_skill.

(* ---- running op sequences, skill state = list of processed difficulty-object indices
   (most recent first) ------------------------------------------------------------- *)
Definition trace_process (s : list Z) (i : Z) : list Z := i :: s.

Section Run.
Context {G C V : Type}.
Variable next : G -> option C * G.
Variable nth : Z -> G -> option C * G.
Variable len : G -> Z.
Variable view : C -> V.

Fixpoint run_gops (ops : list gop) (g : G) : list (gout V) :=
  match ops with
  | [] => []
  | GNext :: tl => let '(o, g') := next g in
                   (match o with Some c => GSome (view c) | None => GNone end) :: run_gops tl g'
  | GNth n :: tl => let '(o, g') := nth n g in
                    (match o with Some c => GSome (view c) | None => GNone end) :: run_gops tl g'
  | GLenOp :: tl => GLen (len g) :: run_gops tl g
  end.
End Run.

(* the specification: a plain iterator over a list of values (slice::Iter semantics) *)
Fixpoint spec_gops {V} (rem : list V) (ops : list gop) : list (gout V) :=
  match ops with
  | [] => []
  | GNext :: tl => match rem with
                   | v :: r => GSome v :: spec_gops r tl
                   | [] => GNone :: spec_gops [] tl
                   end
  | GNth n :: tl => match skipn (Z.to_nat n) rem with
                    | v :: r => GSome v :: spec_gops r tl
                    | [] => GNone :: spec_gops [] tl
                    end
  | GLenOp :: tl => GLen (Z.of_nat (length rem)) :: spec_gops rem tl
  end.
