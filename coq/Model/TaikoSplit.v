(* Model/TaikoSplit.v - the slider splitting of the osu! -> taiko conversion (src/taiko/convert.rs:
   convert, should_convert_slider_to_taiko_hits) and get_precision_adjusted_beat_len (src/util/mod.rs),
   bit-exact on the kernel's binary64 floats.  Effect points and hit sounds are not part of this
   model (see Model/ManiaCols.v splice_lockstep for the sounds).  Definitions only. *)
From Coq Require Import ZArith List Bool Floats.
From V Require Import F64 F32.
Import ListNotations.
Open Scope Z_scope.

Definition VEL_MULT : float := F32_1_4.          (* f64::from(1.4_f32) *)
Definition F64_EPSILON : float := of_bits 4372995238176751616.   (* 2^-52 *)

(* ((-x) as f32).clamp(10.0, 10_000.0) widened to f64 *)
Definition prec_adjusted_beat_len (sv beat_len : float) : float :=
  let as_bl := (-100 / sv)%float in
  let mult := if PrimFloat.ltb as_bl 0%float
              then (fclamp (to_f32 (- as_bl)%float) 10%float 10000%float / 100)%float
              else 1%float in
  (beat_len * mult)%float.

Record split_params := mk_sp { sp_convert : bool; sp_duration : Z; sp_tick : float }.

Definition should_convert (version : Z) (sm tr : float) (dist0 : option float) (spans_n : Z)
    (sv timing_bl : float) : split_params :=
  let spans := of_Z spans_n in
  let dist := match dist0 with Some d => d | None => 0%float end in
  let dist := (dist * VEL_MULT)%float in
  let dist := (dist * spans)%float in
  let beat_len := prec_adjusted_beat_len sv timing_bl in
  let sspd := (100 * (sm * VEL_MULT) / tr)%float in
  let taiko_vel := (sspd * tr)%float in
  let duration := to_u32 (dist / taiko_vel * beat_len)%float in
  let osu_vel := (taiko_vel * (1000 / beat_len))%float in
  let beat_len2 := if 8 <=? version then timing_bl else beat_len in
  let tick := fmin (beat_len2 / tr)%float (of_Z duration / spans)%float in
  mk_sp (PrimFloat.ltb 0%float tick && PrimFloat.ltb (dist / osu_vel * 1000)%float (2 * beat_len2)%float)
        duration tick.

(* `x.eq(0.0)` of FloatExt: |x - 0| <= f64::EPSILON *)
Definition almost_zero (x : float) : bool := PrimFloat.leb (PrimFloat.abs (x - 0)%float) F64_EPSILON.

(* the tick loop: `while j <= limit { push j; if tick ~ 0 { break }; j += tick }`; None = out of fuel *)
Fixpoint ticks (fuel : nat) (j limit tick : float) : option (list float) :=
  match fuel with
  | O => None
  | S f =>
      if PrimFloat.leb j limit then
        if almost_zero tick then Some [j]
        else match ticks f (j + tick)%float limit tick with
             | Some r => Some (j :: r)
             | None => None
             end
      else Some []
  end.

Definition tick_limit (start : float) (p : split_params) : float :=
  (start + of_Z (sp_duration p) + sp_tick p / 8)%float.
Definition tick_fuel (p : split_params) : nat :=
  Z.to_nat (to_u32 (fceil ((of_Z (sp_duration p) + sp_tick p / 8) / sp_tick p)%float) + 4).

Inductive tobj :=
| TCircle (t : float) | TSpinner (t : float) | THold (t : float)
| TSlider (t : float) (dist : option float) (spans : Z) (sv bl : float).

(* kinds of the converted map: 0 circle, 1 slider (kept as drum roll), 2 spinner *)
Definition convert_obj (version : Z) (sm tr : float) (o : tobj) : option (list (Z * float)) :=
  match o with
  | TCircle t => Some [(0, t)]
  | TSpinner t => Some [(2, t)]
  | THold t => Some [(2, t)]
  | TSlider t dist spans sv bl =>
      let p := should_convert version sm tr dist spans sv bl in
      if sp_convert p then
        match ticks (tick_fuel p) t (tick_limit t p) (sp_tick p) with
        | Some ts => Some (map (fun x => (0, x)) ts)
        | None => None
        end
      else Some [(1, t)]
  end.

Fixpoint convert_objs (version : Z) (sm tr : float) (os : list tobj) : option (list (Z * float)) :=
  match os with
  | [] => Some []
  | o :: r => match convert_obj version sm tr o, convert_objs version sm tr r with
              | Some a, Some b => Some (a ++ b)
              | _, _ => None
              end
  end.

(* stable sort by f64::total_cmp of the start time (TandemSorter::new_stable) *)
Fixpoint insert_stable (x : Z * float) (l : list (Z * float)) : list (Z * float) :=
  match l with
  | [] => [x]
  | y :: r => if total_leb (to_bits (snd y)) (to_bits (snd x)) then y :: insert_stable x r else x :: l
  end.
Definition sort_stable (l : list (Z * float)) : list (Z * float) :=
  fold_left (fun acc x => insert_stable x acc) l [].

Definition taiko_convert (version : Z) (sm tr : float) (os : list tobj) : option (list (Z * Z)) :=
  match convert_objs version sm tr os with
  | Some l => Some (map (fun p => (fst p, to_bits (snd p))) (sort_stable l))
  | None => None
  end.

(* correspondence cases *)
Definition tcase := (N * Z * Z * Z * list tobj * list (Z * Z))%type.
Definition pair_eqb (a b : Z * Z) : bool := (fst a =? fst b) && (snd a =? snd b).
Fixpoint list_eqb (a b : list (Z * Z)) : bool :=
  match a, b with
  | [], [] => true
  | x :: r, y :: s => pair_eqb x y && list_eqb r s
  | _, _ => false
  end.
(* 1 = different objects, 2 = model out of fuel *)
Definition tsplit_bad (cases : list tcase) : list (N * Z) :=
  flat_map (fun c => let '(id, version, sm, tr, os, want) := c in
     match taiko_convert version (of_bits sm) (of_bits tr) os with
     | Some got => if list_eqb got want then [] else [(id, 1)]
     | None => [(id, 2)]
     end) cases.
