(* Model/ManiaCols.v — the pieces of the conversions that decide where notes land and how many
   keys a mania convert has (C19): ManiaObject::column (src/mania/object.rs), column_to_pos
   (src/mania/convert/pattern.rs), target_columns (src/mania/convert/mod.rs),
   Random::next_int_range (src/util/random/osu.rs), and the lock-step splice of the taiko
   conversion (src/taiko/convert.rs).  Which pattern a generator chooses is NOT modelled.
   Definitions only. *)
From Coq Require Import ZArith List Bool Floats.
From V Require Import F64 F32.
Import ListNotations.
Open Scope Z_scope.

(* (x / (512.0 / total_columns)).floor().min(total_columns - 1.0) as usize      — all f32 *)
Definition column (x : float) (total : float) : Z :=
  let divisor := f32_div 512 total in
  to_usize (fmin (ffloor (f32_div x divisor)) (f32_sub total 1)).

(* the same quotient without the clamp to the last column: what "column below the key count"
   means for a stored x position (the clamp would hide a note at x = 512) *)
Definition column_raw (x : float) (total : float) : Z :=
  to_usize (ffloor (f32_div x (f32_div 512 total))).

(* (f32::from(column) * (512.0 / total_columns as f32)).ceil() *)
Definition column_to_pos (c : Z) (total : Z) : float :=
  fceil (f32_mul (of_Z c) (f32_div 512 (of_Z total))).

(* target_columns: [keys] from a key mod; rounded cs / od; counts of the osu! map *)
Definition target_columns (keys : option Z) (rounded_cs rounded_od : float) (n_slider_spinner len : Z) : Z :=
  match keys with
  | Some k => k
  | None =>
      let fallback := Z.max (Z.min (to_i32 rounded_od + 1) 7) 4 in
      if len =? 0 then fallback
      else
        let pct := (of_Z n_slider_spinner / of_Z len)%float in
        if PrimFloat.ltb pct 0.2 then 7
        else if PrimFloat.ltb pct 0.3 || PrimFloat.leb 5 rounded_cs then 6 + (if PrimFloat.ltb 5 rounded_od then 1 else 0)
        else if PrimFloat.ltb 0.6 pct then 4 + (if PrimFloat.ltb 4 rounded_od then 1 else 0)
        else fallback
  end.

(* osu Random::next_int_range on the raw 31-bit output n of next_int *)
Definition INT_TO_REAL : float := (1 / 2147483648)%float.
Definition next_int_range (n : Z) (lo hi : Z) : Z :=
  to_i32 (of_Z lo + (INT_TO_REAL * of_Z n) * of_Z (hi - lo))%float.

(* taiko conversion: objects and sounds are spliced in lock step *)
Inductive splice_op {O S : Type} := Splice (idx : nat) (objs : list O) (sounds : list S) | Remove (idx : nat).
Arguments splice_op : clear implicits.
Definition splice_at {A} (l : list A) (idx : nat) (new : list A) : list A :=
  firstn idx l ++ new ++ skipn (S idx) l.
Definition apply_splice {O S} (st : list O * list S) (op : splice_op O S) : list O * list S :=
  match op with
  | Splice idx objs sounds => (splice_at (fst st) idx objs, splice_at (snd st) idx sounds)
  | Remove idx => (splice_at (fst st) idx [], splice_at (snd st) idx [])
  end.

(* ---- recorded cases: (total columns word (f32 bits), x word (f32 bits), column) ---------- *)
Definition column_bad (cases : list (N * Z * Z * Z)) : list (N * N) :=
  flat_map (fun c => let '(id, total, x, want) := c in
                     if column (f32_of_bits x) (f32_of_bits total) =? want then [] else [(id, 1%N)]) cases.
(* (keys or -1, rounded cs word, rounded od word (f32 bits), n_slider_spinner, len, result) *)
Definition target_bad (cases : list (N * Z * Z * Z * Z * Z * Z)) : list (N * N) :=
  flat_map (fun c => let '(id, keys, cs, od, n, len, want) := c in
                     if target_columns (if keys <? 0 then None else Some keys) (f32_of_bits cs) (f32_of_bits od) n len =? want
                     then [] else [(id, 2%N)]) cases.
