(* Model/StrainCases.v — re-aggregation of exported strain peaks inside Coq (C16). *)
From Coq Require Import ZArith NArith List Bool Floats.
From V Require Import F64 StrainsVec Aggregate Gradual Sections SvCases.
Import ListNotations.
Open Scope Z_scope.

Definition norm_zero (w : Z) : Z := if w =? SIGN then 0 else w.   (* -0.0 and +0.0 identified *)
Definition feq_bits (a : float) (w : Z) : bool := norm_zero (to_bits a) =? norm_zero w.

Definition RX_FL : float := 0x1.6666666666666p-1%float.   (* 0.7 *)
Definition AP_FL : float := 0x1.999999999999ap-2%float.   (* 0.4 *)

(* run-length encoded literals (value, repetitions) keep the case files small *)
Definition expand_runs (l : list (Z * Z)) : list Z :=
  flat_map (fun p => repeat (fst p) (Z.to_nat (snd p))) l.

Inductive strain_case :=
| SCatch (movement : list (Z * Z)) (stars : Z)
| SMania (strains : list (Z * Z)) (stars : Z)
(* flashlight peaks, reported flashlight rating, relax, autopilot *)
| SOsuFl (flashlight : list (Z * Z)) (rating : Z) (rx ap : bool)
(* section count: section length, start times / clock rate inputs, exported length *)
| SCount (L : float) (cr : float) (times : list Z) (exported_len : Z).

Definition strain_check (c : strain_case) : bool :=
  match c with
  | SCatch m stars => feq_bits (catch_stars (expand_runs m)) stars
  | SMania s stars => feq_bits (mania_stars (expand_runs s)) stars
  | SOsuFl f rating rx ap =>
      let base := osu_flashlight_base (expand_runs f) in
      let r := if rx then (base * RX_FL)%float else if ap then (base * AP_FL)%float else base in
      feq_bits r rating
  | SCount L cr times n =>
      match section_count L (map (fun w => (of_bits w / cr)%float) times) with
      | Some k => k =? n
      | None => false
      end
  end.

Definition strain_bad (cases : list (N * strain_case)) : list N :=
  flat_map (fun c => if strain_check (snd c) then [] else [fst c]) cases.
