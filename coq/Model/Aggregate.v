(* Model/Aggregate.v — peaks -> ratings: `difficulty_value` of
   src/any/difficulty/skills.rs, the catch / mania star formulas and the osu! flashlight
   rating, on primitive floats (bit-exact: only + * sqrt are used). *)
From Coq Require Import ZArith List Bool Floats.
From V Require Import F64 StrainsVec.
Import ListNotations.
Open Scope Z_scope.

(* `for strain in peaks { difficulty += strain * weight; weight *= decay }` *)
Definition weighted_sum (decay : float) (peaks : list Z) : float :=
  fst (fold_left (fun (acc : float * float) (p : Z) =>
                    let '(d, w) := acc in ((d + of_bits p * w)%float, (w * decay)%float))
                 peaks (0%float, 1%float)).

(* `difficulty_value(current_strain_peaks, decay_weight)`; None = the unsafe transmute's
   contract was violated (never, see transmute_after_retain) *)
Definition difficulty_value (decay : float) (s : sv) : option float :=
  match transmute_into_vec (retain_non_zero_and_sort s) with
  | Some peaks => Some (weighted_sum decay peaks)
  | None => None
  end.

(* the documented re-aggregation from an exported `Vec<f64>` of peaks *)
Definition reaggregate (decay : float) (exported : list Z) : float :=
  weighted_sum decay (sort_desc_list (filter gt_zero_bits exported)).

Definition DECAY_DEFAULT : float := 0x1.ccccccccccccdp-1%float.   (* 0.9 *)
Definition DECAY_CATCH : float := 0x1.e147ae147ae14p-1%float.     (* 0.94 *)
Definition CATCH_MULT : float := 0x1.25c28f5c28f5cp+2%float.      (* 4.59 *)
Definition MANIA_MULT : float := 0x1.26e978d4fdf3bp-6%float.      (* 0.018 *)
Definition OSU_MULT : float := 0x1.147ae147ae148p-4%float.        (* 0.0675 *)

Definition catch_stars (exported : list Z) : float :=
  (PrimFloat.sqrt (reaggregate DECAY_CATCH exported) * CATCH_MULT)%float.
Definition mania_stars (exported : list Z) : float :=
  (reaggregate DECAY_DEFAULT exported * MANIA_MULT)%float.
(* osu! flashlight: `difficulty_value` is the plain sum of the peaks *)
Definition osu_flashlight_base (exported : list Z) : float :=
  (PrimFloat.sqrt (fsum (filter gt_zero_bits exported)) * OSU_MULT)%float.
