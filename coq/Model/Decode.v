(* Model/Decode.v — the decoder's bookkeeping (M7; C06, C19): the TandemSorter
   (src/util/sort/tandem.rs), the pending / flush / binary-search-insert logic of the
   [TimingPoints] section (src/model/beatmap/decode.rs, src/model/control_point/*.rs) and the
   final clamps.  The line tokenisers and number parsers (rosu-map) are NOT modelled: a timing
   line arrives as (time, beat_len, uninherited, kiai), an object line as (start time, sound).
   Definitions only. *)
From Coq Require Import ZArith List Bool Floats.
From V Require Import F64 F32.
Import ListNotations.
Open Scope Z_scope.

(* ============================ TandemSorter ============================ *)
Definition MARK : Z := SIGN.                                   (* !(usize::MAX >> 1) *)
Definition is_marked (i : Z) : bool := MARK <=? i.             (* leading_zeros() == 0 *)
Definition toggle (i : Z) : Z := if is_marked i then i - MARK else i + MARK.

Definition getZ (l : list Z) (i : Z) : Z := nth (Z.to_nat i) l 0.
Fixpoint setZ (l : list Z) (i : nat) (v : Z) : list Z :=
  match l, i with
  | [], _ => []
  | _ :: tl, O => v :: tl
  | x :: tl, S k => x :: setZ tl k v
  end.

(* the inner `while j_idx != i` loop; fuel bounds the cycle length *)
Fixpoint follow (fuel : nat) (idx : list Z) (i j j_idx : Z) (swaps : list (Z * Z))
  : list Z * list (Z * Z) :=
  match fuel with
  | O => (idx, swaps)                            (* unreachable for permutations *)
  | S f =>
      if j_idx =? i then (setZ idx (Z.to_nat j) (toggle j_idx), swaps)
      else
        let idx' := setZ idx (Z.to_nat j) (toggle j_idx) in
        follow f idx' i j_idx (getZ idx' j_idx) (swaps ++ [(j, j_idx)])
  end.

Fixpoint outer (todo : list Z) (idx : list Z) (swaps : list (Z * Z)) : list Z * list (Z * Z) :=
  match todo with
  | [] => (idx, swaps)
  | i :: tl =>
      let i_idx := getZ idx i in
      if is_marked i_idx then outer tl idx swaps
      else let '(idx', swaps') := follow (S (length idx)) idx i i i_idx swaps in outer tl idx' swaps'
  end.

Fixpoint iotaZ (start : Z) (n : nat) : list Z :=
  match n with O => [] | S k => start :: iotaZ (start + 1) k end.

Record sorter := mk_sorter { s_idx : list Z; s_reset : bool }.
(* TandemSorter::sort: the swaps it performs and the sorter afterwards *)
Definition sorter_swaps (s : sorter) : list (Z * Z) * sorter :=
  let idx := if s_reset s then map toggle (s_idx s) else s_idx s in
  let '(idx', swaps) := outer (iotaZ 0 (length idx)) idx [] in
  (swaps, mk_sorter idx' true).

Fixpoint set_nth {A} (l : list A) (i : nat) (v : A) : list A :=
  match l, i with
  | [], _ => []
  | _ :: tl, O => v :: tl
  | h :: tl, S k => h :: set_nth tl k v
  end.
Definition swap_list {A} (l : list A) (a b : Z) : list A :=
  match nth_error l (Z.to_nat a), nth_error l (Z.to_nat b) with
  | Some x, Some y => set_nth (set_nth l (Z.to_nat a) y) (Z.to_nat b) x
  | _, _ => l
  end.
Definition apply_swaps {A} (sw : list (Z * Z)) (l : list A) : list A :=
  fold_left (fun l p => swap_list l (fst p) (snd p)) sw l.

(* new_stable: indices sorted stably by the keys *)
Fixpoint insert_stable (keys : list Z) (i : Z) (l : list Z) : list Z :=
  match l with
  | [] => [i]
  | j :: tl => if getZ keys i <? getZ keys j then i :: l else j :: insert_stable keys i tl
  end.
Definition stable_indices (keys : list Z) : list Z :=
  fold_left (fun acc i => insert_stable keys i acc) (iotaZ 0 (length keys)) [].
Definition sorter_new (keys : list Z) : sorter := mk_sorter (stable_indices keys) false.

(* From<BeatmapState>: objects and sounds sorted in tandem by start time (total_cmp) *)
Definition sort_objects (objs : list (Z * Z)) : list (Z * Z) :=    (* (time word, sound) per line *)
  let keys := map (fun o => total_key (fst o)) objs in
  let s := sorter_new keys in
  let '(sw1, s1) := sorter_swaps s in
  let '(sw2, _) := sorter_swaps s1 in
  combine (apply_swaps sw1 (map fst objs)) (apply_swaps sw2 (map snd objs)).

(* reference: stable sort of the lines by key *)
Fixpoint insert_line (x : Z * Z) (l : list (Z * Z)) : list (Z * Z) :=
  match l with
  | [] => [x]
  | y :: tl => if total_key (fst x) <? total_key (fst y) then x :: l else y :: insert_line x tl
  end.
Definition stable_sort_lines (l : list (Z * Z)) : list (Z * Z) :=
  fold_left (fun acc x => insert_line x acc) l [].

(* ============================ control points ============================ *)
Record tline := mk_tline { l_time : float; l_beat : float; l_uninh : bool; l_kiai : bool }.
Record tpoint := mk_tp { tp_time : float; tp_beat : float }.
Record dpoint := mk_dp { dp_time : float; dp_sv : float; dp_bpm : float; dp_ticks : bool }.
Record epoint := mk_ep { ep_time : float; ep_kiai : bool; ep_scroll : float }.

Definition EPS64 : float := 0x1p-52%float.
Definition fabs (x : float) : float := PrimFloat.abs x.
Definition feq_eps (a b : float) : bool := PrimFloat.leb (fabs (a - b)) EPS64.      (* FloatExt::eq *)
Definition fnot_eq (a b : float) : bool := PrimFloat.leb EPS64 (fabs (a - b)).      (* FloatExt::not_eq *)
Definition clampf (x lo hi : float) : float := F64.fclamp x lo hi.

Definition tp_new (time beat : float) : tpoint := mk_tp time (clampf beat 6 60000).
Definition dp_new (time beat speed : float) : dpoint :=
  mk_dp time (clampf speed 0x1.999999999999ap-4 10)
        (if PrimFloat.ltb beat 0 then (clampf (to_f32 (- beat)) 10 10000 / 100)%float else 1%float)
        (negb (PrimFloat.is_nan beat)).
Definition dp_default := mk_dp 0 1 1 true.
Definition ep_default := mk_ep 0 false 1.
Definition dp_redundant (a b : dpoint) : bool := Bool.eqb (dp_ticks a) (dp_ticks b) && feq_eps (dp_sv a) (dp_sv b).
Definition ep_redundant (a b : epoint) : bool := Bool.eqb (ep_kiai a) (ep_kiai b) && feq_eps (ep_scroll a) (ep_scroll b).

Definition fkey (t : float) : Z := total_key (to_bits t).

(* binary_search_by(total_cmp) + insert / replace, on a list strictly sorted by key *)
Fixpoint cp_add {A} (key : A -> Z) (x : A) (l : list A) : list A :=
  match l with
  | [] => [x]
  | y :: tl => if key x <? key y then x :: l
               else if key x =? key y then x :: tl
               else y :: cp_add key x tl
  end.
(* *_point_at: the last point whose key is <= the key of [t] *)
Fixpoint cp_at {A} (key : A -> Z) (k : Z) (l : list A) (found : option A) : option A :=
  match l with
  | [] => found
  | y :: tl => if key y <=? k then cp_at key k tl (Some y) else found
  end.

Record dstate := mk_ds {
  ds_tps : list tpoint; ds_dps : list dpoint; ds_eps : list epoint;
  ds_ptime : float; ds_pt : option tpoint; ds_pd : option dpoint; ds_pe : option epoint }.
Definition ds_init := mk_ds [] [] [] 0 None None None.

Definition add_tp (s : dstate) (p : tpoint) : dstate :=
  mk_ds (cp_add (fun q => fkey (tp_time q)) p (ds_tps s)) (ds_dps s) (ds_eps s) (ds_ptime s) (ds_pt s) (ds_pd s) (ds_pe s).
Definition add_dp (s : dstate) (p : dpoint) : dstate :=
  let existing := match cp_at (fun q => fkey (dp_time q)) (fkey (dp_time p)) (ds_dps s) None with
                  | Some e => e | None => dp_default end in
  if dp_redundant p existing then s
  else mk_ds (ds_tps s) (cp_add (fun q => fkey (dp_time q)) p (ds_dps s)) (ds_eps s) (ds_ptime s) (ds_pt s) (ds_pd s) (ds_pe s).
Definition eps_add (l : list epoint) (p : epoint) : list epoint :=
  let existing := match cp_at (fun q => fkey (ep_time q)) (fkey (ep_time p)) l None with
                  | Some e => e | None => ep_default end in
  if ep_redundant p existing then l else cp_add (fun q => fkey (ep_time q)) p l.
Definition add_ep (s : dstate) (p : epoint) : dstate :=
  mk_ds (ds_tps s) (ds_dps s) (eps_add (ds_eps s) p) (ds_ptime s) (ds_pt s) (ds_pd s) (ds_pe s).

Definition flush (s : dstate) : dstate :=
  let s1 := match ds_pt s with Some p => add_tp s p | None => s end in
  let s2 := match ds_pd s with Some p => add_dp s1 p | None => s1 end in
  let s3 := match ds_pe s with Some p => add_ep s2 p | None => s2 end in
  mk_ds (ds_tps s3) (ds_dps s3) (ds_eps s3) (ds_ptime s3) None None None.

(* add_pending_point: push_front keeps an existing pending point, push_back replaces it *)
Definition pend {A} (front : bool) (old : option A) (new : A) : option A :=
  if front then match old with Some _ => old | None => Some new end else Some new.
Definition pre_pending (s : dstate) (time : float) : dstate :=
  if fnot_eq time (ds_ptime s) then flush s else s.

(* one line of [TimingPoints] that passed the tokeniser; [scroll]: taiko / mania *)
Definition line (scroll : bool) (s : dstate) (ln : tline) : dstate :=
  let time := (l_time ln + 0)%float in          (* fix 5c39843: -0.0 becomes 0.0 *)
  let beat := l_beat ln in
  let speed := if PrimFloat.ltb beat 0 then (100 / - beat)%float else 1%float in
  let tc := l_uninh ln in
  let s := if tc then
             let s := pre_pending s time in
             mk_ds (ds_tps s) (ds_dps s) (ds_eps s) time (pend tc (ds_pt s) (tp_new time beat)) (ds_pd s) (ds_pe s)
           else s in
  let s := pre_pending s time in
  let s := mk_ds (ds_tps s) (ds_dps s) (ds_eps s) time (ds_pt s) (pend tc (ds_pd s) (dp_new time beat speed)) (ds_pe s) in
  let s := pre_pending s time in
  let e := mk_ep time (l_kiai ln) (if scroll then clampf speed 0x1.47ae147ae147bp-7 10 else 1%float) in
  mk_ds (ds_tps s) (ds_dps s) (ds_eps s) time (ds_pt s) (ds_pd s) (pend tc (ds_pe s) e).

Definition decode_lines (scroll : bool) (ls : list tline) : dstate := flush (fold_left (line scroll) ls ds_init).

(* ---- recorded cases ------------------------------------------------------------------- *)
Definition tps_words (s : dstate) : list Z :=
  flat_map (fun p => [to_bits (tp_time p); to_bits (tp_beat p)]) (ds_tps s).
Definition dps_words (s : dstate) : list Z :=
  flat_map (fun p => [to_bits (dp_time p); to_bits (dp_sv p); to_bits (dp_bpm p); if dp_ticks p then 1 else 0]) (ds_dps s).
Definition eps_words (s : dstate) : list Z :=
  flat_map (fun p => [to_bits (ep_time p); if ep_kiai p then 1 else 0; to_bits (ep_scroll p)]) (ds_eps s).

Fixpoint zl_eqb (a b : list Z) : bool :=
  match a, b with
  | [], [] => true
  | x :: a', y :: b' => Z.eqb x y && zl_eqb a' b'
  | _, _ => false
  end.

(* timing case: id, scroll, lines as (time word, beat word, uninherited, kiai), recorded words.
   NaN beat lengths are passed as the word of the canonical NaN. *)
Definition timing_bad (cases : list (N * bool * list (Z * Z * bool * bool) * list Z * list Z * list Z)) : list (N * N) :=
  flat_map (fun c => let '(id, scroll, ls, wt, wd, we) := c in
    let s := decode_lines scroll (map (fun l => let '(t, b, u, k) := l in mk_tline (of_bits t) (of_bits b) u k) ls) in
    if negb (zl_eqb (tps_words s) wt) then [(id, 1%N)]
    else if negb (zl_eqb (dps_words s) wd) then [(id, 2%N)]
    else if negb (zl_eqb (eps_words s) we) then [(id, 3%N)] else []) cases.

(* object case: id, lines (time word, sound) in file order, decoded (time word, sound) *)
Definition objects_bad (cases : list (N * list (Z * Z) * list (Z * Z))) : list (N * N) :=
  flat_map (fun c => let '(id, ls, want) := c in
    let got := sort_objects ls in
    if zl_eqb (flat_map (fun p => [fst p; snd p]) got) (flat_map (fun p => [fst p; snd p]) want)
    then [] else [(id, 4%N)]) cases.
