(* Model/GradPerf.v — the four gradual performance calculators (M3, C03).  Written after
   src/{osu,taiko,catch,mania}/performance/gradual.rs, which are identical up to types:

     nth(state, n):  n  := min(n, difficulty.len().saturating_sub(1));
                     a  := difficulty.nth(n)?;
                     a.performance().state(state).difficulty(d).passed_objects(difficulty.idx)
                      .calculate()
     next(state) = nth(state, 0)      last(state) = nth(state, usize::MAX)
     len() = difficulty.len()

   The performance calculation itself is an oracle [perf attrs passed state]: it is the
   SAME function the one-shot calculator evaluates (Performance::calculate on the
   attributes path, C04), applied to the attributes, the passed_objects value and the
   state.  Definitions only. *)
From Coq Require Import ZArith List Bool.
From V Require Import F64 Gradual.
Import ListNotations.
Open Scope Z_scope.

Inductive pop {St : Type} :=
| PNext (s : St)
| PNth (s : St) (n : Z)
| PLast (s : St)
| PLen.
Arguments pop : clear implicits.

Section Perf.
Context {G C St P : Type}.
Variable nth : Z -> G -> option C * G.     (* the gradual difficulty calculator *)
Variable len : G -> Z.
Variable idx : G -> Z.                      (* its `idx` field *)
Variable perf : C -> Z -> St -> P.          (* attrs, passed_objects, state *)

Definition gp_nth (s : St) (n : Z) (g : G) : option P * G :=
  let n' := Z.min n (sat_sub (len g) 1) in
  match nth n' g with
  | (Some c, g') => (Some (perf c (idx g') s), g')
  | (None, g') => (None, g')
  end.
Definition gp_next (s : St) := gp_nth s 0.
Definition gp_last (s : St) := gp_nth s USIZE_MAX.

Fixpoint run_pops (ops : list (pop St)) (g : G) : list (gout P) :=
  match ops with
  | [] => []
  | PNext s :: tl => let '(o, g') := gp_next s g in
                     (match o with Some p => GSome p | None => GNone end) :: run_pops tl g'
  | PNth s n :: tl => let '(o, g') := gp_nth s n g in
                      (match o with Some p => GSome p | None => GNone end) :: run_pops tl g'
  | PLast s :: tl => let '(o, g') := gp_last s g in
                     (match o with Some p => GSome p | None => GNone end) :: run_pops tl g'
  | PLen :: tl => GLen (len g) :: run_pops tl g
  end.
End Perf.

(* The specification.  [rem] is the list of one-shot difficulty values still to come,
   each with its passed_objects count i; the one-shot performance for (i, state) is
   [perf (oneshot i) i state].  nth(state, n) processes min(n+1, remaining) objects and
   returns the performance of the play up to there; None exactly when nothing remains. *)
Section Spec.
Context {C St P : Type}.
Variable perf : C -> Z -> St -> P.

Definition spec_pnth (s : St) (n : Z) (rem : list (Z * C)) : gout P * list (Z * C) :=
  let n' := Z.min n (sat_sub (zlen rem) 1) in
  match skipn (Z.to_nat n') rem with
  | (i, c) :: r => (GSome (perf c i s), r)
  | [] => (GNone, [])
  end.

Fixpoint spec_pops (rem : list (Z * C)) (ops : list (pop St)) : list (gout P) :=
  match ops with
  | [] => []
  | PNext s :: tl => let '(o, r) := spec_pnth s 0 rem in o :: spec_pops r tl
  | PNth s n :: tl => let '(o, r) := spec_pnth s n rem in o :: spec_pops r tl
  | PLast s :: tl => let '(o, r) := spec_pnth s USIZE_MAX rem in o :: spec_pops r tl
  | PLen :: tl => GLen (zlen rem) :: spec_pops rem tl
  end.
End Spec.

(* number of objects processed by one call, for the `min(n+1, remaining)` clause *)
Definition processed_by (n remaining : Z) : Z := Z.min (n + 1) remaining.
