(* Model/Convert.v — map conversion and mode dispatch (C07), interpreted through the decision
   trees and entry-point tables GENERATED from src/model/beatmap/mod.rs and the four mode
   modules.  A map is its mode, its is_convert flag and an opaque payload; the converters'
   effect on the payload is an oracle.  Definitions only. *)
From Coq Require Import String List Bool ZArith.
From V Require Import Tables.
Import ListNotations.

Section Conv.
Variable Payload Mods : Type.
Variable conv : mode -> Mods -> Payload -> Payload.   (* Taiko::convert / Catch::convert / Mania::convert *)

Record bmap := mk_map { b_mode : mode; b_conv : bool; b_pay : Payload }.
Inductive cerr := EAlready | EConvert (from to : mode).
Definition cresult := (bmap + cerr)%type.

(* what the converter of mode m assigns, per the generated convert_flags table *)
Definition flags_of (flags : list (mode * mode * bool)) (m : mode) : option (mode * bool) :=
  match find (fun r => mode_eqb (fst (fst r)) m) flags with
  | Some (_, m', f) => Some (m', f)
  | None => None
  end.

Definition run_tree (tree : mode -> bool -> mode -> cres) (flags : list (mode * mode * bool))
           (b : bmap) (target : mode) (mods : Mods) : option cresult :=
  match tree (b_mode b) (b_conv b) target with
  | CIdentity => Some (inl b)
  | CErrAlready => Some (inr EAlready)
  | CErrConvert => Some (inr (EConvert (b_mode b) target))
  | CConverted m =>
      match flags_of flags m with
      | Some (m', f) => Some (inl (mk_map m' f (conv m mods (b_pay b))))
      | None => None
      end
  | CUnreachable | CUnparsed => None           (* a panic / not understood *)
  end.

(* the specification of the property *)
Definition convert_spec (b : bmap) (target : mode) (mods : Mods) : cresult :=
  if mode_eqb (b_mode b) target then inl b
  else if b_conv b then inr EAlready
  else if negb (mode_eqb (b_mode b) Osu) then inr (EConvert (b_mode b) target)
  else inl (mk_map target true (conv target mods (b_pay b))).

(* a mode entry point (difficulty / strains / gradual constructor): per the generated
   entry_points table it first converts with convert_ref to the mode it is registered with,
   using the caller's mods, and then runs the mode's own calculation on the result *)
Variable Out : Type.
Variable body : mode -> string -> Mods -> bmap -> Out.

Definition entry_row (tbl : list (mode * string * mode * bool * bool)) (m : mode) (kind : string) :=
  find (fun r => let '(m', k, _, _, _) := r in mode_eqb m m' && String.eqb k kind) tbl.

Definition run_entry tree flags tbl (m : mode) (kind : string) (mods : Mods) (b : bmap)
  : option (Out + cerr) :=
  match entry_row tbl m kind with
  | Some (_, _, target, true, true) =>
      match run_tree tree flags b target mods with
      | Some (inl b') => Some (inl (body m kind mods b'))
      | Some (inr e) => Some (inr e)
      | None => None
      end
  | _ => None
  end.
End Conv.

Arguments mk_map {Payload}. Arguments b_mode {Payload}. Arguments b_conv {Payload}. Arguments b_pay {Payload}.

(* ---- checks of the generated tables --------------------------------------------------- *)
Definition all_modes_c : list mode := [Osu; Taiko; Catch; Mania].
Definition spec_tree (self_mode : mode) (is_convert : bool) (target : mode) : cres :=
  if mode_eqb self_mode target then CIdentity
  else if is_convert then CErrAlready
  else if negb (mode_eqb self_mode Osu) then CErrConvert
  else CConverted target.
Definition cres_eqb (a b : cres) : bool :=
  match a, b with
  | CIdentity, CIdentity | CErrAlready, CErrAlready | CErrConvert, CErrConvert => true
  | CConverted m, CConverted m' => mode_eqb m m'
  | _, _ => false
  end.
(* all 32 combinations *)
Definition tree_check (tree : mode -> bool -> mode -> cres) : bool :=
  forallb (fun s => forallb (fun c => forallb (fun t => cres_eqb (tree s c t) (spec_tree s c t))
                                              all_modes_c) [false; true]) all_modes_c.
Definition flags_check (flags : list (mode * mode * bool)) : bool :=
  forallb (fun m => match find (fun r => mode_eqb (fst (fst r)) m) flags with
                    | Some (_, m', true) => mode_eqb m m'
                    | _ => false end) [Taiko; Catch; Mania].
Definition entries_check (tbl : list (mode * string * mode * bool * bool)) : bool :=
  forallb (fun m => forallb (fun k =>
      match find (fun r => let '(m', k', _, _, _) := r in mode_eqb m m' && String.eqb k' k) tbl with
      | Some (_, _, target, true, true) => mode_eqb target m
      | _ => false end) ["difficulty"; "strains"; "gradual"]%string) all_modes_c.
