(* Model/Attributes.v — `BeatmapAttributesBuilder::{hit_windows, build}` transcribed from
   src/model/beatmap/attributes.rs (M5, C17): f32 steps through Lib/F32, f64 steps on the
   kernel's floats.  Inputs are what the builder holds when hit_windows()/build() run.
   Definitions only. *)
From Coq Require Import ZArith List Bool Floats.
From V Require Import F64 F32.
Import ListNotations.
Open Scope float_scope.

Inductive amode := AOsu | ATaiko | ACatch | AMania.

(* ModsDependentKind: Default(inner) / Custom(inner), inner = (value: f32, with_mods) *)
Record mdk := mk_mdk { k_custom : bool; k_value : float; k_with_mods : bool }.

Record builder := mk_builder {
  a_mode : amode; a_conv : bool;
  a_ar : mdk; a_od : mdk; a_cs : mdk; a_hp : mdk;
  a_hr : bool; a_ez : bool;
  (* lazer DifficultyAdjust values the mods carry (GameMods::ar/od/cs/hp), f64 *)
  m_ar : option float; m_od : option float; m_cs : option float; m_hp : option float;
  a_clock : float           (* clock_rate.unwrap_or_else(|| mods.clock_rate()) *)
}.

(* ModsDependentKind::value *)
Definition kvalue (k : mdk) (from_mods : option float) : float :=
  if k_custom k then k_value k
  else match from_mods with Some n => to_f32 n | None => k_value k end.

Record windows := mk_win { w_min : float; w_avg : float; w_max : float }.
Definition OSU_GREAT := mk_win 80 50 20.
Definition OSU_OK := mk_win 140 100 60.
Definition OSU_MEH := mk_win 200 150 100.
Definition TAIKO_GREAT := mk_win 50 35 20.
Definition TAIKO_OK := mk_win 120 80 50.
Definition AR_WINDOWS := mk_win 1800 1200 450.

Definition difficulty_range (d : float) (w : windows) : float :=
  if PrimFloat.ltb 5 d then w_avg w + (w_max w - w_avg w) * (d - 5) / 5
  else if PrimFloat.ltb d 5 then w_avg w - (w_avg w - w_min w) * (5 - d) / 5
  else w_avg w.

(* the closure `mod_mult` (f32) *)
Definition mod_mult (b : builder) (v : float) : float :=
  if a_hr b then fmin (f32_mul v F32_1_4) 10
  else if a_ez b then f32_mul v 0.5
  else v.

Record hit_windows := mk_hw { hw_ar : float; hw_great : float; hw_ok : option float; hw_meh : option float }.

Definition raw_value (b : builder) (k : mdk) (from_mods : option float) : float :=
  if k_with_mods k then kvalue k from_mods else mod_mult b (kvalue k from_mods).

Definition hit_windows_of (b : builder) : hit_windows :=
  let clock := a_clock b in
  let ar_clock := if k_with_mods (a_ar b) then 1 else clock in
  let od_clock := if k_with_mods (a_od b) then 1 else clock in
  let raw_ar := raw_value b (a_ar b) (m_ar b) in
  let preempt := difficulty_range raw_ar AR_WINDOWS / ar_clock in
  match a_mode b with
  | AOsu | ACatch =>
      let raw_od := raw_value b (a_od b) (m_od b) in
      mk_hw preempt (difficulty_range raw_od OSU_GREAT / od_clock)
            (Some (difficulty_range raw_od OSU_OK / od_clock))
            (Some (difficulty_range raw_od OSU_MEH / od_clock))
  | ATaiko =>
      let raw_od := raw_value b (a_od b) (m_od b) in
      mk_hw preempt (difficulty_range raw_od TAIKO_GREAT / od_clock)
            (Some (difficulty_range raw_od TAIKO_OK / od_clock)) None
  | AMania =>
      let od := kvalue (a_od b) (m_od b) in
      let v0 := if negb (a_conv b) then
                  f32_add 34 (f32_mul 3 (F64.fclamp (f32_sub 10 od) 0 10))
                else if PrimFloat.ltb 4 (fround_even od) then 34 else 47 in
      let v := if negb (k_with_mods (a_od b)) then
                 (if a_hr b then f32_div v0 F32_1_4 else if a_ez b then f32_mul v0 F32_1_4 else v0)
               else v0 in
      mk_hw preempt (fceil (ffloor (v * od_clock) / od_clock)) None None
  end.

Record attrs := mk_attrs { r_ar : float; r_od : float; r_cs : float; r_hp : float;
                           r_clock : float; r_hw : hit_windows }.

Definition build (b : builder) : attrs :=
  let hp0 := kvalue (a_hp b) (m_hp b) in
  let hp1 := if negb (k_with_mods (a_hp b)) then
               f32_mul hp0 (to_f32 (if a_hr b then 1.4 else if a_ez b then 0.5 else 1))
             else hp0 in
  let hp := fmin hp1 10 in
  let cs0 := kvalue (a_cs b) (m_cs b) in
  let cs := if negb (k_with_mods (a_cs b)) then
              (if a_hr b then fmin (f32_mul cs0 F32_1_3) 10 else if a_ez b then f32_mul cs0 0.5 else cs0)
            else cs0 in
  let hw := hit_windows_of b in
  let p := hw_ar hw in
  let ar := if PrimFloat.ltb 1200 p then (1800 - p) / 120 else (1200 - p) / 150 + 5 in
  let od := match a_mode b with
            | AOsu => (80 - hw_great hw) / 6
            | ATaiko => (50 - hw_great hw) / (50 - 35) * 5
            | ACatch | AMania => kvalue (a_od b) (m_od b)
            end in
  mk_attrs ar od cs hp (a_clock b) hw.

(* ---- evaluation of recorded cases: every float as its binary64 word ------------------- *)
Definition optbits (o : option float) : Z := match o with Some x => to_bits x | None => -1 end.
Definition attrs_bits (a : attrs) : list Z :=
  [to_bits (r_ar a); to_bits (r_od a); to_bits (r_cs a); to_bits (r_hp a); to_bits (r_clock a);
   to_bits (hw_ar (r_hw a)); to_bits (hw_great (r_hw a)); optbits (hw_ok (r_hw a)); optbits (hw_meh (r_hw a))].
Definition hw_bits (h : hit_windows) : list Z :=
  [to_bits (hw_ar h); to_bits (hw_great h); optbits (hw_ok h); optbits (hw_meh h)].

Fixpoint zlist_eqb (a b : list Z) : bool :=
  match a, b with
  | [], [] => true
  | x :: a', y :: b' => Z.eqb x y && zlist_eqb a' b'
  | _, _ => false
  end.

(* case: id, builder, recorded build() words, recorded hit_windows() words.
   Result ids: case differs on build (1) / hit_windows (2) *)
Definition attr_bad (cases : list (N * builder * list Z * list Z)) : list (N * N) :=
  flat_map (fun c => let '(id, b, want, want_hw) := c in
                     if negb (zlist_eqb (attrs_bits (build b)) want) then [(id, 1%N)]
                     else if negb (zlist_eqb (hw_bits (hit_windows_of b)) want_hw) then [(id, 2%N)]
                     else []) cases.
