(* Model/GradCases.v — evaluation of recorded gradual/one-shot traces against Model/Gradual. *)
From Coq Require Import ZArith NArith List Bool Floats.
From V Require Import F64 Gradual SvCases.
Import ListNotations.
Open Scope Z_scope.

Definition gout_eqb (a b : gout (list Z)) : bool :=
  match a, b with
  | GSome x, GSome y => list_eqb x y
  | GNone, GNone => true
  | GLen x, GLen y => x =? y
  | _, _ => false
  end.
Fixpoint gouts_eqb (a b : list (gout (list Z))) : bool :=
  match a, b with
  | [], [] => true
  | x :: a', y :: b' => gout_eqb x y && gouts_eqb a' b'
  | _, _ => false
  end.

Inductive gview :=
| VOsu (objs : list okind) (take : Z)
| VTaiko (flags : list bool)
| VCatch (evs : list cevent)
| VMania (objs : list mobj) (take : Z).

Notation TS := (list Z).

Definition run_view (v : gview) (ops : list gop) : list (gout (list Z)) :=
  match v with
  | VOsu objs take =>
      run_gops (osu_next TS trace_process objs take) (osu_nth TS trace_process objs take)
               (osu_len TS objs take) (fun cs => oc_list (fst cs)) ops (osu_new TS [] objs)
  | VTaiko flags =>
      run_gops (taiko_next TS trace_process flags) (fun n => taiko_nth TS trace_process flags n)
               (taiko_len TS flags) (fun cs => [fst cs]) ops (taiko_new TS [])
  | VCatch evs =>
      run_gops (catch_next TS trace_process evs) (catch_nth TS trace_process evs)
               (catch_len TS evs) (fun cs => cc_list (fst cs)) ops (catch_new TS [] evs)
  | VMania objs take =>
      run_gops (mania_next TS trace_process objs take) (mania_nth TS trace_process objs take)
               (mania_len TS objs take) (fun cs => mc_list (fst cs)) ops (mania_new TS [] objs)
  end.

Definition oneshot_view (v : gview) (take : Z) : list Z :=
  match v with
  | VOsu objs _ => oc_list (fst (osu_oneshot TS trace_process [] objs take))
  | VTaiko flags => [fst (taiko_oneshot TS trace_process [] flags take)]
  | VCatch evs => cc_list (fst (catch_oneshot TS trace_process [] evs take))
  | VMania objs _ => mc_list (fst (mania_oneshot TS trace_process [] objs take))
  end.

(* a case: view, op sequences with recorded outputs, one-shot counts per take.
   Result: 0 = agrees, 100+k = op sequence k differs, 200+k = one-shot entry k differs *)
Definition grad_check (v : gview) (seqs : list (list gop * list (gout (list Z))))
           (shots : list (Z * list Z)) : N :=
  let fix seqs_go (k : N) (l : list (list gop * list (gout (list Z)))) : N :=
    match l with
    | [] => 0%N
    | (ops, outs) :: tl => if gouts_eqb (run_view v ops) outs then seqs_go (k + 1)%N tl
                           else (100 + k)%N
    end in
  let fix shots_go (k : N) (l : list (Z * list Z)) : N :=
    match l with
    | [] => 0%N
    | (take, c) :: tl => if list_eqb (oneshot_view v take) c then shots_go (k + 1)%N tl
                         else (200 + k)%N
    end in
  match seqs_go 0%N seqs with
  | 0%N => shots_go 0%N shots
  | k => k
  end.

Definition grad_bad (cases : list (N * gview * list (list gop * list (gout (list Z))) * list (Z * list Z)))
  : list (N * N) :=
  flat_map (fun c => let '(id, v, seqs, shots) := c in
                     match grad_check v seqs shots with 0%N => [] | k => [(id, k)] end) cases.
