(* Model/Banana.v — BananaShower::new (src/catch/object/banana_shower.rs, after the fix c745b70):
   the number of bananas of a spinner, an f32 loop.  Fuel bounds the iterations of the model; the
   real loop has none, which is why termination is stated separately (Proofs/BananaProofs.v).
   Definitions only. *)
From Coq Require Import ZArith List Bool Floats.
From V Require Import F64 F32.
Import ListNotations.
Open Scope Z_scope.

(* while spacing > 100.0 { spacing /= 2.0 }: at most 32 halvings for an i32 difference *)
Fixpoint halve (fuel : nat) (s : float) : float :=
  match fuel with
  | O => s
  | S f => if PrimFloat.ltb 100 s then halve f (f32_div s 2) else s
  end.

(* the counting loop: (count, last time, finished?) *)
Fixpoint count_loop (fuel : nat) (time end_time spacing : float) (count : Z) : Z * bool :=
  match fuel with
  | O => (count, false)                                   (* out of fuel: not a result *)
  | S f =>
      if PrimFloat.leb time end_time then
        let next := f32_add time spacing in
        if PrimFloat.leb next time then (count + 1, true)  (* the fix: no progress -> stop *)
        else count_loop f next end_time spacing (count + 1)
      else (count, true)
  end.

(* start_time / end_time: the f64 values; `as i32` saturates; the difference is computed on i32
   (wrapping in release builds; the checked flag is the debug-build overflow check) *)
Definition n_bananas (fuel : nat) (start_time end_time : float) : Z * bool * bool :=
  let s := to_i32 start_time in
  let e := to_i32 end_time in
  let diff := e - s in
  let no_overflow := (-2147483648 <=? diff) && (diff <=? 2147483647) in
  let diff32 := ((diff + 2147483648) mod 4294967296) - 2147483648 in
  let spacing := halve 40 (to_f32 (of_Z diff32)) in
  if PrimFloat.leb spacing 0 then (0, true, no_overflow)
  else let '(c, fin) := count_loop fuel (to_f32 (of_Z s)) (to_f32 (of_Z e)) spacing 0 in (c, fin, no_overflow).

(* recorded cases: (id, start word, end word, n_bananas) *)
Definition banana_bad (cases : list (N * Z * Z * Z)) : list (N * N) :=
  flat_map (fun c => let '(id, s, e, want) := c in
                     match n_bananas 100000 (of_bits s) (of_bits e) with
                     | (got, true, _) => if got =? want then [] else [(id, 1%N)]
                     | (_, false, _) => [(id, 2%N)]
                     end) cases.
