(* Model/OptTwin.v — exact-arithmetic twins of the two one-dimensional accuracy searches
   (taiko: how many 300s; catch: how many tiny droplets).  In both, the accuracy is an affine
   function of the one free count x, so being closest to the target means minimising
   |raw - x| over the integers 0..=R, where raw is the code's own estimate computed exactly.
   The twin takes the target as the fraction a/b (the exact value of the f64 handed to
   `.accuracy()`), so every distance is an integer after scaling by b. *)
From Coq Require Import ZArith List Bool.
Import ListNotations.
Open Scope Z_scope.

(* floor and ceil of p/q (q > 0) as `as u32` sees them (negative -> 0), capped by R, and the
   better of the two by the scaled distance |p - x*q|; the floor candidate is visited first and
   is replaced only by a strictly closer one, as in the code's loop *)
Definition nearest (p q R : Z) : Z :=
  let lo := Z.min R (Z.max 0 (p / q)) in
  let hi := Z.min R (Z.max 0 (- ((- p) / q))) in
  if Z.abs (p - hi * q) <? Z.abs (p - lo * q) then hi else lo.

(* taiko: total T objects, m misses, target a/b.  accuracy(x) = (x + R) / (2T), R = T - m,
   raw = (a/b) * 2T - R = (2T*a - R*b) / b *)
Definition taiko_twin (T m a b : Z) : Z :=
  let R := T - m in nearest (2 * T * a - R * b) b R.
(* scaled distance to the target of choosing x: |a/b - (x+R)/(2T)| * 2T*b *)
Definition taiko_dist (T m a b x : Z) : Z := Z.abs (2 * T * a - (x + (T - m)) * b).

(* catch: fd = fruits + droplets caught, at_ tiny droplets, m misses, target a/b.
   accuracy(t) = (fd + t) / (fd + at_ + m); raw = (a/b) * (fd + at_ + m) - fd *)
Definition catch_twin (fd at_ m a b : Z) : Z :=
  let D := fd + at_ + m in nearest (D * a - fd * b) b at_.
Definition catch_dist (fd at_ m a b t : Z) : Z := Z.abs ((fd + at_ + m) * a - (fd + t) * b).

(* ---- evaluation on recorded traces ------------------------------------------------------- *)
(* the implementation's choice must be as close as the twin's up to 1e-12 in accuracy units
   (the float estimate may differ from the exact one in the last place, which matters only
   when two candidates are practically equidistant) *)
Definition tol_ok (d_impl d_twin scale : Z) : bool :=
  (d_impl - d_twin) * 1000000000000 <=? scale.

(* (id, T, m, a, b, n300 chosen by the implementation) *)
Definition taiko_twin_bad (cases : list (N * Z * Z * Z * Z * Z)) : list (N * N) :=
  flat_map (fun c => let '(id, T, m, a, b, x) := c in
    if tol_ok (taiko_dist T m a b x) (taiko_dist T m a b (taiko_twin T m a b)) (2 * T * b)
    then [] else [(id, 7%N)]) cases.

(* (id, fd, at_, m, a, b, tiny droplets chosen by the implementation) *)
Definition catch_twin_bad (cases : list (N * Z * Z * Z * Z * Z * Z)) : list (N * N) :=
  flat_map (fun c => let '(id, fd, at_, m, a, b, t) := c in
    if tol_ok (catch_dist fd at_ m a b t) (catch_dist fd at_ m a b (catch_twin fd at_ m a b)) ((fd + at_ + m) * b)
    then [] else [(id, 7%N)]) cases.
