(* Model/AttrsPath.v — performance from a map vs from previously computed attributes (C04):
   `MapOrAttrs`, `generate_state`, `calculate` as the GENERATED perf_map_arms table describes
   them.  The difficulty calculation, the state generation and the pp formula are oracles
   (the same ones in both paths).  Definitions only. *)
From Coq Require Import String List Bool ZArith.
From V Require Import Tables.
Import ListNotations.

Section AP.
Variable Map Attrs Diff Spec State Out : Type.
Variable difficulty : mode -> Diff -> Map -> Attrs.          (* Difficulty::calculate_for_mode::<M> *)
Variable gen : mode -> Attrs -> Diff -> Spec -> State.      (* state generation on attributes *)
Variable pp : mode -> Attrs -> Diff -> State -> Out.        (* the calculator; Out embeds Attrs *)

Inductive moa := MMap (m : Map) | MAttrs (a : Attrs).

(* attributes used: the Map arm calculates them for the mode the table names, with the
   builder's own Difficulty; the Attrs arm takes them as they are *)
Definition attrs_of (arms : list (mode * string * mode * bool * bool)) (fn : string) (m : mode)
           (x : moa) (d : Diff) : option Attrs :=
  match x with
  | MAttrs a => Some a
  | MMap mp =>
      match find (fun r => let '(m', f, _, _, _) := r in mode_eqb m m' && String.eqb f fn) arms with
      | Some (_, _, target, true, _) => Some (difficulty target d mp)
      | _ => None
      end
  end.

Definition generate_state arms (m : mode) (x : moa) (d : Diff) (s : Spec) : option (State * moa) :=
  match attrs_of arms "generate_state" m x d with
  | Some a => Some (gen m a d s, MAttrs a)          (* insert_attrs: the builder now holds Attrs *)
  | None => None
  end.

Definition calculate arms (m : mode) (x : moa) (d : Diff) (s : Spec) : option Out :=
  match find (fun r => let '(m', f, _, _, _) := r in mode_eqb m m' && String.eqb f "calculate") arms with
  | Some (_, _, _, _, true) =>
      match generate_state arms m x d s with
      | Some (st, x') =>
          match attrs_of arms "calculate" m x' d with
          | Some a => Some (pp m a d st)
          | None => None
          end
      | None => None
      end
  | _ => None
  end.
End AP.
Arguments MMap {Map Attrs}. Arguments MAttrs {Map Attrs}.

Definition all_modes_a : list mode := [Osu; Taiko; Catch; Mania].
Definition map_arms_check (arms : list (mode * string * mode * bool * bool)) : bool :=
  forallb (fun m =>
    match find (fun r => let '(m', f, _, _, _) := r in mode_eqb m m' && String.eqb f "generate_state") arms,
          find (fun r => let '(m', f, _, _, _) := r in mode_eqb m m' && String.eqb f "calculate") arms with
    | Some (_, _, t1, true, _), Some (_, _, t2, true, true) => mode_eqb t1 m && mode_eqb t2 m
    | _, _ => false
    end) all_modes_a.
Definition same_mode_arms (l : list (mode * mode)) (times : nat) : bool :=
  forallb (fun p => mode_eqb (fst p) (snd p)) l && Nat.eqb (length l) (4 * times)
  && forallb (fun m => existsb (fun p => mode_eqb (fst p) m) l) all_modes_a.
Definition payload_check (dpay ppay : string) : bool :=
  String.eqb dpay "attrs" && String.eqb ppay "attrs.difficulty".
