(* Model/AccCases.v — recorded accuracy values of the implementation against the exact model. *)
From Coq Require Import ZArith QArith Qabs List Bool Floats.
From V Require Import F64 F32 Attributes AttributesQ Accuracy.
Import ListNotations.
Open Scope Z_scope.

Definition close12 (a b : Q) : bool := Qle_bool (Qabs (a - b)) (1 # 1000000000000).

(* a case: id, the integer row printed by the harness, the accuracy word.
   rows: [0; tag; m1; m2; n300; n100; n50; misses; ends; large; small]   osu (tag 0 stable,
         1 with slider acc (m1 = max large ticks, m2 = max slider ends), 2 without (m2 = small))
         [1; n300; n100; misses]                                          taiko
         [2; fruits; droplets; tiny; tiny misses; misses]                 catch
         [3; classic; n320; n300; n200; n100; n50; misses]                mania *)
Definition exact_acc (row : list Z) : option Q :=
  match row with
  | [0; tag; m1; m2; n300; n100; n50; misses; ends; large; small] =>
      let o := if tag =? 0 then OStable else if tag =? 1 then OWithSliderAcc m1 m2 else OWithoutSliderAcc m1 m2 in
      Some (acc_of (osu_acc_nd o n300 n100 n50 misses ends large small))
  | [1; n300; n100; misses] => Some (acc_of (taiko_acc_nd n300 n100 misses))
  | [2; f; d; t; tm; m] => Some (acc_of (catch_acc_nd f d t tm m))
  | [3; classic; n320; n300; n200; n100; n50; misses] =>
      Some (acc_of (mania_acc_nd (negb (classic =? 0)) n320 n300 n200 n100 n50 misses))
  | _ => None
  end.

Definition acc_bad (cases : list (N * list Z * Z)) : list (N * N) :=
  flat_map (fun c => let '(id, row, w) := c in
                     match exact_acc row, Q_of_float (of_bits w) with
                     | Some e, Some g => if close12 e g then [] else [(id, 1%N)]
                     | _, _ => [(id, 2%N)]
                     end) cases.
