(* Model/AccCases.v — recorded accuracy values of the implementation against the exact model. *)
From Coq Require Import ZArith QArith Qabs List Bool Floats.
From V Require Import F64 F32 Attributes AttributesQ Accuracy.
Import ListNotations.
Open Scope Z_scope.

Definition close12 (a b : Q) : bool := Qle_bool (Qabs (a - b)) (1 # 1000000000000).

(* a case: id, the integer row printed by the harness, the accuracy word.
   rows: [0; tag; m1; m2; n300; n100; n50; misses; ends; large; small]   osu (tag 0 stable,
         1 with slider acc (m1 = max large ticks, m2 = max slider ends), 2 without (m2 = small))
         [1; n300; n100; misses]                                          taiko
         [2; fruits; droplets; tiny; tiny misses; misses]                 catch
         [3; classic; n320; n300; n200; n100; n50; misses]                mania *)
Definition exact_nd (row : list Z) : option (Z * Z) :=
  match row with
  | [0; tag; m1; m2; n300; n100; n50; misses; ends; large; small] =>
      let o := if tag =? 0 then OStable else if tag =? 1 then OWithSliderAcc m1 m2 else OWithoutSliderAcc m1 m2 in
      Some (osu_acc_nd o n300 n100 n50 misses ends large small)
  | [1; n300; n100; misses] => Some (taiko_acc_nd n300 n100 misses)
  | [2; f; d; t; tm; m] => Some (catch_acc_nd f d t tm m)
  | [3; classic; n320; n300; n200; n100; n50; misses] =>
      Some (mania_acc_nd (negb (classic =? 0)) n320 n300 n200 n100 n50 misses)
  | _ => None
  end.
Definition exact_acc (row : list Z) : option Q := option_map acc_of (exact_nd row).

(* `if denominator == 0 { 0.0 } else { f64::from(numerator) / f64::from(denominator) }` *)
Definition facc (nd : Z * Z) : float :=
  if (snd nd =? 0)%Z then 0%float else (of_Z (fst nd) / of_Z (snd nd))%float.


(* OsuScoreState::accuracy as the code computes it: integer parts converted exactly, the tick parts
   weighted with the binary64 constants 0.6 and 0.2, `denominator.eq(0.0)` = |d - 0| <= f64::EPSILON *)
Definition W06 : float := of_bits 4603579539098121011.    (* 0.6 *)
Definition W02 : float := of_bits 4596373779694328218.    (* 0.2 *)
Definition F_EPS : float := of_bits 4372995238176751616.  (* 2^-52 *)
Definition osu_facc_nd (o : osu_origin) (n300 n100 n50 misses ends large small : Z) : float * float :=
  let num := of_Z (6 * n300 + 2 * n100 + n50) in
  let den := of_Z (6 * (n300 + n100 + n50 + misses)) in
  match o with
  | OStable => (num, den)
  | OWithSliderAcc ml me =>
      ((num + (of_Z (3 * Z.min ends me) + W06 * of_Z (Z.min large ml)))%float,
       (den + (of_Z (3 * me) + W06 * of_Z ml))%float)
  | OWithoutSliderAcc ml ms =>
      ((num + (W06 * of_Z (Z.min large ml) + W02 * of_Z (Z.min small ms)))%float,
       (den + (W06 * of_Z ml + W02 * of_Z ms))%float)
  end.
Definition fquot (nd : float * float) : float :=
  if PrimFloat.leb (PrimFloat.abs (snd nd - 0)%float) F_EPS then 0%float else (fst nd / snd nd)%float.

Definition float_acc (row : list Z) : option float :=
  match row with
  | [0; tag; m1; m2; n300; n100; n50; misses; ends; large; small] =>
      let o := if tag =? 0 then OStable else if tag =? 1 then OWithSliderAcc m1 m2 else OWithoutSliderAcc m1 m2 in
      Some (fquot (osu_facc_nd o n300 n100 n50 misses ends large small))
  | _ => option_map facc (exact_nd row)
  end.

(* 1 = farther than 1e-12 from the exact accuracy, 2 = malformed row, 3 = not bit-identical to the
   float model *)
Definition acc_bad (cases : list (N * list Z * Z)) : list (N * N) :=
  flat_map (fun c => let '(id, row, w) := c in
                     match exact_nd row, float_acc row, Q_of_float (of_bits w) with
                     | Some nd, Some f, Some g =>
                         (if close12 (acc_of nd) g then [] else [(id, 1%N)]) ++
                         (if to_bits f =? w then [] else [(id, 3%N)])
                     | _, _, _ => [(id, 2%N)]
                     end) cases.
