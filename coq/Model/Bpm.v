(* Model/Bpm.v — `Beatmap::bpm` (src/model/beatmap/bpm.rs, after the fix a511aa0): cumulative
   duration per rounded beat length, the most common one wins, ties go to the beat length that
   appeared first.  The HashMap is an association list in insertion order; its iteration order
   is a separate parameter (any permutation) so that independence from it can be stated.
   Definitions only. *)
From Coq Require Import ZArith List Bool Floats.
From V Require Import F64.
Import ListNotations.
Open Scope Z_scope.

(* f64::round: half away from zero *)
Definition fround (f : float) : float :=
  match Prim2SF f with
  | S754_finite s m e =>
      if 0 <=? e then f else
        let d := 2 ^ (- e) in
        let q := Zpos m / d in
        let r := Zpos m mod d in
        let q' := if 2 * r <? d then q else q + 1 in
        if s then (if q' =? 0 then (-0)%float else of_Z (- q')) else of_Z q'
  | _ => f
  end.

(* entry: index of first appearance, beat length word, duration word *)
Record entry := mk_entry { e_idx : nat; e_key : Z; e_dur : Z }.

Definition key_of (beat_len : float) : Z := to_bits (fround (1000 * beat_len) / 1000)%float.

(* BeatLenDuration::add *)
Fixpoint add_entry (m : list entry) (n : nat) (key : Z) (inc : option float) : list entry :=
  match m with
  | [] => [mk_entry n key (to_bits (match inc with Some x => (0 + x)%float | None => 0%float end))]
  | e :: tl =>
      if e_key e =? key then
        mk_entry (e_idx e) key (match inc with
                                | Some x => to_bits (of_bits (e_dur e) + x)%float
                                | None => e_dur e end) :: tl
      else e :: add_entry tl n key inc
  end.
Definition add (last_time : float) (m : list entry) (beat_len curr next : float) : list entry :=
  add_entry m (length m) (key_of beat_len)
            (if PrimFloat.leb curr last_time then Some (next - curr)%float else None).

(* timing points as (time, beat_len) *)
Definition tp := (float * float)%type.

Fixpoint middle (last_time : float) (m : list entry) (tps : list tp) : list entry :=
  match tps with
  | (t1, b1) :: (((t2, _) :: _) as tl) => middle last_time (add last_time m b1 t1 t2) tl
  | _ => m
  end.

Definition last_tp (tps : list tp) : option tp :=
  match rev tps with x :: _ => Some x | [] => None end.

Definition entries (tps : list tp) (last_obj_end : option float) : list entry :=
  let last_time := match last_obj_end with
                   | Some t => t
                   | None => match last_tp tps with Some (t, _) => t | None => 0%float end
                   end in
  let m0 := match tps with
            | [] => []
            | [(_, b)] => add last_time [] b 0%float last_time
            | (_, b) :: (t2, _) :: _ => add last_time [] b 0%float t2
            end in
  let m1 := middle last_time m0 (tl tps) in
  match tps with
  | _ :: _ :: _ => match last_tp tps with
                   | Some (t, b) => add last_time m1 b t last_time
                   | None => m1 end
  | _ => m1
  end.

(* Iterator::max_by with the comparator `a.total_cmp(b).then_with(|| idx_b.cmp(idx_a))`:
   keeps the later element unless the earlier one is strictly greater *)
Definition gt (a b : entry) : bool :=
  (total_key (e_dur b) <? total_key (e_dur a))
  || ((total_key (e_dur a) =? total_key (e_dur b)) && (e_idx a <? e_idx b)%nat).
Definition best (a b : entry) : entry := if gt a b then a else b.
Definition max_by (l : list entry) : option entry :=
  match l with [] => None | x :: tl => Some (fold_left best tl x) end.

(* [order]: the order in which the map is iterated *)
Definition bpm_of (iterated : list entry) : float :=
  (60000 / match max_by iterated with Some e => of_bits (e_key e) | None => 0%float end)%float.
Definition bpm (tps : list tp) (last_obj_end : option float) : float :=
  bpm_of (entries tps last_obj_end).

(* ---- recorded cases: (id, [(time word, beat_len word)], last object end word or -1, bpm word) *)
Definition bpm_bad (cases : list (N * list (Z * Z) * Z * Z)) : list (N * N) :=
  flat_map (fun c => let '(id, tps, last, want) := c in
                     let tps' := map (fun p => (of_bits (fst p), of_bits (snd p))) tps in
                     let got := bpm tps' (if last <? 0 then None else Some (of_bits last)) in
                     if to_bits got =? want then [] else [(id, 1%N)]) cases.
