(* Model/GsCases.v — evaluation of recorded generate_state traces against Model/GenState. *)
From Coq Require Import ZArith NArith List Bool Floats.
From V Require Import F64 Gradual SvCases GenState GenStateMania.
Import ListNotations.
Open Scope Z_scope.

Inductive gs_case :=
| GOsu (i : osu_in)
| GTaiko (i : taiko_in)
| GCatch (i : catch_in)
| GMania (i : mania_in).

Definition gs_run (c : gs_case) : list Z * list Z :=
  match c with
  | GOsu i => let s := osu_generate i in
              (osu_state_list s, osu_state_list (osu_generate (osu_feed_back i s)))
  | GTaiko i => let s := taiko_generate i in
                (taiko_state_list s, taiko_state_list (taiko_generate (taiko_feed_back i s)))
  | GCatch i => let s := catch_generate i in
                (catch_state_list s, catch_state_list (catch_generate (catch_feed_back i s)))
  | GMania i => let s := mania_generate i in
                (mania_state_list s, mania_state_list (mania_generate (mania_feed_back i s)))
  end.

(* 0 = agrees, 1 = first generation differs, 2 = second generation differs *)
Definition gs_check (c : gs_case) (out out2 : list Z) : N :=
  let '(m1, m2) := gs_run c in
  if negb (list_eqb m1 out) then 1%N else if negb (list_eqb m2 out2) then 2%N else 0%N.

Definition gs_bad (cases : list (N * gs_case * list Z * list Z)) : list (N * N) :=
  flat_map (fun c => let '(id, g, o1, o2) := c in
                     match gs_check g o1 o2 with 0%N => [] | k => [(id, k)] end) cases.
