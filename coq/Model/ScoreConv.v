(* Model/ScoreConv.v — the conversions between the mode-agnostic ScoreState and the four mode
   states (src/any/score_state.rs), interpreted from the tables the translator regenerates on
   every run (Tables.score_conv).  A state is a function from field names to counts. *)
From Coq Require Import String List Bool ZArith.
From V Require Import Tables.
Import ListNotations.
Open Scope string_scope.

Definition sstate := string -> Z.

Fixpoint assoc (k : string) (l : list (string * string)) : option string :=
  match l with
  | [] => None
  | (a, b) :: tl => if String.eqb a k then Some b else assoc k tl
  end.

(* `Self { dst: state.src, … }`: field dst of the result reads field src of the argument, or is 0;
   a field that the literal does not mention does not exist in the target type (read as 0) *)
Definition conv (m : list (string * string)) (s : sstate) : sstate :=
  fun dst => match assoc dst m with
             | Some src => if String.eqb src "0" then 0%Z else s src
             | None => 0%Z
             end.

Definition table_of (from to : string) : option (list (string * string)) :=
  match filter (fun r => String.eqb (fst (fst r)) from && String.eqb (snd (fst r)) to) score_conv with
  | r :: _ => Some (snd r)
  | [] => None
  end.

Definition mode_states : list string := ["OsuScoreState"; "TaikoScoreState"; "CatchScoreState"; "ManiaScoreState"].

(* the fields of a mode state: the destinations of the conversion into it *)
Definition fields_of (m : list (string * string)) : list string := map fst m.

(* ScoreState -> mode -> ScoreState -> mode loses nothing: every field f of the mode state is
   written to some generic field g by `From<Mode> for ScoreState` and read back from exactly that
   g by `From<ScoreState> for Mode` *)
Definition roundtrip_field (to_mode from_mode : list (string * string)) (f : string) : bool :=
  match assoc f to_mode with
  | Some g => negb (String.eqb g "0") && negb (String.eqb f "0") &&
              match assoc g from_mode with Some f' => String.eqb f' f | None => false end
  | None => false
  end.

Definition roundtrip_ok (mode : string) : bool :=
  match table_of "ScoreState" mode, table_of mode "ScoreState" with
  | Some to_mode, Some from_mode =>
      negb (match to_mode with [] => true | _ => false end) &&
      forallb (roundtrip_field to_mode from_mode) (fields_of to_mode) &&
      forallb (fun r => negb (String.eqb (String.substring 0 1 (snd r)) "?")) (to_mode ++ from_mode)
  | _, _ => false
  end.
