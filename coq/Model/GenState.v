(* Model/GenState.v — the `generate_state` functions of the osu!, taiko and catch
   performance builders (src/{osu,taiko,catch}/performance/mod.rs), branch for branch.
   Integers are unbounded Z (u32 in the code; see the no-overflow guard in the proofs),
   the float estimates use the kernel's binary64.  Definitions only. *)
From Coq Require Import ZArith List Bool Floats.
From V Require Import F64 Gradual.
Import ListNotations.
Open Scope Z_scope.

Definition F64_MAX : float := 0x1.fffffffffffffp+1023%float.
Definition omin (o : option Z) (cap : Z) : Z :=
  match o with Some n => Z.min n cap | None => 0 end.
Definition is_some {A} (o : option A) : bool := match o with Some _ => true | None => false end.

(* candidates lo..=hi of a `for x in lo..=hi` loop *)
Definition range_incl (lo hi : Z) : list Z :=
  if hi <? lo then [] else zrange lo (Z.to_nat (hi - lo + 1)).

(* `for x in xs { let d = dist(x); if d < best_dist { best_dist = d; best = cand(x) } }` *)
Definition pick {B} (cand : Z -> B) (dist : Z -> float) (xs : list Z) (init : float * B)
  : float * B :=
  fold_left (fun (st : float * B) x =>
               let d := dist x in if PrimFloat.ltb d (fst st) then (d, cand x) else st) xs init.

Definition fdiv_z (num den : Z) : float := (of_Z num / of_Z den)%float.
Definition fdist (acc x : float) : float := PrimFloat.abs (acc - x)%float.

(* ================================== osu! ================================== *)
Inductive osu_origin := OStable | OWithSliderAcc | OWithoutSliderAcc.

Record osu_in := mk_osu_in {
  oi_n_objects : Z;          (* n_circles + n_sliders + n_spinners *)
  oi_sliders : Z; oi_large_ticks : Z; oi_max_combo : Z;
  oi_passed : Z;             (* get_passed_objects() as u32 *)
  oi_combo : option Z; oi_n300 : option Z; oi_n100 : option Z; oi_n50 : option Z;
  oi_misses : option Z; oi_large : option Z; oi_small : option Z; oi_ends : option Z;
  oi_acc : option float;     (* already clamped to [0,100] and divided by 100 *)
  oi_best : bool;            (* HitResultPriority::BestCase *)
  oi_lazer : bool; oi_classic : bool }.

Record osu_state := mk_osu_state {
  os_combo : Z; os_large : Z; os_small : Z; os_ends : Z;
  os_n300 : Z; os_n100 : Z; os_n50 : Z; os_misses : Z }.
Definition osu_state_list (s : osu_state) : list Z :=
  [os_combo s; os_large s; os_small s; os_ends s; os_n300 s; os_n100 s; os_n50 s; os_misses s].

Definition osu_origin_of (i : osu_in) : osu_origin :=
  if negb (oi_lazer i) then OStable
  else if oi_classic i then OWithoutSliderAcc else OWithSliderAcc.

(* (slider_end_hits, large_tick_hits, small_tick_hits) *)
Definition osu_slider_parts (i : osu_in) : Z * Z * Z :=
  match osu_origin_of i with
  | OStable => (0, 0, 0)
  | OWithSliderAcc =>
      (match oi_ends i with Some n => Z.min n (oi_sliders i) | None => oi_sliders i end,
       match oi_large i with Some n => Z.min n (oi_large_ticks i) | None => oi_large_ticks i end,
       0)
  | OWithoutSliderAcc =>
      (0,
       match oi_large i with
       | Some n => Z.min n (oi_sliders i + oi_large_ticks i)
       | None => oi_sliders i + oi_large_ticks i end,
       match oi_small i with Some n => Z.min n (oi_sliders i) | None => oi_sliders i end)
  end.

(* (slider_acc_value, max_slider_acc_value) *)
Definition osu_slider_acc (i : osu_in) : Z * Z :=
  let '(ends, large, small) := osu_slider_parts i in
  match osu_origin_of i with
  | OStable => (0, 0)
  | OWithSliderAcc => (150 * ends + 30 * large, 150 * oi_sliders i + 30 * oi_large_ticks i)
  | OWithoutSliderAcc =>
      (30 * large + 10 * small, 30 * (oi_sliders i + oi_large_ticks i) + 10 * oi_sliders i)
  end.

(* NoComboState::accuracy; the slider hits are already clamped to their maxima *)
Definition osu_acc_num_den (i : osu_in) (n300 n100 n50 misses : Z) : Z * Z :=
  let '(sv, msv) := osu_slider_acc i in
  (300 * n300 + 100 * n100 + 50 * n50 + sv, 300 * (n300 + n100 + n50 + misses) + msv).
Definition osu_accuracy (i : osu_in) (n300 n100 n50 misses : Z) : float :=
  let '(num, den) := osu_acc_num_den i n300 n100 n50 misses in
  if den =? 0 then 0%float else fdiv_z num den.

(* the (n300, n100, n50) chosen by generate_state *)
Definition osu_hits (i : osu_in) : Z * Z * Z :=
  let n_objects := Z.min (oi_passed i) (oi_n_objects i) in
  let misses := omin (oi_misses i) n_objects in
  let n_remaining := n_objects - misses in
  let n300 := omin (oi_n300 i) n_remaining in
  let n100 := omin (oi_n100 i) n_remaining in
  let n50 := omin (oi_n50 i) n_remaining in
  let '(ends, large, small) := osu_slider_parts i in
  let '(sv, msv) := osu_slider_acc i in
  match oi_acc i with
    | Some acc =>
        let target_total := (acc * of_Z (300 * n_objects + msv))%float in
        let dist a b c := fdist acc (osu_accuracy i a b c misses) in
        match oi_n300 i, oi_n100 i, oi_n50 i with
        | Some _, Some _, Some _ =>
            let remaining := sat_sub n_objects (n300 + n100 + n50 + misses) in
            if oi_best i then (n300 + remaining, n100, n50) else (n300, n100, n50 + remaining)
        | Some _, Some _, None => (n300, n100, sat_sub n_objects (n300 + n100 + misses))
        | Some _, None, Some _ => (n300, sat_sub n_objects (n300 + n50 + misses), n50)
        | None, Some _, Some _ => (sat_sub n_objects (n100 + n50 + misses), n100, n50)
        | Some _, None, None =>
            let n300 := Z.min n300 n_remaining in
            let n_rem := n_remaining - n300 in
            let raw := ((target_total - of_Z (50 * n_rem + 300 * n300 + sv)) / 50)%float in
            let lo := Z.min n_rem (to_u32 (ffloor raw)) in
            let hi := Z.min n_rem (to_u32 (fceil raw)) in
            let '(b100, b50) :=
              snd (pick (fun new100 => (new100, n_rem - new100))
                        (fun new100 => dist n300 new100 (n_rem - new100))
                        (range_incl lo hi) (F64_MAX, (n100, n50))) in
            (n300, b100, b50)
        | None, Some _, None =>
            let n100 := Z.min n100 n_remaining in
            let n_rem := n_remaining - n100 in
            let raw := ((target_total - of_Z (50 * n_rem + 100 * n100 + sv)) / 250)%float in
            let lo := Z.min n_rem (to_u32 (ffloor raw)) in
            let hi := Z.min n_rem (to_u32 (fceil raw)) in
            let '(b300, b50) :=
              snd (pick (fun new300 => (new300, n_rem - new300))
                        (fun new300 => dist new300 n100 (n_rem - new300))
                        (range_incl lo hi) (F64_MAX, (n300, n50))) in
            (b300, n100, b50)
        | None, None, Some _ =>
            let n50 := Z.min n50 n_remaining in
            let n_rem := n_remaining - n50 in
            let raw := ((target_total + of_Z (100 * misses + 50 * n50)
                         - of_Z (100 * n_objects + sv)) / 200)%float in
            let lo := Z.min n_rem (to_u32 (ffloor raw)) in
            let hi := Z.min n_rem (to_u32 (fceil raw)) in
            let '(b300, b100) :=
              snd (pick (fun new300 => (new300, n_rem - new300))
                        (fun new300 => dist new300 (n_rem - new300) n50)
                        (range_incl lo hi) (F64_MAX, (n300, n100))) in
            (b300, b100, n50)
        | None, None, None =>
            let raw300 := ((target_total - of_Z (50 * n_remaining + sv)) / 250)%float in
            let lo300 := Z.min n_remaining (to_u32 (ffloor raw300)) in
            let hi300 := Z.min n_remaining (to_u32 (fceil raw300)) in
            let '(b300, b100, b50) :=
              snd (fold_left
                (fun (st : float * (Z * Z * Z)) new300 =>
                   let raw100 := ((target_total - of_Z (50 * n_remaining + 250 * new300 + sv))
                                  / 50)%float in
                   let lo100 := Z.min (to_u32 (ffloor raw100)) (n_remaining - new300) in
                   let hi100 := Z.min (to_u32 (fceil raw100)) (n_remaining - new300) in
                   pick (fun new100 => (new300, new100, n_remaining - new300 - new100))
                        (fun new100 => dist new300 new100 (n_remaining - new300 - new100))
                        (range_incl lo100 hi100) st)
                (range_incl lo300 hi300) (F64_MAX, (n300, n100, n50))) in
            if oi_best i then
              let n := Z.min b300 (b50 / 4) in (b300 - n, b100 + 5 * n, b50 - 4 * n)
            else
              let n := b100 / 5 in (b300 + n, b100 - 5 * n, b50 + 4 * n)
        end
    | None =>
        let remaining := sat_sub n_objects (n300 + n100 + n50 + misses) in
        if oi_best i then
          match oi_n300 i, oi_n100 i, oi_n50 i with
          | None, _, _ => (remaining, n100, n50)
          | _, None, _ => (n300, remaining, n50)
          | _, _, None => (n300, n100, remaining)
          | _, _, _ => (n300 + remaining, n100, n50)
          end
        else
          match oi_n50 i, oi_n100 i, oi_n300 i with
          | None, _, _ => (n300, n100, remaining)
          | _, None, _ => (n300, remaining, n50)
          | _, _, None => (remaining, n100, n50)
          | _, _, _ => (n300, n100, n50 + remaining)
          end
    end.

Definition osu_generate (i : osu_in) : osu_state :=
  let n_objects := Z.min (oi_passed i) (oi_n_objects i) in
  let misses := omin (oi_misses i) n_objects in
  let '(ends, large, small) := osu_slider_parts i in
  let '(n300, n100, n50) := osu_hits i in
  let max_possible := sat_sub (oi_max_combo i) misses in
  let combo := match oi_combo i with Some c => Z.min c max_possible | None => max_possible end in
  mk_osu_state combo large small ends n300 n100 n50 misses.

(* what a second call sees: every field is Some of the generated value *)
Definition osu_feed_back (i : osu_in) (s : osu_state) : osu_in :=
  mk_osu_in (oi_n_objects i) (oi_sliders i) (oi_large_ticks i) (oi_max_combo i) (oi_passed i)
            (Some (os_combo s)) (Some (os_n300 s)) (Some (os_n100 s)) (Some (os_n50 s))
            (Some (os_misses s)) (Some (os_large s)) (Some (os_small s)) (Some (os_ends s))
            (oi_acc i) (oi_best i) (oi_lazer i) (oi_classic i).

(* ================================== taiko ================================== *)
Record taiko_in := mk_taiko_in {
  ti_max_combo : Z; ti_passed : Z;
  ti_combo : option Z; ti_n300 : option Z; ti_n100 : option Z; ti_misses : option Z;
  ti_acc : option float; ti_best : bool }.
Record taiko_state := mk_taiko_state { ts_combo : Z; ts_n300 : Z; ts_n100 : Z; ts_misses : Z }.
Definition taiko_state_list (s : taiko_state) := [ts_combo s; ts_n300 s; ts_n100 s; ts_misses s].

Definition taiko_accuracy (n300 n100 misses : Z) : float :=
  if n300 + n100 + misses =? 0 then 0%float
  else fdiv_z (2 * n300 + n100) (2 * (n300 + n100 + misses)).

Definition taiko_generate (i : taiko_in) : taiko_state :=
  let total := Z.min (ti_passed i) (ti_max_combo i) in
  let misses := omin (ti_misses i) total in
  let n_remaining := total - misses in
  let n300 := omin (ti_n300 i) n_remaining in
  let n100 := omin (ti_n100 i) n_remaining in
  let '(n300, n100) :=
    match ti_acc i with
    | Some acc =>
        match ti_n300 i, ti_n100 i with
        | Some _, Some _ =>
            let remaining := sat_sub total (n300 + n100 + misses) in
            if ti_best i then (n300 + remaining, n100) else (n300, n100 + remaining)
        | Some _, None => (n300, n100 + sat_sub total (n300 + misses))
        | None, Some _ => (n300 + sat_sub total (n100 + misses), n100)
        | None, None =>
            let target_total := (acc * of_Z (2 * total))%float in
            let raw := (target_total - of_Z n_remaining)%float in
            let lo := Z.min n_remaining (to_u32 (ffloor raw)) in
            let hi := Z.min n_remaining (to_u32 (fceil raw)) in
            snd (pick (fun new300 => (new300, n_remaining - new300))
                      (fun new300 => fdist acc (taiko_accuracy new300 (n_remaining - new300) misses))
                      (range_incl lo hi) (F64_MAX, (n300, n100)))
        end
    | None =>
        let remaining := sat_sub total (n300 + n100 + misses) in
        if ti_best i then
          match ti_n300 i, ti_n100 i with
          | None, _ => (remaining, n100)
          | _, None => (n300, remaining)
          | _, _ => (n300 + remaining, n100)
          end
        else
          match ti_n100 i, ti_n300 i with
          | None, _ => (n300, remaining)
          | _, None => (remaining, n100)
          | _, _ => (n300, n100 + remaining)
          end
    end in
  let max_possible := sat_sub (ti_max_combo i) misses in
  let combo := match ti_combo i with Some c => Z.min c max_possible | None => max_possible end in
  mk_taiko_state combo n300 n100 misses.

Definition taiko_feed_back (i : taiko_in) (s : taiko_state) : taiko_in :=
  mk_taiko_in (ti_max_combo i) (ti_passed i) (Some (ts_combo s)) (Some (ts_n300 s))
              (Some (ts_n100 s)) (Some (ts_misses s)) (ti_acc i) (ti_best i).

(* ================================== catch ================================== *)
Record catch_in := mk_catch_in {
  ci_fruits : Z; ci_droplets : Z; ci_tiny : Z;
  ci_combo : option Z; ci_o_fruits : option Z; ci_o_droplets : option Z;
  ci_o_tiny : option Z; ci_o_tiny_misses : option Z; ci_misses : option Z;
  ci_acc : option float }.
Record catch_state := mk_catch_state {
  cs_combo : Z; cs_fruits : Z; cs_droplets : Z; cs_tiny : Z; cs_tiny_misses : Z; cs_misses : Z }.
Definition catch_state_list (s : catch_state) :=
  [cs_combo s; cs_fruits s; cs_droplets s; cs_tiny s; cs_tiny_misses s; cs_misses s].

(* the local `accuracy` of catch/performance/mod.rs: no zero-denominator guard (0/0 = NaN) *)
Definition catch_accuracy (f d t tm m : Z) : float := fdiv_z (f + d + t) (f + d + t + tm + m).

(* fruits and droplets: the `match (self.fruits, self.droplets)` of generate_state *)
Definition catch_fd (i : catch_in) (misses : Z) : Z * Z :=
  let af := ci_fruits i in let ad := ci_droplets i in
  let total := af + ad in
  match ci_o_fruits i, ci_o_droplets i with
  | Some f, Some d =>
      let n_remaining := sat_sub total (f + d + misses) in
      let new_d := Z.min n_remaining (sat_sub ad d) in
      let d := d + new_d in
      let f := f + (n_remaining - new_d) in
      let f := Z.min f (sat_sub total (d + misses)) in
      let d := Z.min d (total - f - misses) in
      (f, d)
  | Some f, None =>
      let d := sat_sub ad (sat_sub misses (sat_sub af f)) in
      (total - misses - d, d)
  | None, Some d =>
      let f := sat_sub af (sat_sub misses (sat_sub ad d)) in
      (f, total - misses - f)
  | None, None =>
      let d := sat_sub ad misses in
      (af - (misses - sat_sub ad d), d)
  end.

(* the closure `find_best_tiny_droplets` *)
Definition catch_find_best (i : catch_in) (nf nd misses : Z) (acc : float) : Z * Z :=
  let af := ci_fruits i in let ad := ci_droplets i in let at_ := ci_tiny i in
  let raw := (acc * of_Z (af + ad + at_) - of_Z (nf + nd))%float in
  let lo := Z.min at_ (to_u32 (ffloor raw)) in
  let hi := Z.min at_ (to_u32 (fceil raw)) in
  snd (pick (fun t => (t, at_ - t))
            (fun t => fdist acc (catch_accuracy nf nd t (at_ - t) misses))
            (range_incl lo hi) (infinity, (0, 0))).

(* tiny droplets and tiny droplet misses *)
Definition catch_tiny (i : catch_in) (nf nd misses : Z) : Z * Z :=
  let at_ := ci_tiny i in
  match ci_o_tiny i, ci_o_tiny_misses i with
  | Some t, Some tm =>
      match ci_acc i with
      | Some acc => if t + tm =? at_ then (t, tm) else catch_find_best i nf nd misses acc
      | None => (t + sat_sub at_ (t + tm), tm)
      end
  | Some t, None => (Z.min at_ t, sat_sub at_ t)
  | None, Some tm => (sat_sub at_ tm, Z.min at_ tm)
  | None, None =>
      match ci_acc i with
      | Some acc => catch_find_best i nf nd misses acc
      | None => (at_, 0)
      end
  end.

Definition catch_generate (i : catch_in) : catch_state :=
  let total := ci_fruits i + ci_droplets i in
  let misses := omin (ci_misses i) total in
  let max_possible := sat_sub total misses in       (* max_combo() = n_fruits + n_droplets *)
  let combo := match ci_combo i with Some c => Z.min c max_possible | None => max_possible end in
  let '(nf, nd) := catch_fd i misses in
  let '(t, tm) := catch_tiny i nf nd misses in
  mk_catch_state combo nf nd t tm misses.

Definition catch_feed_back (i : catch_in) (s : catch_state) : catch_in :=
  mk_catch_in (ci_fruits i) (ci_droplets i) (ci_tiny i) (Some (cs_combo s)) (Some (cs_fruits s))
              (Some (cs_droplets s)) (Some (cs_tiny s)) (Some (cs_tiny_misses s))
              (Some (cs_misses s)) (ci_acc i).
