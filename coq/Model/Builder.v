(* Model/Builder.v — `Difficulty` (src/any/difficulty/mod.rs), its inspectable form
   (src/any/difficulty/inspect.rs) and the `Performance` setters interpreted THROUGH THE
   GENERATED TABLES (Generated/Tables.v, regenerated from the source on every run).
   f32 overrides are embedded in binary64 (every binary32 value is one; the clamp bounds
   -20, 20 are exact in both), the clock rate is its f64 value.  Definitions only. *)
From Coq Require Import String List Bool ZArith Floats.
From V Require Import Tables.
Import ListNotations.
Open Scope string_scope.

(* f64::clamp / f32::clamp:  if x < lo {x = lo}  if x > hi {x = hi}  x   (NaN passes) *)
Definition fclamp (lo hi x : float) : float :=
  let x1 := if PrimFloat.ltb x lo then lo else x in
  if PrimFloat.ltb hi x1 then hi else x1.

Definition clamp_rate := fclamp 0x1.47ae147ae147bp-7%float 100%float.     (* 0.01, 100.0 *)
Definition clamp_attr := fclamp (-20)%float 20%float.

Section WithMods.
Variable M : Type.                       (* the GameMods value, opaque here *)

Record diff := mk_diff {
  d_mods : M;
  d_passed : option Z;
  d_clock : option float;
  d_ar : option (float * bool);
  d_cs : option (float * bool);
  d_hp : option (float * bool);
  d_od : option (float * bool);
  d_hro : option bool;
  d_lazer : option bool }.

Definition diff_new (m0 : M) : diff := mk_diff m0 None None None None None None None None.

(* one setter call *)
Inductive sop :=
| SMods (m : M) | SPassed (n : Z) | SClock (x : float)
| SAr (x : float) (w : bool) | SCs (x : float) (w : bool)
| SHp (x : float) (w : bool) | SOd (x : float) (w : bool)
| SHro (b : bool) | SLazer (b : bool).

Definition sop_name (o : sop) : string :=
  match o with
  | SMods _ => "mods" | SPassed _ => "passed_objects" | SClock _ => "clock_rate"
  | SAr _ _ => "ar" | SCs _ _ => "cs" | SHp _ _ => "hp" | SOd _ _ => "od"
  | SHro _ => "hardrock_offsets" | SLazer _ => "lazer"
  end.

(* Difficulty::<setter> *)
Definition diff_apply (d : diff) (o : sop) : diff :=
  match o with
  | SMods m => mk_diff m (d_passed d) (d_clock d) (d_ar d) (d_cs d) (d_hp d) (d_od d) (d_hro d) (d_lazer d)
  | SPassed n => mk_diff (d_mods d) (Some n) (d_clock d) (d_ar d) (d_cs d) (d_hp d) (d_od d) (d_hro d) (d_lazer d)
  | SClock x => mk_diff (d_mods d) (d_passed d) (Some (clamp_rate x)) (d_ar d) (d_cs d) (d_hp d) (d_od d) (d_hro d) (d_lazer d)
  | SAr x w => mk_diff (d_mods d) (d_passed d) (d_clock d) (Some (clamp_attr x, w)) (d_cs d) (d_hp d) (d_od d) (d_hro d) (d_lazer d)
  | SCs x w => mk_diff (d_mods d) (d_passed d) (d_clock d) (d_ar d) (Some (clamp_attr x, w)) (d_hp d) (d_od d) (d_hro d) (d_lazer d)
  | SHp x w => mk_diff (d_mods d) (d_passed d) (d_clock d) (d_ar d) (d_cs d) (Some (clamp_attr x, w)) (d_od d) (d_hro d) (d_lazer d)
  | SOd x w => mk_diff (d_mods d) (d_passed d) (d_clock d) (d_ar d) (d_cs d) (d_hp d) (Some (clamp_attr x, w)) (d_hro d) (d_lazer d)
  | SHro b => mk_diff (d_mods d) (d_passed d) (d_clock d) (d_ar d) (d_cs d) (d_hp d) (d_od d) (Some b) (d_lazer d)
  | SLazer b => mk_diff (d_mods d) (d_passed d) (d_clock d) (d_ar d) (d_cs d) (d_hp d) (d_od d) (d_hro d) (Some b)
  end.

(* Difficulty::inspect and InspectDifficulty::into_difficulty.  The inspectable form has the
   same fields (clock rate as f64); into_difficulty replays the setters for the fields set. *)
Definition inspect (d : diff) : diff := d.
Definition opt_apply {A} (f : diff -> A -> diff) (d : diff) (o : option A) : diff :=
  match o with Some a => f d a | None => d end.
Definition into_difficulty (i : diff) : diff :=
  let d := diff_apply (diff_new (d_mods i)) (SMods (d_mods i)) in
  let d := opt_apply (fun d n => diff_apply d (SPassed n)) d (d_passed i) in
  let d := opt_apply (fun d x => diff_apply d (SClock x)) d (d_clock i) in
  let d := opt_apply (fun d (p : float * bool) => diff_apply d (SAr (fst p) (snd p))) d (d_ar i) in
  let d := opt_apply (fun d (p : float * bool) => diff_apply d (SCs (fst p) (snd p))) d (d_cs i) in
  let d := opt_apply (fun d (p : float * bool) => diff_apply d (SHp (fst p) (snd p))) d (d_hp i) in
  let d := opt_apply (fun d (p : float * bool) => diff_apply d (SOd (fst p) (snd p))) d (d_od i) in
  let d := opt_apply (fun d b => diff_apply d (SHro b)) d (d_hro i) in
  opt_apply (fun d b => diff_apply d (SLazer b)) d (d_lazer i).

(* stored values are fixed points of their clamp: true of every Difficulty built by setters *)
Definition fixp (c : float -> float) (x : float) : Prop := c x = x.
Definition wf (d : diff) : Prop :=
  (forall x, d_clock d = Some x -> fixp clamp_rate x) /\
  (forall x w, d_ar d = Some (x, w) -> fixp clamp_attr x) /\
  (forall x w, d_cs d = Some (x, w) -> fixp clamp_attr x) /\
  (forall x w, d_hp d = Some (x, w) -> fixp clamp_attr x) /\
  (forall x w, d_od d = Some (x, w) -> fixp clamp_attr x).

(* ---- Performance: a mode, the Difficulty it carries; score fields are not modelled ---- *)
Record perf := mk_perf { p_mode : mode; p_diff : diff }.

Fixpoint lookup2 {A} (tbl : list (string * mode * A)) (s : string) (m : mode) : option A :=
  match tbl with
  | [] => None
  | (s', m', a) :: tl => if String.eqb s s' && mode_eqb m m' then Some a else lookup2 tl s m
  end.
Fixpoint lookup_builder (tbl : list (mode * string * bkind)) (m : mode) (s : string) : option bkind :=
  match tbl with
  | [] => None
  | (m', s', k) :: tl => if String.eqb s s' && mode_eqb m m' then Some k else lookup_builder tl m s
  end.

(* the Difficulty setter a Performance setter ends up calling for this mode, per the tables:
   Some (Some name) = forwarded to Difficulty::name with the same arguments,
   Some None = the call is a no-op for this mode, None = not understood *)
Definition perf_route (dispatch : list (string * mode * dtarget))
           (builders : list (mode * string * bkind)) (name : string) (m : mode)
  : option (option string) :=
  match lookup2 dispatch name m with
  | Some DNoop => Some None
  | Some (DCall method true) =>
      match lookup_builder builders m method with
      | Some (BForward setter true) => Some (Some setter)
      | _ => None
      end
  | _ => None
  end.

(* Performance::<setter> as the tables describe it *)
Definition perf_apply dispatch builders (p : perf) (o : sop) : perf :=
  match perf_route dispatch builders (sop_name o) (p_mode p) with
  | Some (Some setter) => if String.eqb setter (sop_name o)
                          then mk_perf (p_mode p) (diff_apply (p_diff p) o) else p
  | _ => p
  end.

(* setters that are no-ops for a mode *)
Definition noop_for dispatch (m : mode) (o : sop) : bool :=
  match lookup2 dispatch (sop_name o) m with Some DNoop => true | _ => false end.
End WithMods.

Arguments mk_diff {M}. Arguments diff_new {M}. Arguments diff_apply {M}.
Arguments d_mods {M}. Arguments d_passed {M}. Arguments d_clock {M}. Arguments d_ar {M}.
Arguments d_cs {M}. Arguments d_hp {M}. Arguments d_od {M}. Arguments d_hro {M}. Arguments d_lazer {M}.
Arguments inspect {M}. Arguments into_difficulty {M}. Arguments wf {M}.
Arguments mk_perf {M}. Arguments p_mode {M}. Arguments p_diff {M}.
Arguments perf_apply {M}. Arguments noop_for {M}. Arguments sop_name {M}.
Arguments SMods {M}. Arguments SPassed {M}. Arguments SClock {M}. Arguments SAr {M}. Arguments SCs {M}.
Arguments SHp {M}. Arguments SOd {M}. Arguments SHro {M}. Arguments SLazer {M}.

(* ---- checks of the generated tables (booleans evaluated by the kernel) ---------------- *)
Definition all_setter_names : list string :=
  ["mods"; "passed_objects"; "clock_rate"; "ar"; "cs"; "hp"; "od"; "hardrock_offsets"; "lazer"].
Definition all_modes : list mode := [Osu; Taiko; Catch; Mania].

(* every Difficulty-related Performance setter is, for every mode, either forwarded to the
   Difficulty setter of the same name with the same arguments, or a no-op *)
Definition route_ok dispatch builders (name : string) (m : mode) : bool :=
  match perf_route dispatch builders name m with
  | Some (Some setter) => String.eqb setter name
  | Some None => true
  | None => false
  end.
Definition setters_forward_check dispatch builders : bool :=
  forallb (fun n => forallb (route_ok dispatch builders n) all_modes) all_setter_names.

(* `Performance::difficulty` replaces the Difficulty in every mode *)
Definition difficulty_replaces_check (dispatch : list (string * mode * dtarget)) builders : bool :=
  forallb (fun m => match lookup2 dispatch "difficulty" m with
                    | Some (DCall method true) =>
                        match lookup_builder builders m method with Some BSetDifficulty => true | _ => false end
                    | _ => false end) all_modes.

Fixpoint lookup1 {A} (tbl : list (string * A)) (s : string) : option A :=
  match tbl with
  | [] => None
  | (s', a) :: tl => if String.eqb s s' then Some a else lookup1 tl s
  end.
Definition mem_mode (m : mode) (l : list mode) : bool := existsb (mode_eqb m) l.
Definition documented_irrelevant (doc : list (string * docrel)) (name : string) (m : mode) : bool :=
  match lookup1 doc name with
  | Some (DocOnly ms) => negb (mem_mode m ms)
  | Some (DocNot ms) => mem_mode m ms
  | _ => false
  end.
(* a setter documented as irrelevant for a mode is a no-op arm for that mode; and no arm is
   unparsed anywhere in the table *)
Definition noop_documented_check (dispatch : list (string * mode * dtarget)) doc : bool :=
  forallb (fun r => let '(name, m, t) := r in
                    match t with
                    | DUnparsed _ => false
                    | DNoop => true
                    | DCall _ same => same && negb (documented_irrelevant doc name m)
                    end) dispatch.

(* Difficulty setters write the field of their own name with the documented clamp *)
Definition clamp_eqb (a b : clampk) : bool :=
  match a, b with
  | NoClamp, NoClamp => true
  | Clamp l h, Clamp l' h' => String.eqb l l' && String.eqb h h'
  | _, _ => false
  end.
Definition expected_clamp (name : string) : clampk :=
  if String.eqb name "clock_rate" then Clamp "0.01" "100.0"
  else if existsb (String.eqb name) ["ar"; "cs"; "hp"; "od"] then Clamp "-20.0" "20.0"
  else NoClamp.
Definition difficulty_setters_check (tbl : list (string * string * clampk)) : bool :=
  forallb (fun n => match lookup1 (map (fun r => let '(a, b, c) := r in (a, (b, c))) tbl) n with
                    | Some (field, c) => String.eqb field n && clamp_eqb c (expected_clamp n)
                    | None => false end) all_setter_names
  && Nat.eqb (length tbl) (length all_setter_names).
(* inspect() copies every field, into_difficulty() replays the setter of the same name *)
Definition inspect_check (fields : list string) (insp : list (string * string))
           (into : list (string * string * string)) : bool :=
  forallb (fun f => match lookup1 insp f with
                    | Some e => String.eqb e f || (String.eqb f "clock_rate" && String.eqb e "clock_rate.map(non_zero_u64_to_f64)")
                    | None => false end) fields
  && forallb (fun f => existsb (fun r => let '(src, setter, args) := r in
                                         String.eqb src f && String.eqb setter f &&
                                         (String.eqb args f || String.eqb args (f ++ ".value, " ++ f ++ ".with_mods"))) into) fields
  && Nat.eqb (length fields) 9 && Nat.eqb (length insp) 9 && Nat.eqb (length into) 9.
