(* Model/AttributesQ.v — exact-arithmetic twin (over Q) of the AR/OD/CS/HP part of
   Model/Attributes.v: the same formulas without rounding.  The twin is what the
   monotonicity / round-trip / ordering theorems are about ("up to float rounding" in the
   property); its agreement with the float model that is run against the code is validated
   numerically inside Coq on every recorded case (twin_bad below), not proved. *)
From Coq Require Import ZArith QArith Qminmax Qabs List Bool Floats.
From V Require Import F64 F32 Attributes.
Import ListNotations.
Open Scope Q_scope.

Record windowsQ := mk_winQ { q_min : Q; q_avg : Q; q_max : Q }.
Definition OSU_GREAT_Q := mk_winQ 80 50 20.
Definition OSU_OK_Q := mk_winQ 140 100 60.
Definition OSU_MEH_Q := mk_winQ 200 150 100.
Definition TAIKO_GREAT_Q := mk_winQ 50 35 20.
Definition TAIKO_OK_Q := mk_winQ 120 80 50.
Definition AR_WINDOWS_Q := mk_winQ 1800 1200 450.
Definition all_windows_Q :=
  [OSU_GREAT_Q; OSU_OK_Q; OSU_MEH_Q; TAIKO_GREAT_Q; TAIKO_OK_Q; AR_WINDOWS_Q].

Definition Qltb (a b : Q) : bool := negb (Qle_bool b a).

Definition rangeQ (d : Q) (w : windowsQ) : Q :=
  if Qltb 5 d then q_avg w + (q_max w - q_avg w) * (d - 5) * (1 # 5)
  else if Qltb d 5 then q_avg w - (q_avg w - q_min w) * (5 - d) * (1 # 5)
  else q_avg w.

Definition mod_multQ (hr ez : bool) (v : Q) : Q :=
  if hr then Qmin (v * (14 # 10)) 10 else if ez then v * (1 # 2) else v.

(* the raw value a window is computed from, and the clock rate it is divided by *)
Definition rawQ (hr ez with_mods : bool) (v : Q) : Q := if with_mods then v else mod_multQ hr ez v.
Definition clockQ (with_mods : bool) (rate : Q) : Q := if with_mods then 1 else rate.

Definition windowQ (w : windowsQ) (hr ez with_mods : bool) (v rate : Q) : Q :=
  rangeQ (rawQ hr ez with_mods v) w / clockQ with_mods rate.

(* build(): AR from the preempt time, OD from the great window *)
Definition ar_of_preemptQ (p : Q) : Q :=
  if Qltb 1200 p then (1800 - p) * (1 # 120) else (1200 - p) * (1 # 150) + 5.
Definition od_of_great_osuQ (g : Q) : Q := (80 - g) * (1 # 6).
Definition od_of_great_taikoQ (g : Q) : Q := (50 - g) * (1 # 15) * 5.

Definition arQ hr ez with_mods v rate := ar_of_preemptQ (windowQ AR_WINDOWS_Q hr ez with_mods v rate).
Definition od_osuQ hr ez with_mods v rate := od_of_great_osuQ (windowQ OSU_GREAT_Q hr ez with_mods v rate).
Definition od_taikoQ hr ez with_mods v rate := od_of_great_taikoQ (windowQ TAIKO_GREAT_Q hr ez with_mods v rate).

Definition hpQ (hr ez with_mods : bool) (v : Q) : Q :=
  Qmin (if with_mods then v else v * (if hr then 14 # 10 else if ez then 1 # 2 else 1)) 10.
Definition csQ (hr ez with_mods : bool) (v : Q) : Q :=
  if with_mods then v else if hr then Qmin (v * (13 # 10)) 10 else if ez then v * (1 # 2) else v.

(* ---- numerical validation of the twin against the float model -------------------------- *)
Definition Q_of_float (f : float) : option Q :=
  match Prim2SF f with
  | S754_zero _ => Some 0
  | S754_finite s m e =>
      let mag := if (0 <=? e)%Z then inject_Z (Zpos m * 2 ^ e) else Zpos m # (Z.to_pos (2 ^ (- e))) in
      Some (if s then - mag else mag)
  | _ => None
  end.

Definition closeQ (a b : Q) : bool :=
  Qle_bool (Qabs (a - b)) ((1 # 1000000) * (1 + Qabs a + Qabs b)).

(* the windows of a recorded builder (non-mania OD windows and the AR window) recomputed by the
   twin from the exact values of the builder's inputs *)
Definition twin_ok (b : builder) : bool :=
  let hw := hit_windows_of b in
  let chk (w : windowsQ) (k : mdk) (from_mods : option float) (got : float) : bool :=
    match Q_of_float (kvalue k from_mods), Q_of_float (a_clock b), Q_of_float got with
    | Some v, Some r, Some g => closeQ (windowQ w (a_hr b) (a_ez b) (k_with_mods k) v r) g
    | _, _, _ => true            (* NaN / infinity: outside the twin's domain *)
    end in
  chk AR_WINDOWS_Q (a_ar b) (m_ar b) (hw_ar hw)
  && match a_mode b with
     | AOsu | ACatch => chk OSU_GREAT_Q (a_od b) (m_od b) (hw_great hw)
     | ATaiko => chk TAIKO_GREAT_Q (a_od b) (m_od b) (hw_great hw)
     | AMania => true
     end.

Definition twin_bad (cases : list (N * builder * list Z * list Z)) : list (N * N) :=
  flat_map (fun c => let '(id, b, _, _) := c in if twin_ok b then [] else [(id, 3%N)]) cases.
