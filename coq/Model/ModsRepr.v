(* Model/ModsRepr.v — the three representations of a mod selection (src/model/mods.rs) and
   the accessors of `GameMods`, interpreted through the GENERATED tables (C08).
   A selection is a predicate on rosu-mods' intermode names.  The legacy representation holds
   exactly the selections made of legacy-representable mods (names translated Key1..Key9 <->
   OneKey..NineKeys); the lazer representation with default settings holds the same names.
   That name correspondence is rosu-mods' and is trusted (validated by the harness). *)
From Coq Require Import String List Bool ZArith.
From V Require Import Tables.
Import ListNotations.
Open Scope string_scope.

Definition modset := string -> bool.

(* names the legacy bit set can express (the mods C08 quantifies over, plus the rest of the
   legacy enum) *)
Definition legacy_names : list string :=
  ["NoFail"; "Easy"; "TouchDevice"; "Hidden"; "HardRock"; "SuddenDeath"; "DoubleTime"; "Relax";
   "HalfTime"; "Nightcore"; "Flashlight"; "Autoplay"; "SpunOut"; "Autopilot"; "Perfect";
   "FourKeys"; "FiveKeys"; "SixKeys"; "SevenKeys"; "EightKeys"; "FadeIn"; "Random"; "Cinema";
   "TargetPractice"; "NineKeys"; "DualStages"; "OneKey"; "ThreeKeys"; "TwoKeys"; "ScoreV2"; "Mirror"].
Definition legacy_representable (s : modset) : Prop :=
  forall n, s n = true -> In n legacy_names.

(* GameModsLegacy <-> intermode names *)
Definition legacy_to_intermode (n : string) : string :=
  match n with
  | "Key1" => "OneKey" | "Key2" => "TwoKeys" | "Key3" => "ThreeKeys" | "Key4" => "FourKeys"
  | "Key5" => "FiveKeys" | "Key6" => "SixKeys" | "Key7" => "SevenKeys" | "Key8" => "EightKeys"
  | "Key9" => "NineKeys" | other => other
  end.

(* one `contains` test of an accessor arm, per representation *)
Definition test_lazer (s : modset) (method name : string) : option bool :=
  if String.eqb method "contains_intermode" then Some (s name) else None.
Definition test_intermode (s : modset) (method name : string) : option bool :=
  if String.eqb method "contains" then Some (s name) else None.
Definition test_legacy (s : modset) (method name : string) : option bool :=
  if String.eqb method "contains" then Some (s (legacy_to_intermode name))
  else if String.eqb method "false" then Some false else None.

Fixpoint lookup_s (tbl : list (string * string)) (k : string) : string :=
  match tbl with [] => "?" | (k', v) :: tl => if String.eqb k k' then v else lookup_s tl k end.

(* impl_has_mod!: accessor row (fn, legacy?, Name) under representation r *)
Definition has_mod (macro : list (string * string)) (r : mrepr) (row : string * bool * string)
           (s : modset) : option bool :=
  let '(_, is_legacy, name) := row in
  match r with
  | RLazer => test_lazer s (lookup_s macro "lazer") name
  | RIntermode => test_intermode s (lookup_s macro "intermode") name
  | RLegacy => if is_legacy then test_legacy s (lookup_s macro "legacy+") name
               else test_legacy s (lookup_s macro "legacy-") name
  end.

(* mania_keys: first matching entry of the chain *)
Fixpoint keys_chain (test : string -> string -> option bool) (chain : list (string * string * Z))
  : option (option Z) :=
  match chain with
  | [] => Some None
  | (method, name, k) :: tl =>
      match test method name with
      | Some true => Some (Some k)
      | Some false => keys_chain test tl
      | None => None
      end
  end.
Definition chain_of (chains : list (mrepr * list (string * string * Z))) (r : mrepr) :=
  match find (fun c => match fst c, r with RLazer, RLazer | RIntermode, RIntermode | RLegacy, RLegacy => true
                                      | _, _ => false end) chains with
  | Some (_, c) => c | None => [] end.
Definition mania_keys chains (r : mrepr) (s : modset) : option (option Z) :=
  match r with
  | RLazer => keys_chain (test_lazer s) (chain_of chains RLazer)
  | RIntermode => keys_chain (test_intermode s) (chain_of chains RIntermode)
  | RLegacy => keys_chain (test_legacy s) (chain_of chains RLegacy)
  end.

Fixpoint list_beq (A : Type) (eq : A -> A -> bool) (a b : list A) : bool :=
  match a, b with
  | [], [] => true
  | x :: a', y :: b' => eq x y && list_beq A eq a' b'
  | _, _ => false
  end.

(* ---- checks of the generated tables --------------------------------------------------- *)
Definition macro_check (macro : list (string * string)) : bool :=
  String.eqb (lookup_s macro "lazer") "contains_intermode" && String.eqb (lookup_s macro "intermode") "contains"
  && String.eqb (lookup_s macro "legacy+") "contains" && String.eqb (lookup_s macro "legacy-") "false".
Definition mem_s (n : string) (l : list string) : bool := existsb (String.eqb n) l.
(* a `+` row names a legacy-representable mod (same name in GameModsLegacy), a `-` row a mod the
   legacy bits cannot express *)
Definition has_rows_check (rows : list (string * bool * string)) : bool :=
  forallb (fun r => let '(fn, is_legacy, name) := r in
                    Bool.eqb is_legacy (mem_s name legacy_names)) rows.
Definition chains_check (chains : list (mrepr * list (string * string * Z))) : bool :=
  let cl := chain_of chains RLazer in
  let ci := chain_of chains RIntermode in
  let cg := chain_of chains RLegacy in
  forallb (fun e => String.eqb (fst (fst e)) "contains_intermode") cl
  && forallb (fun e => String.eqb (fst (fst e)) "contains") ci
  && forallb (fun e => String.eqb (fst (fst e)) "contains") cg
  && list_beq _ (fun a b => String.eqb (snd (fst a)) (snd (fst b)) && Z.eqb (snd a) (snd b)) cl ci
  (* the legacy chain is the lazer chain restricted to legacy-representable names, same order *)
  && list_beq _ (fun a b => String.eqb (legacy_to_intermode (snd (fst a))) (snd (fst b)) && Z.eqb (snd a) (snd b))
       cg (filter (fun e => mem_s (snd (fst e)) legacy_names) cl)
  && forallb (fun e => mem_s (legacy_to_intermode (snd (fst e))) legacy_names) cg.

(* clock rate: every lazer rate mod returns the rate the mod itself carries *)
Definition rate_check (arms : list (string * ratek)) : bool :=
  forallb (fun n => match find (fun a => String.eqb (fst a) n) arms with
                    | Some (_, RateOwn) => true | _ => false end)
          ["DoubleTime"; "HalfTime"; "Nightcore"; "Daycore"]
  && negb (existsb (fun a => match snd a with RateScaled _ => true | _ => false end) arms)
  && match find (fun a => String.eqb (fst a) "_intermode") arms with Some (_, RateFn "legacy_clock_rate") => true | _ => false end
  && match find (fun a => String.eqb (fst a) "_legacy") arms with Some (_, RateFn "clock_rate") => true | _ => false end.

(* DifficultyAdjust accessors: ar/cs for osu and catch, hp/od for all four modes *)
Definition attr_check (rows : list (string * string * list mode)) : bool :=
  list_beq _ (fun a b => String.eqb (fst (fst a)) (fst (fst b)) && String.eqb (snd (fst a)) (snd (fst b))
                         && list_beq _ mode_eqb (snd a) (snd b))
    rows [("ar", "approach_rate", [Osu; Catch]); ("cs", "circle_size", [Osu; Catch]);
          ("hp", "drain_rate", [Osu; Taiko; Catch; Mania]); ("od", "overall_difficulty", [Osu; Taiko; Catch; Mania])].
