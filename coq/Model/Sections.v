(* Model/Sections.v — the section loop of `StrainSkill::process` (src/util/macros.rs): how
   many strain peaks a skill exports, as a function of the processed objects' start times
   only.  The skill's strain functions are Section variables. *)
From Coq Require Import ZArith List Bool Floats.
From V Require Import F64 Gradual.
Import ListNotations.
Open Scope Z_scope.

(* `while curr.start_time > section_end { save_current_peak(); start_new_section_from(..);
   section_end += section_length }` — fuel exhaustion returns None *)
Fixpoint sec_while (fuel : nat) (L t end_ : float) (pushed : Z) : option (float * Z) :=
  match fuel with
  | O => None
  | S f => if PrimFloat.ltb end_ t then sec_while f L t (end_ + L)%float (pushed + 1)
           else Some (end_, pushed)
  end.

(* iterations the loop needs (estimated from the floats, +3 slack); the loop is run with
   exactly this fuel and the proofs state that it suffices *)
Definition sec_fuel (L t end_ : float) : nat :=
  Z.to_nat (to_u32 (fceil ((t - end_) / L)%float) + 3).

(* count-only model: (section_end, peaks pushed so far) *)
Definition sec_step (L : float) (st : option (float * Z)) (it : Z * float) : option (float * Z) :=
  match st with
  | None => None
  | Some (end_, pushed) =>
      let '(idx, t) := it in
      let end_ := if idx =? 0 then (fceil (t / L) * L)%float else end_ in
      sec_while (sec_fuel L t end_) L t end_ pushed
  end.

(* number of peaks exported after processing the objects with the given start times
   (difficulty-object index, start_time): the stored peaks plus the current one *)
Definition section_count (L : float) (times : list float) : option Z :=
  let idxs := zrange 0 (length times) in
  match fold_left (sec_step L) (combine idxs times) (Some (0%float, 0)) with
  | Some (_, pushed) => Some (pushed + 1)
  | None => None
  end.

(* the full skill, with abstract strain functions, to state skill-independence *)
Section Skill.
Variable St : Type.
Variable strain_value_at : St -> Z -> float * St.
Variable initial_strain : St -> float -> Z -> float.

Record skill := mk_skill { k_end : float; k_peak : float; k_peaks : list float; k_st : St }.

Fixpoint skill_while (fuel : nat) (L t : float) (idx : Z) (s : skill) : option skill :=
  match fuel with
  | O => None
  | S f => if PrimFloat.ltb (k_end s) t
           then skill_while f L t idx
                  (mk_skill (k_end s + L)%float (initial_strain (k_st s) (k_end s) idx)
                            (k_peaks s ++ [k_peak s]) (k_st s))
           else Some s
  end.

Definition skill_process (L : float) (os : option skill) (it : Z * float) : option skill :=
  match os with
  | None => None
  | Some s =>
      let '(idx, t) := it in
      let end_ := if idx =? 0 then (fceil (t / L) * L)%float else k_end s in
      match skill_while (sec_fuel L t end_) L t idx (mk_skill end_ (k_peak s) (k_peaks s) (k_st s)) with
      | None => None
      | Some s' =>
          let '(v, st') := strain_value_at (k_st s') idx in
          Some (mk_skill (k_end s') (fmax v (k_peak s')) (k_peaks s') st')
      end
  end.

Definition skill_export (L : float) (st0 : St) (times : list float) : option (list float) :=
  match fold_left (skill_process L) (combine (zrange 0 (length times)) times)
                  (Some (mk_skill 0%float 0%float [] st0)) with
  | Some s => Some (k_peaks s ++ [k_peak s])
  | None => None
  end.
End Skill.
