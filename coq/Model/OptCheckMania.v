(* Model/OptCheckMania.v — C13 on the property's own small domain for osu!mania: every shape up to
   6 objects and 2 hold notes, every miss count, the accuracy grid, both priorities, classic and
   lazer: the generated state has the requested misses, fills the judgements, and no other
   distribution of the five hit results is closer to the target (tolerance 1e-12). *)
From Coq Require Import ZArith List Bool Floats.
From V Require Import F64 Gradual GenState GenStateMania OptCheck.
Import ListNotations.
Open Scope Z_scope.

Definition mania_case_in (n h m : Z) (acc : float) (best classic : bool) : mania_in :=
  mk_mania_in n h U32MAX None None None None None (Some m) (Some acc) best classic.

Definition mania_opt_check (n h m : Z) (acc : float) (best classic : bool) : bool :=
  let i := mania_case_in n h m acc best classic in
  let s := mania_generate i in
  let total := if classic then n else n + h in
  let r := total - m in
  let gen := fdist acc (mania_accuracy classic s) in
  (ms_misses s =? m) && (ms_total s =? total) &&
  forallb (fun a => forallb (fun b => forallb (fun c => forallb (fun d =>
      near gen (fdist acc (mania_accuracy classic (mk_mania_state a b c d (r - a - b - c - d) m))))
    (zr 0 (r - a - b - c))) (zr 0 (r - a - b))) (zr 0 (r - a))) (zr 0 r).

Definition mania_lvl5 n h m acc :=
  mania_opt_check n h m acc true true && mania_opt_check n h m acc false true
  && mania_opt_check n h m acc true false && mania_opt_check n h m acc false false.
Definition mania_lvl4 n h m := forallb (fun acc => mania_lvl5 n h m acc) ACC_GRID.
Definition mania_lvl3 n h := forallb (fun m => mania_lvl4 n h m) (zr 0 n).
Definition mania_lvl2 n := forallb (fun h => mania_lvl3 n h) (zr 0 (Z.min 2 n)).
Definition mania_lvl1 := forallb (fun n => mania_lvl2 n) (zr 0 6).
