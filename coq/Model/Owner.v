(* Model/Owner.v — ownership / lifetime model of the three places where rosu-pp extends a
   lifetime by hand (C11):

     * OsuGradualDifficulty   : `diff_objects: Box<[OsuDifficultyObject<'static>]>` holds references
                                into `osu_objects: OsuObjects { objects: Box<[OsuObject]> }` of the same struct
     * TaikoGradualDifficulty : `diff_objects_iter: Iter<'static, _>` iterates `diff_objects` of the same struct
     * BeatmapState::point_split : a `Vec<*const str>` scratch buffer re-typed as `&[&str]` for one call

   The heap is a list of cells; a cell is live or freed, and is owned either by the calculator
   value or by the environment (everything else the program does).  Safe code outside the
   calculator can allocate and free its own cells and move the calculator value around; it has
   no way to free, move or reallocate a cell the calculator owns, since the owning fields are
   private, never reassigned after `new` (Tables.lifetime_facts) and the struct is not Clone. *)
From Coq Require Import List Bool Arith Lia.
Import ListNotations.

Record cell := { c_live : bool; c_calc : bool }.
Definition heap := list cell.

Definition is_live (h : heap) (a : nat) : bool :=
  match nth_error h a with Some c => c_live c | None => false end.
Definition is_calc (h : heap) (a : nat) : bool :=
  match nth_error h a with Some c => c_calc c | None => false end.

Fixpoint kill (h : heap) (a : nat) : heap :=
  match h, a with
  | [], _ => []
  | c :: t, O => {| c_live := false; c_calc := c_calc c |} :: t
  | c :: t, S a' => c :: kill t a'
  end.

(* the self-referential value: which cell holds the referents, which holds the referring
   slice / iterator, and where the stored references point *)
(* `own_tag` / `ptr_tag`: the aliasing side of the story.  A `Box` is a unique pointer: every
   move of it (and of a struct containing it) re-asserts unique access to the block, which
   under Stacked Borrows invalidates references derived from it earlier.  `own_tag` is the
   tag of the current owner, `ptr_tag` the one the stored references were derived from.  A raw
   pointer (`NonNull`, as OsuObjects holds since fix 4077c30, and as `Vec` holds internally)
   is not re-tagged by moves. *)
Record calc := { referents : nat; referrer : nat; ptrs : list nat; own_tag : nat; ptr_tag : nat }.

Record st := { hp : heap; cv : option calc; fault : bool }.

Definition fresh := {| c_live := true; c_calc := true |}.
Definition env_cell := {| c_live := true; c_calc := false |}.

(* `new`: box the objects (cell a), build n references into it, box those (cell b) *)
Definition new_calc (h : heap) (n : nat) : st :=
  let a := length h in
  {| hp := h ++ [fresh; fresh];
     cv := Some {| referents := a; referrer := S a; ptrs := repeat a n; own_tag := 0; ptr_tag := 0 |};
     fault := false |}.

(* what `next` / `nth` do with memory: read the referring slice and follow its references *)
Definition use_calc (h : heap) (c : calc) : bool :=
  is_live h (referrer c) && forallb (is_live h) (ptrs c) && Nat.eqb (own_tag c) (ptr_tag c).

(* drop glue: fields in declaration order — the referring slice first, then the referents.
   Neither element type has a Drop impl, so no reference is followed while dropping. *)
Definition drop_calc (h : heap) (c : calc) : heap * bool :=
  let ok1 := is_live h (referrer c) in
  let h1 := kill h (referrer c) in
  let ok2 := is_live h1 (referents c) in
  (kill h1 (referents c), ok1 && ok2).

Inductive hop :=
| HMove                 (* the calculator value is moved (returned, boxed, sent to a thread, swapped) *)
| HUse                  (* next / nth / len / any &self or &mut self method *)
| HDrop
| HEnvAlloc
| HEnvFree (a : nat).   (* the environment frees a cell — only one it owns *)

Definition retag (c : calc) : calc :=
  {| referents := referents c; referrer := referrer c; ptrs := ptrs c; own_tag := S (own_tag c); ptr_tag := ptr_tag c |}.

(* `boxed` = the referents are owned through a `Box` (true) or through a raw pointer (false) *)
Definition hstep (boxed : bool) (s : st) (o : hop) : st :=
  match o with
  | HMove =>            (* the heap block never moves; a Box owner is re-tagged *)
      if boxed then {| hp := hp s; cv := option_map retag (cv s); fault := fault s |} else s
  | HUse =>
      match cv s with
      | None => s       (* not expressible in safe Rust: the value was moved out *)
      | Some c => {| hp := hp s; cv := cv s; fault := fault s || negb (use_calc (hp s) c) |}
      end
  | HDrop =>
      match cv s with
      | None => s
      | Some c => let '(h', ok) := drop_calc (hp s) c in
                  {| hp := h'; cv := None; fault := fault s || negb ok |}
      end
  | HEnvAlloc => {| hp := hp s ++ [env_cell]; cv := cv s; fault := fault s |}
  | HEnvFree a =>
      if is_calc (hp s) a then s
      else {| hp := kill (hp s) a; cv := cv s; fault := fault s |}
  end.

Definition run_hist (boxed : bool) (h : heap) (n : nat) (ops : list hop) : st := fold_left (hstep boxed) ops (new_calc h n).

(* why the "not Clone" fact matters: a derived Clone would deep-copy the referents into a new
   cell but copy the references verbatim, so the clone would point into the original. *)
Definition derived_clone (h : heap) (c : calc) : heap * calc :=
  let a := length h in
  (h ++ [fresh; fresh], {| referents := a; referrer := S a; ptrs := ptrs c; own_tag := 0; ptr_tag := 0 |}).

(* ------------------------------------------------------------------ decoder scratch buffer *)

(* Lines are read into a reused buffer: reading the next line invalidates every pointer into
   the previous one.  A pointer is represented by the epoch (line number) it points into. *)
Record dstate := { d_epoch : nat; d_buf : list nat; d_fault : bool }.

Inductive dop :=
| DNextLine
| DPath (parts : nat) (touch : bool).
  (* one `point_split(iter, f)` call with `parts` pieces; `touch` = f itself pushes to or clears
     the scratch vector (which would reallocate it under the slice handed to f) *)

Definition dstep (clears : bool) (s : dstate) (o : dop) : dstate :=
  match o with
  | DNextLine => {| d_epoch := S (d_epoch s); d_buf := d_buf s; d_fault := d_fault s |}
  | DPath n touch =>
      let buf := d_buf s ++ repeat (d_epoch s) n in
      (* f reads through every element of the slice *)
      let ok := forallb (Nat.eqb (d_epoch s)) buf && negb touch in
      {| d_epoch := d_epoch s; d_buf := if clears then [] else buf; d_fault := d_fault s || negb ok |}
  end.

Definition dinit := {| d_epoch := 0; d_buf := []; d_fault := false |}.
Definition drun (clears : bool) (ops : list dop) : dstate := fold_left (dstep clears) ops dinit.
Definition no_touch (o : dop) : Prop := match o with DPath _ t => t = false | _ => True end.
