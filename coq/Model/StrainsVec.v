(* Model/StrainsVec.v — executable model of src/util/strains_vec.rs (default build)
   and of its `raw_strains` replacement.  Definitions only; proofs are in Proofs/. *)
From Coq Require Import ZArith List Bool Floats.
From V Require Import F64.
Import ListNotations.
Open Scope Z_scope.

(* ---- StrainsEntry: a union { value: f64, zero_count: u64 } as a 64-bit word ---- *)
Notation entry := Z (only parsing).
Definition MASK : Z := SIGN - 1.                       (* u64::MAX >> 1 *)
Definition new_zero : entry := SIGN + 1.               (* !MASK + 1 *)
Definition is_zero (e : entry) : bool := SIGN <=? e.   (* value.is_sign_negative() *)
Definition is_value (e : entry) : bool := negb (is_zero e).
Definition zero_count (e : entry) : Z := if is_zero e then e - SIGN else e.  (* & MASK *)
(* `zero_count += 1` / `-= 1` on the u64 view: checked; None = overflow (debug panic) *)
Definition incr_zero_count (e : entry) : option entry :=
  if e + 1 <? TWO64 then Some (e + 1) else None.
Definition decr_zero_count (e : entry) : option entry :=
  if 0 <? e then Some (e - 1) else None.

Record sv := mk_sv { inner : list entry; len : Z }.
Definition sv_empty : sv := mk_sv [] 0.

(* the test `value.to_bits() > 0 && value.is_sign_positive()` of `push` *)
Definition push_is_value (bits : Z) : bool := (0 <? bits) && (bits <? SIGN).

(* push of a non-value: bump the trailing zero entry or start a new one.
   The bool is false when `incr_zero_count` overflowed. *)
Fixpoint push_zero (l : list entry) : list entry * bool :=
  match l with
  | [] => ([new_zero], true)
  | [x] => if is_zero x
           then match incr_zero_count x with
                | Some x' => ([x'], true)
                | None => ([0], false)        (* release-mode wrap of u64::MAX + 1 *)
                end
           else ([x; new_zero], true)
  | x :: tl => let '(tl', ok) := push_zero tl in (x :: tl', ok)
  end.

Definition push (s : sv) (bits : Z) : sv * bool :=
  if push_is_value bits then (mk_sv (inner s ++ [bits]) (len s + 1), true)
  else let '(l, ok) := push_zero (inner s) in (mk_sv l (len s + 1), ok).

(* `self.len = self.inner.len()` since the fix of the stale length: only values remain, one entry each *)
Definition retain_non_zero (s : sv) : sv :=
  let l := filter is_value (inner s) in mk_sv l (Z.of_nat (length l)).

(* insertion sort, descending by f64::total_cmp; `insert_desc` keeps equal keys stable *)
Fixpoint insert_desc (x : Z) (l : list Z) : list Z :=
  match l with
  | [] => [x]
  | y :: tl => if total_leb x y then y :: insert_desc x tl else x :: l
  end.
Definition sort_desc_list (l : list Z) : list Z := fold_right insert_desc [] l.
Definition sort_desc (s : sv) : sv := mk_sv (sort_desc_list (inner s)) (len s).
Definition retain_non_zero_and_sort (s : sv) : sv := sort_desc (retain_non_zero s).

(* `sum`: std's f64 `Sum` folds from -0.0 *)
Definition values_of (l : list entry) : list Z := filter is_value l.
Definition fsum (l : list Z) : float :=
  fold_left (fun acc w => (acc + of_bits w)%float) l NEG_ZERO.
Definition sum (s : sv) : float := fsum (values_of (inner s)).

(* `transmute_into_vec`: None marks the violated safety contract (an entry with the sign
   bit would be reinterpreted as a negative float / NaN). *)
Definition transmute_into_vec (s : sv) : option (list Z) :=
  if forallb is_value (inner s) then Some (inner s) else None.

(* ---- StrainsIter -------------------------------------------------------------- *)
Record iter := mk_iter { curr : option entry; rest : list entry; ilen : Z }.
Definition iter_new (s : sv) : iter :=
  match inner s with
  | [] => mk_iter None [] (len s)
  | c :: r => mk_iter (Some c) r (len s)
  end.

(* one call of `next`; the loop skips exhausted zero entries.  Structural on [r]. *)
Fixpoint next_from (c : entry) (r : list entry) (n : Z) : option (Z * iter) :=
  if is_value c then
    Some (c, match r with [] => mk_iter None [] (n - 1)
                     | c' :: r' => mk_iter (Some c') r' (n - 1) end)
  else if 0 <? zero_count c then
    match decr_zero_count c with
    | Some c' => Some (0, mk_iter (Some c') r (n - 1))
    | None => None
    end
  else match r with
       | [] => None
       | c' :: r' => next_from c' r' n
       end.
Definition iter_next (it : iter) : option (Z * iter) :=
  match curr it with
  | None => None
  | Some c => next_from c (rest it) (ilen it)
  end.
(* after `None` from the loop the real iterator has curr = None; modelled by the caller *)
Fixpoint iter_collect (fuel : nat) (it : iter) : list Z :=
  match fuel with
  | O => []
  | S f => match iter_next it with
           | None => []
           | Some (w, it') => w :: iter_collect f it'
           end
  end.
Definition iter_all (s : sv) : list Z := iter_collect (Z.to_nat (len s)) (iter_new s).

(* ---- into_vec with its copy_non_zero / copy_slice chunking ---------------------- *)
(* `copy_slice(slice, count, dst)`: reads `count` entries of `slice` as f64.  None when
   the `from_raw_parts` contract (count <= slice.len()) would be violated, or when one
   of the copied entries is not a value (the reinterpretation would be wrong). *)
Definition copy_slice (slice : list entry) (count : nat) : option (list Z) :=
  if (count <=? length slice)%nat && forallb is_value (firstn count slice)
  then Some (firstn count slice) else None.

(* drives the iterator: returns (count of leading values, Some zero_count at the first
   zero entry, remaining iterator) *)
Fixpoint scan_non_zero (it : list entry) (count : nat) : nat * option Z * list entry :=
  match it with
  | [] => (count, None, [])
  | e :: tl => if is_zero e then (count, Some (zero_count e), tl)
               else scan_non_zero tl (S count)
  end.

Fixpoint into_vec_loop (fuel : nat) (it : list entry) : option (list Z) :=
  match fuel with
  | O => None
  | S f =>
      let '(count, zc, it') := scan_non_zero it 0 in
      match copy_slice it count with
      | None => None
      | Some chunk =>
          match zc with
          | None => Some chunk
          | Some k =>
              match into_vec_loop f it' with
              | None => None
              | Some tl => Some (chunk ++ repeat 0 (Z.to_nat k) ++ tl)
              end
          end
      end
  end.
Definition into_vec (s : sv) : option (list Z) :=
  into_vec_loop (S (length (inner s))) (inner s).

(* ---- abstraction: the plain list of f64 words this vector stands for ------------ *)
Definition expand (e : entry) : list Z :=
  if is_zero e then repeat 0 (Z.to_nat (zero_count e)) else [e].
Definition abs_list (l : list entry) : list Z := flat_map expand l.
Definition abs (s : sv) : list Z := abs_list (inner s).

(* what a pushed word means as a list element: positive (incl. +NaN, +inf, subnormal)
   words are kept, everything else (+0, -0, negatives, -NaN) is stored as zero *)
Definition canon (bits : Z) : Z := if push_is_value bits then bits else 0.

(* ---- the `raw_strains` variant: a plain Vec<f64> -------------------------------- *)
Definition raw := list Z.
(* after the fix b2a163a the raw variant stores what the compact one stands for: positive words
   as they are, everything else as +0.0 *)
Definition raw_push (r : raw) (bits : Z) : raw := r ++ [canon bits].
(* `a > 0.0` on the float: false for NaN, zeros, negatives *)
Definition gt_zero_bits (w : Z) : bool := (0 <? w) && (w <=? POS_INF_BITS).
Definition raw_retain_non_zero (r : raw) : raw := filter gt_zero_bits r.
Definition raw_sort_desc (r : raw) : raw := sort_desc_list r.
Definition raw_sum (r : raw) : float := fsum r.

(* ---- operation sequences (what the harness drives through the hook) ------------- *)
Inductive op :=
| OPush (bits : Z)
| ORetain
| OSort            (* only legal after ORetain with no zero pushed since (debug_assert) *)
| ORetainSort.

Definition step (s : sv) (o : op) : sv * bool :=
  match o with
  | OPush b => push s b
  | ORetain => (retain_non_zero s, true)
  | OSort => (sort_desc s, true)
  | ORetainSort => (retain_non_zero_and_sort s, true)
  end.

Fixpoint run (s : sv) (ops : list op) : sv * bool :=
  match ops with
  | [] => (s, true)
  | o :: tl => let '(s', ok) := step s o in
               let '(s'', ok') := run s' tl in (s'', ok && ok')
  end.

(* spec on plain lists *)
Definition spec_step (l : list Z) (o : op) : list Z :=
  match o with
  | OPush b => l ++ [canon b]
  | ORetain => filter (fun w => negb (w =? 0)) l
  | OSort => sort_desc_list l
  | ORetainSort => sort_desc_list (filter (fun w => negb (w =? 0)) l)
  end.
Definition spec_run (l : list Z) (ops : list op) : list Z := fold_left spec_step ops l.

(* observation record compared with the implementation *)
Record obs := mk_obs {
  o_len : Z; o_iter : list Z; o_into_vec : option (list Z);
  o_sum_bits : Z; o_transmute : option (list Z) }.
Definition observe (s : sv) : obs :=
  mk_obs (len s) (iter_all s) (into_vec s) (to_bits (sum s)) (transmute_into_vec s).
