(* Model/GradPerfCases.v — evaluation of recorded gradual-performance traces against
   Model/GradPerf (the performance oracle is instantiated by "counts ++ [state id]"). *)
From Coq Require Import ZArith NArith List Bool Floats.
From V Require Import F64 Gradual SvCases GradCases GradPerf.
Import ListNotations.
Open Scope Z_scope.

Notation TS := (list Z).

Definition prun_view (v : gview) (ops : list (pop Z)) : list (gout (list Z)) :=
  match v with
  | VOsu objs take =>
      run_pops (osu_nth TS trace_process objs take) (osu_len TS objs take) (@g_idx TS ocounts)
               (fun cs (_ : Z) (s : Z) => oc_list (fst cs) ++ [s]) ops (osu_new TS [] objs)
  | VTaiko flags =>
      run_pops (fun n => taiko_nth TS trace_process flags n) (taiko_len TS flags) (@tg_idx TS)
               (fun (cs : Z * TS) (_ : Z) (s : Z) => [fst cs; s]) ops (taiko_new TS [])
  | VCatch evs =>
      run_pops (catch_nth TS trace_process evs) (catch_len TS evs) (@g_idx TS ccounts)
               (fun cs (_ : Z) (s : Z) => cc_list (fst cs) ++ [s]) ops (catch_new TS [] evs)
  | VMania objs take =>
      run_pops (mania_nth TS trace_process objs take) (mania_len TS objs take) (@g_idx TS mcounts)
               (fun cs (_ : Z) (s : Z) => mc_list (fst cs) ++ [s]) ops (mania_new TS [] objs)
  end.

(* the passed_objects value handed to the performance calculation after each call *)
Definition ppassed_view (v : gview) (ops : list (pop Z)) : list (gout (list Z)) :=
  match v with
  | VOsu objs take =>
      run_pops (osu_nth TS trace_process objs take) (osu_len TS objs take) (@g_idx TS ocounts)
               (fun _ (i : Z) (_ : Z) => [i]) ops (osu_new TS [] objs)
  | VTaiko flags =>
      run_pops (fun n => taiko_nth TS trace_process flags n) (taiko_len TS flags) (@tg_idx TS)
               (fun (_ : Z * TS) (i : Z) (_ : Z) => [i]) ops (taiko_new TS [])
  | VCatch evs =>
      run_pops (catch_nth TS trace_process evs) (catch_len TS evs) (@g_idx TS ccounts)
               (fun _ (i : Z) (_ : Z) => [i]) ops (catch_new TS [] evs)
  | VMania objs take =>
      run_pops (mania_nth TS trace_process objs take) (mania_len TS objs take) (@g_idx TS mcounts)
               (fun _ (i : Z) (_ : Z) => [i]) ops (mania_new TS [] objs)
  end.

(* case: view, sequences of (ops, recorded outputs, recorded reference positions).
   Result: 0 agrees, 100+k: outputs of sequence k differ, 300+k: passed_objects differ *)
Definition perf_check (v : gview)
    (seqs : list (list (pop Z) * list (gout (list Z)) * list (gout (list Z)))) : N :=
  let fix go (k : N) l : N :=
    match l with
    | [] => 0%N
    | (ops, outs, passed) :: tl =>
        if negb (gouts_eqb (prun_view v ops) outs) then (100 + k)%N
        else if negb (gouts_eqb (ppassed_view v ops) passed) then (300 + k)%N
        else go (k + 1)%N tl
    end in
  go 0%N seqs.

Definition perf_bad
    (cases : list (N * gview * list (list (pop Z) * list (gout (list Z)) * list (gout (list Z)))))
  : list (N * N) :=
  flat_map (fun c => let '(id, v, seqs) := c in
                     match perf_check v seqs with 0%N => [] | k => [(id, k)] end) cases.
