(* Model/PerfConv.v — what `TryFrom<OsuPerformance>` (behind Performance::try_mode /
   mode_or_ignore) carries from the osu! builder into the target mode's builder, read from the
   tables the translator regenerates (Tables.perf_conv).  The specification: a field of the
   target builder is initialised from the osu! field of the same name; osu!catch's result
   counters read the osu! counters they alias (fruits <- n300, droplets <- n100, tiny_droplets
   <- n50); a field with no osu! counterpart starts unset; the map is the converted map. *)
From Coq Require Import String List Bool.
From V Require Import Tables.
Import ListNotations.
Open Scope string_scope.

Definition aliases : list (string * string) :=
  [("fruits", "n300"); ("droplets", "n100"); ("tiny_droplets", "n50")].

Fixpoint lookup (k : string) (l : list (string * string)) : option string :=
  match l with [] => None | (a, b) :: tl => if String.eqb a k then Some b else lookup k tl end.

Definition expected_source (dst : string) : string :=
  if String.eqb dst "map_or_attrs" then "map"
  else match lookup dst aliases with
       | Some src => src
       | None => if existsb (String.eqb dst) osu_perf_fields then dst else "None"
       end.

Definition carries_ok (row : list (string * string)) : bool :=
  negb (match row with [] => true | _ => false end) &&
  forallb (fun p => String.eqb (snd p) (expected_source (fst p))) row.

Definition perf_conv_ok : bool :=
  Nat.eqb (length perf_conv) 3 && forallb (fun r => carries_ok (snd r)) perf_conv.
