(* Model/GenStateMania.v — `ManiaPerformance::generate_state` (src/mania/performance/mod.rs),
   branch for branch: the clamps, the "all / all but one / at least two unknown" cases, the
   four nested candidate loops with their float bounds, the fill-up of every candidate, the
   classic-mode shifts by priority, and the accuracy-free branch.
   Integers are unbounded Z (u32 in the code; every u32 intermediate is at most 123 * (objects +
   hold notes), so the two agree below ~10 million objects — not proved, stated as a limit in
   DESIGN.md), floats are the kernel's binary64.  Definitions only. *)
From Coq Require Import ZArith List Bool Floats.
From V Require Import F64 Gradual GenState.
Import ListNotations.
Open Scope Z_scope.

Record mania_in := mk_mania_in {
  mi_n_objects : Z; mi_holds : Z; mi_passed : Z;
  mi_n320 : option Z; mi_n300 : option Z; mi_n200 : option Z; mi_n100 : option Z; mi_n50 : option Z;
  mi_misses : option Z; mi_acc : option float; mi_best : bool; mi_classic : bool }.

Record mania_state := mk_mania_state {
  ms_n320 : Z; ms_n300 : Z; ms_n200 : Z; ms_n100 : Z; ms_n50 : Z; ms_misses : Z }.
Definition mania_state_list (s : mania_state) : list Z :=
  [ms_n320 s; ms_n300 s; ms_n200 s; ms_n100 s; ms_n50 s; ms_misses s].
Definition ms_total (s : mania_state) : Z :=
  ms_n320 s + ms_n300 s + ms_n200 s + ms_n100 s + ms_n50 s + ms_misses s.

(* ManiaScoreState::accuracy *)
Definition mania_accuracy (classic : bool) (s : mania_state) : float :=
  let total := ms_total s in
  if total =? 0 then 0%float else
  let w := if classic then 60 else 61 in
  fdiv_z (w * ms_n320 s + 60 * ms_n300 s + 40 * ms_n200 s + 20 * ms_n100 s + 10 * ms_n50 s) (w * total).

(* `if curr.total_hits() < n_objects { first unknown of n50, n100, n200, n300, n320 (else n50) += rest }` *)
Definition mania_fill (i : mania_in) (n_objects : Z) (c : mania_state) : mania_state :=
  if ms_total c <? n_objects then
    let r := n_objects - ms_total c in
    match mi_n50 i, mi_n100 i, mi_n200 i, mi_n300 i, mi_n320 i with
    | None, _, _, _, _ => mk_mania_state (ms_n320 c) (ms_n300 c) (ms_n200 c) (ms_n100 c) (ms_n50 c + r) (ms_misses c)
    | _, None, _, _, _ => mk_mania_state (ms_n320 c) (ms_n300 c) (ms_n200 c) (ms_n100 c + r) (ms_n50 c) (ms_misses c)
    | _, _, None, _, _ => mk_mania_state (ms_n320 c) (ms_n300 c) (ms_n200 c + r) (ms_n100 c) (ms_n50 c) (ms_misses c)
    | _, _, _, None, _ => mk_mania_state (ms_n320 c) (ms_n300 c + r) (ms_n200 c) (ms_n100 c) (ms_n50 c) (ms_misses c)
    | _, _, _, _, None => mk_mania_state (ms_n320 c + r) (ms_n300 c) (ms_n200 c) (ms_n100 c) (ms_n50 c) (ms_misses c)
    | _, _, _, _, _ => mk_mania_state (ms_n320 c) (ms_n300 c) (ms_n200 c) (ms_n100 c) (ms_n50 c + r) (ms_misses c)
    end
  else c.

Definition u32_floor (f : float) : Z := to_u32 (ffloor f).
Definition u32_ceil (f : float) : Z := to_u32 (fceil f).

(* ---- the search of the `_ =>` arm ("at least two hitresults are unknown") ---------------- *)

Section Search.
  Variable i : mania_in.
  Variable acc : float.
  Variables n_objects n_remaining misses : Z.
  (* the clamped provided values (0 when not provided) *)
  Variables n320 n300 n200 n100 n50 : Z.

  Let classic := mi_classic i.
  Definition m_minr (n : Z) : Z := Z.min n n_remaining.
  Definition m_target : float := (acc * of_Z ((if classic then 60 else 61) * n_objects))%float.
  Definition m_both_free : bool := classic && negb (is_some (mi_n320 i)).

  (* `min_n320 ..= max_n320` *)
  Definition m_bounds320 : Z * Z :=
    match mi_n320 i with
    | Some v => (m_minr v, m_minr v)
    | None =>
        let remaining := sat_sub n_remaining (n300 + n200 + n100 + n50) in
        (Z.min (u32_floor (if classic
                           then ((m_target - of_Z (40 * n_remaining) + of_Z (20 * n100 + 30 * n50)) / 20 - of_Z n300)%float
                           else (m_target - of_Z (60 * n_remaining) + of_Z (20 * n200 + 40 * n100 + 50 * n50))%float))
               remaining,
         Z.min (u32_ceil ((m_target - of_Z (10 * n_remaining + 50 * n300 + 30 * n200 + 10 * n100))
                          / (if classic then 50 else 51))%float)
               remaining)
    end.

  (* `min_n300 ..= max_n300` inside the n320 loop *)
  Definition m_bounds300 (c320 : Z) : Z * Z :=
    match mi_n300 i with
    | Some v => (m_minr v, m_minr v)
    | None =>
        let remaining := sat_sub n_remaining (c320 + n200 + n100 + n50) in
        (Z.min (u32_floor (if m_both_free then 0%float
                           else ((m_target - of_Z (40 * n_remaining + (if classic then 20 else 21) * c320)
                                  + of_Z (20 * n100 + 30 * n50)) / 20)%float))
               remaining,
         Z.min (u32_ceil (if m_both_free then 0%float
                          else ((m_target - of_Z (10 * n_remaining + (if classic then 50 else 51) * c320
                                                   + 30 * n200 + 10 * n100)) / 50)%float))
               remaining)
    end.

  Definition m_w : Z := if classic then 50 else 51.

  Definition m_bounds200 (c320 c300 : Z) : Z * Z :=
    match mi_n200 i with
    | Some v => (m_minr v, m_minr v)
    | None =>
        let remaining := sat_sub n_remaining (c320 + c300 + n100 + n50) in
        (Z.min (u32_floor ((m_target - of_Z (20 * n_remaining + m_w * c320 + 50 * c300) + of_Z (10 * n50)) / 30)%float)
               remaining,
         Z.min (u32_ceil ((m_target - of_Z (10 * n_remaining + m_w * c320 + 50 * c300 + 10 * n100)) / 30)%float)
               remaining)
    end.

  Definition m_n100s (c320 c300 c200 : Z) : list Z :=
    match mi_n100 i with
    | Some v => [m_minr v; m_minr v]
    | None =>
        let remaining := sat_sub n_remaining (c320 + c300 + c200 + n50) in
        let raw :=
          if is_some (mi_n50 i)
          then (m_target - of_Z (19 * n_remaining + (if classic then 41 else 42) * c320 + 41 * c300 + 21 * c200)
                + of_Z (9 * n50))%float
          else ((m_target - of_Z (10 * n_remaining + m_w * c320 + 50 * c300 + 30 * c200)) / 10)%float in
        [Z.min (u32_floor raw) remaining; Z.min (u32_ceil raw) remaining]
    end.

  Definition m_c50 (c320 c300 c200 c100 : Z) : Z :=
    match mi_n50 i with
    | Some v => m_minr v
    | None => sat_sub n_remaining (c320 + c300 + c200 + c100)
    end.

  Definition m_cand (c320 c300 c200 c100 : Z) : mania_state :=
    mania_fill i n_objects (mk_mania_state c320 c300 c200 c100 (m_c50 c320 c300 c200 c100) misses).

  Definition m_best0 : mania_state :=
    mk_mania_state n320 n300 n200 n100 (sat_sub n_remaining (n320 + n300 + n200 + n100)) misses.

  Definition m_loop100 (c320 c300 c200 : Z) (st : float * mania_state) : float * mania_state :=
    pick (m_cand c320 c300 c200) (fun c100 => fdist acc (mania_accuracy classic (m_cand c320 c300 c200 c100)))
         (m_n100s c320 c300 c200) st.
  Definition m_loop200 (c320 c300 : Z) (st : float * mania_state) : float * mania_state :=
    let b := m_bounds200 c320 c300 in
    fold_left (fun st c200 => m_loop100 c320 c300 c200 st) (range_incl (fst b) (snd b)) st.
  Definition m_loop300 (c320 : Z) (st : float * mania_state) : float * mania_state :=
    let b := m_bounds300 c320 in
    fold_left (fun st c300 => m_loop200 c320 c300 st) (range_incl (fst b) (snd b)) st.
  (* (best_dist, best) after the four loops; best_dist stays infinite iff no candidate was accepted *)
  Definition mania_search_full : float * mania_state :=
    let b := m_bounds320 in
    fold_left (fun st c320 => m_loop300 c320 st) (range_incl (fst b) (snd b)) (infinity, m_best0).
End Search.

Definition mania_search (i : mania_in) (acc : float) (n_objects n_remaining misses n320 n300 n200 n100 n50 : Z)
  : mania_state :=
  snd (mania_search_full i acc n_objects n_remaining misses n320 n300 n200 n100 n50).

(* "Only n320 have an increased effect on performance calculation so we adjust them based on priority" *)
Definition mania_shift (i : mania_in) (b : mania_state) : mania_state :=
  if mi_classic i && negb (is_some (mi_n320 i)) then
    let none300 := negb (is_some (mi_n300 i)) in
    let none200 := negb (is_some (mi_n200 i)) in
    let none100 := negb (is_some (mi_n100 i)) in
    let none50 := negb (is_some (mi_n50 i)) in
    let b := if none300 then mk_mania_state (ms_n320 b + ms_n300 b) 0 (ms_n200 b) (ms_n100 b) (ms_n50 b) (ms_misses b) else b in
    if mi_best i then
      let b := if none100 && none200 then
                 let n := ms_n200 b / 2 in
                 mk_mania_state (ms_n320 b + n) (ms_n300 b) (ms_n200 b - 2 * n) (ms_n100 b + n) (ms_n50 b) (ms_misses b)
               else b in
      let b := if none50 && none200 then
                 let n := ms_n200 b / 5 in
                 mk_mania_state (ms_n320 b + n * 3) (ms_n300 b) (ms_n200 b - n * 5) (ms_n100 b) (ms_n50 b + n * 2) (ms_misses b)
               else b in
      if none300 then mk_mania_state (ms_n320 b + ms_n300 b) 0 (ms_n200 b) (ms_n100 b) (ms_n50 b) (ms_misses b) else b
    else
      let b := if none100 && none200 then
                 let n := Z.min (ms_n320 b) (ms_n100 b) in
                 mk_mania_state (ms_n320 b - n) (ms_n300 b) (ms_n200 b + 2 * n) (ms_n100 b - n) (ms_n50 b) (ms_misses b)
               else b in
      let b := if none50 && none200 then
                 let n := Z.min (ms_n320 b / 3) (ms_n50 b / 2) in
                 mk_mania_state (ms_n320 b - n * 3) (ms_n300 b) (ms_n200 b + n * 5) (ms_n100 b) (ms_n50 b - n * 2) (ms_misses b)
               else b in
      if none300 then mk_mania_state 0 (ms_n300 b + ms_n320 b) (ms_n200 b) (ms_n100 b) (ms_n50 b) (ms_misses b) else b
  else b.

Definition mania_generate (i : mania_in) : mania_state :=
  let n_objects0 := Z.min (mi_passed i) (mi_n_objects i) in
  let misses := omin (mi_misses i) n_objects0 in
  let n_objects := if mi_classic i then n_objects0 else n_objects0 + mi_holds i in
  let n_remaining := n_objects - misses in
  let n320 := omin (mi_n320 i) n_remaining in
  let n300 := omin (mi_n300 i) n_remaining in
  let n200 := omin (mi_n200 i) n_remaining in
  let n100 := omin (mi_n100 i) n_remaining in
  let n50 := omin (mi_n50 i) n_remaining in
  match mi_acc i with
  | Some acc =>
      match mi_n320 i, mi_n300 i, mi_n200 i, mi_n100 i, mi_n50 i with
      | Some _, Some _, Some _, Some _, Some _ =>
          let r := sat_sub n_objects (n320 + n300 + n200 + n100 + n50 + misses) in
          if mi_best i then mk_mania_state (n320 + r) n300 n200 n100 n50 misses
          else mk_mania_state n320 n300 n200 n100 (n50 + r) misses
      | None, Some _, Some _, Some _, Some _ =>
          mk_mania_state (sat_sub n_remaining (n300 + n200 + n100 + n50)) n300 n200 n100 n50 misses
      | Some _, None, Some _, Some _, Some _ =>
          mk_mania_state n320 (sat_sub n_remaining (n320 + n200 + n100 + n50)) n200 n100 n50 misses
      | Some _, Some _, None, Some _, Some _ =>
          mk_mania_state n320 n300 (sat_sub n_remaining (n320 + n300 + n100 + n50)) n100 n50 misses
      | Some _, Some _, Some _, None, Some _ =>
          mk_mania_state n320 n300 n200 (sat_sub n_remaining (n320 + n300 + n200 + n50)) n50 misses
      | Some _, Some _, Some _, Some _, None =>
          mk_mania_state n320 n300 n200 n100 (sat_sub n_remaining (n320 + n300 + n200 + n100)) misses
      | _, _, _, _, _ =>
          mania_shift i (mania_search i acc n_objects n_remaining misses n320 n300 n200 n100 n50)
      end
  | None =>
      let r := sat_sub n_remaining (n320 + n300 + n200 + n100 + n50) in
      if mi_best i then
        match mi_n320 i, mi_n300 i, mi_n200 i, mi_n100 i, mi_n50 i with
        | None, _, _, _, _ => mk_mania_state r n300 n200 n100 n50 misses
        | _, None, _, _, _ => mk_mania_state n320 r n200 n100 n50 misses
        | _, _, None, _, _ => mk_mania_state n320 n300 r n100 n50 misses
        | _, _, _, None, _ => mk_mania_state n320 n300 n200 r n50 misses
        | _, _, _, _, None => mk_mania_state n320 n300 n200 n100 r misses
        | _, _, _, _, _ => mk_mania_state (n320 + r) n300 n200 n100 n50 misses
        end
      else
        match mi_n50 i, mi_n100 i, mi_n200 i, mi_n300 i, mi_n320 i with
        | None, _, _, _, _ => mk_mania_state n320 n300 n200 n100 r misses
        | _, None, _, _, _ => mk_mania_state n320 n300 n200 r n50 misses
        | _, _, None, _, _ => mk_mania_state n320 n300 r n100 n50 misses
        | _, _, _, None, _ => mk_mania_state n320 r n200 n100 n50 misses
        | _, _, _, _, None => mk_mania_state r n300 n200 n100 n50 misses
        | _, _, _, _, _ => mk_mania_state n320 n300 n200 n100 (n50 + r) misses
        end
  end.

(* what a second call sees: every field is Some of the generated value *)
Definition mania_feed_back (i : mania_in) (s : mania_state) : mania_in :=
  mk_mania_in (mi_n_objects i) (mi_holds i) (mi_passed i)
              (Some (ms_n320 s)) (Some (ms_n300 s)) (Some (ms_n200 s)) (Some (ms_n100 s)) (Some (ms_n50 s))
              (Some (ms_misses s)) (mi_acc i) (mi_best i) (mi_classic i).
