(* Model/Accuracy.v — the four ScoreState::accuracy functions (src/*/score_state.rs) as exact
   fractions numerator / denominator over Z (osu!'s 0.6 / 0.2 weights are scaled by 5), and the
   decay-weighted sum of strain peaks over Q (src/any/difficulty/skills.rs).  The float versions
   are in Model/GenState.v / Model/Aggregate.v.  Definitions only. *)
From Coq Require Import ZArith QArith List Bool.
Import ListNotations.
Open Scope Z_scope.

Inductive osu_origin := OStable | OWithSliderAcc (max_large_ticks max_slider_ends : Z)
                      | OWithoutSliderAcc (max_large_ticks max_small_ticks : Z).

(* numerator and denominator of OsuScoreState::accuracy, both multiplied by 5 *)
Definition osu_acc_nd (o : osu_origin) (n300 n100 n50 misses ends large small : Z) : Z * Z :=
  let num := 5 * (6 * n300 + 2 * n100 + n50) in
  let den := 5 * (6 * (n300 + n100 + n50 + misses)) in
  match o with
  | OStable => (num, den)
  | OWithSliderAcc ml me =>
      (num + 15 * Z.min ends me + 3 * Z.min large ml, den + 15 * me + 3 * ml)
  | OWithoutSliderAcc ml ms =>
      (num + 3 * Z.min large ml + Z.min small ms, den + 3 * ml + ms)
  end.

Definition taiko_acc_nd (n300 n100 misses : Z) : Z * Z := (2 * n300 + n100, 2 * (n300 + n100 + misses)).
Definition catch_acc_nd (fruits droplets tiny tiny_misses misses : Z) : Z * Z :=
  (fruits + droplets + tiny, fruits + droplets + tiny + tiny_misses + misses).
Definition mania_acc_nd (classic : bool) (n320 n300 n200 n100 n50 misses : Z) : Z * Z :=
  let w := if classic then 60 else 61 in
  (w * n320 + 60 * n300 + 40 * n200 + 20 * n100 + 10 * n50, w * (n320 + n300 + n200 + n100 + n50 + misses)).

(* the accuracy as the code returns it: 0 when the denominator is 0 *)
Definition acc_of (nd : Z * Z) : Q := if snd nd =? 0 then 0%Q else (fst nd # Z.to_pos (snd nd)).

(* difficulty_value: strain * weight summed, weight *= decay *)
Fixpoint wsum (peaks : list Q) (weight decay : Q) : Q :=
  match peaks with
  | [] => 0
  | p :: tl => (p * weight + wsum tl (weight * decay) decay)%Q
  end.
