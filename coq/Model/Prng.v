(* Model/Prng.v - the two pseudo random generators of the conversions (src/util/random/osu.rs: xorshift
   "LegacyRandom" of the mania conversion; src/util/random/csharp.rs: .NET's subtractive generator of
   the Random mods).  Words are Z with the wrap-around written out.  Definitions only. *)
From Coq Require Import ZArith List Bool Floats.
From V Require Import F64 F32 ManiaCols.
Import ListNotations.
Open Scope Z_scope.

Definition M32 : Z := 4294967296.
Definition M31 : Z := 2147483648.
Definition I32_MAX : Z := 2147483647.

(* ---- osu.rs ---------------------------------------------------------------------------------- *)
Record orng := mk_orng { ox : Z; oy : Z; oz : Z; ow : Z; obuf : Z; oidx : Z }.

(* `seed as u32` *)
Definition onew (seed : Z) : orng := mk_orng (seed mod M32) 842502087 3579807591 273326509 0 32.

Definition ogen (s : orng) : Z * orng :=
  let t := Z.lxor (ox s) (Z.shiftl (ox s) 11 mod M32) in
  let w' := (Z.lxor (Z.lxor (Z.lxor (ow s) (Z.shiftr (ow s) 19)) t) (Z.shiftr t 8)) mod M32 in
  (w', mk_orng (oy s) (oz s) (ow s) w' (obuf s) (oidx s)).

(* INT_MASK & gen_unsigned() *)
Definition onext_int (s : orng) : Z * orng := let '(u, s') := ogen s in (u mod M31, s').
Definition onext_double (s : orng) : float * orng :=
  let '(n, s') := onext_int s in ((INT_TO_REAL * of_Z n)%float, s').
Definition onext_int_range (s : orng) (lo hi : Z) : Z * orng :=
  let '(n, s') := onext_int s in (next_int_range n lo hi, s').
Definition onext_bool (s : orng) : bool * orng :=
  if oidx s =? 32 then
    let '(u, s') := ogen s in
    (Z.odd u, mk_orng (ox s') (oy s') (oz s') (ow s') u 1)
  else
    let b := Z.shiftr (obuf s) 1 in
    (Z.odd b, mk_orng (ox s) (oy s) (oz s) (ow s) b (oidx s + 1)).

Inductive oop := OGen | OInt | ODouble | ORange (lo hi : Z) | OBool.
(* results as integers: doubles by their bits, booleans as 0/1 *)
Definition ostep (s : orng) (o : oop) : Z * orng :=
  match o with
  | OGen => ogen s
  | OInt => onext_int s
  | ODouble => let '(d, s') := onext_double s in (to_bits d, s')
  | ORange lo hi => onext_int_range s lo hi
  | OBool => let '(b, s') := onext_bool s in ((if b then 1 else 0), s')
  end.
Fixpoint orun (s : orng) (ops : list oop) : list Z :=
  match ops with
  | [] => []
  | o :: r => let '(v, s') := ostep s o in v :: orun s' r
  end.

(* ---- csharp.rs ------------------------------------------------------------------------------- *)
Definition wrap_i32 (z : Z) : Z := (z + M31) mod M32 - M31.

Fixpoint set_nth (l : list Z) (i : nat) (v : Z) : list Z :=
  match l, i with
  | [], _ => []
  | _ :: r, O => v :: r
  | a :: r, S i' => a :: set_nth r i' v
  end.
Definition get (l : list Z) (i : Z) : Z := nth (Z.to_nat i) l 0.
Definition set (l : list Z) (i : Z) (v : Z) : list Z := set_nth l (Z.to_nat i) v.

Record crng := mk_crng { carr : list Z; cnext : Z; cnextp : Z }.

(* first loop of initialize: 54 rounds *)
Fixpoint cinit1 (fuel : nat) (arr : list Z) (ii mj mk : Z) : list Z :=
  match fuel with
  | O => arr
  | S f =>
      let ii := ii + 21 in
      let ii := if 55 <=? ii then ii - 55 else ii in
      let arr := set arr ii mk in
      let mk' := mj - mk in
      let mk' := if mk' <? 0 then mk' + I32_MAX else mk' in
      cinit1 f arr ii (get arr ii) mk'
  end.
(* one sweep i = 1..55 of the second loop *)
Fixpoint csweep (is_ : list Z) (arr : list Z) : list Z :=
  match is_ with
  | [] => arr
  | i :: r =>
      let n := i + 30 in
      let n := if 55 <=? n then n - 55 else n in
      let v := wrap_i32 (get arr i - get arr (1 + n)) in
      let v := if v <? 0 then v + I32_MAX else v in
      csweep r (set arr i v)
  end.
Definition idx_1_55 : list Z := map Z.of_nat (seq 1 55).
Definition cnew (seed : Z) : crng :=
  let sub := if seed =? - M31 then I32_MAX else Z.abs seed in
  let mj := 161803398 - sub in
  let arr := set (repeat 0 56) 55 mj in
  let arr := cinit1 54 arr 0 mj 1 in
  let arr := csweep idx_1_55 (csweep idx_1_55 (csweep idx_1_55 (csweep idx_1_55 arr))) in
  mk_crng arr 0 21.

Definition csample_int (s : crng) : Z * crng :=
  let i := cnext s + 1 in let i := if 56 <=? i then 1 else i in
  let p := cnextp s + 1 in let p := if 56 <=? p then 1 else p in
  let r := get (carr s) i - get (carr s) p in
  let r := if r =? I32_MAX then r - 1 else r in
  let r := if r <? 0 then r + I32_MAX else r in
  (r, mk_crng (set (carr s) i r) i p).
Definition INV_I32_MAX : float := (1 / 2147483647)%float.
Definition cnext_max (s : crng) (max : Z) : Z * crng :=
  let '(r, s') := csample_int s in
  (to_i32 ((of_Z r * INV_I32_MAX) * of_Z max)%float, s').

Inductive cop := CNext | CMax (max : Z).
Definition cstep (s : crng) (o : cop) : Z * crng :=
  match o with CNext => csample_int s | CMax m => cnext_max s m end.
Fixpoint crun (s : crng) (ops : list cop) : list Z :=
  match ops with
  | [] => []
  | o :: r => let '(v, s') := cstep s o in v :: crun s' r
  end.

(* correspondence cases: (id, seed, ops, recorded results) *)
Definition orng_bad (cases : list (N * Z * list oop * list Z)) : list N :=
  flat_map (fun c => let '(id, seed, ops, want) := c in
                     if list_eq_dec Z.eq_dec (orun (onew seed) ops) want then [] else [id]) cases.
Definition crng_bad (cases : list (N * Z * list cop * list Z)) : list N :=
  flat_map (fun c => let '(id, seed, ops, want) := c in
                     if list_eq_dec Z.eq_dec (crun (cnew seed) ops) want then [] else [id]) cases.

(* executable form of the .NET generator's table invariant (entries within [-1, i32::MAX)); the
   correspondence run reports the seeds whose freshly seeded table does not meet it *)
Definition cinvb (s : crng) : bool := forallb (fun v => (-1 <=? v) && (v <? I32_MAX)) (carr s).
Definition crng_noinv (cases : list (N * Z * list cop * list Z)) : list N :=
  flat_map (fun c => let '(id, seed, _, _) := c in if cinvb (cnew seed) then [] else [id]) cases.
