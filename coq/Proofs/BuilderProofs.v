(* Proofs/BuilderProofs.v — Difficulty / Performance builder facts (C18). *)
From Coq Require Import String List Bool ZArith Floats Lia.
From V Require Import Tables Builder.
Import ListNotations.
Open Scope string_scope.

(* ---- clamps --------------------------------------------------------------------------- *)
Lemma fclamp_idem lo hi x :
  PrimFloat.ltb lo lo = false -> PrimFloat.ltb hi lo = false -> PrimFloat.ltb hi hi = false ->
  fclamp lo hi (fclamp lo hi x) = fclamp lo hi x.
Proof.
  intros H1 H2 H3. unfold fclamp.
  destruct (PrimFloat.ltb x lo) eqn:E1.
  - rewrite H2, H1, H2. reflexivity.
  - destruct (PrimFloat.ltb hi x) eqn:E2.
    + rewrite H2, H3. reflexivity.
    + rewrite E1, E2. reflexivity.
Qed.

Lemma clamp_rate_idem x : clamp_rate (clamp_rate x) = clamp_rate x.
Proof. apply fclamp_idem; reflexivity. Qed.
Lemma clamp_attr_idem x : clamp_attr (clamp_attr x) = clamp_attr x.
Proof. apply fclamp_idem; reflexivity. Qed.

(* the result of a clamp is the lower bound, the upper bound or the argument itself; for an
   argument that compares (not NaN) it lies inside the bounds *)
Lemma fclamp_cases lo hi x : fclamp lo hi x = lo \/ fclamp lo hi x = hi \/ fclamp lo hi x = x.
Proof.
  unfold fclamp. destruct (PrimFloat.ltb x lo); destruct (PrimFloat.ltb hi _); auto.
Qed.
Lemma fclamp_bounds lo hi x :
  PrimFloat.ltb lo lo = false -> PrimFloat.ltb hi lo = false -> PrimFloat.ltb hi hi = false ->
  PrimFloat.ltb (fclamp lo hi x) lo = false /\ PrimFloat.ltb hi (fclamp lo hi x) = false.
Proof.
  intros H1 H2 H3. unfold fclamp.
  destruct (PrimFloat.ltb x lo) eqn:E1.
  - rewrite H2. split; assumption.
  - destruct (PrimFloat.ltb hi x) eqn:E2; split; assumption.
Qed.
(* never below 0.01 / above 100, never below -20 / above 20 — for EVERY float, NaN included
   (a NaN stays NaN and compares false both ways) *)
Lemma clamp_rate_bounds x :
  PrimFloat.ltb (clamp_rate x) 0x1.47ae147ae147bp-7%float = false /\ PrimFloat.ltb 100%float (clamp_rate x) = false.
Proof. apply fclamp_bounds; reflexivity. Qed.
Lemma clamp_attr_bounds x :
  PrimFloat.ltb (clamp_attr x) (-20)%float = false /\ PrimFloat.ltb 20%float (clamp_attr x) = false.
Proof. apply fclamp_bounds; reflexivity. Qed.

Section Diff.
Variable M : Type.
Notation diff := (diff M).
Notation sop := (sop M).

Lemma wf_new (m0 : M) : wf (diff_new m0).
Proof. unfold wf, diff_new; cbn. repeat split; intros; discriminate. Qed.

Lemma wf_apply (d : diff) (o : sop) : wf d -> wf (diff_apply d o).
Proof.
  intros (Hc & Ha & Hcs & Hh & Ho).
  destruct o; unfold wf; cbn; repeat split; intros; eauto;
    match goal with
    | H : Some _ = Some _ |- _ => injection H as <-; try subst; unfold fixp
    end; try apply clamp_rate_idem; try apply clamp_attr_idem.
Qed.

(* every Difficulty reachable through setters is well formed *)
Theorem wf_reachable (m0 : M) (ops : list sop) : wf (fold_left diff_apply ops (diff_new m0)).
Proof.
  assert (H : forall d, wf d -> wf (fold_left diff_apply ops d)).
  { induction ops as [|o ops IH]; intros d Hd; cbn; [exact Hd|]. apply IH. now apply wf_apply. }
  apply H, wf_new.
Qed.

(* round trip through the inspectable form *)
Definition clamp_pair (p : float * bool) : float * bool := (clamp_attr (fst p), snd p).
Lemma into_difficulty_eq (i : diff) :
  into_difficulty i
  = mk_diff (d_mods i) (d_passed i) (option_map clamp_rate (d_clock i))
            (option_map clamp_pair (d_ar i)) (option_map clamp_pair (d_cs i))
            (option_map clamp_pair (d_hp i)) (option_map clamp_pair (d_od i))
            (d_hro i) (d_lazer i).
Proof.
  destruct i as [m p c ar cs hp od hro lz]. cbv [d_mods d_passed d_clock d_ar d_cs d_hp d_od d_hro d_lazer].
  destruct p; destruct c; destruct ar; destruct cs; destruct hp; destruct od; destruct hro; destruct lz;
    reflexivity.
Qed.

Theorem inspect_roundtrip (d : diff) : wf d -> into_difficulty (inspect d) = d.
Proof.
  intros (Hc & Ha & Hcs & Hh & Ho). unfold inspect. rewrite into_difficulty_eq.
  assert (Ec : forall (c : option float), (forall x, c = Some x -> fixp clamp_rate x) ->
               option_map clamp_rate c = c).
  { intros [x|] H; [|reflexivity]. cbn. now rewrite (H x eq_refl). }
  assert (Ea : forall (a : option (float * bool)), (forall x w, a = Some (x, w) -> fixp clamp_attr x) ->
               option_map clamp_pair a = a).
  { intros [[x w]|] H; [|reflexivity]. cbn. unfold clamp_pair. cbn. now rewrite (H x w eq_refl). }
  rewrite (Ec _ Hc), (Ea _ Ha), (Ea _ Hcs), (Ea _ Hh), (Ea _ Ho). destruct d; reflexivity.
Qed.

(* independent setters commute *)
Theorem setters_commute (d : diff) (o1 o2 : sop) :
  sop_name o1 <> sop_name o2 ->
  diff_apply (diff_apply d o1) o2 = diff_apply (diff_apply d o2) o1.
Proof. destruct o1, o2; cbn; intros H; try reflexivity; exfalso; apply H; reflexivity. Qed.

(* the last call of a setter wins *)
Theorem setter_overwrites (d : diff) (o1 o2 : sop) :
  sop_name o1 = sop_name o2 -> diff_apply (diff_apply d o1) o2 = diff_apply d o2.
Proof. destruct o1, o2; cbn; intros H; try discriminate; reflexivity. Qed.

(* ---- Performance setters = Difficulty setters (through any tables that pass the check) -- *)
Variable dispatch : list (string * mode * dtarget).
Variable builders : list (mode * string * bkind).
Hypothesis Hfwd : setters_forward_check dispatch builders = true.

Lemma sop_name_in (o : sop) : In (sop_name o) all_setter_names.
Proof. destruct o; cbn; tauto. Qed.
Lemma mode_in (m : mode) : In m all_modes.
Proof. destruct m; cbn; tauto. Qed.

Lemma perf_apply_spec (p : perf M) (o : sop) :
  p_mode (perf_apply dispatch builders p o) = p_mode p /\
  p_diff (perf_apply dispatch builders p o)
  = if noop_for dispatch (p_mode p) o then p_diff p else diff_apply (p_diff p) o.
Proof.
  unfold setters_forward_check in Hfwd. rewrite forallb_forall in Hfwd.
  specialize (Hfwd _ (sop_name_in o)). rewrite forallb_forall in Hfwd.
  specialize (Hfwd _ (mode_in (p_mode p))). unfold route_ok in Hfwd.
  unfold perf_apply, noop_for. unfold perf_route in *.
  destruct (lookup2 dispatch (sop_name o) (p_mode p)) as [[|method same|what]|]; try discriminate.
  - split; reflexivity.
  - destruct same; try discriminate.
    destruct (lookup_builder builders (p_mode p) method) as [[setter same| |f| |w]|]; try discriminate.
    destruct same; try discriminate. rewrite Hfwd. split; reflexivity.
Qed.

Theorem perf_setters_equiv (ops : list sop) (m : mode) (d : diff) :
  let p := fold_left (perf_apply dispatch builders) ops (mk_perf m d) in
  p_mode p = m /\
  p_diff p = fold_left diff_apply (filter (fun o => negb (noop_for dispatch m o)) ops) d.
Proof.
  revert d. induction ops as [|o ops IH]; intros d; cbn; [split; reflexivity|].
  destruct (perf_apply_spec (mk_perf m d) o) as [Hm Hd]. cbn in Hm, Hd.
  destruct (perf_apply dispatch builders (mk_perf m d) o) as [m' d'] eqn:E. cbn in Hm, Hd. subst m'.
  destruct (noop_for dispatch m o); cbn; subst d'; apply IH.
Qed.
End Diff.

(* ---- the generated tables pass the checks (re-evaluated whenever the source changes) ---- *)
Lemma tables_setters_forward : setters_forward_check perf_dispatch mode_builders = true.
Proof. vm_compute. reflexivity. Qed.
Lemma tables_difficulty_replaces : difficulty_replaces_check perf_dispatch mode_builders = true.
Proof. vm_compute. reflexivity. Qed.
Lemma tables_noop_documented : noop_documented_check perf_dispatch perf_doc = true.
Proof. vm_compute. reflexivity. Qed.
Lemma tables_difficulty_setters : difficulty_setters_check difficulty_setters = true.
Proof. vm_compute. reflexivity. Qed.
Lemma tables_inspect : inspect_check difficulty_fields inspect_fields into_difficulty_calls = true.
Proof. vm_compute. reflexivity. Qed.

(* the instance for the code as it is now *)
Theorem perf_setters_equiv_now (M : Type) (ops : list (sop M)) (m : mode) (d : diff M) :
  let p := fold_left (perf_apply perf_dispatch mode_builders) ops (mk_perf m d) in
  p_mode p = m /\
  p_diff p = fold_left diff_apply (filter (fun o => negb (noop_for perf_dispatch m o)) ops) d.
Proof. exact (perf_setters_equiv M perf_dispatch mode_builders tables_setters_forward ops m d). Qed.

(* clamp bounds as the documentation states them *)
Lemma clamp_rate_examples :
  clamp_rate 0%float = 0x1.47ae147ae147bp-7%float /\ clamp_rate 1000%float = 100%float /\
  clamp_rate 1.5%float = 1.5%float /\ clamp_rate neg_infinity = 0x1.47ae147ae147bp-7%float /\
  clamp_rate infinity = 100%float.
Proof. repeat split; reflexivity. Qed.
Lemma clamp_attr_examples :
  clamp_attr (-25)%float = (-20)%float /\ clamp_attr 25%float = 20%float /\
  clamp_attr 9.5%float = 9.5%float /\ clamp_attr infinity = 20%float.
Proof. repeat split; reflexivity. Qed.
