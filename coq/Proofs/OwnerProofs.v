(* Proofs/OwnerProofs.v — no history of moves, uses, environment allocations / frees and the
   final drop makes a gradual calculator follow a reference into freed memory or free a cell
   twice; the decoder's scratch buffer never carries a pointer across a line boundary. *)
From Coq Require Import List Bool Arith Lia.
From V Require Import Tables Owner.
Import ListNotations.

Lemma is_live_app h l a : is_live h a = true -> is_live (h ++ l) a = true.
Proof.
  unfold is_live. destruct (nth_error h a) as [c|] eqn:E; [|discriminate].
  intros H. rewrite nth_error_app1; [rewrite E; exact H|].
  apply nth_error_Some. rewrite E. discriminate.
Qed.

Lemma is_calc_app h l a : is_live h a = true -> is_calc (h ++ l) a = is_calc h a.
Proof.
  unfold is_live, is_calc. destruct (nth_error h a) as [c|] eqn:E; [|discriminate].
  intros _. rewrite nth_error_app1; [rewrite E; reflexivity|].
  apply nth_error_Some. rewrite E. discriminate.
Qed.

Lemma is_calc_app_env h a : is_calc (h ++ [env_cell]) a = is_calc h a.
Proof.
  unfold is_calc. destruct (lt_dec a (length h)) as [L|L].
  - rewrite nth_error_app1 by exact L. reflexivity.
  - rewrite nth_error_app2 by lia.
    assert (nth_error h a = None) as -> by (apply nth_error_None; lia).
    destruct (a - length h) as [|k]; cbn; [reflexivity|]. destruct k; reflexivity.
Qed.

Lemma nth_error_kill_ne h a b : a <> b -> nth_error (kill h a) b = nth_error h b.
Proof.
  revert a b. induction h as [|c t IH]; intros a b N; [destruct a; reflexivity|].
  destruct a as [|a], b as [|b]; cbn; try reflexivity; [congruence|].
  apply IH. congruence.
Qed.

Lemma is_live_kill_ne h a b : a <> b -> is_live (kill h a) b = is_live h b.
Proof. intros N. unfold is_live. rewrite nth_error_kill_ne by exact N. reflexivity. Qed.

Lemma is_calc_kill h a b : is_calc (kill h a) b = is_calc h b.
Proof.
  revert a b. induction h as [|c t IH]; intros a b; [destruct a; reflexivity|].
  destruct a as [|a], b as [|b]; cbn; try reflexivity. apply IH.
Qed.

Lemma is_live_kill_same h a : is_live (kill h a) a = false.
Proof.
  revert a. induction h as [|c t IH]; intros a; [destruct a; reflexivity|].
  destruct a as [|a]; cbn; [reflexivity|]. apply IH.
Qed.

Definition calc_ok (h : heap) (c : calc) : Prop :=
  is_live h (referrer c) = true /\ is_calc h (referrer c) = true /\
  is_live h (referents c) = true /\ is_calc h (referents c) = true /\
  referrer c <> referents c /\ Forall (fun p => p = referents c) (ptrs c) /\ own_tag c = ptr_tag c.

Definition OInv (s : st) : Prop :=
  fault s = false /\ match cv s with None => True | Some c => calc_ok (hp s) c end.

Lemma calc_ok_use h c : calc_ok h c -> use_calc h c = true.
Proof.
  intros (L1 & _ & L2 & _ & _ & P & T). unfold use_calc. rewrite L1, T, Nat.eqb_refl, andb_true_r. cbn.
  apply forallb_forall. intros p Hp. rewrite Forall_forall in P. rewrite (P p Hp). exact L2.
Qed.

Lemma calc_ok_drop h c : calc_ok h c -> snd (drop_calc h c) = true.
Proof.
  intros (L1 & _ & L2 & _ & N & _). unfold drop_calc. cbn. rewrite L1.
  rewrite is_live_kill_ne by exact N. rewrite L2. reflexivity.
Qed.

(* after the drop both cells are freed, exactly once each *)
Lemma calc_ok_drop_frees h c : calc_ok h c ->
  is_live (fst (drop_calc h c)) (referrer c) = false /\ is_live (fst (drop_calc h c)) (referents c) = false.
Proof.
  intros (_ & _ & _ & _ & N & _). unfold drop_calc. cbn. split.
  - rewrite is_live_kill_ne by congruence. apply is_live_kill_same.
  - apply is_live_kill_same.
Qed.

Lemma new_inv h n : OInv (new_calc h n).
Proof.
  split; [reflexivity|]. cbn. unfold calc_ok. cbn.
  assert (E0 : nth_error (h ++ [fresh; fresh]) (length h) = Some fresh).
  { rewrite nth_error_app2 by lia. rewrite Nat.sub_diag. reflexivity. }
  assert (E1 : nth_error (h ++ [fresh; fresh]) (S (length h)) = Some fresh).
  { rewrite nth_error_app2 by lia. replace (S (length h) - length h) with 1 by lia. reflexivity. }
  unfold is_live, is_calc. rewrite E0, E1. cbn.
  repeat (split; [reflexivity|]). split; [lia|]. split; [|reflexivity].
  apply Forall_forall. intros p Hp. apply repeat_spec in Hp. exact Hp.
Qed.

Lemma calc_ok_env_alloc h c : calc_ok h c -> calc_ok (h ++ [env_cell]) c.
Proof.
  intros (L1 & C1 & L2 & C2 & N & P & T). unfold calc_ok.
  rewrite !is_calc_app_env. repeat split; auto using is_live_app.
Qed.

Lemma calc_ok_env_free h c a : is_calc h a = false -> calc_ok h c -> calc_ok (kill h a) c.
Proof.
  intros F (L1 & C1 & L2 & C2 & N & P & T). unfold calc_ok. rewrite !is_calc_kill.
  assert (a <> referrer c) by (intros ->; congruence).
  assert (a <> referents c) by (intros ->; congruence).
  rewrite !is_live_kill_ne by assumption. repeat split; assumption.
Qed.

Lemma step_inv s o : OInv s -> OInv (hstep false s o).
Proof.
  intros [F I]. pose proof (conj F I : OInv s) as HS. destruct o as [| | | |a]; cbn [hstep].
  - exact HS.
  - destruct (cv s) as [c|] eqn:E; [|exact HS].
    split; cbn; [|exact I]. rewrite F, (calc_ok_use _ _ I). reflexivity.
  - destruct (cv s) as [c|] eqn:E; [|exact HS].
    pose proof (calc_ok_drop _ _ I) as D. destruct (drop_calc (hp s) c) as [h' ok]. cbn in D. subst ok.
    split; cbn; [rewrite F; reflexivity|exact Logic.I].
  - split; cbn; [assumption|]. destruct (cv s) as [c|]; [|exact Logic.I]. apply calc_ok_env_alloc, I.
  - destruct (is_calc (hp s) a) eqn:C; [exact HS|].
    split; cbn; [assumption|]. destruct (cv s) as [c|]; [|exact Logic.I]. apply calc_ok_env_free; assumption.
Qed.

Theorem history_safe : forall (h : heap) (n : nat) (ops : list hop),
  fault (run_hist false h n ops) = false.
Proof.
  intros h n ops. unfold run_hist.
  assert (G : forall s, OInv s -> OInv (fold_left (hstep false) ops s)).
  { induction ops as [|o ops IH]; intros s Hs; [exact Hs|]. cbn [fold_left]. apply IH, step_inv, Hs. }
  exact (proj1 (G _ (new_inv h n))).
Qed.

(* dropping frees both cells, once: the last state of a history that ends in HDrop has no
   calculator and the two cells are dead *)
Theorem drop_frees_both : forall (h : heap) (n : nat) (ops : list hop),
  ~ In HDrop ops ->
  let s := run_hist false h n ops in
  let s' := hstep false s HDrop in
  cv s' = None /\ fault s' = false /\
  is_live (hp s') (length h) = false /\ is_live (hp s') (S (length h)) = false /\
  is_live (hp s) (length h) = true /\ is_live (hp s) (S (length h)) = true.
Proof.
  intros h n ops NI.
  assert (G : forall s, OInv s -> cv s = Some {| referents := length h; referrer := S (length h); ptrs := repeat (length h) n; own_tag := 0; ptr_tag := 0 |} ->
                        ~ In HDrop ops ->
                        OInv (fold_left (hstep false) ops s) /\ cv (fold_left (hstep false) ops s) = cv s).
  { clear NI. induction ops as [|o ops IH]; intros s Hs Hc NI; [split; [exact Hs|reflexivity]|].
    cbn [fold_left].
    assert (cv (hstep false s o) = cv s) as Hk.
    { destruct o as [| | | |a]; cbn; try reflexivity.
      - rewrite Hc. reflexivity.
      - exfalso. apply NI. left. reflexivity.
      - destruct (is_calc (hp s) a); reflexivity. }
    destruct (IH (hstep false s o)) as [I' C'].
    + apply step_inv, Hs.
    + rewrite Hk. exact Hc.
    + intros X. apply NI. right. exact X.
    + split; [exact I'|]. rewrite C'. exact Hk. }
  destruct (G _ (new_inv h n) eq_refl NI) as [[F I] C].
  fold (run_hist false h n ops) in F, I, C. cbn zeta.
  set (s := run_hist false h n ops) in *. cbn in C. rewrite C in I.
  cbn [hstep]. rewrite C.
  pose proof (calc_ok_drop _ _ I) as D. pose proof (calc_ok_drop_frees _ _ I) as [K1 K2].
  destruct (drop_calc (hp s) _) as [h' ok] eqn:E. cbn in D, K1, K2. subst ok. cbn.
  destruct I as (L1 & _ & L2 & _). cbn in L1, L2.
  rewrite F. repeat split; assumption.
Qed.

(* the finding repaired by 4077c30: with the referents behind a `Box`, one move between `new`
   and a use is enough (Stacked Borrows; Miri reports it) *)
Lemma boxed_move_refuted : fault (run_hist true [] 3 [HMove; HUse]) = true.
Proof. vm_compute. reflexivity. Qed.

(* a derived Clone would be unsound: drop the original, then use the clone *)
Lemma derived_clone_refuted :
  let s := new_calc [] 3 in
  match cv s with
  | Some c => let '(h1, c') := derived_clone (hp s) c in
              let '(h2, _) := drop_calc h1 c in
              use_calc h2 c' = false
  | None => False
  end.
Proof. vm_compute. reflexivity. Qed.

(* an environment that could free a calculator-owned cell would be unsound too: the
   ownership guard of HEnvFree is what private, never-reassigned fields provide *)
Lemma unguarded_free_refuted :
  let s := new_calc [] 3 in
  match cv s with
  | Some c => use_calc (kill (hp s) (referents c)) c = false
  | None => False
  end.
Proof. vm_compute. reflexivity. Qed.

(* ------------------------------------------------------------------ decoder scratch buffer *)

Definition DInv (s : dstate) : Prop := d_buf s = [] /\ d_fault s = false.

Lemma forallb_repeat_eq e n : forallb (Nat.eqb e) (repeat e n) = true.
Proof. induction n as [|n IH]; cbn; [reflexivity|]. rewrite Nat.eqb_refl. exact IH. Qed.

Lemma dstep_inv s o : no_touch o -> DInv s -> DInv (dstep true s o).
Proof.
  intros T [B F]. destruct o as [|n t]; cbn; [split; assumption|].
  cbn in T. subst t. split; [reflexivity|]. rewrite B, F. cbn. rewrite forallb_repeat_eq. reflexivity.
Qed.

Theorem scratch_safe : forall ops : list dop, Forall no_touch ops ->
  d_fault (drun true ops) = false /\ d_buf (drun true ops) = [].
Proof.
  intros ops T. unfold drun.
  assert (G : forall s, DInv s -> DInv (fold_left (dstep true) ops s)).
  { induction T as [|o ops To _ IH]; intros s Hs; [exact Hs|]. cbn [fold_left]. apply IH, dstep_inv; assumption. }
  destruct (G dinit (conj eq_refl eq_refl)) as [B F]. split; assumption.
Qed.

(* without the `clear()` a pointer into the previous line would be read *)
Lemma scratch_without_clear_refuted :
  d_fault (drun false [DPath 2 false; DNextLine; DPath 1 false]) = true.
Proof. vm_compute. reflexivity. Qed.

(* and a callee that touches the scratch vector would invalidate the slice it was given *)
Lemma scratch_touch_refuted : d_fault (drun true [DPath 2 true]) = true.
Proof. vm_compute. reflexivity. Qed.

(* ------------------------------------------------------------------ the source facts *)

Theorem tables_lifetime_facts : forallb snd lifetime_facts = true.
Proof. vm_compute. reflexivity. Qed.

Theorem tables_lifetime_facts_present : 18 <= length lifetime_facts.
Proof. vm_compute. lia. Qed.
