(* Proofs/ManiaColsProofs.v — C19: key count range, column inverse, lock-step splice. *)
From Coq Require Import ZArith List Bool Lia Floats.
From V Require Import F64 F32 ManiaCols.
Import ListNotations.
Open Scope Z_scope.

Local Arguments Z.ltb : simpl never.
Local Arguments Z.eqb : simpl never.

(* without a key mod the key count is between 4 and 7 for EVERY cs, od and object mix; with a key
   mod it is the mod's value *)
Theorem target_columns_range cs od n len : 4 <= target_columns None cs od n len <= 7.
Proof.
  unfold target_columns.
  assert (F : 4 <= Z.max (Z.min (to_i32 od + 1) 7) 4 <= 7) by lia.
  destruct (len =? 0); [exact F|].
  destruct (PrimFloat.ltb _ 0.2); [lia|].
  destruct (PrimFloat.ltb _ 0.3 || PrimFloat.leb 5 cs).
  - destruct (PrimFloat.ltb 5 od); lia.
  - destruct (PrimFloat.ltb 0.6 _); [destruct (PrimFloat.ltb 4 od); lia|exact F].
Qed.
Theorem target_columns_keys k cs od n len : target_columns (Some k) cs od n len = k.
Proof. reflexivity. Qed.

(* complete over the finite domain of conversions: for every key count 1..10 (key mods 1K-10K;
   4..7 without a key mod) and every column below it, the x position a generated note gets maps
   back to its column; so every note placed through column_to_pos lies in the intended column,
   below the key count.  (Not true for every key count a native mania map may have: see
   column_inverse_14_refuted; conversions never produce 14 columns.) *)
Definition column_inverse_ok (k c : Z) : bool := column (column_to_pos c k) (of_Z k) =? c.
Fixpoint upto (n : nat) : list Z := match n with O => [] | S m => upto m ++ [Z.of_nat m] end.
Lemma column_inverse_all :
  forallb (fun k => forallb (column_inverse_ok k) (upto (Z.to_nat k))) (map (fun k => k + 1) (upto 10)) = true.
Proof. vm_compute. reflexivity. Qed.
Lemma column_inverse_14_refuted : column (column_to_pos 7 14) (of_Z 14) = 6.
Proof. vm_compute. reflexivity. Qed.

Lemma upto_in n c : In c (upto n) <-> 0 <= c < Z.of_nat n.
Proof.
  induction n as [|n IH]; cbn [upto]; [split; [intros []|lia]|].
  rewrite in_app_iff, IH. cbn. split; [intros [H|[<-|[]]]; lia|].
  intros H. destruct (Z.eq_dec c (Z.of_nat n)); [right; left; now symmetry|left; lia].
Qed.

Theorem column_inverse k c : 1 <= k <= 10 -> 0 <= c < k -> column (column_to_pos c k) (of_Z k) = c.
Proof.
  intros Hk Hc. pose proof column_inverse_all as H. rewrite forallb_forall in H.
  assert (Hin : In k (map (fun k => k + 1) (upto 10))).
  { apply in_map_iff. exists (k - 1). split; [lia|]. apply upto_in. lia. }
  specialize (H k Hin). rewrite forallb_forall in H.
  assert (Hc' : In c (upto (Z.to_nat k))) by (apply upto_in; lia).
  specialize (H c Hc'). unfold column_inverse_ok in H. now apply Z.eqb_eq in H.
Qed.

(* the unclamped quotient of a position written for column c is c as well, hence below the key
   count; the clamp in `column` is not what keeps converted notes inside the stage *)
Definition column_raw_ok (k c : Z) : bool := column_raw (column_to_pos c k) (of_Z k) =? c.
Lemma column_raw_all :
  forallb (fun k => forallb (column_raw_ok k) (upto (Z.to_nat k))) (map (fun k => k + 1) (upto 10)) = true.
Proof. vm_compute. reflexivity. Qed.
Theorem column_raw_inverse k c : 1 <= k <= 10 -> 0 <= c < k -> column_raw (column_to_pos c k) (of_Z k) = c.
Proof.
  intros Hk Hc. pose proof column_raw_all as H. rewrite forallb_forall in H.
  assert (Hin : In k (map (fun k => k + 1) (upto 10))).
  { apply in_map_iff. exists (k - 1). split; [lia|]. apply upto_in. lia. }
  specialize (H k Hin). rewrite forallb_forall in H.
  assert (Hc' : In c (upto (Z.to_nat k))) by (apply upto_in; lia).
  specialize (H c Hc'). unfold column_raw_ok in H. now apply Z.eqb_eq in H.
Qed.
(* a position written for "column k of k" (x = 512) is outside the stage although `column` reads
   it as the last column: the check must not rely on the clamped function *)
Lemma column_clamp_hides_512 : column_raw (column_to_pos 8 8) (of_Z 8) = 8 /\ column (column_to_pos 8 8) (of_Z 8) = 7.
Proof. vm_compute. split; reflexivity. Qed.

(* the column function never returns a column at or above the key count, for the note positions
   0..512 on the integer grid and every key count 1..18 (the conversion only produces integral x
   positions: ceil() in column_to_pos, positions of the original objects are `as i32 as f32`) *)
Definition column_below_ok (k x : Z) : bool := column (of_Z x) (of_Z k) <? k.
Lemma column_below_all :
  forallb (fun k => forallb (column_below_ok k) (upto 513)) (map (fun k => k + 1) (upto 18)) = true.
Proof. vm_compute. reflexivity. Qed.
Theorem column_below k x : 1 <= k <= 18 -> 0 <= x <= 512 -> column (of_Z x) (of_Z k) < k.
Proof.
  intros Hk Hx. pose proof column_below_all as H. rewrite forallb_forall in H.
  assert (Hin : In k (map (fun k => k + 1) (upto 18))).
  { apply in_map_iff. exists (k - 1). split; [lia|]. apply upto_in. lia. }
  specialize (H k Hin). rewrite forallb_forall in H.
  assert (Hx' : In x (upto 513)) by (apply upto_in; lia).
  specialize (H x Hx'). unfold column_below_ok in H. now apply Z.ltb_lt in H.
Qed.

(* random columns: the end points of the generator's range, for every 0 <= lower < upper <= 18.
   (Between the end points the value is monotone in the raw output; monotonicity of the three
   float operations involved is not proved here — partial.) *)
Definition range_ends_ok (lo hi : Z) : bool :=
  (next_int_range 0 lo hi =? lo) && (next_int_range 2147483647 lo hi =? hi - 1)
  && (next_int_range 1073741824 lo hi <? hi) && (lo <=? next_int_range 1073741824 lo hi).
Lemma random_column_end_points_partial :
  forallb (fun hi => forallb (fun lo => range_ends_ok lo hi) (upto (Z.to_nat hi))) (map (fun k => k + 1) (upto 18)) = true.
Proof. vm_compute. reflexivity. Qed.

(* taiko: splicing objects and sounds in lock step keeps one sound per object, for every sequence
   of splices whose replacement lists have equal lengths *)
Definition op_ok {O S} (op : splice_op O S) : Prop :=
  match op with Splice _ objs sounds => length objs = length sounds | Remove _ => True end.

Lemma splice_at_length {A B} (l : list A) (m : list B) idx (na : list A) (nb : list B) :
  length l = length m -> length na = length nb ->
  length (splice_at l idx na) = length (splice_at m idx nb).
Proof.
  intros H1 H2. unfold splice_at. rewrite !app_length, !firstn_length, !skipn_length. lia.
Qed.

Theorem splice_lockstep {O S} (ops : list (splice_op O S)) : forall st,
  length (fst st) = length (snd st) -> Forall op_ok ops ->
  length (fst (fold_left apply_splice ops st)) = length (snd (fold_left apply_splice ops st)).
Proof.
  induction ops as [|op ops IH]; intros st Hl Hok; [exact Hl|].
  inversion Hok as [|? ? Hop Hok']; subst. cbn [fold_left]. apply IH; [|exact Hok'].
  destruct op as [idx objs sounds|idx]; cbn [apply_splice fst snd].
  - now apply splice_at_length.
  - now apply splice_at_length.
Qed.
