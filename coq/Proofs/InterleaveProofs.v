(* Proofs/InterleaveProofs.v — schedule independence, hand-over invariance, cell equivalence. *)
From Coq Require Import List Bool Arith Lia Permutation.
From V Require Import Interleave.
Import ListNotations.

Section Workers.
Variable Env S : Type.
Variable step : Env -> nat -> S -> S.
Variable env : Env.
Notation exec := (exec Env S step env).
Notation run := (run Env S step env).

Definition peq (a b : nat -> S) : Prop := forall k, a k = b k.

Lemma exec_ext a b i : peq a b -> peq (exec a i) (exec b i).
Proof. intros H k. unfold Interleave.exec, upd. rewrite (H i). destruct (Nat.eqb i k); [reflexivity|apply H]. Qed.

Lemma run_ext sched : forall a b, peq a b -> peq (run sched a) (run sched b).
Proof.
  induction sched as [|i sched IH]; intros a b H; [exact H|]. cbn. apply IH. now apply exec_ext.
Qed.

(* two steps commute: different workers touch different private states *)
Lemma exec_comm st i j : peq (exec (exec st i) j) (exec (exec st j) i).
Proof.
  intros k. destruct (Nat.eqb i j) eqn:Eij.
  - apply Nat.eqb_eq in Eij. subst j. reflexivity.
  - assert (Eji : Nat.eqb j i = false) by (rewrite Nat.eqb_sym; exact Eij).
    unfold Interleave.exec, upd. rewrite Eij, Eji.
    destruct (Nat.eqb j k) eqn:Ejk, (Nat.eqb i k) eqn:Eik; try reflexivity.
    apply Nat.eqb_eq in Ejk, Eik. subst. rewrite Nat.eqb_refl in Eij. discriminate.
Qed.

(* every schedule that runs the same steps gives the same final states *)
Theorem interleave_confluent s1 s2 : Permutation s1 s2 -> forall st, peq (run s1 st) (run s2 st).
Proof.
  induction 1 as [|x l l' Hp IH|x y l|l l' l'' H1 IH1 H2 IH2]; intros st.
  - intros k. reflexivity.
  - cbn. apply IH.
  - cbn. apply run_ext. apply exec_comm.
  - intros k. rewrite (IH1 st k). apply IH2.
Qed.

(* in particular: any interleaving equals running the workers one after another *)
Theorem interleaving_equals_sequential workers n sched :
  Permutation sched (sequential workers n) -> forall st, peq (run sched st) (run (sequential workers n) st).
Proof. intros H. now apply interleave_confluent. Qed.

(* a worker's result only depends on its own number of steps *)
Lemma run_other i sched : ~ In i sched -> forall st, run sched st i = st i.
Proof.
  induction sched as [|j sched IH]; intros Hni st; [reflexivity|].
  change (run sched (exec st j) i = st i).
  rewrite IH by (intros H; apply Hni; now right).
  unfold Interleave.exec, upd. destruct (Nat.eqb j i) eqn:E; [|reflexivity].
  apply Nat.eqb_eq in E. subst. exfalso. apply Hni. now left.
Qed.

(* handing a stepper from thread to thread between steps does not change what it computes *)
Theorem handover_invariant i : forall (threads1 threads2 : list nat) (o1 o2 : owned S),
  length threads1 = length threads2 -> snd o1 = snd o2 ->
  snd (fold_left (fun o t => step_on Env S step env i t o) threads1 o1)
  = snd (fold_left (fun o t => step_on Env S step env i t o) threads2 o2).
Proof.
  induction threads1 as [|t1 l1 IH]; intros [|t2 l2] o1 o2 Hl Ho; try discriminate; [exact Ho|].
  cbn [fold_left]. apply IH; [now injection Hl|]. unfold step_on. cbn. now rewrite Ho.
Qed.
End Workers.

(* ---- cells ----------------------------------------------------------------------------- *)
(* on every conflict-free operation sequence the two implementations end in the same state;
   a conflict shows in one iff it shows in the other *)
Theorem cell_equiv ops : forall c,
  match cell_run RefCellFlavour c ops, cell_run RwLockFlavour c ops with
  | Done a, Done b => a = b
  | Panicked, Blocked => True
  | _, _ => False
  end.
Proof.
  induction ops as [|o ops IH]; intros c; cbn; [reflexivity|].
  destruct (cell_step c o) as [c' [|]]; [apply IH|exact I].
Qed.

(* the access pattern used by the library never conflicts *)
Theorem well_nested_no_conflict : forall ops c depth mut_held,
  readers c = depth -> writer c = mut_held -> (mut_held = true -> depth = 0) ->
  well_nested depth mut_held ops = true ->
  exists c', cell_run RefCellFlavour c ops = Done c' /\ cell_run RwLockFlavour c ops = Done c'.
Proof.
  induction ops as [|o ops IH]; intros c depth mh Hr Hw Hm Hwn; [eexists; split; reflexivity|].
  destruct o; cbn [well_nested] in Hwn; cbn [cell_run cell_step].
  - (* borrow *)
    apply andb_true_iff in Hwn as [H1 H2]. apply negb_true_iff in H1. subst mh. rewrite H1.
    rewrite H1 in H2.
    apply (IH (mk_cell (S (readers c)) false) (S depth) false); cbn [readers writer];
      [now rewrite Hr | reflexivity | discriminate | exact H2].
  - (* borrow_mut *)
    apply andb_true_iff in Hwn as [H1 H3]. apply andb_true_iff in H1 as [H1 H2].
    apply negb_true_iff in H1. apply Nat.eqb_eq in H2. subst mh depth. rewrite H1, H2. cbn [orb negb Nat.eqb].
    apply (IH (mk_cell 0 true) 0 true); cbn [readers writer]; [reflexivity | reflexivity | reflexivity | rewrite H2 in H3; exact H3].
  - (* release shared *)
    destruct depth as [|d]; [discriminate|].
    apply (IH (mk_cell (pred (readers c)) (writer c)) d mh); cbn [readers writer];
      [now rewrite Hr | exact Hw | intros E; specialize (Hm E); discriminate | exact Hwn].
  - (* release mut *)
    apply andb_true_iff in Hwn as [H1 H2]. subst mh.
    apply (IH (mk_cell (readers c) false) depth false); cbn [readers writer];
      [exact Hr | reflexivity | discriminate | exact H2].
Qed.

Example nested_reads_ok :
  well_nested 0 false [CBorrowMut; CReleaseMut; CBorrow; CBorrow; CReleaseShared; CReleaseShared] = true.
Proof. reflexivity. Qed.
