(* Proofs/NextMaxProofs.v - .NET generator: next_max(max) lies in [0, max) for every sample below i32::MAX (binary64,
   monotone rounding against dyadic anchors); `as i32` of a non-negative float is the floor. *)
From Coq Require Import ZArith Reals Floats Lia Lra.
From Flocq Require Import Core BinarySingleNaN PrimFloat.
From V Require Import FExact FInt FDy FOps.
From V Require Import F64 F32 ManiaCols Prng.
Open Scope R_scope.

Local Instance P53n : Prec_gt_0 53.
Proof. unfold Prec_gt_0. lia. Qed.
Lemma rnd0 : rndNE 0 = 0.
Proof. apply round_0. apply valid_rnd_N. Qed.

(* `x as i32` of a finite non-negative float is the floor of its value (saturated) *)
Lemma cast_int_floor : forall lo hi y, fin y -> 0 <= RV y -> cast_int lo hi y = sat lo hi (Zfloor (RV y)).
Proof.
  intros lo hi y Fy Hy. assert (Fy' := Fy). apply fin_SF in Fy'. assert (Ry := RV_SF y). unfold cast_int.
  assert (Hfl : forall (a : Z) (b : Z), (0 <= a)%Z -> (b <= 0)%Z ->
            Zfloor (IZR a * bpow radix2 b) = (a / 2 ^ (- b))%Z).
  { intros a b Ha Hb.
    assert (HPb : (0 < 2 ^ (- b))%Z) by (apply Z.pow_pos_nonneg; lia).
    assert (Hbb : bpow radix2 b = / IZR (2 ^ (- b))).
    { destruct (Z.eq_dec b 0) as [->|Hne]; [simpl; lra|apply bpow_neg_inv; lia]. }
    rewrite Hbb. apply Zfloor_imp. rewrite plus_IZR. apply (div_bounds a (2 ^ (- b)) HPb). }
  destruct (Prim2SF y) as [s|s| |s my ey]; try discriminate Fy'.
  - simpl in Ry. rewrite Ry. unfold sf_trunc. f_equal. symmetry. apply (Zfloor_IZR 0).
  - unfold SF2R in Ry. unfold sf_trunc.
    assert (Hs : s = false).
    { destruct s; [exfalso|reflexivity]. unfold F2R in Ry. simpl in Ry.
      assert (IZR (Zneg my) * bpow radix2 ey < 0).
      { assert (0 < bpow radix2 ey) by apply bpow_gt_0.
        assert (IZR (Zneg my) < 0) by (apply IZR_lt; lia).
        replace (IZR (Zneg my) * bpow radix2 ey) with (- ((- IZR (Zneg my)) * bpow radix2 ey)) by ring.
        assert (0 < (- IZR (Zneg my)) * bpow radix2 ey) by (apply Rmult_lt_0_compat; lra). lra. }
      lra. }
    subst s. simpl cond_Zopp in *. f_equal. rewrite Ry.
    destruct (Z.leb_spec 0 ey) as [Hey|Hey].
    + rewrite F2R_pos_exp by exact Hey. symmetry. apply Zfloor_IZR.
    + unfold F2R. simpl Fnum. simpl Fexp. symmetry. apply Hfl; lia.
Qed.

Lemma inv_max_bounds : fin INV_I32_MAX /\ 0 <= RV INV_I32_MAX <= IZR 2147483649 * bpow radix2 (-62).
Proof.
  assert (E : Prim2SF INV_I32_MAX = S754_finite false 4503599629467648 (-83)) by (vm_compute; reflexivity).
  split; [apply fin_SF; rewrite E; reflexivity|].
  rewrite RV_SF, E. unfold SF2R, F2R. simpl Fnum. simpl Fexp. simpl cond_Zopp.
  (* 4503599629467648 * 2^-83 = 2147483649 * 2^21 * 2^-83 = 2147483649 * 2^-62 *)
  replace (IZR 4503599629467648) with (IZR 2147483649 * bpow radix2 21).
  2:{ change (bpow radix2 21) with (IZR 2097152). rewrite <- mult_IZR. reflexivity. }
  rewrite Rmult_assoc, <- bpow_plus. simpl (21 + -83)%Z.
  split; [apply Rmult_le_pos; [apply IZR_le; lia|apply bpow_ge_0]|lra].
Qed.

Lemma dy_le_format : forall m e : Z, (Z.abs m < 2 ^ 53)%Z -> (-1074 <= e)%Z ->
  generic_format radix2 fexp64 (IZR m * bpow radix2 e).
Proof. exact dy_format. Qed.

(* .NET generator: next_max(max) lies in [0, max) for every sample below i32::MAX *)
Theorem next_max_range : forall r max : Z, (0 <= r < 2147483647)%Z -> (1 <= max <= 2 ^ 20)%Z ->
  (0 <= to_i32 ((of_Z r * INV_I32_MAX) * of_Z max)%float < max)%Z.
Proof.
  intros r max Hr Hmax. change (2 ^ 20)%Z with 1048576%Z in Hmax.
  destruct inv_max_bounds as [Fi [Ri0 Ri1]].
  destruct (BF_int r ltac:(change (2 ^ 40)%Z with 1099511627776%Z; lia)) as [Br Rr].
  destruct (BF_int max ltac:(change (2 ^ 40)%Z with 1099511627776%Z; lia)) as [Bm Rm].
  assert (Bi : BF 0 INV_I32_MAX).
  { split; [exact Fi|]. rewrite Rabs_pos_eq by exact Ri0. simpl (bpow radix2 0).
    apply Rle_trans with (IZR 2147483649 * bpow radix2 (-62)); [exact Ri1|].
    change (bpow radix2 (-62)) with (/ IZR (2 ^ 62)).
    apply Rmult_le_reg_r with (IZR (2 ^ 62)); [apply IZR_lt; reflexivity|].
    rewrite Rmult_assoc, Rinv_l by (apply not_0_IZR; discriminate). rewrite Rmult_1_r, Rmult_1_l.
    apply IZR_le. change (2 ^ 62)%Z with 4611686018427387904%Z. lia. }
  destruct (mul_R 40 0 _ _ ltac:(lia) ltac:(lia) ltac:(lia) Br Bi) as [B1 E1].
  (* sample = r * INV <= U := (2^31 - 1) * 2^-31 *)
  set (U := IZR 2147483647 * bpow radix2 (-31)).
  assert (HU : generic_format radix2 fexp64 U).
  { apply dy_le_format; [change (2 ^ 53)%Z with 9007199254740992%Z; lia|lia]. }
  assert (Hx1 : 0 <= RV (of_Z r * INV_I32_MAX)%float <= U).
  { rewrite E1, Rr. split.
    - rewrite <- rnd0. apply rnd_mono.
      apply Rmult_le_pos; [apply IZR_le; lia|exact Ri0].
    - apply (round_le_generic radix2 fexp64 ZnearestE); [exact HU|].
      apply Rle_trans with (IZR 2147483646 * (IZR 2147483649 * bpow radix2 (-62))).
      + apply Rmult_le_compat; [apply IZR_le; lia|exact Ri0|apply IZR_le; lia|exact Ri1].
      + unfold U. rewrite <- Rmult_assoc, <- mult_IZR.
        (* 2147483646 * 2147483649 * 2^-62 <= 2147483647 * 2^-31 = 2147483647 * 2^31 * 2^-62 *)
        replace (bpow radix2 (-31)) with (IZR (2 ^ 31) * bpow radix2 (-62)).
        2:{ change (IZR (2 ^ 31)) with (bpow radix2 31). rewrite <- bpow_plus. reflexivity. }
        rewrite <- Rmult_assoc, <- mult_IZR.
        apply Rmult_le_compat_r; [apply bpow_ge_0|]. apply IZR_le.
        change (2 ^ 31)%Z with 2147483648%Z. lia. }
  assert (B1' : BF 40 (of_Z r * INV_I32_MAX)%float) by (apply (BF_weaken (40 + 0)); [lia|exact B1]).
  destruct (mul_R 40 40 _ _ ltac:(lia) ltac:(lia) ltac:(lia) B1' Bm) as [B2 E2].
  set (V := IZR (2147483647 * max) * bpow radix2 (-31)).
  assert (HV : generic_format radix2 fexp64 V).
  { apply dy_le_format; [change (2 ^ 53)%Z with 9007199254740992%Z; nia|lia]. }
  assert (Hx2 : 0 <= RV ((of_Z r * INV_I32_MAX) * of_Z max)%float <= V).
  { rewrite E2, Rm. assert (0 <= IZR max) by (apply IZR_le; lia). split.
    - rewrite <- rnd0. apply rnd_mono. apply Rmult_le_pos; lra.
    - apply (round_le_generic radix2 fexp64 ZnearestE); [exact HV|].
      unfold V. rewrite mult_IZR.
      apply Rle_trans with (U * IZR max); [apply Rmult_le_compat_r; lra|]. unfold U. lra. }
  (* V < max *)
  assert (HVlt : V < IZR max).
  { unfold V. rewrite mult_IZR.
    assert (0 < IZR max) by (apply IZR_lt; lia).
    assert (Hu : IZR 2147483647 * bpow radix2 (-31) < 1).
    { change (bpow radix2 (-31)) with (/ IZR (2 ^ 31)).
      apply Rmult_lt_reg_r with (IZR (2 ^ 31)); [apply IZR_lt; reflexivity|].
      rewrite Rmult_assoc, Rinv_l by (apply not_0_IZR; discriminate). rewrite Rmult_1_r, Rmult_1_l.
      apply IZR_lt. reflexivity. }
    replace (IZR 2147483647 * IZR max * bpow radix2 (-31)) with (IZR max * (IZR 2147483647 * bpow radix2 (-31))) by ring.
    apply Rlt_le_trans with (IZR max * 1); [apply Rmult_lt_compat_l; assumption|lra]. }
  unfold to_i32. rewrite (cast_int_floor _ _ _ (proj1 B2) (proj1 Hx2)).
  set (x := RV ((of_Z r * INV_I32_MAX) * of_Z max)%float) in *.
  assert (Hf0 : (0 <= Zfloor x)%Z) by (apply Zfloor_lub; simpl; lra).
  assert (Hf1 : (Zfloor x < max)%Z).
  { apply lt_IZR. apply Rle_lt_trans with x; [apply Zfloor_lb|lra]. }
  unfold sat. destruct (Zfloor x <? -2147483648)%Z eqn:A; [apply Z.ltb_lt in A; lia|].
  destruct (2147483647 <? Zfloor x)%Z eqn:B; [apply Z.ltb_lt in B; lia|]. lia.
Qed.
