(* Proofs/AccFloatProofs.v - the accuracy the code returns (binary64 quotient of two integers) is the exact accuracy
   correctly rounded: within 2^-53 of the Q model and itself in [0, 1] (Flocq). *)
From Coq Require Import ZArith QArith Reals Floats Lia Lra Qreals.
From Flocq Require Import Core BinarySingleNaN PrimFloat.
From V Require Import FExact FInt.
From V Require Import F64 Accuracy AccCases.
Open Scope R_scope.

Local Instance P53a : Prec_gt_0 53.
Proof. unfold Prec_gt_0. lia. Qed.

Lemma ulp_one : ulp radix2 fexp64 1 = bpow radix2 (-52).
Proof.
  rewrite ulp_neq_0 by lra. unfold cexp.
  replace (mag radix2 1 : Z) with 1%Z.
  - reflexivity.
  - symmetry. apply mag_unique. simpl. rewrite Rabs_R1. lra.
Qed.

Lemma round_unit_error : forall x, 0 <= x <= 1 -> Rabs (rndNE x - x) <= bpow radix2 (-53).
Proof.
  intros x Hx.
  apply Rle_trans with (/ 2 * ulp radix2 fexp64 x).
  - apply (error_le_half_ulp radix2 fexp64).
  - assert (Hu : ulp radix2 fexp64 x <= ulp radix2 fexp64 1).
    { apply ulp_le_pos; [apply FLT_exp_valid; exact P53a | apply FLT_exp_monotone | lra | lra]. }
    rewrite ulp_one in Hu.
    replace (bpow radix2 (-53)) with (/ 2 * bpow radix2 (-52)).
    + apply Rmult_le_compat_l; lra.
    + change (-52)%Z with (1 + -53)%Z. rewrite bpow_plus. simpl (bpow radix2 1). lra.
Qed.

Theorem facc_correct : forall n d : Z, (0 <= n <= d)%Z -> (0 < d < 2 ^ 53)%Z ->
  fin (facc (n, d)) /\ RV (facc (n, d)) = rndNE (IZR n / IZR d) /\ 0 <= RV (facc (n, d)) <= 1.
Proof.
  intros n d Hn Hd. unfold facc. cbn [fst snd].
  destruct (Z.eqb_spec d 0) as [->|_]; [lia|].
  change (2 ^ 53)%Z with 9007199254740992%Z in Hd.
  assert (In_ : IntF (of_Z n) n) by (apply of_Z_int; change (2 ^ 53)%Z with 9007199254740992%Z; lia).
  assert (Id : IntF (of_Z d) d) by (apply of_Z_int; change (2 ^ 53)%Z with 9007199254740992%Z; lia).
  destruct In_ as [Fn Rn]. 
  assert (Hq : IZR 0 <= RV (of_Z n) / IZR d <= IZR 1).
  { rewrite Rn. assert (0 < IZR d) by (apply IZR_lt; lia).
    assert (0 <= IZR n <= IZR d) by (split; apply IZR_le; lia).
    split.
    - apply Rmult_le_pos; [lra|]. apply Rlt_le, Rinv_0_lt_compat. lra.
    - apply Rmult_le_reg_r with (IZR d); [lra|]. unfold Rdiv.
      rewrite Rmult_assoc, Rinv_l by lra. lra. }
  destruct (div_between (of_Z n) (of_Z d) d 0 1 Fn Id) as [Fq Rq];
    [lia | change (2 ^ 53)%Z with 9007199254740992%Z; lia
    | change (2 ^ 53)%Z with 9007199254740992%Z; lia | exact Hq |].
  split; [exact Fq|]. split; [|exact Rq].
  (* the value is the rounded quotient *)
  destruct Id as [Fd Rd]. unfold fin, RV in *.
  rewrite div_equiv.
  assert (Hnz : B2R (Prim2B (of_Z d)) <> 0) by (rewrite Rd; apply not_0_IZR; lia).
  generalize (Bdiv_correct prec emax Hprec Hmax mode_NE (Prim2B (of_Z n)) (Prim2B (of_Z d)) Hnz).
  rewrite Rn, Rd. simpl round_mode.
  rewrite Rn in Hq.
  destruct (round_between _ 0 1 ltac:(change (2 ^ 53)%Z with 9007199254740992%Z; lia)
              ltac:(change (2 ^ 53)%Z with 9007199254740992%Z; lia) Hq) as [_ Ho].
  rewrite Rlt_bool_true by exact Ho.
  intros [H1 _]. exact H1.
Qed.

(* the float the code returns is the exact accuracy of Model/Accuracy.v correctly rounded: it is
   within 2^-53 of it, and lies in [0, 1] itself *)
Theorem facc_close : forall n d : Z, (0 <= n <= d)%Z -> (d < 2 ^ 53)%Z ->
  fin (facc (n, d)) /\ 0 <= RV (facc (n, d)) <= 1
  /\ Rabs (RV (facc (n, d)) - Q2R (acc_of (n, d))) <= bpow radix2 (-53).
Proof.
  intros n d Hn Hd.
  destruct (Z.eq_dec d 0) as [->|Hne].
  - assert (n = 0)%Z by lia. subst n. unfold facc, acc_of. cbn [fst snd]. simpl (0 =? 0)%Z. cbv iota.
    destruct zero_int as [F R]. split; [exact F|]. rewrite R. split; [lra|].
    replace (Q2R 0) with 0 by (unfold Q2R; cbn; lra).
    rewrite Rminus_0_r, Rabs_R0. apply bpow_ge_0.
  - destruct (facc_correct n d Hn ltac:(lia)) as [F [R B]].
    split; [exact F|]. split; [exact B|]. rewrite R.
    assert (Hq : Q2R (acc_of (n, d)) = IZR n / IZR d).
    { unfold acc_of. cbn [fst snd]. destruct (Z.eqb_spec d 0) as [E|_]; [lia|].
      unfold Q2R. simpl Qnum. simpl Qden. rewrite Z2Pos.id by lia. reflexivity. }
    rewrite Hq. apply round_unit_error.
    assert (0 < IZR d) by (apply IZR_lt; lia).
    assert (0 <= IZR n <= IZR d) by (split; apply IZR_le; lia).
    split.
    + apply Rmult_le_pos; [lra|]. apply Rlt_le, Rinv_0_lt_compat. lra.
    + apply Rmult_le_reg_r with (IZR d); [lra|]. unfold Rdiv.
      rewrite Rmult_assoc, Rinv_l by lra. lra.
Qed.

(* ---- OsuScoreState::accuracy with its binary64 tick weights: still within [0, 1] ---- *)
Definition NN (k : Z) (x : PrimFloat.float) : Prop := fin x /\ 0 <= RV x <= bpow radix2 k.

Lemma round_le_bpow : forall x (k : Z), (-1074 <= k)%Z -> 0 <= x <= bpow radix2 k ->
  0 <= rndNE x <= bpow radix2 k.
Proof.
  intros x k Hk [H0 H1]. split.
  - apply (round_ge_generic radix2 fexp64 ZnearestE); [apply generic_format_0|exact H0].
  - apply (round_le_generic radix2 fexp64 ZnearestE); [|exact H1].
    apply generic_format_bpow. unfold FLT_exp. lia.
Qed.

Lemma bpow_lt_emax : forall x (k : Z), (k < 1024)%Z -> 0 <= x <= bpow radix2 k -> Rabs x < bpow radix2 1024.
Proof.
  intros x k Hk [H0 H1]. rewrite Rabs_pos_eq by exact H0.
  apply Rle_lt_trans with (bpow radix2 k); [exact H1|]. apply bpow_lt. exact Hk.
Qed.

(* monotone addition of non-negative floats *)
Lemma add_mono : forall (k : Z) a b c d, (0 <= k < 1000)%Z -> NN k a -> NN k b -> NN k c -> NN k d ->
  RV a <= RV c -> RV b <= RV d ->
  NN (k + 1) (a + b)%float /\ NN (k + 1) (c + d)%float /\ RV (a + b)%float <= RV (c + d)%float.
Proof.
  intros k a b c d Hk [Fa Ra] [Fb Rb] [Fc Rc] [Fd Rd] Hac Hbd.
  assert (E : bpow radix2 (k + 1) = 2 * bpow radix2 k) by (rewrite Z.add_comm, bpow_plus; reflexivity).
  assert (Hsum : forall x y, fin x -> fin y -> 0 <= RV x <= bpow radix2 k -> 0 <= RV y <= bpow radix2 k ->
            fin (x + y)%float /\ RV (x + y)%float = rndNE (RV x + RV y)
            /\ 0 <= RV (x + y)%float <= bpow radix2 (k + 1)).
  { intros x y Fx Fy Rx Ry.
    assert (Hb : 0 <= RV x + RV y <= bpow radix2 (k + 1)) by (rewrite E; lra).
    destruct (round_le_bpow _ (k + 1) ltac:(lia) Hb) as [Hr0 Hr1].
    unfold fin, RV in *. rewrite add_equiv.
    generalize (Bplus_correct prec emax Hprec Hmax mode_NE (Prim2B x) (Prim2B y) Fx Fy).
    simpl round_mode.
    rewrite Rlt_bool_true by (apply (bpow_lt_emax _ (k + 1)); [lia|split; assumption]).
    intros [H1 [H2 _]]. split; [exact H2|]. split; [exact H1|]. rewrite H1. split; assumption. }
  destruct (Hsum a b Fa Fb Ra Rb) as [F1 [E1 B1]].
  destruct (Hsum c d Fc Fd Rc Rd) as [F2 [E2 B2]].
  split; [split; assumption|]. split; [split; assumption|].
  rewrite E1, E2. apply round_le; [apply FLT_exp_valid; exact P53a | apply valid_rnd_N | lra].
Qed.

(* monotone multiplication by a weight in [0, 1] *)
Lemma mul_mono : forall (k : Z) w x y, (0 <= k < 1000)%Z -> fin w -> 0 <= RV w <= 1 -> NN k x -> NN k y ->
  RV x <= RV y -> NN k (w * x)%float /\ NN k (w * y)%float /\ RV (w * x)%float <= RV (w * y)%float.
Proof.
  intros k w x y Hk Fw Rw [Fx Rx] [Fy Ry] Hxy.
  assert (Hm : forall z, fin z -> 0 <= RV z <= bpow radix2 k ->
            fin (w * z)%float /\ RV (w * z)%float = rndNE (RV w * RV z) /\ 0 <= RV (w * z)%float <= bpow radix2 k).
  { intros z Fz Rz.
    assert (Hb : 0 <= RV w * RV z <= bpow radix2 k).
    { split; [apply Rmult_le_pos; lra|].
      apply Rle_trans with (1 * RV z); [apply Rmult_le_compat_r; lra|lra]. }
    destruct (round_le_bpow _ k ltac:(lia) Hb) as [Hr0 Hr1].
    unfold fin, RV in *. rewrite mul_equiv.
    generalize (Bmult_correct prec emax Hprec Hmax mode_NE (Prim2B w) (Prim2B z)).
    simpl round_mode.
    rewrite Rlt_bool_true by (apply (bpow_lt_emax _ k); [lia|split; assumption]).
    intros [H1 [H2 _]]. rewrite H2, Fw, Fz. split; [reflexivity|]. split; [exact H1|]. rewrite H1. split; assumption. }
  destruct (Hm x Fx Rx) as [F1 [E1 B1]]. destruct (Hm y Fy Ry) as [F2 [E2 B2]].
  split; [split; assumption|]. split; [split; assumption|].
  rewrite E1, E2. apply round_le; [apply FLT_exp_valid; exact P53a | apply valid_rnd_N |].
  apply Rmult_le_compat_l; lra.
Qed.

Lemma NN_weaken : forall k k' x, (k <= k')%Z -> NN k x -> NN k' x.
Proof.
  intros k k' x Hk [F [R0 R1]]. split; [exact F|]. split; [exact R0|].
  apply Rle_trans with (bpow radix2 k); [exact R1|]. apply bpow_le. exact Hk.
Qed.

Lemma NN_of_Z : forall z, (0 <= z < 2 ^ 40)%Z -> NN 40 (of_Z z) /\ RV (of_Z z) = IZR z.
Proof.
  intros z Hz. change (2 ^ 40)%Z with 1099511627776%Z in Hz.
  destruct (of_Z_int z) as [F R]. { change (2 ^ 53)%Z with 9007199254740992%Z. lia. }
  split; [|exact R]. split; [exact F|]. rewrite R. split; [apply IZR_le; lia|].
  change (bpow radix2 40) with (IZR (2 ^ 40)). apply IZR_le. change (2 ^ 40)%Z with 1099511627776%Z. lia.
Qed.

(* 0 <= x <= y, y > 0: the quotient is in [0, 1] *)
Lemma div_unit : forall x y, fin x -> fin y -> 0 <= RV x <= RV y -> 0 < RV y ->
  fin (x / y)%float /\ 0 <= RV (x / y)%float <= 1.
Proof.
  intros x y Fx Fy Hx Hy.
  assert (Hq : IZR 0 <= RV x / RV y <= IZR 1).
  { split.
    - apply Rmult_le_pos; [lra|]. apply Rlt_le, Rinv_0_lt_compat. exact Hy.
    - apply Rmult_le_reg_r with (RV y); [exact Hy|]. unfold Rdiv.
      rewrite Rmult_assoc, Rinv_l by lra. lra. }
  destruct (round_between _ 0 1 ltac:(change (2 ^ 53)%Z with 9007199254740992%Z; lia)
              ltac:(change (2 ^ 53)%Z with 9007199254740992%Z; lia) Hq) as [Hr Ho].
  unfold fin, RV in *. rewrite div_equiv.
  assert (Hnz : B2R (Prim2B y) <> 0) by lra.
  generalize (Bdiv_correct prec emax Hprec Hmax mode_NE (Prim2B x) (Prim2B y) Hnz).
  simpl round_mode. rewrite Rlt_bool_true by exact Ho.
  intros [H1 [H2 _]]. rewrite H1, H2. split; [exact Fx|exact Hr].
Qed.

Lemma const_unit : forall (w : PrimFloat.float) (m : positive) (e : Z),
  Prim2SF w = S754_finite false m e -> (e < 0)%Z -> (Zpos m <= 2 ^ (- e))%Z ->
  fin w /\ 0 <= RV w <= 1.
Proof.
  intros w m e E He Hm. split.
  - apply fin_SF. rewrite E. reflexivity.
  - rewrite RV_SF, E. unfold SF2R, F2R. simpl Fnum. simpl Fexp. simpl cond_Zopp.
    rewrite (bpow_neg_inv e He).
    assert (HP : (0 < 2 ^ (- e))%Z) by (apply Z.pow_pos_nonneg; lia).
    assert (0 < IZR (2 ^ (- e))) by (apply IZR_lt; exact HP).
    assert (0 < IZR (Zpos m) <= IZR (2 ^ (- e))) by (split; [apply IZR_lt; lia|apply IZR_le; exact Hm]).
    split.
    + apply Rmult_le_pos; [lra|]. apply Rlt_le, Rinv_0_lt_compat. lra.
    + apply Rmult_le_reg_r with (IZR (2 ^ (- e))); [lra|].
      rewrite Rmult_assoc, Rinv_l by lra. lra.
Qed.

Lemma W06_unit : fin W06 /\ 0 <= RV W06 <= 1.
Proof.
  apply (const_unit W06 5404319552844595 (-53)); [vm_compute; reflexivity | lia | vm_compute; discriminate].
Qed.
Lemma W02_unit : fin W02 /\ 0 <= RV W02 <= 1.
Proof.
  apply (const_unit W02 7205759403792794 (-55)); [vm_compute; reflexivity | lia | vm_compute; discriminate].
Qed.

Lemma eps_pos : fin F_EPS /\ 0 <= RV F_EPS.
Proof.
  assert (E : Prim2SF F_EPS = S754_finite false 4503599627370496 (-104)) by (vm_compute; reflexivity).
  split; [apply fin_SF; rewrite E; reflexivity|].
  rewrite RV_SF, E. unfold SF2R, F2R. simpl Fnum. simpl Fexp. simpl cond_Zopp.
  apply Rmult_le_pos; [apply IZR_le; lia|apply bpow_ge_0].
Qed.

(* fquot of 0 <= num <= den: finite and within [0, 1] *)
Lemma fquot_unit : forall num den, fin num -> fin den -> 0 <= RV num <= RV den ->
  Rabs (RV den) <= bpow radix2 100 ->
  fin (fquot (num, den)) /\ 0 <= RV (fquot (num, den)) <= 1.
Proof.
  intros num den Fn Fd Hnd Hb. unfold fquot. cbn [fst snd].
  destruct zero_int as [F0 R0].
  destruct (PrimFloat.leb (PrimFloat.abs (den - 0)) F_EPS) eqn:L.
  - split; [exact F0|]. rewrite R0. lra.
  - apply div_unit; try assumption.
    destruct (Req_dec (RV den) 0) as [Hz|Hnz]; [exfalso|lra].
    (* a zero denominator takes the other branch *)
    destruct (sub_between den 0%float 0 0 Fd F0) as [Fs Rs];
      [change (2 ^ 53)%Z with 9007199254740992%Z; lia
      |change (2 ^ 53)%Z with 9007199254740992%Z; lia | rewrite Hz, R0; lra |].
    assert (Hs0 : RV (den - 0)%float = 0) by lra.
    assert (Fa : fin (PrimFloat.abs (den - 0)%float)).
    { unfold fin in *. rewrite abs_equiv, is_finite_Babs. exact Fs. }
    assert (Ra : RV (PrimFloat.abs (den - 0)%float) = 0).
    { unfold RV in *. rewrite abs_equiv, B2R_Babs, Hs0. apply Rabs_R0. }
    destruct eps_pos as [Fe Re].
    rewrite leb_equiv in L. rewrite (Bleb_correct _ _ _ _ Fa Fe) in L.
    unfold RV in Ra, Re. rewrite Ra in L. rewrite Rle_bool_true in L by exact Re. discriminate L.
Qed.

Definition cnt (z : Z) : Prop := (0 <= z < 2 ^ 28)%Z.

(* OsuScoreState::accuracy as computed in binary64, every origin: finite and within [0, 1] for every
   state whose counts are below 2^28 *)
Theorem osu_facc_unit : forall o n300 n100 n50 misses ends large small,
  cnt n300 -> cnt n100 -> cnt n50 -> cnt misses -> cnt ends -> cnt large -> cnt small ->
  match o with OStable => True | OWithSliderAcc a b | OWithoutSliderAcc a b => cnt a /\ cnt b end ->
  let f := fquot (osu_facc_nd o n300 n100 n50 misses ends large small) in
  fin f /\ 0 <= RV f <= 1.
Proof.
  intros o n300 n100 n50 misses ends large small H1 H2 H3 H4 H5 H6 H7 Ho. unfold cnt in *.
  change (2 ^ 28)%Z with 268435456%Z in *.
  assert (HZ : forall z, (0 <= z < 8589934592)%Z -> NN 40 (of_Z z) /\ RV (of_Z z) = IZR z).
  { intros z Hz. apply NN_of_Z. change (2 ^ 40)%Z with 1099511627776%Z. lia. }
  destruct (HZ (6 * n300 + 2 * n100 + n50)%Z ltac:(lia)) as [Nn Rn].
  destruct (HZ (6 * (n300 + n100 + n50 + misses))%Z ltac:(lia)) as [Nd Rd].
  assert (Hnd : RV (of_Z (6 * n300 + 2 * n100 + n50)) <= RV (of_Z (6 * (n300 + n100 + n50 + misses)))).
  { rewrite Rn, Rd. apply IZR_le. lia. }
  destruct W06_unit as [F6 R6]. destruct W02_unit as [F2 R2].
  assert (Hfin : forall num den, NN 42 num -> NN 42 den -> RV num <= RV den ->
                 fin (fquot (num, den)) /\ 0 <= RV (fquot (num, den)) <= 1).
  { intros num den [Fnu [Rn0 Rn1]] [Fde [Rd0 Rd1]] Hle. apply fquot_unit; try assumption; [lra|].
    rewrite Rabs_pos_eq by lra. apply Rle_trans with (bpow radix2 42); [exact Rd1|]. apply bpow_le. lia. }
  cbv zeta. unfold osu_facc_nd.
  destruct o as [|ml me|ml ms].
  - apply Hfin; [apply (NN_weaken 40); [lia|exact Nn] | apply (NN_weaken 40); [lia|exact Nd] | exact Hnd].
  - destruct Ho as [Hml Hme].
    destruct (HZ (3 * Z.min ends me)%Z ltac:(lia)) as [Na Ra].
    destruct (HZ (3 * me)%Z ltac:(lia)) as [Nb Rb].
    destruct (HZ (Z.min large ml) ltac:(lia)) as [Nc Rc].
    destruct (HZ ml ltac:(lia)) as [Ne Re].
    destruct (mul_mono 40 W06 _ _ ltac:(lia) F6 R6 Nc Ne) as [M1 [M2 M3]].
    { rewrite Rc, Re. apply IZR_le. lia. }
    destruct (add_mono 40 _ _ _ _ ltac:(lia) Na M1 Nb M2) as [A1 [A2 A3]]; [rewrite Ra, Rb; apply IZR_le; lia | exact M3 |].
    destruct (add_mono 41 _ _ _ _ ltac:(lia) (NN_weaken 40 41 _ ltac:(lia) Nn) A1 (NN_weaken 40 41 _ ltac:(lia) Nd) A2 Hnd A3)
      as [B1 [B2 B3]].
    apply Hfin; assumption.
  - destruct Ho as [Hml Hms].
    destruct (HZ (Z.min large ml) ltac:(lia)) as [Nc Rc].
    destruct (HZ ml ltac:(lia)) as [Ne Re].
    destruct (HZ (Z.min small ms) ltac:(lia)) as [Ng Rg].
    destruct (HZ ms ltac:(lia)) as [Nh Rh].
    destruct (mul_mono 40 W06 _ _ ltac:(lia) F6 R6 Nc Ne) as [M1 [M2 M3]].
    { rewrite Rc, Re. apply IZR_le. lia. }
    destruct (mul_mono 40 W02 _ _ ltac:(lia) F2 R2 Ng Nh) as [P1 [P2 P3]].
    { rewrite Rg, Rh. apply IZR_le. lia. }
    destruct (add_mono 40 _ _ _ _ ltac:(lia) M1 P1 M2 P2 M3 P3) as [A1 [A2 A3]].
    destruct (add_mono 41 _ _ _ _ ltac:(lia) (NN_weaken 40 41 _ ltac:(lia) Nn) A1 (NN_weaken 40 41 _ ltac:(lia) Nd) A2 Hnd A3)
      as [B1 [B2 B3]].
    apply Hfin; assumption.
Qed.
