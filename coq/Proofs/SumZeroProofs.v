(* Proofs/SumZeroProofs.v - `sum` of the compact strain list (zero runs skipped) against the sum of the plain
   Vec<f64> of the raw_strains variant (zeros added): equal, or both a zero. *)
From Coq Require Import ZArith List Bool Floats Lia.
From V Require Import F64 FExact FInt FDy SumZero StrainsVec StrainsVecProofs.
Import ListNotations.
Open Scope Z_scope.

Lemma fsum_wsum : forall l, fsum l = wsum_from l NEG_ZERO.
Proof. reflexivity. Qed.

Theorem sum_equiv_plain_list : forall s : sv, Inv s ->
  (forall w, In w (abs s) -> w = 0 \/ 0 < w <= POS_INF_BITS) ->
  zsim (fsum (abs s)) (sum s).
Proof.
  intros s [Hwf _] Hl. unfold sum, values_of.
  destruct (retain_abs_list _ Hwf) as [H1 H2]. rewrite <- H2, H1.
  rewrite !fsum_wsum. apply (wsum_skip_zeros (abs s) NEG_ZERO Hl).
Qed.

Lemma canon_range : forall b, push_ok b = true -> canon b = 0 \/ 0 < canon b <= POS_INF_BITS.
Proof.
  intros b H. unfold push_ok in H. unfold canon, push_is_value.
  apply andb_true_iff in H. destruct H as [H Hn]. apply negb_true_iff in Hn.
  destruct (0 <? b) eqn:E1; destruct (b <? SIGN) eqn:E2; cbn; try (left; reflexivity).
  right. apply Z.ltb_lt in E1. rewrite andb_true_r in Hn. apply Z.ltb_ge in Hn. lia.
Qed.

(* the raw_strains variant sums the plain vector, the compact variant skips its zero runs: for every
   push sequence without a positive NaN the two sums are the same float, or both are a zero *)
Theorem raw_sum_equiv (pushes : list Z) :
  forallb push_ok pushes = true -> Z.of_nat (length pushes) < SIGN ->
  let s := fst (run sv_empty (map OPush pushes)) in
  let r := fold_left raw_push pushes [] in
  zsim (raw_sum r) (sum s).
Proof.
  intros Hok Hlen. pose proof (raw_equiv pushes Hok Hlen) as H. cbv zeta in H |- *.
  assert (Hleg : forall l acc, forallb push_ok l = true -> legal acc (map OPush l)).
  { induction l as [|x l IH]; intros acc Hx; cbn; [exact I|]. cbn in Hx.
    apply andb_true_iff in Hx. destruct Hx as [Hx1 Hx2].
    split; [|now apply IH]. unfold push_ok in Hx1.
    apply andb_true_iff in Hx1. destruct Hx1 as [Hx1 _]. apply andb_true_iff in Hx1. destruct Hx1 as [A B].
    apply Z.leb_le in A. apply Z.ltb_lt in B. lia. }
  assert (Hnp : forall l, n_pushes (map OPush l) = Z.of_nat (length l)).
  { induction l as [|x l IH]; cbn [map n_pushes length]; [reflexivity|]. rewrite IH. lia. }
  pose proof (run_refines (map OPush pushes) sv_empty Exact_empty
                (Hleg _ _ Hok) ltac:(cbn [len sv_empty]; rewrite Hnp; lia)) as HR.
  destruct (run sv_empty (map OPush pushes)) as [s ok]. cbn [fst].
  destruct H as (_ & _ & _ & Hiv & _). destruct HR as (_ & HE & _ & _).
  pose proof (Exact_Inv _ HE) as HI.
  rewrite into_vec_spec in Hiv by exact HI. injection Hiv as Habs.
  unfold raw_sum. rewrite <- Habs. apply sum_equiv_plain_list; [exact HI|].
  intros w Hw. rewrite Habs in Hw.
  assert (Hraw : forall l acc, fold_left raw_push l acc = acc ++ map canon l).
  { induction l as [|x l IH]; intros acc; cbn; [now rewrite app_nil_r|].
    unfold raw_push at 2. rewrite IH, <- app_assoc. reflexivity. }
  rewrite Hraw in Hw. cbn [app] in Hw. apply in_map_iff in Hw. destruct Hw as [b [<- Hb]].
  apply canon_range. rewrite forallb_forall in Hok. exact (Hok b Hb).
Qed.
