(* Proofs/SecTerm.v - termination of the strain-section loop (src/util/macros.rs `while curr.start_time > section_end`)
   in binary64 arithmetic, and sufficiency of the fuel the executable model computes. *)
From Coq Require Import ZArith Reals Floats Lia Lra List.
From Flocq Require Import Core BinarySingleNaN PrimFloat.
From V Require Import FExact FInt.
From V Require Import F64 Gradual Sections AggregateProofs.
Open Scope R_scope.

Lemma add_int : forall x y a b, IntF x a -> IntF y b -> (Z.abs (a + b) <= 2 ^ 53)%Z ->
  IntF (x + y)%float (a + b).
Proof.
  intros x y a b [Fx Rx] [Fy Ry] Hb.
  destruct (add_exact x y Fx Fy) as [F E].
  - rewrite Rx, Ry, <- plus_IZR. apply int_format. exact Hb.
  - rewrite Rx, Ry, <- plus_IZR. apply bpow_1024_big. exact Hb.
  - split; [exact F|]. rewrite E, Rx, Ry, plus_IZR. reflexivity.
Qed.

Lemma ltb_R : forall x y, fin x -> fin y -> PrimFloat.ltb x y = Rlt_bool (RV x) (RV y).
Proof. intros x y Fx Fy. rewrite ltb_equiv. apply Bltb_correct; assumption. Qed.

Fixpoint addn (n : nat) (e L : PrimFloat.float) : PrimFloat.float :=
  match n with O => e | S n' => addn n' (e + L)%float L end.

(* the loop from an end that is the k-th multiple of the integral section length l: after n more
   sections the end is the (k+n)-th multiple - EXACTLY, no rounding - and the loop stops at the first
   multiple that is not below t *)
Lemma sec_while_steps : forall (n : nat) (L t e : PrimFloat.float) (l k pushed : Z) (fuel : nat),
  IntF L l -> IntF e (k * l) -> fin t ->
  (Z.abs ((k + Z.of_nat n) * l) <= 2 ^ 53)%Z -> (Z.abs (k * l) <= 2 ^ 53)%Z -> (0 < l)%Z ->
  (forall j : Z, (0 <= j < Z.of_nat n)%Z -> IZR ((k + j) * l) < RV t) ->
  ~ (IZR ((k + Z.of_nat n) * l) < RV t) ->
  (n < fuel)%nat ->
  sec_while fuel L t e pushed = Some (addn n e L, (pushed + Z.of_nat n)%Z)
  /\ IntF (addn n e L) ((k + Z.of_nat n) * l).
Proof.
  induction n as [|n IH]; intros L t e l k pushed fuel HL He Ft Hb Hb0 Hl Hlt Hge Hf.
  - destruct fuel as [|f]; [lia|]. cbn [sec_while addn].
    rewrite (ltb_R e t (proj1 He) Ft). rewrite (proj2 He).
    rewrite Rlt_bool_false.
    + split. { f_equal. f_equal. lia. }
      replace (k + Z.of_nat 0)%Z with k by lia. exact He.
    + replace (k + Z.of_nat 0)%Z with k in Hge by lia. lra.
  - destruct fuel as [|f]; [lia|]. cbn [sec_while addn].
    rewrite (ltb_R e t (proj1 He) Ft). rewrite (proj2 He).
    rewrite Rlt_bool_true.
    2:{ specialize (Hlt 0%Z). replace (k + 0)%Z with k in Hlt by lia. apply Hlt. lia. }
    assert (Hmid : (Z.abs ((k + 1) * l) <= 2 ^ 53)%Z).
    { change (2 ^ 53)%Z with 9007199254740992%Z in *. nia. }
    assert (He1 : IntF (e + L)%float ((k + 1) * l)).
    { replace ((k + 1) * l)%Z with (k * l + l)%Z by lia. apply add_int; try assumption.
      replace (k * l + l)%Z with ((k + 1) * l)%Z by lia. exact Hmid. }
    destruct (IH L t (e + L)%float l (k + 1)%Z (pushed + 1)%Z f HL He1 Ft) as [E1 E2].
    + replace (k + 1 + Z.of_nat n)%Z with (k + Z.of_nat (S n))%Z by lia. exact Hb.
    + exact Hmid.
    + exact Hl.
    + intros j Hj. replace (k + 1 + j)%Z with (k + (j + 1))%Z by lia. apply Hlt. lia.
    + replace (k + 1 + Z.of_nat n)%Z with (k + Z.of_nat (S n))%Z by lia. exact Hge.
    + lia.
    + split.
      * rewrite E1. f_equal. f_equal. lia.
      * replace (k + Z.of_nat (S n))%Z with (k + 1 + Z.of_nat n)%Z by lia. exact E2.
Qed.

Lemma Zceil_lt : forall x : R, IZR (Zceil x) - 1 < x.
Proof.
  intros x. unfold Zceil. rewrite opp_IZR.
  generalize (Zfloor_ub (- x)). lra.
Qed.

(* number of sections the loop adds *)
Definition sec_steps (t : PrimFloat.float) (l k : Z) : nat :=
  Z.to_nat (Z.max 0 (Zceil (RV t / IZR l) - k)).

(* for every target time up to 2^52 ms and every end at a multiple of the section length within
   that range, the loop terminates: the number of sections it adds is explicit, every fuel above it
   gives the same result, and the result is the first multiple of l that is not below t *)
Theorem sec_while_terminates : forall (L t e : PrimFloat.float) (l k pushed : Z),
  IntF L l -> (0 < l <= 2 ^ 20)%Z -> IntF e (k * l) -> (Z.abs (k * l) <= 2 ^ 52)%Z ->
  fin t -> RV t <= IZR (2 ^ 52) ->
  let n := sec_steps t l k in
  (forall fuel, (n < fuel)%nat ->
     sec_while fuel L t e pushed = Some (addn n e L, (pushed + Z.of_nat n)%Z))
  /\ IntF (addn n e L) ((k + Z.of_nat n) * l)
  /\ (Z.abs ((k + Z.of_nat n) * l) <= 2 ^ 52 + 2 ^ 20)%Z
  /\ ~ (RV (addn n e L) < RV t)
  /\ (n = 0%nat \/ RV (addn n e L) - IZR l < RV t).
Proof.
  intros L t e l k pushed HL Hl He Hk Ft Ht n.
  unfold sec_steps in n. set (c := Zceil (RV t / IZR l)) in *.
  assert (Hlpos : 0 < IZR l) by (apply IZR_lt; lia).
  assert (Hub : RV t <= IZR c * IZR l).
  { generalize (Zceil_ub (RV t / IZR l)). fold c. intros H.
    apply Rmult_le_compat_r with (r := IZR l) in H; [|lra].
    unfold Rdiv in H. rewrite Rmult_assoc, Rinv_l, Rmult_1_r in H by lra. exact H. }
  assert (Hlb : (IZR c - 1) * IZR l < RV t).
  { generalize (Zceil_lt (RV t / IZR l)). fold c. intros H.
    apply Rmult_lt_compat_r with (r := IZR l) in H; [|lra].
    unfold Rdiv in H. rewrite Rmult_assoc, Rinv_l, Rmult_1_r in H by lra. exact H. }
  change (2 ^ 52)%Z with 4503599627370496%Z in *. change (2 ^ 20)%Z with 1048576%Z in *.
  assert (Hn : Z.of_nat n = Z.max 0 (c - k)) by (unfold n; lia).
  assert (Hcl : (c * l < 4503599627370496 + 1048576)%Z).
  { apply lt_IZR. rewrite mult_IZR, plus_IZR.
    assert (IZR l <= 1048576) by (apply IZR_le; lia). lra. }
  assert (Hbound : (Z.abs ((k + Z.of_nat n) * l) <= 4503599627370496 + 1048576)%Z).
  { rewrite Hn. destruct (Z.max_spec 0 (c - k)) as [[Hlt ->]|[Hlt ->]].
    - replace (k + (c - k))%Z with c by lia. nia.
    - replace (k + 0)%Z with k by lia. lia. }
  assert (Hbelow : forall j : Z, (0 <= j < Z.of_nat n)%Z -> IZR ((k + j) * l) < RV t).
  { intros j Hj. rewrite Hn in Hj.
    assert (Hjc : (k + j <= c - 1)%Z) by lia.
    apply Rle_lt_trans with ((IZR c - 1) * IZR l); [|exact Hlb].
    rewrite mult_IZR. apply Rmult_le_compat_r; [lra|].
    rewrite <- minus_IZR. apply IZR_le. exact Hjc. }
  assert (Hstop : ~ (IZR ((k + Z.of_nat n) * l) < RV t)).
  { rewrite Hn. intros Hc.
    assert (Hkc : (c <= k + Z.max 0 (c - k))%Z) by lia.
    apply IZR_le in Hkc. rewrite mult_IZR in Hc.
    assert (IZR c * IZR l <= IZR (k + Z.max 0 (c - k)) * IZR l) by (apply Rmult_le_compat_r; lra).
    lra. }
  assert (Hall : forall fuel, (n < fuel)%nat ->
     sec_while fuel L t e pushed = Some (addn n e L, (pushed + Z.of_nat n)%Z)
     /\ IntF (addn n e L) ((k + Z.of_nat n) * l)).
  { intros fuel Hf. apply sec_while_steps with (l := l) (k := k); try assumption; try lia.
    all: change (2 ^ 53)%Z with 9007199254740992%Z; lia. }
  destruct (Hall (S n) (Nat.lt_succ_diag_r n)) as [_ HI].
  split; [intros fuel Hf; exact (proj1 (Hall fuel Hf))|].
  split; [exact HI|]. split; [exact Hbound|].
  destruct HI as [_ HR]. rewrite HR. split; [exact Hstop|].
  destruct (Nat.eq_dec n 0) as [Hz|Hnz]; [left; exact Hz|right].
  assert (Hpos : (0 < c - k)%Z) by lia.
  rewrite Hn. rewrite Z.max_r by lia. replace (k + (c - k))%Z with c by lia.
  rewrite mult_IZR. lra.
Qed.

(* ---- the fuel the model computes is enough; the first section end is a multiple of l ---- *)
Section Bounds.
Variables (L : PrimFloat.float) (l : Z).
Hypothesis HL : IntF L l.
Hypothesis Hl : (256 <= l <= 1024)%Z.

Definition TB : Z := 274877906944.            (* 2^38 ms: i32::MAX ms at clock rate 0.01 is < 2^38 *)
Definition EB : Z := 274877906944 + 1024.     (* bound of every section end *)

Definition time_ok (t : PrimFloat.float) : Prop := fin t /\ Rabs (RV t) <= IZR TB.

Lemma Rabs_le_iff : forall x b, Rabs x <= b <-> - b <= x <= b.
Proof. intros x b. split; [apply Rabs_le_inv | apply Rabs_le]. Qed.

Lemma div_l_shrinks : forall r b, 0 <= b -> - b <= r <= b -> - b <= r / IZR l <= b.
Proof.
  intros r b Hb [H1 H2].
  assert (Hl1 : 1 <= IZR l) by (apply IZR_le; lia).
  assert (Hinv : 0 < / IZR l <= 1).
  { split; [apply Rinv_0_lt_compat; lra|]. rewrite <- Rinv_1. apply Rinv_le_contravar; lra. }
  unfold Rdiv. destruct (Rle_dec 0 r) as [Hr|Hr].
  - split; [apply Rle_trans with 0; [lra|apply Rmult_le_pos; lra]|].
    apply Rle_trans with (r * 1); [apply Rmult_le_compat_l; lra|lra].
  - assert (Hr' : r < 0) by lra. split.
    + replace (- b) with (- (b * 1)) by lra. 
      assert ((- r) * / IZR l <= b * 1).
      { apply Rmult_le_compat; lra. }
      lra.
    + apply Rle_trans with 0; [|lra].
      assert (0 <= (- r) * / IZR l) by (apply Rmult_le_pos; lra). lra.
Qed.

(* sec_fuel is at least (lower bound of the quotient) + 3 *)
Lemma fuel_lower : forall (t e : PrimFloat.float) (jd jq : Z),
  fin t -> fin e ->
  (- (TB + EB) <= jd)%Z -> (- (TB + EB) <= jq)%Z ->
  IZR jd <= RV t - RV e <= IZR (TB + EB) ->
  (forall r, IZR jd <= r -> IZR jq <= r / IZR l) ->
  (sat 0 4294967295 jq + 3 <= Z.of_nat (sec_fuel L t e))%Z.
Proof.
  intros t e jd jq Ft Fe Hjd Hjq Hd Hq.
  unfold TB, EB in *.
  assert (Hjd2 : (jd <= 274877906944 + (274877906944 + 1024))%Z).
  { apply le_IZR. lra. }
  destruct (sub_between t e jd (274877906944 + (274877906944 + 1024)) Ft Fe) as [Fd Rd];
    [change (2 ^ 53)%Z with 9007199254740992%Z; lia
    |change (2 ^ 53)%Z with 9007199254740992%Z; lia | exact Hd |].
  set (d := (t - e)%float) in *.
  assert (Hqb : IZR jq <= RV d / IZR l <= IZR (274877906944 + (274877906944 + 1024))).
  { split; [apply Hq; lra|].
    assert (Hneg : - IZR (274877906944 + (274877906944 + 1024)) <= RV d).
    { apply Rle_trans with (IZR jd); [|lra]. rewrite <- opp_IZR. apply IZR_le. lia. }
    apply (div_l_shrinks (RV d) (IZR (274877906944 + (274877906944 + 1024)))).
    - apply IZR_le. lia.
    - lra. }
  assert (Hjq2 : (jq <= 274877906944 + (274877906944 + 1024))%Z).
  { apply le_IZR. lra. }
  destruct (div_between d L l jq (274877906944 + (274877906944 + 1024)) Fd HL) as [Fq Rq];
    [lia | change (2 ^ 53)%Z with 9007199254740992%Z; lia
    |change (2 ^ 53)%Z with 9007199254740992%Z; lia | exact Hqb |].
  set (q := (d / L)%float) in *.
  destruct (fceil_spec q Fq) as [z [[Fz Rz] [Hz1 Hz2]]].
  { apply Rle_lt_trans with (IZR (274877906944 + (274877906944 + 1024))).
    - apply Rabs_le. split; [|lra]. apply Rle_trans with (IZR jq); [|lra].
      rewrite <- opp_IZR. apply IZR_le. lia.
    - apply IZR_lt. reflexivity. }
  unfold sec_fuel. fold d. fold q. unfold to_u32.
  rewrite (cast_int_R 0 4294967295 (fceil q) z Fz Rz).
  assert (Hzq : (jq <= z)%Z) by (apply le_IZR; lra).
  unfold sat. 
  destruct (jq <? 0)%Z eqn:A1; destruct (z <? 0)%Z eqn:A2;
  destruct (4294967295 <? jq)%Z eqn:A3; destruct (4294967295 <? z)%Z eqn:A4; lia.
Qed.

Lemma sec_fuel_enough : forall (t e : PrimFloat.float) (k : Z),
  IntF e (k * l) -> (Z.abs (k * l) <= EB)%Z -> time_ok t ->
  (sec_steps t l k < sec_fuel L t e)%nat.
Proof.
  intros t e k [Fe Re] Hk [Ft Ht]. unfold TB, EB in *.
  apply Rabs_le_iff in Ht.
  assert (Hlpos : 0 < IZR l) by (apply IZR_lt; lia).
  assert (Hkl : - IZR (274877906944 + 1024) <= IZR (k * l) <= IZR (274877906944 + 1024)).
  { split; [rewrite <- opp_IZR|]; apply IZR_le; lia. }
  assert (Hsum : IZR (274877906944 + (274877906944 + 1024)) = IZR 274877906944 + IZR (274877906944 + 1024)).
  { rewrite <- plus_IZR. reflexivity. }
  unfold sec_steps. set (c := Zceil (RV t / IZR l)).
  destruct (Z.max_spec 0 (c - k)) as [[Hck ->]|[Hck ->]].
  - (* at least one section: (c - 1) * l < t *)
    assert (Hlb : (IZR c - 1) * IZR l < RV t).
    { generalize (Zceil_lt (RV t / IZR l)). fold c. intros H.
      apply Rmult_lt_compat_r with (r := IZR l) in H; [|lra].
      unfold Rdiv in H. rewrite Rmult_assoc, Rinv_l, Rmult_1_r in H by lra. exact H. }
    set (j := (c - k - 1)%Z).
    assert (Hj0 : (0 <= j)%Z) by (unfold j; lia).
    assert (Hd : IZR (j * l) <= RV t - RV e <= IZR (274877906944 + (274877906944 + 1024))).
    { rewrite Re. split.
      - unfold j. rewrite mult_IZR, !minus_IZR. rewrite mult_IZR in Hkl |- *. lra.
      - rewrite Hsum. lra. }
    assert (Hjl : (j * l <= 274877906944 + (274877906944 + 1024))%Z) by (apply le_IZR; lra).
    assert (Hjb : (j <= 4294967295)%Z) by nia.
    generalize (fuel_lower t e (j * l) j Ft Fe).
    intros H. unfold TB, EB in H.
    assert (Hq : forall r, IZR (j * l) <= r -> IZR j <= r / IZR l).
    { intros r Hr. rewrite mult_IZR in Hr.
      apply Rmult_le_reg_r with (IZR l); [exact Hlpos|].
      unfold Rdiv. rewrite Rmult_assoc, Rinv_l, Rmult_1_r by lra. exact Hr. }
    specialize (H ltac:(nia) ltac:(lia) Hd Hq).
    unfold sat in H. destruct (j <? 0)%Z eqn:A1; [lia|]. destruct (4294967295 <? j)%Z eqn:A2; [lia|].
    unfold j in H. lia.
  - (* no section to add: any fuel above 0 will do *)
    assert (Hd : IZR (- (274877906944 + (274877906944 + 1024))) <= RV t - RV e
                 <= IZR (274877906944 + (274877906944 + 1024))).
    { rewrite Re. rewrite opp_IZR, Hsum. lra. }
    generalize (fuel_lower t e (- (274877906944 + (274877906944 + 1024)))
                  (- (274877906944 + (274877906944 + 1024))) Ft Fe).
    intros H. unfold TB, EB in H.
    assert (Hq : forall r, IZR (- (274877906944 + (274877906944 + 1024))) <= r ->
                           IZR (- (274877906944 + (274877906944 + 1024))) <= r / IZR l).
    { intros r Hr. rewrite opp_IZR in *.
      destruct (Rle_dec r (IZR (274877906944 + (274877906944 + 1024)))) as [Hle|Hgt].
      - apply (div_l_shrinks r (IZR (274877906944 + (274877906944 + 1024)))).
        + apply IZR_le. lia.
        + lra.
      - apply Rle_trans with 0.
        + assert (0 <= IZR (274877906944 + (274877906944 + 1024))) by (apply IZR_le; lia). lra.
        + assert (0 < r). { assert (0 <= IZR (274877906944 + (274877906944 + 1024))) by (apply IZR_le; lia). lra. }
          unfold Rdiv. apply Rmult_le_pos; [lra|]. apply Rlt_le, Rinv_0_lt_compat. lra. }
    specialize (H ltac:(lia) ltac:(lia) Hd Hq).
    unfold sat in H. simpl in H. lia.
Qed.

(* the first section end, ceil(t / L) * L, is an exact multiple of l close to t *)
Lemma first_end : forall t, time_ok t ->
  exists k, IntF (fceil (t / L) * L)%float (k * l) /\ (Z.abs (k * l) <= EB)%Z.
Proof.
  intros t [Ft Ht]. unfold TB, EB in *. apply Rabs_le_iff in Ht.
  assert (Hlpos : 0 < IZR l) by (apply IZR_lt; lia).
  set (A := (274877906944 / l + 1)%Z).
  assert (HA : IZR 274877906944 * / IZR l < IZR A).
  { unfold A. rewrite plus_IZR. apply (div_bounds 274877906944 l). lia. }
  assert (HA0 : (0 < A)%Z) by (unfold A; generalize (Z.div_pos 274877906944 l); lia).
  assert (HAl : (A * l <= 274877906944 + 1024)%Z).
  { unfold A. generalize (Z.mul_div_le 274877906944 l). nia. }
  assert (HAb : (A <= 274877906944 + 1024)%Z) by nia.
  assert (Hq : IZR (- A) <= RV t / IZR l <= IZR A).
  { rewrite opp_IZR. unfold Rdiv.
    assert (Hinv : 0 < / IZR l) by (apply Rinv_0_lt_compat; lra).
    split.
    - assert ((- IZR 274877906944) * / IZR l <= RV t * / IZR l) by (apply Rmult_le_compat_r; lra).
      lra.
    - assert (RV t * / IZR l <= IZR 274877906944 * / IZR l) by (apply Rmult_le_compat_r; lra).
      lra. }
  destruct (div_between t L l (- A) A Ft HL) as [Fq Rq];
    [lia | change (2 ^ 53)%Z with 9007199254740992%Z; lia
    | change (2 ^ 53)%Z with 9007199254740992%Z; lia | exact Hq |].
  destruct (fceil_spec (t / L)%float Fq) as [z [Hz [Hz1 Hz2]]].
  { apply Rle_lt_trans with (IZR A).
    - apply Rabs_le. rewrite <- opp_IZR. exact Rq.
    - apply IZR_lt. change (2 ^ 52)%Z with 4503599627370496%Z. lia. }
  assert (Hzlo : (- A <= z)%Z) by (apply le_IZR; lra).
  assert (Hzhi : (z <= A)%Z).
  { assert (IZR z < IZR (A + 1)) by (rewrite plus_IZR; lra). apply lt_IZR in H. lia. }
  exists z. split.
  - apply mul_int; [exact Hz | exact HL |]. change (2 ^ 53)%Z with 9007199254740992%Z. nia.
  - nia.
Qed.

(* invariant of the count-only state: the section end is an exact multiple of l within the bound *)
Definition SecInv (st : option (PrimFloat.float * Z)) : Prop :=
  exists e pushed k, st = Some (e, pushed) /\ IntF e (k * l) /\ (Z.abs (k * l) <= EB)%Z /\ (0 <= pushed)%Z.

Lemma loop_from : forall (t e : PrimFloat.float) (k pushed : Z),
  IntF e (k * l) -> (Z.abs (k * l) <= EB)%Z -> (0 <= pushed)%Z -> time_ok t ->
  SecInv (sec_while (sec_fuel L t e) L t e pushed).
Proof.
  intros t e k pushed He Hk Hp Ht.
  assert (Hfuel := sec_fuel_enough t e k He Hk Ht).
  destruct Ht as [Ft Ht]. unfold TB, EB in *.
  assert (Ht2 : RV t <= IZR (2 ^ 52)).
  { apply Rabs_le_iff in Ht. apply Rle_trans with (IZR 274877906944); [lra|]. apply IZR_le.
    change (2 ^ 52)%Z with 4503599627370496%Z. lia. }
  destruct (sec_while_terminates L t e l k pushed HL) as [Hrun [HI [_ [Hstop Hlast]]]];
    try assumption.
  { change (2 ^ 20)%Z with 1048576%Z. lia. }
  { change (2 ^ 52)%Z with 4503599627370496%Z. lia. }
  cbv zeta in *. set (n := sec_steps t l k) in *.
  rewrite (Hrun _ Hfuel).
  exists (addn n e L), (pushed + Z.of_nat n)%Z, (k + Z.of_nat n)%Z.
  split; [reflexivity|]. split; [exact HI|]. split; [|lia].
  destruct Hlast as [Hz|Hlast].
  - rewrite Hz. replace (k + Z.of_nat 0)%Z with k by lia. unfold EB. exact Hk.
  - (* the new end is below t + l and above the old end *)
    destruct HI as [_ HR]. rewrite HR in Hlast.
    apply Rabs_le_iff in Ht.
    assert (Hup : IZR ((k + Z.of_nat n) * l) < IZR (274877906944 + 1024)).
    { rewrite plus_IZR. assert (IZR l <= 1024) by (apply IZR_le; lia). lra. }
    apply lt_IZR in Hup.
    assert (Hmono : (k * l <= (k + Z.of_nat n) * l)%Z) by (apply Z.mul_le_mono_nonneg_r; lia).
    unfold EB. lia.
Qed.

Lemma sec_step_inv : forall st idx t, SecInv st -> time_ok t ->
  (idx = 0%Z \/ True) -> SecInv (sec_step L st (idx, t)).
Proof.
  intros st idx t [e [pushed [k [-> [He [Hk Hp]]]]]] Ht _.
  unfold sec_step.
  destruct (idx =? 0)%Z.
  - destruct (first_end t Ht) as [k0 [He0 Hk0]].
    exact (loop_from t _ k0 pushed He0 Hk0 Hp Ht).
  - exact (loop_from t e k pushed He Hk Hp Ht).
Qed.

Lemma fold_inv : forall (items : list (Z * PrimFloat.float)) st,
  SecInv st -> Forall (fun it => time_ok (snd it)) items ->
  SecInv (fold_left (sec_step L) items st).
Proof.
  induction items as [|[idx t] items IH]; intros st Hst Hall; cbn [fold_left]; [exact Hst|].
  inversion Hall as [|? ? Ht Hrest]; subst. apply IH; [|exact Hrest].
  apply sec_step_inv; [exact Hst | exact Ht | right; exact I].
Qed.

(* every list of finite object times within +-2^38 ms is processed completely: the fuel the
   model computes always suffices, i.e. the section loop terminates for every object, and at least
   one peak (the running section) is exported *)
Theorem section_count_total : forall times : list PrimFloat.float,
  Forall time_ok times ->
  exists n, section_count L times = Some n /\ (1 <= n)%Z.
Proof.
  intros times Hall. unfold section_count.
  assert (Hinit : SecInv (Some (0%float, 0%Z))).
  { exists 0%float, 0%Z, 0%Z. split; [reflexivity|]. split; [exact zero_int|]. unfold EB. split; lia. }
  assert (Hitems : Forall (fun it : Z * PrimFloat.float => time_ok (snd it))
                          (combine (zrange 0 (length times)) times)).
  { apply Forall_forall. intros [i t] Hin. apply in_combine_r in Hin.
    rewrite Forall_forall in Hall. exact (Hall t Hin). }
  destruct (fold_inv _ _ Hinit Hitems) as [e [pushed [k [-> [_ [_ Hp]]]]]].
  exists (pushed + 1)%Z. split; [reflexivity|lia].
Qed.

End Bounds.

(* the section lengths of the crate: 400 ms (osu!, taiko, mania) and 750 ms (catch) *)
Lemma L400 : IntF 400%float 400.
Proof. change 400%float with (of_Z 400). apply of_Z_int. reflexivity. Qed.
Lemma L750 : IntF 750%float 750.
Proof. change 750%float with (of_Z 750). apply of_Z_int. reflexivity. Qed.

Theorem section_count_total_400 : forall times, Forall time_ok times ->
  exists n, section_count 400%float times = Some n /\ (1 <= n)%Z.
Proof. intros. apply (section_count_total 400%float 400 L400); [lia|assumption]. Qed.

Theorem section_count_total_750 : forall times, Forall time_ok times ->
  exists n, section_count 750%float times = Some n /\ (1 <= n)%Z.
Proof. intros. apply (section_count_total 750%float 750 L750); [lia|assumption]. Qed.

(* non-vacuity: concrete times satisfy time_ok *)
Lemma time_ok_of_Z : forall z, (Z.abs z <= TB)%Z -> time_ok (of_Z z).
Proof.
  intros z Hz. unfold TB in Hz. destruct (of_Z_int z) as [F R].
  { change (2 ^ 53)%Z with 9007199254740992%Z. lia. }
  split; [exact F|]. rewrite R, <- abs_IZR. apply IZR_le. exact Hz.
Qed.

(* the full skill (any strain functions): processing terminates for every object and the exported
   list has at least one peak *)
Theorem skill_export_total :
  forall (St : Type) (strain_value_at : St -> Z -> PrimFloat.float * St)
         (initial_strain : St -> PrimFloat.float -> Z -> PrimFloat.float)
         (L : PrimFloat.float) (l : Z) (st0 : St) (times : list PrimFloat.float),
  IntF L l -> (256 <= l <= 1024)%Z -> Forall time_ok times ->
  exists peaks, skill_export St strain_value_at initial_strain L st0 times = Some peaks
                /\ (1 <= length peaks)%nat.
Proof.
  intros St sva ist L l st0 times HL Hl Hall.
  destruct (section_count_total L l HL Hl times Hall) as [n [Hn Hn1]].
  generalize (section_count_skill_independent St sva ist L st0 times). rewrite Hn.
  destruct (skill_export St sva ist L st0 times) as [peaks|]; [|tauto].
  intros Hlen. exists peaks. split; [reflexivity|]. lia.
Qed.
