(* Proofs/AccuracyProofs.v — accuracies lie in [0, 1]; weighted strain sums of non-negative peaks
   are non-negative and bounded (C09). *)
From Coq Require Import ZArith QArith Lqa Lia List Bool.
From V Require Import Accuracy.
Import ListNotations.

Lemma acc_unit (n d : Z) : (0 <= n <= d)%Z -> (0 <= acc_of (n, d) <= 1)%Q.
Proof.
  intros [H0 H1]. unfold acc_of. cbn [fst snd]. destruct (Z.eqb_spec d 0); [lra|].
  assert (0 < d)%Z by lia. unfold Qle. cbn. rewrite Z2Pos.id by lia. lia.
Qed.

Lemma acc_unit' (nd : Z * Z) : (0 <= fst nd <= snd nd)%Z -> (0 <= acc_of nd <= 1)%Q.
Proof. destruct nd as [n d]. apply acc_unit. Qed.

Local Arguments Z.mul : simpl never.
Local Arguments Z.add : simpl never.
Open Scope Z_scope.
Theorem osu_acc_in_unit o n300 n100 n50 misses ends large small :
  0 <= n300 -> 0 <= n100 -> 0 <= n50 -> 0 <= misses -> 0 <= ends -> 0 <= large -> 0 <= small ->
  match o with OStable => True | OWithSliderAcc a b | OWithoutSliderAcc a b => 0 <= a /\ 0 <= b end ->
  (0 <= acc_of (osu_acc_nd o n300 n100 n50 misses ends large small) <= 1)%Q.
Proof.
  intros. apply acc_unit'. unfold osu_acc_nd. destruct o; cbn [fst snd]; lia.
Qed.
Theorem taiko_acc_in_unit n300 n100 misses :
  0 <= n300 -> 0 <= n100 -> 0 <= misses -> (0 <= acc_of (taiko_acc_nd n300 n100 misses) <= 1)%Q.
Proof. intros. apply acc_unit'. cbn [fst snd taiko_acc_nd catch_acc_nd]. lia. Qed.
Theorem catch_acc_in_unit f d t tm m :
  0 <= f -> 0 <= d -> 0 <= t -> 0 <= tm -> 0 <= m -> (0 <= acc_of (catch_acc_nd f d t tm m) <= 1)%Q.
Proof. intros. apply acc_unit'. cbn [fst snd taiko_acc_nd catch_acc_nd]. lia. Qed.
Theorem mania_acc_in_unit classic n320 n300 n200 n100 n50 m :
  0 <= n320 -> 0 <= n300 -> 0 <= n200 -> 0 <= n100 -> 0 <= n50 -> 0 <= m ->
  (0 <= acc_of (mania_acc_nd classic n320 n300 n200 n100 n50 m) <= 1)%Q.
Proof. intros. apply acc_unit'. unfold mania_acc_nd. cbn [fst snd]. destruct classic; lia. Qed.
Close Scope Z_scope.

(* weighted sums: for peaks in [0, M], a weight k >= 0 and a decay 0 <= w < 1 the sum is
   non-negative and (1 - w) * sum <= M * k, i.e. sum <= M * k / (1 - w): finite non-negative peaks
   give a finite non-negative difficulty value *)
Open Scope Q_scope.
Theorem wsum_bound : forall (l : list Q) (M k w : Q),
  0 <= k -> 0 <= w -> w < 1 -> 0 <= M -> (forall p, In p l -> 0 <= p <= M) ->
  0 <= wsum l k w /\ (1 - w) * wsum l k w <= M * k.
Proof.
  induction l as [|p l IH]; intros M k w Hk Hw0 Hw1 HM Hall; cbn [wsum].
  - assert (0 <= M * k) by (apply Qmult_le_0_compat; assumption). split; lra.
  - assert (Hp : 0 <= p <= M) by (apply Hall; now left).
    assert (Hkw : 0 <= k * w) by (apply Qmult_le_0_compat; assumption).
    destruct (IH M (k * w) w Hkw Hw0 Hw1 HM (fun q Hq => Hall q (or_intror Hq))) as [I1 I2].
    assert (A1 : 0 <= p * k) by (apply Qmult_le_0_compat; lra).
    assert (A2 : 0 <= (M - p) * ((1 - w) * k))
      by (apply Qmult_le_0_compat; [lra|apply Qmult_le_0_compat; lra]).
    split; [lra|].
    setoid_replace ((1 - w) * (p * k + wsum l (k * w) w))
      with ((1 - w) * (p * k) + (1 - w) * wsum l (k * w) w) by ring.
    setoid_replace ((M - p) * ((1 - w) * k)) with (M * k - M * (k * w) - (1 - w) * (p * k)) in A2 by ring.
    lra.
Qed.
