(* Proofs/DecodeProofs.v — decoder bookkeeping (C06, C19). *)
From Coq Require Import ZArith List Bool Lia Floats Sorting.Sorted.
From V Require Import Tables F64 F32 Decode.
Import ListNotations.
Open Scope Z_scope.

Local Arguments Z.ltb : simpl never.
Local Arguments Z.eqb : simpl never.
Local Arguments Z.leb : simpl never.

(* ---- binary-search insert keeps a list strictly increasing by key --------------------- *)
Section Cp.
Context {A : Type}.
Variable key : A -> Z.

Definition strict (l : list A) : Prop := StronglySorted (fun a b => key a < key b) l.

Lemma cp_add_in x l y : In y (cp_add key x l) -> y = x \/ In y l.
Proof.
  induction l as [|z tl IH]; cbn [cp_add]; intros H.
  - destruct H as [<-|[]]. now left.
  - destruct (key x <? key z).
    + destruct H as [<-|H]; [now left|now right].
    + destruct (key x =? key z).
      * destruct H as [<-|H]; [now left|right; now right].
      * destruct H as [<-|H]; [right; now left|].
        destruct (IH H) as [->|H']; [now left|right; now right].
Qed.

Theorem cp_add_strict x l : strict l -> strict (cp_add key x l).
Proof.
  unfold strict. induction l as [|z tl IH]; intros Hs; cbn [cp_add].
  - constructor; [constructor|constructor].
  - inversion Hs as [|? ? Htl Hall]; subst.
    destruct (key x <? key z) eqn:E1.
    + apply Z.ltb_lt in E1. constructor; [exact Hs|]. constructor; [exact E1|].
      rewrite Forall_forall in *. intros y Hy. specialize (Hall y Hy). lia.
    + apply Z.ltb_ge in E1. destruct (key x =? key z) eqn:E2.
      * apply Z.eqb_eq in E2. constructor; [exact Htl|].
        rewrite Forall_forall in *. intros y Hy. specialize (Hall y Hy). lia.
      * apply Z.eqb_neq in E2. constructor; [now apply IH|].
        rewrite Forall_forall in *. intros y Hy. apply cp_add_in in Hy as [->|Hy]; [lia|now apply Hall].
Qed.

(* the new point is in the list afterwards and no other key was lost *)
Theorem cp_add_has x l : In x (cp_add key x l).
Proof.
  induction l as [|z tl IH]; cbn [cp_add]; [now left|].
  destruct (key x <? key z); [now left|]. destruct (key x =? key z); [now left|right; exact IH].
Qed.
End Cp.

(* ---- every sequence of timing lines decodes to three strictly ordered vectors ---------- *)
Definition ds_ok (s : dstate) : Prop :=
  strict (fun q => fkey (tp_time q)) (ds_tps s) /\
  strict (fun q => fkey (dp_time q)) (ds_dps s) /\
  strict (fun q => fkey (ep_time q)) (ds_eps s).

Lemma ds_init_ok : ds_ok ds_init.
Proof. unfold ds_ok, ds_init, strict; cbn. repeat split; constructor. Qed.

Lemma add_tp_ok s p : ds_ok s -> ds_ok (add_tp s p).
Proof. intros (H1 & H2 & H3). unfold ds_ok, add_tp; cbn. repeat split; try assumption. now apply cp_add_strict. Qed.
Lemma add_dp_ok s p : ds_ok s -> ds_ok (add_dp s p).
Proof.
  intros (H1 & H2 & H3). unfold add_dp. destruct (dp_redundant _ _); [repeat split; assumption|].
  unfold ds_ok; cbn. repeat split; try assumption. now apply cp_add_strict.
Qed.
Lemma eps_add_strict l p : strict (fun q => fkey (ep_time q)) l -> strict (fun q => fkey (ep_time q)) (eps_add l p).
Proof. intros H. unfold eps_add. destruct (ep_redundant _ _); [exact H|now apply cp_add_strict]. Qed.
Lemma add_ep_ok s p : ds_ok s -> ds_ok (add_ep s p).
Proof. intros (H1 & H2 & H3). unfold ds_ok, add_ep; cbn. repeat split; try assumption. now apply eps_add_strict. Qed.

Lemma flush_ok s : ds_ok s -> ds_ok (flush s).
Proof.
  intros H. unfold flush.
  assert (H1 : ds_ok (match ds_pt s with Some p => add_tp s p | None => s end))
    by (destruct (ds_pt s); [now apply add_tp_ok|exact H]).
  set (s1 := match ds_pt s with Some p => add_tp s p | None => s end) in *.
  assert (H2 : ds_ok (match ds_pd s with Some p => add_dp s1 p | None => s1 end))
    by (destruct (ds_pd s); [now apply add_dp_ok|exact H1]).
  set (s2 := match ds_pd s with Some p => add_dp s1 p | None => s1 end) in *.
  assert (H3 : ds_ok (match ds_pe s with Some p => add_ep s2 p | None => s2 end))
    by (destruct (ds_pe s); [now apply add_ep_ok|exact H2]).
  exact H3.
Qed.

Lemma pre_pending_ok s t : ds_ok s -> ds_ok (pre_pending s t).
Proof. intros H. unfold pre_pending. destruct (fnot_eq _ _); [now apply flush_ok|exact H]. Qed.

Lemma line_ok scroll s ln : ds_ok s -> ds_ok (line scroll s ln).
Proof.
  intros H. unfold line.
  set (time := (l_time ln + 0)%float).
  destruct (l_uninh ln).
  - pose proof (pre_pending_ok s time H) as H1.
    set (s1 := pre_pending s time) in *.
    set (s1' := mk_ds (ds_tps s1) (ds_dps s1) (ds_eps s1) time _ (ds_pd s1) (ds_pe s1)).
    assert (H1' : ds_ok s1') by exact H1.
    pose proof (pre_pending_ok s1' time H1') as H2.
    set (s2 := pre_pending s1' time) in *.
    set (s2' := mk_ds (ds_tps s2) (ds_dps s2) (ds_eps s2) time (ds_pt s2) _ (ds_pe s2)).
    assert (H2' : ds_ok s2') by exact H2.
    exact (pre_pending_ok s2' time H2').
  - pose proof (pre_pending_ok s time H) as H2.
    set (s2 := pre_pending s time) in *.
    set (s2' := mk_ds (ds_tps s2) (ds_dps s2) (ds_eps s2) time (ds_pt s2) _ (ds_pe s2)).
    assert (H2' : ds_ok s2') by exact H2.
    exact (pre_pending_ok s2' time H2').
Qed.

Theorem decode_lines_strict scroll ls : ds_ok (decode_lines scroll ls).
Proof.
  unfold decode_lines. apply flush_ok.
  assert (G : forall s, ds_ok s -> ds_ok (fold_left (line scroll) ls s)).
  { induction ls as [|ln ls IH]; intros s H; [exact H|]. cbn. apply IH. now apply line_ok. }
  apply G, ds_init_ok.
Qed.

(* taiko conversion adds effect points through the same function *)
Theorem eps_add_many_strict (l : list epoint) (ps : list epoint) :
  strict (fun q => fkey (ep_time q)) l -> strict (fun q => fkey (ep_time q)) (fold_left eps_add ps l).
Proof. revert l. induction ps as [|p ps IH]; intros l H; [exact H|]. cbn. apply IH. now apply eps_add_strict. Qed.

(* ---- TandemSorter: the swaps depend on the indices only, so sorting two slices in tandem is
   sorting the zipped slice ------------------------------------------------------------------ *)
Lemma set_combine {A B} : forall (a : list A) (b : list B) i x y,
  set_nth (combine a b) i (x, y) = combine (set_nth a i x) (set_nth b i y).
Proof.
  induction a as [|a0 a IH]; intros b i x y.
  - reflexivity.
  - destruct b as [|b0 b]; destruct i as [|i]; cbn [combine set_nth]; try reflexivity.
    f_equal. apply IH.
Qed.

Lemma nth_error_combine {A B} : forall (a : list A) (b : list B) i,
  length a = length b ->
  nth_error (combine a b) i =
  match nth_error a i, nth_error b i with Some x, Some y => Some (x, y) | _, _ => None end.
Proof.
  induction a as [|a0 a IH]; intros [|b0 b] i Hl; try discriminate; destruct i; cbn; try reflexivity.
  apply IH. now injection Hl.
Qed.

Lemma set_length {A} : forall (l : list A) i v, length (set_nth l i v) = length l.
Proof. induction l as [|h tl IH]; intros [|i] v; cbn; try reflexivity. now rewrite IH. Qed.

Lemma swap_list_length {A} (l : list A) a b : length (swap_list l a b) = length l.
Proof.
  unfold swap_list. destruct (nth_error l (Z.to_nat a)); [|reflexivity].
  destruct (nth_error l (Z.to_nat b)); [|reflexivity]. now rewrite !set_length.
Qed.

Lemma nth_error_same_length {A B} (a : list A) (b : list B) i :
  length a = length b -> (nth_error a i = None <-> nth_error b i = None).
Proof. intros H. rewrite !nth_error_None. lia. Qed.

Lemma swap_combine {A B} (a : list A) (b : list B) i j :
  length a = length b ->
  swap_list (combine a b) i j = combine (swap_list a i j) (swap_list b i j).
Proof.
  intros Hl. unfold swap_list. rewrite !nth_error_combine by assumption.
  pose proof (nth_error_same_length a b (Z.to_nat i) Hl) as Hi.
  pose proof (nth_error_same_length a b (Z.to_nat j) Hl) as Hj.
  destruct (nth_error a (Z.to_nat i)) as [xa|], (nth_error b (Z.to_nat i)) as [xb|];
    try (exfalso; destruct Hi as [H1 H2]; (specialize (H1 eq_refl) || specialize (H2 eq_refl)); discriminate);
    [|reflexivity].
  destruct (nth_error a (Z.to_nat j)) as [ya|], (nth_error b (Z.to_nat j)) as [yb|];
    try (exfalso; destruct Hj as [H1 H2]; (specialize (H1 eq_refl) || specialize (H2 eq_refl)); discriminate);
    [|reflexivity].
  now rewrite !set_combine.
Qed.

Theorem tandem_aligned {A B} (sw : list (Z * Z)) : forall (a : list A) (b : list B),
  length a = length b ->
  apply_swaps sw (combine a b) = combine (apply_swaps sw a) (apply_swaps sw b).
Proof.
  unfold apply_swaps. induction sw as [|[i j] sw IH]; intros a b Hl; [reflexivity|].
  cbn [fold_left fst snd]. rewrite swap_combine by assumption.
  apply IH. now rewrite !swap_list_length.
Qed.

(* ---- complete check on small inputs: every list of up to 6 objects over 3 distinct times
   (ties included), with distinct sounds: the tandem sort — including the second use of the
   sorter, which relies on the mark reset — equals the stable sort of the lines --------------- *)
Fixpoint all_lists (n : nat) (alphabet : list Z) : list (list Z) :=
  match n with
  | O => [[]]
  | S k => let shorter := all_lists k alphabet in
           shorter ++ flat_map (fun l => map (fun a => a :: l) alphabet)
                               (filter (fun l => Nat.eqb (length l) k) shorter)
  end.
Definition with_sounds (times : list Z) : list (Z * Z) := combine times (iotaZ 100 (length times)).
Definition lines_eqb (a b : list (Z * Z)) : bool :=
  zl_eqb (flat_map (fun p => [fst p; snd p]) a) (flat_map (fun p => [fst p; snd p]) b).
Definition small_ok (times : list Z) : bool :=
  lines_eqb (sort_objects (with_sounds times)) (stable_sort_lines (with_sounds times)).

Lemma tandem_sorts_small :
  forallb small_ok (all_lists 6 [4607182418800017408; 0; 4611686018427387904]) = true.
Proof. vm_compute. reflexivity. Qed.

Theorem tandem_sorts_small_spec times :
  In times (all_lists 6 [4607182418800017408; 0; 4611686018427387904]) ->
  lines_eqb (sort_objects (with_sounds times)) (stable_sort_lines (with_sounds times)) = true.
Proof. intros H. pose proof tandem_sorts_small as G. rewrite forallb_forall in G. exact (G times H). Qed.

(* the legacy tie re-ordering sort (which reads its pivot by index and is therefore only correct on
   ordered input) is applied to already time-ordered slices only: facts re-read from the source *)
Theorem tables_sort_facts : forallb snd Tables.sort_facts = true /\ (3 <= length Tables.sort_facts)%nat.
Proof. vm_compute. split; [reflexivity|repeat constructor]. Qed.
