(* Proofs/BpmProofs.v — the result of Beatmap::bpm does not depend on the order in which the
   hash map is iterated (C01). *)
From Coq Require Import ZArith List Bool Lia Permutation Floats.
From V Require Import F64 Tables Bpm.
Import ListNotations.
Open Scope Z_scope.

Local Arguments Z.ltb : simpl never.
Local Arguments Z.eqb : simpl never.

Lemma gt_irrefl a : gt a a = false.
Proof.
  unfold gt. rewrite Z.ltb_irrefl, Z.eqb_refl, Nat.ltb_irrefl. reflexivity.
Qed.
Lemma gt_asym a b : gt a b = true -> gt b a = false.
Proof.
  unfold gt. intros H. apply orb_true_iff in H. apply orb_false_iff.
  destruct H as [H|H].
  - apply Z.ltb_lt in H. split.
    + apply Z.ltb_ge. lia.
    + apply andb_false_iff. left. apply Z.eqb_neq. lia.
  - apply andb_true_iff in H as [H1 H2]. apply Z.eqb_eq in H1. apply Nat.ltb_lt in H2. split.
    + apply Z.ltb_ge. lia.
    + apply andb_false_iff. right. apply Nat.ltb_ge. lia.
Qed.
Lemma gt_total a b : e_idx a <> e_idx b -> gt a b = false -> gt b a = true.
Proof.
  unfold gt. intros Hi H. apply orb_false_iff in H as [H1 H2]. apply Z.ltb_ge in H1.
  apply orb_true_iff.
  destruct (Z.eq_dec (total_key (e_dur a)) (total_key (e_dur b))) as [E|E].
  - right. rewrite E, Z.eqb_refl. cbn. apply andb_false_iff in H2 as [H2|H2].
    + apply Z.eqb_neq in H2. congruence.
    + apply Nat.ltb_ge in H2. apply Nat.ltb_lt. lia.
  - left. apply Z.ltb_lt. lia.
Qed.
Lemma gt_trans a b c : gt a b = true -> gt b c = true -> gt a c = true.
Proof.
  unfold gt. intros H1 H2. apply orb_true_iff in H1, H2. apply orb_true_iff.
  destruct H1 as [H1|H1], H2 as [H2|H2].
  - apply Z.ltb_lt in H1, H2. left. apply Z.ltb_lt. lia.
  - apply Z.ltb_lt in H1. apply andb_true_iff in H2 as [H2 _]. apply Z.eqb_eq in H2.
    left. apply Z.ltb_lt. lia.
  - apply Z.ltb_lt in H2. apply andb_true_iff in H1 as [H1 _]. apply Z.eqb_eq in H1.
    left. apply Z.ltb_lt. lia.
  - apply andb_true_iff in H1 as [H1 H1'], H2 as [H2 H2']. apply Z.eqb_eq in H1, H2.
    apply Nat.ltb_lt in H1', H2'. right. apply andb_true_iff. split.
    + apply Z.eqb_eq. lia.
    + apply Nat.ltb_lt. lia.
Qed.

Lemma nodup_mid {A B} (f : A -> B) l1 y l2 a :
  NoDup (map f (l1 ++ y :: l2)) -> In a l1 -> f a <> f y.
Proof.
  induction l1 as [|x l1 IH]; intros Hnd Hin; [contradiction|].
  cbn in Hnd. inversion Hnd as [|? ? Hni Hnd']; subst. destruct Hin as [<-|Hin].
  - intros E. apply Hni. rewrite map_app. apply in_or_app. right. left. now symmetry.
  - now apply IH.
Qed.

(* the accumulator of the fold is an element that is greater than every other element seen *)
Definition is_max (m : entry) (l : list entry) : Prop :=
  In m l /\ forall y, In y l -> y = m \/ gt m y = true.

Lemma fold_best_max : forall tl x,
  NoDup (map e_idx (x :: tl)) -> is_max (fold_left best tl x) (x :: tl).
Proof.
  assert (G : forall tl acc seen,
             NoDup (map e_idx (seen ++ tl)) -> is_max acc seen ->
             is_max (fold_left best tl acc) (seen ++ tl)).
  { induction tl as [|y tl IH]; intros acc seen Hnd Hmax.
    - rewrite app_nil_r. exact Hmax.
    - cbn [fold_left]. replace (seen ++ y :: tl) with ((seen ++ [y]) ++ tl) in *
        by (rewrite <- app_assoc; reflexivity).
      apply IH; [exact Hnd|].
      destruct Hmax as [Hin Hall].
      assert (Hidx : e_idx acc <> e_idx y).
      { rewrite <- app_assoc in Hnd. cbn [app] in Hnd. eapply nodup_mid; eassumption. }
      unfold best. destruct (gt acc y) eqn:E.
      + split; [apply in_or_app; now left|].
        intros z Hz. apply in_app_or in Hz as [Hz|[<-|[]]]; [now apply Hall|now right].
      + pose proof (gt_total acc y Hidx E) as Hya.
        split; [apply in_or_app; right; now left|].
        intros z Hz. apply in_app_or in Hz as [Hz|[<-|[]]]; [|now left].
        destruct (Hall z Hz) as [->|Hz']; [now right|]. right. eapply gt_trans; eassumption. }
  intros tl x Hnd. apply (G tl x [x]); [exact Hnd|].
  split; [now left|]. intros y [<-|[]]. now left.
Qed.

Lemma is_max_unique m m' l l' :
  NoDup (map e_idx l) -> Permutation l l' -> is_max m l -> is_max m' l' -> m = m'.
Proof.
  intros Hnd Hp [Hin Hall] [Hin' Hall'].
  assert (Hm' : In m' l) by (eapply Permutation_in; [apply Permutation_sym|]; eassumption).
  assert (Hm : In m l') by (eapply Permutation_in; eassumption).
  destruct (Hall m' Hm') as [E|G1]; [now symmetry|].
  destruct (Hall' m Hm) as [E|G2]; [assumption|].
  apply gt_asym in G1. congruence.
Qed.

(* Beatmap::bpm picks the same entry whatever order the hash map is iterated in *)
Theorem max_by_order_independent l l' :
  NoDup (map e_idx l) -> Permutation l l' -> max_by l = max_by l'.
Proof.
  intros Hnd Hp. destruct l as [|x tl], l' as [|x' tl'].
  - reflexivity.
  - apply Permutation_nil in Hp. discriminate.
  - apply Permutation_sym, Permutation_nil in Hp. discriminate.
  - cbn [max_by]. f_equal.
    assert (Hnd' : NoDup (map e_idx (x' :: tl')))
      by (eapply Permutation_NoDup; [apply Permutation_map; exact Hp|exact Hnd]).
    eapply is_max_unique; [exact Hnd|exact Hp|apply fold_best_max; exact Hnd|apply fold_best_max; exact Hnd'].
Qed.

Theorem bpm_order_independent l l' :
  NoDup (map e_idx l) -> Permutation l l' -> bpm_of l = bpm_of l'.
Proof. intros Hnd Hp. unfold bpm_of. now rewrite (max_by_order_independent l l' Hnd Hp). Qed.

(* the association list built by `add` holds the indices 0, 1, 2, ... in order (the index is the
   map's size at first insertion), so the theorem applies to every reachable map *)
Lemma add_entry_idxs m n key inc :
  map e_idx (add_entry m n key inc) = map e_idx m \/
  map e_idx (add_entry m n key inc) = map e_idx m ++ [n].
Proof.
  induction m as [|e tl IH]; cbn [add_entry].
  - right. reflexivity.
  - destruct (e_key e =? key); [left; reflexivity|].
    cbn [map]. destruct IH as [-> | ->]; [now left|now right].
Qed.

Definition indexed (m : list entry) : Prop := map e_idx m = seq 0 (length m).

Lemma add_indexed last_time m b c n : indexed m -> indexed (add last_time m b c n).
Proof.
  unfold indexed, add. intros H.
  set (inc := if PrimFloat.leb c last_time then _ else _).
  destruct (add_entry_idxs m (length m) (key_of b) inc) as [E|E].
  - assert (L : length (add_entry m (length m) (key_of b) inc) = length m)
      by (rewrite <- (map_length e_idx), E, map_length; reflexivity).
    now rewrite E, L.
  - assert (L : length (add_entry m (length m) (key_of b) inc) = S (length m))
      by (rewrite <- (map_length e_idx), E, app_length, map_length; cbn; lia).
    rewrite E, L, H, seq_S. reflexivity.
Qed.

Lemma middle_indexed last_time : forall tps m, indexed m -> indexed (middle last_time m tps).
Proof.
  induction tps as [|[t1 b1] tps IH]; intros m H; [exact H|].
  cbn [middle]. destruct tps as [|[t2 b2] tps']; [exact H|].
  apply IH. now apply add_indexed.
Qed.

Theorem entries_indexed tps last : indexed (entries tps last).
Proof.
  unfold entries. set (lt := match last with Some t => t | None => _ end).
  assert (H0 : indexed []) by reflexivity.
  destruct tps as [|[t1 b1] [|[t2 b2] tps]].
  - exact H0.
  - cbn [tl middle]. now apply add_indexed.
  - destruct (last_tp _) as [[t b]|].
    + apply add_indexed, middle_indexed, add_indexed, H0.
    + apply middle_indexed, add_indexed, H0.
Qed.

Lemma indexed_nodup m : indexed m -> NoDup (map e_idx m).
Proof. unfold indexed. intros ->. apply seq_NoDup. Qed.

(* the statement for the code: whatever permutation of the entries the hash map yields, bpm()
   returns what the insertion-order model returns *)
Theorem bpm_any_iteration_order tps last iterated :
  Permutation (entries tps last) iterated -> bpm_of iterated = bpm tps last.
Proof.
  intros Hp. unfold bpm. symmetry. apply bpm_order_independent; [|exact Hp].
  apply indexed_nodup, entries_indexed.
Qed.

(* the comparator transcribed by Model/Bpm.v is the one in the current source *)
Theorem tables_bpm_facts : forallb snd Tables.bpm_facts = true /\ (3 <= length Tables.bpm_facts)%nat.
Proof. vm_compute. split; [reflexivity|repeat constructor]. Qed.
