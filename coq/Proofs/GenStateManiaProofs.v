(* Proofs/GenStateManiaProofs.v — C12 for ManiaPerformance::generate_state, for every input.

   The accuracy-driven arm ("at least two hit results unknown") walks four nested candidate
   loops whose bounds come from float estimates.  Nothing is assumed about those floats: each
   bound is `min(<float> as u32, remaining)`, which already places every candidate inside
   [0, remaining]; that is all the bookkeeping argument needs.  The only hypothesis is that the
   search accepted at least one candidate (`mania_accepts`, a computable boolean that is
   evaluated on every recorded trace): with a NaN accuracy no candidate is ever accepted and
   the code falls back to an initial state that overrides a provided n50
   (`mania_nan_refuted`). *)
From Coq Require Import ZArith List Bool Floats Lia.
From V Require Import F64 Gradual GenState GenStateMania GradualProofs GenStateProofs.
Import ListNotations.
Open Scope Z_scope.

Local Arguments Z.mul : simpl never.
Local Arguments Z.add : simpl never.
Local Arguments Z.sub : simpl never.
Local Arguments Z.min : simpl never.
Local Arguments Z.div : simpl never.
Local Arguments Z.ltb : simpl never.
Local Arguments Z.leb : simpl never.
Local Arguments Z.eqb : simpl never.

Definition mania_in_ok (i : mania_in) : Prop :=
  0 <= mi_n_objects i /\ 0 <= mi_holds i /\ 0 <= mi_passed i /\
  (forall v, mi_n320 i = Some v -> 0 <= v) /\ (forall v, mi_n300 i = Some v -> 0 <= v) /\
  (forall v, mi_n200 i = Some v -> 0 <= v) /\ (forall v, mi_n100 i = Some v -> 0 <= v) /\
  (forall v, mi_n50 i = Some v -> 0 <= v) /\ (forall v, mi_misses i = Some v -> 0 <= v).

Definition mn0 (i : mania_in) : Z := Z.min (mi_passed i) (mi_n_objects i).
Definition mn_misses (i : mania_in) : Z := omin (mi_misses i) (mn0 i).
Definition mn_total (i : mania_in) : Z := if mi_classic i then mn0 i else mn0 i + mi_holds i.
Definition mn_rem (i : mania_in) : Z := mn_total i - mn_misses i.
Definition mclamp (i : mania_in) (o : option Z) : Z := omin o (mn_rem i).

Definition n_some (i : mania_in) : nat :=
  length (filter (fun o : option Z => is_some o) [mi_n320 i; mi_n300 i; mi_n200 i; mi_n100 i; mi_n50 i]).
Definition two_unknown (i : mania_in) : bool := Nat.leb (n_some i) 3.
Definition any_unknown (i : mania_in) : bool := Nat.leb (n_some i) 4.

Definition mania_full (i : mania_in) (acc : float) : float * mania_state :=
  mania_search_full i acc (mn_total i) (mn_rem i) (mn_misses i)
    (mclamp i (mi_n320 i)) (mclamp i (mi_n300 i)) (mclamp i (mi_n200 i)) (mclamp i (mi_n100 i)) (mclamp i (mi_n50 i)).

(* the search accepted a candidate (always, for an accuracy that is a number) *)
Definition mania_accepts (i : mania_in) : bool :=
  match mi_acc i with
  | Some acc => if two_unknown i then PrimFloat.ltb (fst (mania_full i acc)) infinity else true
  | None => true
  end.

(* a provided hit result is kept: exactly when some other result is free to absorb the
   rest, and never reduced otherwise *)
Definition kept (i : mania_in) (o : option Z) (v : Z) : Prop :=
  match o with
  | None => True
  | Some _ => mclamp i o <= v /\ (any_unknown i = true -> v = mclamp i o)
  end.

Record mania_gs_ok (i : mania_in) (s : mania_state) : Prop := {
  mg_misses : ms_misses s = mn_misses i /\ 0 <= ms_misses s <= mn0 i /\ ms_misses s <= mn_total i;
  mg_nonneg : 0 <= ms_n320 s /\ 0 <= ms_n300 s /\ 0 <= ms_n200 s /\ 0 <= ms_n100 s /\ 0 <= ms_n50 s;
  mg_upper : ms_n320 s <= mn_rem i /\ ms_n300 s <= mn_rem i /\ ms_n200 s <= mn_rem i /\ ms_n100 s <= mn_rem i
             /\ ms_n50 s <= mn_rem i;
  mg_kept : kept i (mi_n320 i) (ms_n320 s) /\ kept i (mi_n300 i) (ms_n300 s) /\ kept i (mi_n200 i) (ms_n200 s)
            /\ kept i (mi_n100 i) (ms_n100 s) /\ kept i (mi_n50 i) (ms_n50 s);
  mg_filled : mn_total i <= ms_total s;
  mg_sum : mclamp i (mi_n320 i) + mclamp i (mi_n300 i) + mclamp i (mi_n200 i) + mclamp i (mi_n100 i)
           + mclamp i (mi_n50 i) + mn_misses i <= mn_total i ->
           ms_total s = mn_total i }.

(* ---- basic facts ------------------------------------------------------------------------ *)

Lemma mania_basic i : mania_in_ok i ->
  0 <= mn0 i /\ 0 <= mn_misses i <= mn0 i /\ mn0 i <= mn_total i /\ 0 <= mn_rem i /\
  0 <= mclamp i (mi_n320 i) <= mn_rem i /\ 0 <= mclamp i (mi_n300 i) <= mn_rem i /\
  0 <= mclamp i (mi_n200 i) <= mn_rem i /\ 0 <= mclamp i (mi_n100 i) <= mn_rem i /\
  0 <= mclamp i (mi_n50 i) <= mn_rem i.
Proof.
  intros (Ho & Hh & Hp & H320 & H300 & H200 & H100 & H50 & Hm).
  assert (A0 : 0 <= mn0 i) by (unfold mn0; lia).
  assert (A1 : 0 <= mn_misses i <= mn0 i) by (apply omin_le; assumption).
  assert (A2 : mn0 i <= mn_total i) by (unfold mn_total; destruct (mi_classic i); lia).
  assert (A3 : 0 <= mn_rem i) by (unfold mn_rem; lia).
  unfold mclamp. repeat split; try lia; apply omin_le; assumption.
Qed.

(* ---- the search invariant --------------------------------------------------------------- *)

Definition SInv (Q : mania_state -> Prop) (st : float * mania_state) : Prop :=
  fst st = infinity \/ Q (snd st).

Lemma pick_SInv (Q : mania_state -> Prop) (cand : Z -> mania_state) (dist : Z -> float) xs st :
  (forall x, In x xs -> Q (cand x)) -> SInv Q st -> SInv Q (pick cand dist xs st).
Proof.
  unfold pick. revert st. induction xs as [|x xs IH]; intros st HQ Hst; cbn [fold_left]; [exact Hst|].
  apply IH; [intros y Hy; apply HQ; now right|].
  destruct (PrimFloat.ltb (dist x) (fst st)); [|exact Hst].
  right. cbn [snd]. apply HQ. now left.
Qed.

Lemma fold_SInv (Q : mania_state -> Prop) (F : float * mania_state -> Z -> float * mania_state) xs st :
  (forall st x, In x xs -> SInv Q st -> SInv Q (F st x)) -> SInv Q st -> SInv Q (fold_left F xs st).
Proof.
  revert st. induction xs as [|x xs IH]; intros st HF Hst; cbn [fold_left]; [exact Hst|].
  apply IH; [intros st' y Hy; apply HF; now right|]. apply HF; [now left|exact Hst].
Qed.

Lemma ltb_inf_inf : PrimFloat.ltb infinity infinity = false.
Proof. reflexivity. Qed.

Lemma u32_floor_nonneg f : 0 <= u32_floor f.
Proof. apply to_u32_nonneg. Qed.
Lemma u32_ceil_nonneg f : 0 <= u32_ceil f.
Proof. apply to_u32_nonneg. Qed.

Lemma range_min_bounds lo hi r x :
  0 <= lo -> 0 <= r -> In x (range_incl (Z.min lo r) (Z.min hi r)) -> 0 <= x <= r.
Proof. intros Hl Hr H. apply range_incl_bounds in H. lia. Qed.

(* ---- candidates ------------------------------------------------------------------------- *)

(* where a loop variable may lie: pinned to the clamped provided value, or inside [0, ub] *)
Definition Fv (o : option Z) (outer x ub : Z) : Prop :=
  match o with Some _ => x = outer | None => 0 <= x <= ub end.
Definition Kv (o : option Z) (outer v : Z) : Prop :=
  match o with Some _ => v = outer | None => True end.
(* the part of a hit result that was free to choose *)
Definition Uv (o : option Z) (v : Z) : Z := match o with Some _ => 0 | None => v end.

Section Cand.
  Variable i : mania_in.
  Variable acc : float.
  Variables nobj nrem misses n320 n300 n200 n100 n50 : Z.
  Hypothesis Hmis : 0 <= misses.
  Hypothesis Hrem : 0 <= nrem.
  Hypothesis Hobj : nobj = nrem + misses.
  Hypothesis E320 : n320 = omin (mi_n320 i) nrem.
  Hypothesis E300 : n300 = omin (mi_n300 i) nrem.
  Hypothesis E200 : n200 = omin (mi_n200 i) nrem.
  Hypothesis E100 : n100 = omin (mi_n100 i) nrem.
  Hypothesis E50 : n50 = omin (mi_n50 i) nrem.
  Hypothesis B320 : 0 <= n320 <= nrem.
  Hypothesis B300 : 0 <= n300 <= nrem.
  Hypothesis B200 : 0 <= n200 <= nrem.
  Hypothesis B100 : 0 <= n100 <= nrem.
  Hypothesis B50 : 0 <= n50 <= nrem.
  Hypothesis Htwo : two_unknown i = true.

  Definition Qc (c : mania_state) : Prop :=
    ms_misses c = misses /\
    (0 <= ms_n320 c /\ 0 <= ms_n300 c /\ 0 <= ms_n200 c /\ 0 <= ms_n100 c /\ 0 <= ms_n50 c) /\
    (Kv (mi_n320 i) n320 (ms_n320 c) /\ Kv (mi_n300 i) n300 (ms_n300 c) /\ Kv (mi_n200 i) n200 (ms_n200 c) /\
     Kv (mi_n100 i) n100 (ms_n100 c) /\ Kv (mi_n50 i) n50 (ms_n50 c)) /\
    nobj <= ms_total c /\
    (n320 + n300 + n200 + n100 + n50 <= nrem -> ms_total c = nobj) /\
    Uv (mi_n320 i) (ms_n320 c) + Uv (mi_n300 i) (ms_n300 c) + Uv (mi_n200 i) (ms_n200 c)
    + Uv (mi_n100 i) (ms_n100 c) + Uv (mi_n50 i) (ms_n50 c) <= nrem.

  Lemma cand_Q c320 c300 c200 c100 :
    Fv (mi_n320 i) n320 c320 (sat_sub nrem (n300 + n200 + n100 + n50)) ->
    Fv (mi_n300 i) n300 c300 (sat_sub nrem (c320 + n200 + n100 + n50)) ->
    Fv (mi_n200 i) n200 c200 (sat_sub nrem (c320 + c300 + n100 + n50)) ->
    Fv (mi_n100 i) n100 c100 (sat_sub nrem (c320 + c300 + c200 + n50)) ->
    Qc (m_cand i nobj nrem misses c320 c300 c200 c100).
  Proof.
    intros F320 F300 F200 F100.
    unfold Qc, m_cand, m_c50, mania_fill, m_minr.
    unfold two_unknown, n_some in Htwo.
    unfold Fv, Kv, Uv in *. rewrite !sat_sub_spec in *.
    destruct (mi_n320 i) as [v320|], (mi_n300 i) as [v300|], (mi_n200 i) as [v200|],
             (mi_n100 i) as [v100|], (mi_n50 i) as [v50|];
      cbn [filter is_some length Nat.leb] in Htwo; try discriminate Htwo;
      cbn [omin] in *; try rewrite !sat_sub_spec;
      match goal with |- context [?a <? ?b] => destruct (a <? b) eqn:Elt end;
      unfold ms_total in *; cbn [ms_n320 ms_n300 ms_n200 ms_n100 ms_n50 ms_misses] in *; zb;
      repeat split; lia.
  Qed.
End Cand.

(* ---- the whole search ------------------------------------------------------------------- *)

Lemma search_SInv i acc : mania_in_ok i -> two_unknown i = true ->
  SInv (Qc i (mn_total i) (mn_rem i) (mn_misses i)
           (mclamp i (mi_n320 i)) (mclamp i (mi_n300 i)) (mclamp i (mi_n200 i)) (mclamp i (mi_n100 i)) (mclamp i (mi_n50 i)))
       (mania_full i acc).
Proof.
  intros Hok Htwo.
  destruct (mania_basic i Hok) as (A0 & A1 & A2 & A3 & C320 & C300 & C200 & C100 & C50).
  set (nobj := mn_total i). set (nrem := mn_rem i). set (misses := mn_misses i).
  set (n320 := mclamp i (mi_n320 i)). set (n300 := mclamp i (mi_n300 i)). set (n200 := mclamp i (mi_n200 i)).
  set (n100 := mclamp i (mi_n100 i)). set (n50 := mclamp i (mi_n50 i)).
  assert (Hobj : nobj = nrem + misses) by (unfold nobj, nrem, misses, mn_rem; lia).
  assert (Hmis : 0 <= misses) by (unfold misses; lia).
  pose proof (fun c320 c300 c200 c100 =>
    cand_Q i nobj nrem misses n320 n300 n200 n100 n50 A3 Hobj eq_refl eq_refl eq_refl eq_refl eq_refl
           C320 C300 C200 C100 C50 Htwo c320 c300 c200 c100) as CQ.
  unfold mania_full. fold nobj nrem misses n320 n300 n200 n100 n50.
  unfold mania_search_full.
  (* facts about each loop variable *)
  assert (G320 : forall x, In x (range_incl (fst (m_bounds320 i acc nobj nrem n300 n200 n100 n50))
                                            (snd (m_bounds320 i acc nobj nrem n300 n200 n100 n50))) ->
                           Fv (mi_n320 i) n320 x (sat_sub nrem (n300 + n200 + n100 + n50))).
  { intros x Hx. unfold m_bounds320, m_minr in Hx. unfold Fv, n320, mclamp. fold nrem.
    destruct (mi_n320 i) as [v|]; cbn [fst snd] in Hx.
    - apply range_incl_bounds in Hx. cbn [omin]. lia.
    - apply range_min_bounds in Hx; [exact Hx|apply u32_floor_nonneg|rewrite sat_sub_spec; lia]. }
  assert (G300 : forall c320 x, In x (range_incl (fst (m_bounds300 i acc nobj nrem n200 n100 n50 c320))
                                                 (snd (m_bounds300 i acc nobj nrem n200 n100 n50 c320))) ->
                                Fv (mi_n300 i) n300 x (sat_sub nrem (c320 + n200 + n100 + n50))).
  { intros c320 x Hx. unfold m_bounds300, m_minr in Hx. unfold Fv, n300, mclamp. fold nrem.
    destruct (mi_n300 i) as [v|]; cbn [fst snd] in Hx.
    - apply range_incl_bounds in Hx. cbn [omin]. lia.
    - apply range_min_bounds in Hx; [exact Hx|apply u32_floor_nonneg|rewrite sat_sub_spec; lia]. }
  assert (G200 : forall c320 c300 x, In x (range_incl (fst (m_bounds200 i acc nobj nrem n100 n50 c320 c300))
                                                      (snd (m_bounds200 i acc nobj nrem n100 n50 c320 c300))) ->
                                     Fv (mi_n200 i) n200 x (sat_sub nrem (c320 + c300 + n100 + n50))).
  { intros c320 c300 x Hx. unfold m_bounds200, m_minr in Hx. unfold Fv, n200, mclamp. fold nrem.
    destruct (mi_n200 i) as [v|]; cbn [fst snd] in Hx.
    - apply range_incl_bounds in Hx. cbn [omin]. lia.
    - apply range_min_bounds in Hx; [exact Hx|apply u32_floor_nonneg|rewrite sat_sub_spec; lia]. }
  assert (G100 : forall c320 c300 c200 x, In x (m_n100s i acc nobj nrem n50 c320 c300 c200) ->
                                          Fv (mi_n100 i) n100 x (sat_sub nrem (c320 + c300 + c200 + n50))).
  { intros c320 c300 c200 x Hx. unfold m_n100s, m_minr in Hx. unfold Fv, n100, mclamp. fold nrem.
    destruct (mi_n100 i) as [v|].
    - cbn [omin]. destruct Hx as [Hx|[Hx|[]]]; lia.
    - assert (0 <= sat_sub nrem (c320 + c300 + c200 + n50)) by (rewrite sat_sub_spec; lia).
      destruct Hx as [Hx|[Hx|[]]]; subst x.
      + pose proof (u32_floor_nonneg
          (if is_some (mi_n50 i)
           then (m_target i acc nobj - of_Z (19 * nrem + (if mi_classic i then 41 else 42) * c320 + 41 * c300 + 21 * c200)
                 + of_Z (9 * n50))%float
           else ((m_target i acc nobj - of_Z (10 * nrem + m_w i * c320 + 50 * c300 + 30 * c200)) / 10)%float)). lia.
      + pose proof (u32_ceil_nonneg
          (if is_some (mi_n50 i)
           then (m_target i acc nobj - of_Z (19 * nrem + (if mi_classic i then 41 else 42) * c320 + 41 * c300 + 21 * c200)
                 + of_Z (9 * n50))%float
           else ((m_target i acc nobj - of_Z (10 * nrem + m_w i * c320 + 50 * c300 + 30 * c200)) / 10)%float)). lia. }
  apply fold_SInv; [|left; reflexivity].
  intros st c320 H320 Hst. unfold m_loop300.
  apply fold_SInv; [|exact Hst].
  intros st' c300 H300 Hst'. unfold m_loop200.
  apply fold_SInv; [|exact Hst'].
  intros st'' c200 H200 Hst''. unfold m_loop100.
  apply pick_SInv; [|exact Hst''].
  intros c100 H100. apply CQ; [apply G320|apply G300|apply G200|apply G100]; assumption.
Qed.

(* ---- the classic-mode shifts ------------------------------------------------------------ *)

Ltac Zify.zify_post_hook ::= Z.div_mod_to_equations.

Lemma shift_ok i b : mania_in_ok i -> two_unknown i = true ->
  Qc i (mn_total i) (mn_rem i) (mn_misses i)
     (mclamp i (mi_n320 i)) (mclamp i (mi_n300 i)) (mclamp i (mi_n200 i)) (mclamp i (mi_n100 i)) (mclamp i (mi_n50 i)) b ->
  mania_gs_ok i (mania_shift i b).
Proof.
  intros Hok Htwo (Qm & (P320 & P300 & P200 & P100 & P50) & (K320 & K300 & K200 & K100 & K50) & Qf & Qs & Qu).
  destruct (mania_basic i Hok) as (A0 & A1 & A2 & A3 & C320 & C300 & C200 & C100 & C50).
  assert (Hr : mn_rem i = mn_total i - mn_misses i) by reflexivity.
  unfold two_unknown, n_some in Htwo.
  assert (Hany : forall P : Prop, (any_unknown i = true -> P) -> P).
  { intros P HP. apply HP. unfold any_unknown, n_some.
    destruct (mi_n320 i), (mi_n300 i), (mi_n200 i), (mi_n100 i), (mi_n50 i);
      cbn [filter is_some length Nat.leb] in *; try reflexivity; discriminate Htwo. }
  unfold mania_shift. unfold Kv, Uv in *. unfold ms_total in *.
  destruct b as [b320 b300 b200 b100 b50 bm].
  cbn [ms_n320 ms_n300 ms_n200 ms_n100 ms_n50 ms_misses] in *.
  destruct (mi_n320 i) as [v320|] eqn:O320, (mi_n300 i) as [v300|] eqn:O300, (mi_n200 i) as [v200|] eqn:O200,
           (mi_n100 i) as [v100|] eqn:O100, (mi_n50 i) as [v50|] eqn:O50;
    cbn [filter is_some length Nat.leb] in Htwo; try discriminate Htwo;
    destruct (mi_classic i) eqn:Ecl, (mi_best i) eqn:Ebest;
    cbn [andb negb is_some];
    (split;
     [ cbn [ms_misses]; lia
     | cbn [ms_n320 ms_n300 ms_n200 ms_n100 ms_n50]; lia
     | cbn [ms_n320 ms_n300 ms_n200 ms_n100 ms_n50]; lia
     | unfold kept; rewrite ?O320, ?O300, ?O200, ?O100, ?O50;
       cbn [ms_n320 ms_n300 ms_n200 ms_n100 ms_n50];
       repeat split; try exact I; try lia
     | unfold ms_total; cbn [ms_n320 ms_n300 ms_n200 ms_n100 ms_n50 ms_misses]; lia
     | rewrite ?O320, ?O300, ?O200, ?O100, ?O50;
       unfold ms_total; cbn [ms_n320 ms_n300 ms_n200 ms_n100 ms_n50 ms_misses]; lia ]).
Qed.

