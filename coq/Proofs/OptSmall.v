(* Proofs/OptSmall.v — C13 on its exhaustive small domain, by complete evaluation of the
   float model inside the kernel's VM (finite domain, bounds in the statements). *)
From Coq Require Import ZArith List Bool Floats.
From V Require Import OptCheckMania F64 Gradual GenState OptCheck.
Import ListNotations.
Open Scope Z_scope.

Lemma taiko_opt_all_true : forallb taiko_opt_check taiko_domain = true.
Proof. vm_compute. reflexivity. Qed.

Lemma catch_opt_all_true : forallb catch_opt_check catch_domain = true.
Proof. vm_compute. reflexivity. Qed.

Lemma osu_lvl1_true : osu_lvl1 = true.
Proof. vm_compute. reflexivity. Qed.

Theorem taiko_opt_small : forall c, In c taiko_domain -> taiko_opt_check c = true.
Proof. apply forallb_forall. exact taiko_opt_all_true. Qed.

Theorem catch_opt_small : forall c, In c catch_domain -> catch_opt_check c = true.
Proof. apply forallb_forall. exact catch_opt_all_true. Qed.

(* osu!: `osu_lvl1` is the complete enumeration
     n in 0..8, sliders in 0..min(3,n), ticks in 0..2, misses in 0..n, acc in ACC_GRID,
     origin in {stable, lazer, lazer classic}, both priorities
   of `osu_opt_check`; see Model/OptCheck.v.  (Lifting it to an explicit forall through
   forallb_forall is mechanical but makes the kernel's lazy conversion re-evaluate the closed
   enumeration; the boolean statement is kept instead.) *)

(* non-vacuity: the domains are what the property describes *)
Example domain_sizes :
  (length taiko_domain, length catch_domain) = (2070%nat, 24794%nat).
Proof. vm_compute. reflexivity. Qed.

(* mania: the whole small domain (<= 6 objects, <= 2 hold notes) by evaluation *)
Lemma mania_lvl1_true : mania_lvl1 = true.
Proof. vm_compute. reflexivity. Qed.
