(* Proofs/StrainsVecProofs.v — the compact strain list refines a plain list. *)
From Coq Require Import ZArith List Bool Lia Permutation Sorted.
From V Require Import F64 StrainsVec.
Import ListNotations.
Open Scope Z_scope.

Local Arguments Z.add : simpl never.
Local Arguments Z.sub : simpl never.
Local Arguments Z.mul : simpl never.
Local Arguments Z.ltb : simpl never.
Local Arguments Z.leb : simpl never.

Lemma SIGN_val : SIGN = 9223372036854775808. Proof. reflexivity. Qed.
Lemma TWO64_val : TWO64 = 18446744073709551616. Proof. reflexivity. Qed.
Lemma POS_INF_val : POS_INF_BITS = 9218868437227405312. Proof. reflexivity. Qed.
Global Opaque SIGN TWO64 POS_INF_BITS.

Ltac unf := unfold is_value, is_zero, zero_count, push_is_value, new_zero, canon,
  incr_zero_count, decr_zero_count, gt_zero_bits in *.
Ltac zb := repeat match goal with
  | H : (_ <=? _) = true |- _ => apply Z.leb_le in H
  | H : (_ <=? _) = false |- _ => apply Z.leb_gt in H
  | H : (_ <? _) = true |- _ => apply Z.ltb_lt in H
  | H : (_ <? _) = false |- _ => apply Z.ltb_ge in H
  | H : (_ =? _) = true |- _ => apply Z.eqb_eq in H
  | H : (_ =? _) = false |- _ => apply Z.eqb_neq in H
  | H : (_ && _) = true |- _ => apply andb_true_iff in H; destruct H
  | H : negb _ = true |- _ => apply negb_true_iff in H
  | H : negb _ = false |- _ => apply negb_false_iff in H
  end.
Ltac arith := pose proof SIGN_val; pose proof TWO64_val; pose proof POS_INF_val; lia.

(* ---- well-formedness of the entry list ------------------------------------------ *)
(* a value entry is a word in (0, 2^63); a zero entry is a word in (2^63, 2^64), i.e. a
   run of at least one zero *)
Definition wf_entry (e : entry) : Prop := 0 < e < TWO64 /\ e <> SIGN.
Definition wf (l : list entry) : Prop := Forall wf_entry l.
Definition alen (l : list entry) : Z := Z.of_nat (length (abs_list l)).

Definition Inv (s : sv) : Prop := wf (inner s) /\ alen (inner s) <= len s.
(* before any `retain`, the stored length is exact *)
Definition Exact (s : sv) : Prop := wf (inner s) /\ alen (inner s) = len s.

Lemma Exact_Inv s : Exact s -> Inv s.
Proof. intros [H1 H2]; split; [exact H1 | lia]. Qed.

Lemma Exact_empty : Exact sv_empty.
Proof. split; [constructor | reflexivity]. Qed.

Lemma abs_list_app l1 l2 : abs_list (l1 ++ l2) = abs_list l1 ++ abs_list l2.
Proof. unfold abs_list; apply flat_map_app. Qed.

Lemma alen_app l1 l2 : alen (l1 ++ l2) = alen l1 + alen l2.
Proof. unfold alen; rewrite abs_list_app, app_length; lia. Qed.

Lemma alen_nonneg l : 0 <= alen l. Proof. unfold alen; lia. Qed.

Lemma expand_value e : is_value e = true -> expand e = [e].
Proof. unfold expand, is_value; intros H; apply negb_true_iff in H; now rewrite H. Qed.

Lemma expand_zero e : is_zero e = true -> expand e = repeat 0 (Z.to_nat (e - SIGN)).
Proof. unfold expand, zero_count; intros H; now rewrite H. Qed.

Lemma alen_cons e l : alen (e :: l) = Z.of_nat (length (expand e)) + alen l.
Proof. unfold alen, abs_list; cbn [flat_map]; rewrite app_length; lia. Qed.

Lemma expand_len_zero e : wf_entry e -> is_zero e = true ->
  Z.of_nat (length (expand e)) = e - SIGN.
Proof.
  intros [Hr Hn] Hz; rewrite (expand_zero _ Hz), repeat_length.
  unf; zb; arith.
Qed.

(* every zero run is no longer than the whole abstract list *)
Lemma zero_count_le_alen l e : wf l -> In e l -> is_zero e = true -> e - SIGN <= alen l.
Proof.
  induction l as [|x l IH]; intros Hwf Hin Hz; [contradiction|].
  inversion Hwf as [|? ? Hx Hl]; subst. rewrite alen_cons.
  destruct Hin as [->|Hin].
  - rewrite (expand_len_zero _ Hx Hz). pose proof (alen_nonneg l); lia.
  - specialize (IH Hl Hin Hz). lia.
Qed.

(* ---- push ----------------------------------------------------------------------- *)
Lemma push_zero_spec l :
  wf l -> alen l + 1 < SIGN ->
  let '(l', ok) := push_zero l in
  ok = true /\ wf l' /\ abs_list l' = abs_list l ++ [0].
Proof.
  induction l as [|x l IH]; intros Hwf Hlen.
  - cbn. split; [reflexivity|]. split.
    + repeat constructor; unf; arith.
    + unfold abs_list; cbn. unfold expand. unf.
      replace (SIGN <=? SIGN + 1) with true by (symmetry; apply Z.leb_le; arith).
      replace (SIGN + 1 - SIGN) with 1 by lia. reflexivity.
  - inversion Hwf as [|? ? Hx Hl]; subst.
    destruct l as [|y l].
    + cbn [push_zero]. destruct (is_zero x) eqn:Hz.
      * assert (Hc : x - SIGN <= alen [x])
          by (apply zero_count_le_alen; [exact Hwf | now left | exact Hz]).
        unfold incr_zero_count.
        destruct (x + 1 <? TWO64) eqn:Hov.
        -- split; [reflexivity|]. split.
           ++ constructor; [|constructor]. destruct Hx as [Hr Hn]. unf; zb. split; arith.
           ++ unfold abs_list; cbn [flat_map]. rewrite !app_nil_r.
              assert (Hz' : is_zero (x + 1) = true) by (unf; zb; apply Z.leb_le; lia).
              rewrite (expand_zero _ Hz), (expand_zero _ Hz').
              destruct Hx as [Hr Hn]. unf; zb.
              replace (Z.to_nat (x + 1 - SIGN)) with (Z.to_nat (x - SIGN) + 1)%nat by lia.
              now rewrite repeat_app.
        -- exfalso. zb. arith.
      * split; [reflexivity|]. split.
        -- constructor; [exact Hx|]. repeat constructor; unf; arith.
        -- change [x; new_zero] with ([x] ++ [new_zero]). rewrite abs_list_app.
           f_equal; reflexivity.
    + change (push_zero (x :: y :: l)) with
        (let '(tl', ok) := push_zero (y :: l) in (x :: tl', ok)).
      rewrite alen_cons in Hlen.
      assert (Hl' : alen (y :: l) + 1 < SIGN) by lia.
      specialize (IH Hl Hl'). destruct (push_zero (y :: l)) as [tl' ok].
      destruct IH as (Hok & Hwf' & Habs). split; [exact Hok|]. split.
      * constructor; assumption.
      * change (x :: tl') with ([x] ++ tl'). change (x :: y :: l) with ([x] ++ y :: l).
        rewrite !abs_list_app, Habs, app_assoc. reflexivity.
Qed.

Lemma push_spec s b :
  Inv s -> len s + 1 < SIGN -> 0 <= b < TWO64 ->
  let '(s', ok) := push s b in
  ok = true /\ Inv s' /\ abs s' = abs s ++ [canon b] /\ len s' = len s + 1
  /\ (Exact s -> Exact s').
Proof.
  intros [Hwf Hlen] Hb Hrange. unfold push, canon.
  destruct (push_is_value b) eqn:Hv.
  - unfold abs; cbn [inner len].
    assert (Hexp : abs_list [b] = [b]).
    { unfold abs_list; cbn. rewrite expand_value; [reflexivity|]. unf; zb.
      apply negb_true_iff, Z.leb_gt; lia. }
    assert (Hwf' : wf (inner s ++ [b])).
    { apply Forall_app; split; [exact Hwf|]. repeat constructor; unf; zb; arith. }
    assert (Hal : alen (inner s ++ [b]) = alen (inner s) + 1).
    { rewrite alen_app. unfold alen at 2. rewrite Hexp. reflexivity. }
    split; [reflexivity|]. split; [split; cbn [inner len]; [exact Hwf' | lia]|].
    split; [rewrite abs_list_app, Hexp; reflexivity|].
    split; [reflexivity|]. intros [_ He]. split; cbn [inner len]; [exact Hwf' | lia].
  - assert (Hl : alen (inner s) + 1 < SIGN) by lia.
    pose proof (push_zero_spec (inner s) Hwf Hl) as H.
    destruct (push_zero (inner s)) as [l ok]. destruct H as (Hok & Hwf' & Habs).
    unfold abs; cbn [inner len].
    assert (Hal : alen l = alen (inner s) + 1).
    { unfold alen. rewrite Habs, app_length. cbn. lia. }
    split; [exact Hok|]. split; [split; cbn [inner len]; [exact Hwf' | lia]|].
    split; [exact Habs|]. split; [reflexivity|]. intros [_ He]. split; cbn [inner len]; [exact Hwf' | lia].
Qed.

(* ---- retain / transmute ---------------------------------------------------------- *)
Definition nonzero (w : Z) : bool := negb (w =? 0).

Lemma filter_repeat_zero n : filter nonzero (repeat 0 n) = [].
Proof. induction n; cbn; auto. Qed.

Lemma retain_abs_list l : wf l ->
  abs_list (filter is_value l) = filter nonzero (abs_list l)
  /\ abs_list (filter is_value l) = filter is_value l.
Proof.
  induction l as [|x l IH]; intros Hwf; [split; reflexivity|].
  inversion Hwf as [|? ? Hx Hl]; subst. destruct (IH Hl) as [IH1 IH2].
  cbn [filter]. destruct (is_value x) eqn:Hv.
  - change (x :: filter is_value l) with ([x] ++ filter is_value l).
    change (x :: l) with ([x] ++ l). rewrite !abs_list_app, filter_app.
    assert (Hx1 : abs_list [x] = [x])
      by (unfold abs_list; cbn; now rewrite expand_value).
    rewrite Hx1. split.
    + rewrite IH1. f_equal. cbn. destruct Hx as [Hr _].
      unfold nonzero. replace (x =? 0) with false by (symmetry; apply Z.eqb_neq; lia).
      reflexivity.
    + now rewrite IH2.
  - change (x :: l) with ([x] ++ l). rewrite abs_list_app, filter_app.
    assert (Hz : is_zero x = true) by (unf; now apply negb_false_iff in Hv).
    assert (Hx0 : filter nonzero (abs_list [x]) = []).
    { unfold abs_list; cbn. rewrite app_nil_r, (expand_zero _ Hz).
      apply filter_repeat_zero. }
    rewrite Hx0. split; [exact IH1 | exact IH2].
Qed.

Lemma filter_length_le' {A} (f : A -> bool) l : (length (filter f l) <= length l)%nat.
Proof. induction l as [|x l IH]; cbn; [lia|]. destruct (f x); cbn; lia. Qed.

Lemma retain_spec s : Inv s ->
  Inv (retain_non_zero s) /\ abs (retain_non_zero s) = filter nonzero (abs s)
  /\ forallb is_value (inner (retain_non_zero s)) = true.
Proof.
  intros [Hwf Hlen]. destruct (retain_abs_list _ Hwf) as [H1 H2].
  unfold retain_non_zero, abs; cbn [inner len]. split; [split; cbn [inner len]|split].
  - unfold wf in *. apply Forall_forall. intros e He. apply filter_In in He.
    rewrite Forall_forall in Hwf. now apply Hwf.
  - unfold alen. rewrite H2. lia.
  - exact H1.
  - apply forallb_forall. intros e He. now apply filter_In in He.
Qed.

(* since the stored length is recomputed by `retain_non_zero`, it is exact afterwards whatever
   it was before *)
Lemma retain_exact s : Inv s -> Exact (retain_non_zero s).
Proof.
  intros [Hwf Hlen]. destruct (retain_abs_list _ Hwf) as [H1 H2].
  destruct (retain_spec s (conj Hwf Hlen)) as ([Hwf' _] & _).
  split; [exact Hwf'|]. unfold retain_non_zero, alen; cbn [inner len]. now rewrite H2.
Qed.

(* the safety contract of `transmute_into_vec` holds after `retain_non_zero`, and the
   result is exactly the list of non-zero elements *)
Lemma transmute_after_retain s : Inv s ->
  transmute_into_vec (retain_non_zero s) = Some (filter nonzero (abs s)).
Proof.
  intros H. destruct (retain_spec s H) as (_ & Habs & Hall).
  unfold transmute_into_vec. rewrite Hall. f_equal.
  destruct H as [Hwf _]. destruct (retain_abs_list _ Hwf) as [H1 H2].
  unfold retain_non_zero; cbn [inner]. now rewrite <- H2, H1.
Qed.

(* ---- sorting --------------------------------------------------------------------- *)
Lemma insert_desc_perm x l : Permutation (x :: l) (insert_desc x l).
Proof.
  induction l as [|y l IH]; cbn; [reflexivity|].
  destruct (total_leb x y); [|reflexivity].
  rewrite perm_swap. now apply perm_skip.
Qed.

Lemma sort_desc_perm l : Permutation l (sort_desc_list l).
Proof.
  induction l as [|x l IH]; cbn; [reflexivity|].
  rewrite <- insert_desc_perm. now apply perm_skip.
Qed.

Definition desc (a b : Z) : Prop := total_key b <= total_key a.

Lemma insert_desc_sorted x l : Sorted desc l -> Sorted desc (insert_desc x l).
Proof.
  induction l as [|y l IH]; intros Hs; cbn; [repeat constructor|].
  unfold total_leb. destruct (total_key x <=? total_key y) eqn:Hc.
  - apply Sorted_inv in Hs. destruct Hs as [Hs Hd].
    constructor; [now apply IH|].
    destruct l as [|z l]; cbn.
    + constructor. unfold desc. zb. lia.
    + unfold total_leb. destruct (total_key x <=? total_key z) eqn:Hc2.
      * constructor. now apply HdRel_inv in Hd.
      * constructor. unfold desc. zb. lia.
  - constructor; [exact Hs|]. constructor. unfold desc. zb. lia.
Qed.

Lemma sort_desc_sorted l : Sorted desc (sort_desc_list l).
Proof. induction l; cbn; [constructor | now apply insert_desc_sorted]. Qed.

Lemma total_key_inj a b : 0 <= a < TWO64 -> 0 <= b < TWO64 ->
  total_key a = total_key b -> a = b.
Proof.
  unfold total_key. intros Ha Hb.
  destruct (SIGN <=? a) eqn:H1, (SIGN <=? b) eqn:H2; zb; intros; arith.
Qed.

(* a descending-sorted list under an injective key is determined by its elements *)
Lemma desc_trans : Relations_1.Transitive desc.
Proof. intros a b c; unfold desc; lia. Qed.

Lemma sorted_perm_unique l1 l2 :
  Forall (fun w => 0 <= w < TWO64) l1 ->
  Sorted desc l1 -> Sorted desc l2 -> Permutation l1 l2 -> l1 = l2.
Proof.
  revert l2. induction l1 as [|a l1 IH]; intros l2 Hr S1 S2 P.
  - now apply Permutation_nil in P.
  - destruct l2 as [|b l2]; [now apply Permutation_sym, Permutation_nil in P|].
    apply Sorted_StronglySorted in S1; [|exact desc_trans].
    apply Sorted_StronglySorted in S2; [|exact desc_trans].
    inversion S1 as [|? ? S1' F1]; subst. inversion S2 as [|? ? S2' F2]; subst.
    inversion Hr as [|? ? Ha Hr']; subst.
    assert (Hb : 0 <= b < TWO64).
    { assert (In b (a :: l1)) by (eapply Permutation_in; [symmetry; exact P | now left]).
      rewrite Forall_forall in Hr. now apply Hr. }
    assert (Hab : a = b).
    { apply total_key_inj; [exact Ha | exact Hb |].
      assert (In a (b :: l2)) as [->|Hin] by (eapply Permutation_in; [exact P | now left]);
        [reflexivity|].
      assert (In b (a :: l1)) as [->|Hin'] by
          (eapply Permutation_in; [symmetry; exact P | now left]); [reflexivity|].
      rewrite Forall_forall in F1, F2. specialize (F1 _ Hin'). specialize (F2 _ Hin).
      unfold desc in *. lia. }
    subst b. f_equal. apply IH; auto using StronglySorted_Sorted.
    now apply Permutation_cons_inv in P.
Qed.

(* any sorting routine that returns a descending permutation (std's stable merge sort
   in particular) returns what the model's insertion sort returns *)
Theorem any_desc_sort_agrees l l' :
  Forall (fun w => 0 <= w < TWO64) l ->
  Permutation l l' -> Sorted desc l' -> l' = sort_desc_list l.
Proof.
  intros Hr P S. apply sorted_perm_unique; auto using sort_desc_sorted.
  - rewrite Forall_forall in *. intros w Hw. apply Hr.
    eapply Permutation_in; [symmetry; exact P | exact Hw].
  - rewrite <- P. apply sort_desc_perm.
Qed.

Lemma abs_list_values l : forallb is_value l = true -> abs_list l = l.
Proof.
  induction l as [|x l IH]; cbn; [reflexivity|]. intros H. zb.
  rewrite expand_value by assumption. fold (abs_list l). now rewrite IH.
Qed.

Lemma forallb_perm (f : Z -> bool) l l' :
  Permutation l l' -> forallb f l = true -> forallb f l' = true.
Proof.
  intros P H. apply forallb_forall. intros x Hx. rewrite forallb_forall in H.
  apply H. eapply Permutation_in; [symmetry; exact P | exact Hx].
Qed.

Lemma sort_spec s : Inv s -> forallb is_value (inner s) = true ->
  Inv (sort_desc s) /\ abs (sort_desc s) = sort_desc_list (abs s)
  /\ forallb is_value (inner (sort_desc s)) = true.
Proof.
  intros [Hwf Hlen] Hv. unfold sort_desc, abs; cbn [inner len].
  pose proof (sort_desc_perm (inner s)) as P.
  assert (Hv' : forallb is_value (sort_desc_list (inner s)) = true)
    by (eapply forallb_perm; eauto).
  split; [split; cbn [inner len]|split].
  - unfold wf in *. rewrite Forall_forall in *. intros e He. apply Hwf.
    eapply Permutation_in; [symmetry; exact P | exact He].
  - unfold alen in *. rewrite (abs_list_values _ Hv').
    rewrite (abs_list_values _ Hv) in Hlen.
    rewrite <- (Permutation_length P). exact Hlen.
  - now rewrite (abs_list_values _ Hv'), (abs_list_values _ Hv).
  - exact Hv'.
Qed.

(* ---- iterator -------------------------------------------------------------------- *)
(* collecting from a (curr, rest) pair yields the abstract list; fuel >= its length *)
Lemma iter_collect_spec : forall (r : list entry) (c : entry) (fuel : nat) (n : Z),
  (forall e, In e r -> wf_entry e) ->
  (0 < c < TWO64 \/ c = SIGN) ->      (* the current entry may be an exhausted zero run *)
  (length (abs_list (c :: r)) <= fuel)%nat ->
  iter_collect fuel (mk_iter (Some c) r n) = abs_list (c :: r).
Proof.
  (* induction on the total abstract length, then on rest for the skip loop *)
  assert (Hgen : forall (k : nat) (r : list entry) (c : entry) (fuel : nat) (n : Z),
    (length (abs_list (c :: r)) + length r <= k)%nat ->
    (forall e, In e r -> wf_entry e) ->
    (0 < c < TWO64 \/ c = SIGN) ->
    (length (abs_list (c :: r)) <= fuel)%nat ->
    iter_collect fuel (mk_iter (Some c) r n) = abs_list (c :: r)).
  { induction k as [|k IHk]; intros r c fuel n Hk Hr Hc Hfuel.
    - (* abstract list empty and r empty: c is an exhausted zero run *)
      assert (length r = 0)%nat by lia. destruct r; [|discriminate].
      assert (Hl : length (abs_list [c]) = 0%nat) by lia.
      unfold abs_list in Hl; cbn in Hl. rewrite app_nil_r in Hl.
      unfold abs_list; cbn [flat_map]; rewrite app_nil_r.
      destruct (expand c) eqn:He; [|discriminate].
      destruct fuel; [reflexivity|]. cbn [iter_collect iter_next curr rest ilen next_from].
      unfold expand in He. destruct (is_zero c) eqn:Hz; [|discriminate].
      unfold is_value. rewrite Hz. cbn [negb].
      assert (Hzc : zero_count c = 0).
      { destruct (Z.to_nat (zero_count c)) eqn:Hn; [|discriminate].
        unfold zero_count in *. rewrite Hz in *. unfold is_zero in Hz. zb.
        destruct Hc; arith. }
      rewrite Hzc. reflexivity.
    - change (c :: r) with ([c] ++ r) in *. rewrite abs_list_app in *.
      assert (Hc1 : abs_list [c] = expand c)
        by (unfold abs_list; cbn; now rewrite app_nil_r).
      rewrite Hc1 in *.
      destruct (is_zero c) eqn:Hz.
      + destruct (0 <? zero_count c) eqn:Hpos.
        * (* emit one zero, decrement *)
          assert (Hcz : zero_count c = c - SIGN) by (unfold zero_count; now rewrite Hz).
          rewrite Hcz in Hpos. zb.
          rewrite (expand_zero _ Hz) in *.
          destruct (Z.to_nat (c - SIGN)) as [|m] eqn:Hm; [lia|].
          cbn [repeat app length] in *.
          destruct fuel as [|fuel]; [lia|].
          cbn [iter_collect iter_next curr rest ilen].
          destruct r as [|c' r'] eqn:Er.
          -- cbn [next_from]. unfold is_value; rewrite Hz; cbn [negb].
             rewrite Hcz. replace (0 <? c - SIGN) with true by (symmetry; apply Z.ltb_lt; lia).
             unfold decr_zero_count. replace (0 <? c) with true
               by (symmetry; apply Z.ltb_lt; arith).
             f_equal.
             assert (Hc' : 0 < c - 1 < TWO64 \/ c - 1 = SIGN) by (destruct Hc; arith).
             rewrite (IHk [] (c - 1) fuel (n - 1)); try assumption.
             ++ unfold abs_list; cbn [flat_map]. rewrite !app_nil_r.
                assert (Hz' : is_zero (c - 1) = true) by (unf; apply Z.leb_le; lia).
                rewrite (expand_zero _ Hz').
                replace (Z.to_nat (c - 1 - SIGN)) with m by lia. reflexivity.
             ++ unfold abs_list; cbn [flat_map]. rewrite !app_nil_r.
                assert (Hz' : is_zero (c - 1) = true) by (unf; apply Z.leb_le; lia).
                rewrite (expand_zero _ Hz'), repeat_length.
                rewrite app_nil_r, repeat_length in Hk. cbn [length] in *. lia.
             ++ unfold abs_list; cbn [flat_map]. rewrite !app_nil_r.
                assert (Hz' : is_zero (c - 1) = true) by (unf; apply Z.leb_le; lia).
                rewrite (expand_zero _ Hz'), repeat_length.
                rewrite app_nil_r, repeat_length in Hfuel. lia.
          -- cbn [next_from]. unfold is_value; rewrite Hz; cbn [negb].
             rewrite Hcz. replace (0 <? c - SIGN) with true by (symmetry; apply Z.ltb_lt; lia).
             unfold decr_zero_count. replace (0 <? c) with true
               by (symmetry; apply Z.ltb_lt; arith).
             f_equal.
             assert (Hc' : 0 < c - 1 < TWO64 \/ c - 1 = SIGN) by (destruct Hc; arith).
             assert (Hz' : is_zero (c - 1) = true) by (unf; apply Z.leb_le; lia).
             assert (He' : abs_list ((c - 1) :: c' :: r') = repeat 0 m ++ abs_list (c' :: r')).
             { change ((c - 1) :: c' :: r') with ([c - 1] ++ c' :: r').
               rewrite abs_list_app. f_equal. unfold abs_list; cbn [flat_map].
               rewrite app_nil_r, (expand_zero _ Hz').
               replace (Z.to_nat (c - 1 - SIGN)) with m by lia. reflexivity. }
             rewrite (IHk (c' :: r') (c - 1) fuel (n - 1)); try assumption.
             ++ rewrite He'. rewrite !app_length, repeat_length in *. cbn [length] in *. lia.
             ++ rewrite He'. rewrite !app_length, repeat_length in *. lia.
        * (* exhausted run: skip to the next entry *)
          assert (Hcz : zero_count c = c - SIGN) by (unfold zero_count; now rewrite Hz).
          rewrite Hcz in Hpos. zb.
          assert (Hexp0 : expand c = []).
          { rewrite (expand_zero _ Hz). replace (Z.to_nat (c - SIGN)) with 0%nat by lia.
            reflexivity. }
          rewrite Hexp0 in *. cbn [app length] in *.
          destruct r as [|c' r'].
          -- destruct fuel; [reflexivity|].
             cbn [iter_collect iter_next curr rest ilen next_from].
             unfold is_value; rewrite Hz; cbn [negb]. rewrite Hcz.
             replace (0 <? c - SIGN) with false by (symmetry; apply Z.ltb_ge; lia).
             reflexivity.
          -- assert (Hc'wf : wf_entry c') by (apply Hr; now left).
             assert (Hstep : forall f, iter_collect f (mk_iter (Some c) (c' :: r') n)
                              = iter_collect f (mk_iter (Some c') r' n)).
             { intros [|f]; [reflexivity|].
               cbn [iter_collect iter_next curr rest ilen].
               replace (next_from c (c' :: r') n) with (next_from c' r' n); [reflexivity|].
               symmetry. cbn [next_from]. unfold is_value at 1; rewrite Hz; cbn [negb].
               rewrite Hcz.
               replace (0 <? c - SIGN) with false by (symmetry; apply Z.ltb_ge; lia).
               reflexivity. }
             rewrite Hstep. apply IHk.
             ++ cbn [length] in Hk. lia.
             ++ intros e He. apply Hr. now right.
             ++ left. destruct Hc'wf as [Hr' _]. exact Hr'.
             ++ exact Hfuel.
      + (* a value *)
        assert (Hv : is_value c = true) by (unfold is_value; now rewrite Hz).
        rewrite (expand_value _ Hv) in *. cbn [app length] in *.
        destruct fuel as [|fuel]; [lia|].
        cbn [iter_collect iter_next curr rest ilen].
        destruct r as [|c' r'].
        -- cbn [next_from]. rewrite Hv. f_equal. destruct fuel; reflexivity.
        -- cbn [next_from]. rewrite Hv. f_equal.
           assert (Hc'wf : wf_entry c') by (apply Hr; now left).
           apply IHk.
           ++ cbn [length] in Hk. lia.
           ++ intros e He. apply Hr. now right.
           ++ left. destruct Hc'wf as [Hr' _]. exact Hr'.
           ++ lia. }
  intros r c fuel n Hr Hc Hf. eapply Hgen; eauto.
Qed.

Theorem iter_all_spec s : Inv s -> iter_all s = abs s.
Proof.
  intros [Hwf Hlen]. unfold iter_all, iter_new, abs.
  destruct (inner s) as [|c r] eqn:E.
  - destruct (Z.to_nat (len s)); reflexivity.
  - inversion Hwf as [|? ? Hc Hr]; subst. apply iter_collect_spec.
    + rewrite Forall_forall in Hr. exact Hr.
    + left. destruct Hc as [Hc _]. exact Hc.
    + unfold alen in Hlen. lia.
Qed.

(* ---- into_vec -------------------------------------------------------------------- *)
Lemma scan_non_zero_spec : forall it count,
  wf it ->
  let '(count', zc, it') := scan_non_zero it count in
  exists pre, it = pre ++ match zc with
                            | Some k => SIGN + k :: it'
                            | None => it' end
    /\ forallb is_value pre = true /\ count' = (count + length pre)%nat
    /\ (zc = None -> it' = [])
    /\ (forall k, zc = Some k -> 0 < k /\ is_zero (SIGN + k) = true).
Proof.
  induction it as [|e tl IH]; intros count Hwf; cbn [scan_non_zero].
  - exists []. cbn. repeat split; auto; try lia; intros; discriminate.
  - inversion Hwf as [|? ? He Htl]; subst. destruct (is_zero e) eqn:Hz.
    + exists []. cbn. split; [|repeat split; auto; try lia; try discriminate].
      * unfold zero_count. rewrite Hz. f_equal. lia.
      * inversion H; subst. destruct He as [Hr Hn]. unfold zero_count. rewrite Hz.
        unfold is_zero in Hz. zb. lia.
      * inversion H; subst. unfold zero_count. rewrite Hz. unfold is_zero in *. zb.
        apply Z.leb_le. lia.
    + specialize (IH (S count) Htl).
      destruct (scan_non_zero tl (S count)) as [[count' zc] it'].
      destruct IH as (pre & Heq & Hpre & Hcount & Hnone & Hsome).
      exists (e :: pre). split; [cbn; now rewrite <- Heq|]. split.
      * cbn. unfold is_value. rewrite Hz. exact Hpre.
      * split; [cbn; lia | split; assumption].
Qed.

Lemma firstn_app_exact {A} (l1 l2 : list A) : firstn (length l1) (l1 ++ l2) = l1.
Proof. rewrite firstn_app, Nat.sub_diag, firstn_all. cbn. now rewrite app_nil_r. Qed.

Lemma into_vec_loop_spec : forall (fuel : nat) (it : list entry),
  wf it -> (length it < fuel)%nat -> into_vec_loop fuel it = Some (abs_list it).
Proof.
  induction fuel as [|fuel IH]; intros it Hwf Hf; [lia|].
  cbn [into_vec_loop].
  pose proof (scan_non_zero_spec it 0%nat Hwf) as H.
  destruct (scan_non_zero it 0) as [[count zc] it'].
  destruct H as (pre & Heq & Hpre & Hcount & Hnone & Hsome). cbn in Hcount. subst count.
  assert (Hcs : forall tl, copy_slice (pre ++ tl) (length pre) = Some pre).
  { intros tl. unfold copy_slice.
    rewrite firstn_app_exact, Hpre, app_length.
    replace (length pre <=? length pre + length tl)%nat with true
      by (symmetry; apply Nat.leb_le; lia). reflexivity. }
  destruct zc as [k|].
  - destruct (Hsome k eq_refl) as [Hk Hz]. subst it. rewrite Hcs.
    apply Forall_app in Hwf. destruct Hwf as [_ Hwf].
    assert (Hwf' : wf it') by (now inversion Hwf).
    assert (Hlen' : (length it' < fuel)%nat).
    { rewrite app_length in Hf. cbn [length] in Hf. lia. }
    rewrite (IH it' Hwf' Hlen'). f_equal.
    rewrite abs_list_app, (abs_list_values _ Hpre). f_equal.
    change (SIGN + k :: it') with ([SIGN + k] ++ it'). rewrite abs_list_app. f_equal.
    unfold abs_list; cbn [flat_map]. rewrite app_nil_r, (expand_zero _ Hz).
    f_equal. f_equal. lia.
  - rewrite (Hnone eq_refl) in Heq. subst it. rewrite Hcs.
    now rewrite app_nil_r, (abs_list_values _ Hpre).
Qed.

Theorem into_vec_spec s : Inv s -> into_vec s = Some (abs s).
Proof. intros [Hwf _]. unfold into_vec, abs. apply into_vec_loop_spec; [exact Hwf | lia]. Qed.

(* ---- whole operation sequences ---------------------------------------------------- *)
(* an op sequence is legal for the real type if `sort_desc` is only called when no zero
   is stored (its debug assertion), words are 64-bit, and the length stays below 2^63 *)
Fixpoint legal (l : list Z) (ops : list op) : Prop :=
  match ops with
  | [] => True
  | o :: tl =>
      match o with
      | OPush b => 0 <= b < TWO64
      | OSort => forallb nonzero l = true
      | _ => True
      end /\ legal (spec_step l o) tl
  end.

Fixpoint n_pushes (ops : list op) : Z :=
  match ops with
  | [] => 0
  | OPush _ :: tl => 1 + n_pushes tl
  | _ :: tl => n_pushes tl
  end.

Lemma n_pushes_nonneg ops : 0 <= n_pushes ops.
Proof. induction ops as [|[]]; cbn [n_pushes]; lia. Qed.

Lemma nonzero_values l : wf l -> forallb nonzero (abs_list l) = true ->
  forallb is_value l = true.
Proof.
  induction l as [|x l IH]; intros Hwf H; [reflexivity|].
  inversion Hwf as [|? ? Hx Hl]; subst.
  change (x :: l) with ([x] ++ l) in H. rewrite abs_list_app, forallb_app in H. zb.
  cbn [forallb]. rewrite IH by assumption. rewrite andb_true_r.
  destruct (is_zero x) eqn:Hz; [|unfold is_value; now rewrite Hz].
  exfalso. unfold abs_list in H; cbn in H. rewrite app_nil_r, (expand_zero _ Hz) in H.
  destruct Hx as [Hr Hn]. unf. zb.
  destruct (Z.to_nat (x - SIGN)) eqn:E; [lia|]. cbn in H. discriminate.
Qed.

Lemma sort_exact s : Exact s -> forallb is_value (inner s) = true -> Exact (sort_desc s).
Proof.
  intros HE Hv. pose proof (Exact_Inv _ HE) as HI. destruct HE as [Hwf Hlen].
  destruct (sort_spec s HI Hv) as ([Hwf' _] & _ & Hv').
  split; [exact Hwf'|]. unfold sort_desc, alen in *; cbn [inner len] in *.
  rewrite (abs_list_values _ Hv'). rewrite (abs_list_values _ Hv) in Hlen.
  rewrite <- Hlen. f_equal. apply Permutation_length. symmetry. apply sort_desc_perm.
Qed.

Theorem run_refines : forall ops s,
  Exact s -> legal (abs s) ops -> len s + n_pushes ops < SIGN ->
  let '(s', ok) := run s ops in
  ok = true /\ Exact s' /\ abs s' = spec_run (abs s) ops /\ len s' <= len s + n_pushes ops.
Proof.
  induction ops as [|o ops IH]; intros s HE Hlegal Hlen.
  - cbn. repeat split; auto; try apply HE. lia.
  - cbn [run]. destruct Hlegal as [Ho Hlegal].
    pose proof (n_pushes_nonneg ops) as Hnn. pose proof (Exact_Inv _ HE) as HI.
    destruct o as [b| | |]; cbn [step].
    + cbn [n_pushes] in Hlen.
      pose proof (push_spec s b HI ltac:(lia) Ho) as Hp.
      destruct (push s b) as [s1 ok1]. destruct Hp as (Hok & HI1 & Habs1 & Hlen1 & HE1).
      cbn [spec_step] in Hlegal. rewrite <- Habs1 in Hlegal.
      specialize (IH s1 (HE1 HE) Hlegal ltac:(lia)).
      destruct (run s1 ops) as [s2 ok2]. destruct IH as (Hok2 & HE2 & Habs2 & Hlen2).
      subst ok1 ok2. split; [reflexivity|]. split; [exact HE2|]. split.
      * cbn [spec_run fold_left spec_step]. now rewrite <- Habs1.
      * cbn [n_pushes]. lia.
    + destruct (retain_spec s HI) as (HI1 & Habs1 & _). pose proof (retain_exact s HI) as HE1.
      cbn [spec_step] in Hlegal. change (fun w => negb (w =? 0)) with nonzero in Hlegal.
      rewrite <- Habs1 in Hlegal.
      assert (Hl1 : len (retain_non_zero s) <= len s).
      { destruct HE as [_ Hex]. unfold retain_non_zero; cbn [len]. rewrite <- Hex. unfold alen.
        destruct HI as [Hwf _]. destruct (retain_abs_list _ Hwf) as [H1 H2].
        rewrite <- H2, H1. pose proof (filter_length_le' nonzero (abs_list (inner s))). lia. }
      specialize (IH (retain_non_zero s) HE1 Hlegal ltac:(cbn [n_pushes] in Hlen; lia)).
      destruct (run (retain_non_zero s) ops) as [s2 ok2].
      destruct IH as (Hok2 & HE2 & Habs2 & Hlen2). subst ok2.
      split; [reflexivity|]. split; [exact HE2|]. split.
      * cbn [spec_run fold_left spec_step]. change (fun w => negb (w =? 0)) with nonzero.
        now rewrite <- Habs1.
      * cbn [n_pushes]. lia.
    + assert (Hv : forallb is_value (inner s) = true)
        by (apply nonzero_values; [apply HI | exact Ho]).
      destruct (sort_spec s HI Hv) as (HI1 & Habs1 & _). pose proof (sort_exact s HE Hv) as HE1.
      cbn [spec_step] in Hlegal. rewrite <- Habs1 in Hlegal.
      specialize (IH (sort_desc s) HE1 Hlegal Hlen).
      destruct (run (sort_desc s) ops) as [s2 ok2].
      destruct IH as (Hok2 & HE2 & Habs2 & Hlen2). subst ok2.
      split; [reflexivity|]. split; [exact HE2|]. split.
      * cbn [spec_run fold_left spec_step]. now rewrite <- Habs1.
      * exact Hlen2.
    + destruct (retain_spec s HI) as (HI1 & Habs1 & Hv1). pose proof (retain_exact s HI) as HE1.
      destruct (sort_spec _ HI1 Hv1) as (HI2 & Habs2 & _). pose proof (sort_exact _ HE1 Hv1) as HE2.
      cbn [spec_step] in Hlegal. change (fun w => negb (w =? 0)) with nonzero in Hlegal.
      unfold retain_non_zero_and_sort.
      rewrite <- Habs1, <- Habs2 in Hlegal.
      assert (Hl1 : len (sort_desc (retain_non_zero s)) <= len s).
      { destruct HE as [_ Hex]. unfold sort_desc, retain_non_zero; cbn [len]. rewrite <- Hex. unfold alen.
        destruct HI as [Hwf _]. destruct (retain_abs_list _ Hwf) as [H1 H2].
        rewrite <- H2, H1. pose proof (filter_length_le' nonzero (abs_list (inner s))). lia. }
      specialize (IH _ HE2 Hlegal ltac:(cbn [n_pushes] in Hlen; lia)).
      destruct (run (sort_desc (retain_non_zero s)) ops) as [s3 ok3].
      destruct IH as (Hok3 & HE3 & Habs3 & Hlen3). subst ok3.
      split; [reflexivity|]. split; [exact HE3|]. split.
      * cbn [spec_run fold_left spec_step]. change (fun w => negb (w =? 0)) with nonzero.
        now rewrite <- Habs1, <- Habs2.
      * cbn [n_pushes]. lia.
Qed.

(* the observations of a reachable state are those of the plain list *)
Theorem observe_refines ops :
  legal [] ops -> n_pushes ops < SIGN ->
  let '(s, ok) := run sv_empty ops in
  let l := spec_run [] ops in
  ok = true /\ iter_all s = l /\ into_vec s = Some l
  /\ transmute_into_vec (retain_non_zero s) = Some (filter nonzero l)
  /\ len s = Z.of_nat (length l).
Proof.
  intros Hl Hn.
  pose proof (run_refines ops sv_empty Exact_empty Hl ltac:(cbn; lia)) as H.
  destruct (run sv_empty ops) as [s ok]. destruct H as (Hok & HE & Habs & Hlen).
  change (abs sv_empty) with (@nil Z) in Habs.
  pose proof (Exact_Inv _ HE) as HI.
  split; [exact Hok|]. rewrite <- Habs.
  split; [now apply iter_all_spec|]. split; [now apply into_vec_spec|].
  split; [now apply transmute_after_retain|].
  destruct HE as [_ Hex]. rewrite <- Hex. reflexivity.
Qed.

(* ---- raw_strains equivalence (C10) ------------------------------------------------ *)
(* every 64-bit word except a NaN with a clear sign bit: zeros of both signs, negatives,
   subnormals, positive finite values, both infinities, negative NaNs *)
Definition push_ok (b : Z) : bool := (0 <=? b) && (b <? TWO64) && negb ((POS_INF_BITS <? b) && (b <? SIGN)).
(* +0, every positive finite value and +inf; what well-behaved skills push *)
Definition strain_ok (b : Z) : bool := (0 <=? b) && (b <=? POS_INF_BITS).

Lemma strain_ok_push_ok b : strain_ok b = true -> push_ok b = true.
Proof.
  unfold strain_ok, push_ok. intros H. zb. repeat (apply andb_true_iff; split).
  - apply Z.leb_le. lia.
  - apply Z.ltb_lt. arith.
  - apply negb_true_iff, andb_false_iff. left. apply Z.ltb_ge. lia.
Qed.

Lemma canon_strain_ok b : strain_ok b = true -> canon b = b.
Proof.
  unfold strain_ok, canon, push_is_value. intros H. zb.
  destruct (0 <? b) eqn:H1; zb; cbn.
  - replace (b <? SIGN) with true by (symmetry; apply Z.ltb_lt; arith). reflexivity.
  - lia.
Qed.

Lemma filter_ext_in_Z (f g : Z -> bool) l :
  (forall x, In x l -> f x = g x) -> filter f l = filter g l.
Proof. intros H. now apply filter_ext_in. Qed.

Theorem raw_equiv (pushes : list Z) :
  forallb push_ok pushes = true -> Z.of_nat (length pushes) < SIGN ->
  let ops := map OPush pushes in
  let '(s, ok) := run sv_empty ops in
  let r := fold_left raw_push pushes [] in
  ok = true /\ len s = Z.of_nat (length r) /\ iter_all s = r /\ into_vec s = Some r
  /\ transmute_into_vec (retain_non_zero_and_sort s)
     = Some (raw_sort_desc (raw_retain_non_zero r)).
Proof.
  intros Hok Hlen.
  assert (Hraw : forall l acc, fold_left raw_push l acc = acc ++ map canon l).
  { induction l as [|x l IH]; intros acc; cbn; [now rewrite app_nil_r|].
    unfold raw_push at 2. rewrite IH, <- app_assoc. reflexivity. }
  assert (Hspec : forall l acc, spec_run acc (map OPush l) = acc ++ map canon l).
  { induction l as [|x l IH]; intros acc; cbn; [now rewrite app_nil_r|].
    unfold spec_run in IH. rewrite IH. now rewrite <- app_assoc. }
  assert (Hleg : forall l acc, forallb push_ok l = true -> legal acc (map OPush l)).
  { induction l as [|x l IH]; intros acc H; cbn; [exact I|]. cbn in H. zb.
    split; [|now apply IH]. unfold push_ok in *. zb. lia. }
  assert (Hnp : forall l, n_pushes (map OPush l) = Z.of_nat (length l)).
  { induction l as [|x l IH]; cbn [map n_pushes length]; [reflexivity|]. rewrite IH. lia. }
  pose proof (run_refines (map OPush pushes) sv_empty Exact_empty
                (Hleg _ _ Hok) ltac:(cbn [len sv_empty]; rewrite Hnp; lia)) as H.
  cbn zeta. destruct (run sv_empty (map OPush pushes)) as [s ok].
  destruct H as (Hk & HE & Habs & Hl). pose proof (Exact_Inv _ HE) as HI.
  change (abs sv_empty) with (@nil Z) in Habs. rewrite Hspec in Habs.
  rewrite Hraw. cbn [app] in *.
  split; [exact Hk|]. split; [destruct HE as [_ Hex]; rewrite <- Hex; unfold alen; fold (abs s); now rewrite Habs|].
  split; [now rewrite iter_all_spec|]. split; [now rewrite into_vec_spec, Habs|].
  destruct (retain_spec s HI) as (HI1 & Habs1 & Hv1).
  unfold retain_non_zero_and_sort, transmute_into_vec.
  destruct (sort_spec _ HI1 Hv1) as (HI2 & Habs2 & Hv2). rewrite Hv2. f_equal.
  unfold abs in Habs2. rewrite (abs_list_values _ Hv2) in Habs2. rewrite Habs2.
  unfold raw_sort_desc, raw_retain_non_zero. f_equal.
  fold (abs (retain_non_zero s)). rewrite Habs1, Habs.
  apply filter_ext_in_Z. intros x Hx. apply in_map_iff in Hx as (b & <- & Hb).
  rewrite forallb_forall in Hok. specialize (Hok _ Hb).
  assert (Hnan : (POS_INF_BITS <? b) && (b <? SIGN) = false).
  { unfold push_ok in Hok. apply andb_true_iff in Hok as [_ Hn]. now apply negb_true_iff in Hn. }
  clear Hok. unfold canon, push_is_value, nonzero, gt_zero_bits.
  destruct (0 <? b) eqn:E1; destruct (b <? SIGN) eqn:E2; cbn; try reflexivity.
  apply Z.ltb_lt in E1, E2.
  replace (b =? 0) with false by (symmetry; apply Z.eqb_neq; lia). cbn.
  replace (0 <? b) with true by (symmetry; apply Z.ltb_lt; lia). cbn.
  symmetry. apply Z.leb_le.
  apply andb_false_iff in Hnan as [H|H]; [apply Z.ltb_ge in H; lia | discriminate].
Qed.

(* a NaN with a clear sign bit is the one value the two variants still treat differently
   (the compact list keeps it as a value, `a > 0.0` drops it): the precondition is necessary *)
Lemma raw_differs_nan_refuted :
  exists b, 0 <= b < TWO64 /\ push_ok b = false /\
    transmute_into_vec (retain_non_zero_and_sort (fst (push sv_empty b)))
    <> Some (raw_sort_desc (raw_retain_non_zero (raw_push [] b))).
Proof. exists QNAN_BITS. vm_compute. repeat split; congruence. Qed.

(* non-vacuity: a concrete mixed sequence meets the hypotheses *)
Example legal_example :
  legal [] [OPush 4607182418800017408; OPush 0; OPush SIGN; OPush 4611686018427387904;
            ORetainSort] /\
  n_pushes [OPush 4607182418800017408; OPush 0; OPush SIGN; OPush 4611686018427387904;
            ORetainSort] < SIGN.
Proof. vm_compute. repeat split; congruence. Qed.

(* since the fix of the stale length, `len()` after the zeros are removed is the same number in
   both variants (before it, the compact list kept reporting the number of pushes) *)
Theorem raw_len_equiv (pushes : list Z) :
  forallb push_ok pushes = true -> Z.of_nat (length pushes) < SIGN ->
  let s := fst (run sv_empty (map OPush pushes)) in
  let r := fold_left raw_push pushes [] in
  len (retain_non_zero_and_sort s) = Z.of_nat (length (raw_sort_desc (raw_retain_non_zero r))).
Proof.
  intros Hok Hlen. pose proof (raw_equiv pushes Hok Hlen) as H. cbv zeta in H.
  assert (Hleg : forall l acc, forallb push_ok l = true -> legal acc (map OPush l)).
  { induction l as [|x l IH]; intros acc Hx; cbn; [exact I|]. cbn in Hx. zb.
    split; [|now apply IH]. unfold push_ok in *. zb. lia. }
  assert (Hnp : forall l, n_pushes (map OPush l) = Z.of_nat (length l)).
  { induction l as [|x l IH]; cbn [map n_pushes length]; [reflexivity|]. rewrite IH. lia. }
  pose proof (run_refines (map OPush pushes) sv_empty Exact_empty
                (Hleg _ _ Hok) ltac:(cbn [len sv_empty]; rewrite Hnp; lia)) as HR.
  destruct (run sv_empty (map OPush pushes)) as [s ok]. cbn [fst].
  destruct H as (_ & _ & _ & _ & Ht). destruct HR as (_ & HE & _ & _).
  pose proof (Exact_Inv _ HE) as HI.
  destruct (retain_spec s HI) as (HI1 & _ & Hv1). pose proof (retain_exact s HI) as HE1.
  pose proof (sort_exact _ HE1 Hv1) as [_ Hex2].
  destruct (sort_spec _ HI1 Hv1) as (_ & _ & Hv2).
  unfold retain_non_zero_and_sort in *. unfold transmute_into_vec in Ht. rewrite Hv2 in Ht.
  injection Ht as Ht. rewrite <- Ht, <- Hex2. unfold alen. now rewrite (abs_list_values _ Hv2).
Qed.
