(* Proofs/AttributesProofs.v — C17 over the exact twin (Model/AttributesQ.v) and the
   structural facts over the float model (Model/Attributes.v). *)
From Coq Require Import ZArith QArith Qminmax Qabs Lqa List Bool Floats.
From V Require Import F64 F32 Attributes AttributesQ.
Import ListNotations.
Open Scope Q_scope.

(* ---- float model: hit_windows() and build() agree by construction ---------------------- *)
Theorem build_uses_hit_windows (b : builder) : r_hw (build b) = hit_windows_of b.
Proof. reflexivity. Qed.
Theorem build_reports_clock (b : builder) : r_clock (build b) = a_clock b.
Proof. reflexivity. Qed.
(* catch and mania report the OD value itself *)
Theorem build_od_catch_mania (b : builder) :
  a_mode b = ACatch \/ a_mode b = AMania -> r_od (build b) = kvalue (a_od b) (m_od b).
Proof. intros [H|H]; unfold build; rewrite H; reflexivity. Qed.
(* CS supplied with with_mods = true is reported back unchanged (exactly, in floats) *)
Theorem build_cs_with_mods (b : builder) : k_with_mods (a_cs b) = true -> r_cs (build b) = kvalue (a_cs b) (m_cs b).
Proof. intros H. unfold build. rewrite H. reflexivity. Qed.

(* ---- Q twin ---------------------------------------------------------------------------- *)
Lemma Qltb_true a b : Qltb a b = true <-> a < b.
Proof.
  unfold Qltb. rewrite negb_true_iff. split.
  - intros H. apply Qnot_le_lt. intros Hle. apply Qle_bool_iff in Hle. congruence.
  - intros H. destruct (Qle_bool b a) eqn:E; [|reflexivity]. apply Qle_bool_iff in E. lra.
Qed.
Lemma Qltb_false a b : Qltb a b = false <-> b <= a.
Proof.
  unfold Qltb. rewrite negb_false_iff. apply Qle_bool_iff.
Qed.

Ltac qcases :=
  repeat match goal with
  | |- context [Qltb ?a ?b] =>
      let E := fresh "E" in destruct (Qltb a b) eqn:E; [apply Qltb_true in E | apply Qltb_false in E]
  end.

Definition window_ok (w : windowsQ) : Prop := In w all_windows_Q.

(* a harder setting never gives a larger window: every window function is antitone *)
Lemma rangeQ_antitone w d1 d2 : window_ok w -> d1 <= d2 -> rangeQ d2 w <= rangeQ d1 w.
Proof.
  intros Hw Hd. unfold window_ok, all_windows_Q in Hw. cbn in Hw.
  repeat (destruct Hw as [<-|Hw]; [unfold rangeQ; cbn [q_min q_avg q_max OSU_GREAT_Q OSU_OK_Q OSU_MEH_Q TAIKO_GREAT_Q TAIKO_OK_Q AR_WINDOWS_Q]; qcases; lra|]).
  contradiction.
Qed.

Lemma mod_multQ_mono hr ez v1 v2 : v1 <= v2 -> mod_multQ hr ez v1 <= mod_multQ hr ez v2.
Proof.
  intros H. unfold mod_multQ. destruct hr; [|destruct ez; lra].
  apply Q.min_le_compat_r. lra.
Qed.

Lemma Qdiv_le_compat_pos a b c : 0 < c -> a <= b -> a / c <= b / c.
Proof.
  intros Hc H. unfold Qdiv. apply Qmult_le_compat_r; [assumption|].
  apply Qlt_le_weak, Qinv_lt_0_compat, Hc.
Qed.

Theorem windows_antitone w hr ez with_mods v1 v2 rate :
  window_ok w -> 0 < rate -> v1 <= v2 ->
  windowQ w hr ez with_mods v2 rate <= windowQ w hr ez with_mods v1 rate.
Proof.
  intros Hw Hr Hv. unfold windowQ. apply Qdiv_le_compat_pos.
  - unfold clockQ. destruct with_mods; lra.
  - apply rangeQ_antitone; [assumption|]. unfold rawQ. destruct with_mods; [assumption|].
    now apply mod_multQ_mono.
Qed.

(* windows scale inversely with the clock rate (with_mods = false) *)
Theorem windows_inverse_clock w hr ez v rate :
  0 < rate -> windowQ w hr ez false v rate * rate == windowQ w hr ez false v 1.
Proof. intros Hr. unfold windowQ, clockQ. field. lra. Qed.
(* and are independent of it when the value is supplied with with_mods = true *)
Theorem windows_with_mods_ignore_clock w hr ez v r1 r2 :
  windowQ w hr ez true v r1 == windowQ w hr ez true v r2.
Proof. unfold windowQ, clockQ. reflexivity. Qed.

(* round trips: a value supplied with with_mods = true is reported back unchanged regardless of
   mods and clock rate (AR for every mode; OD for osu! and taiko — catch and mania report the
   value itself, see build_od_catch_mania) *)
Theorem ar_roundtrip hr ez v rate : arQ hr ez true v rate == v.
Proof.
  unfold arQ, ar_of_preemptQ, windowQ, rawQ, clockQ, rangeQ. cbn [q_min q_avg q_max AR_WINDOWS_Q].
  unfold Qdiv. change (/ 1) with 1. qcases; lra.
Qed.
Theorem od_roundtrip_osu hr ez v rate : od_osuQ hr ez true v rate == v.
Proof.
  unfold od_osuQ, od_of_great_osuQ, windowQ, rawQ, clockQ, rangeQ. cbn [q_min q_avg q_max OSU_GREAT_Q].
  unfold Qdiv. change (/ 1) with 1. qcases; lra.
Qed.
Theorem od_roundtrip_taiko hr ez v rate : od_taikoQ hr ez true v rate == v.
Proof.
  unfold od_taikoQ, od_of_great_taikoQ, windowQ, rawQ, clockQ, rangeQ. cbn [q_min q_avg q_max TAIKO_GREAT_Q].
  unfold Qdiv. change (/ 1) with 1. qcases; lra.
Qed.
Theorem hp_roundtrip hr ez v : v <= 10 -> hpQ hr ez true v == v.
Proof. intros H. unfold hpQ. apply Q.min_l. assumption. Qed.
Theorem cs_roundtrip hr ez v : csQ hr ez true v == v.
Proof. reflexivity. Qed.

(* HR never yields easier and EZ never harder values than no mod, on [0, 10] *)
Lemma mod_mult_order v : 0 <= v <= 10 ->
  mod_multQ false true v <= mod_multQ false false v /\ mod_multQ false false v <= mod_multQ true false v.
Proof.
  intros [H0 H1]. unfold mod_multQ. split; [lra|]. apply Q.min_glb; lra.
Qed.

Theorem hr_ez_window_order w v rate : window_ok w -> 0 < rate -> 0 <= v <= 10 ->
  windowQ w true false false v rate <= windowQ w false false false v rate /\
  windowQ w false false false v rate <= windowQ w false true false v rate.
Proof.
  intros Hw Hr Hv. destruct (mod_mult_order v Hv) as [He Hh].
  unfold windowQ, rawQ, clockQ. split; apply Qdiv_le_compat_pos; try assumption;
    apply rangeQ_antitone; assumption.
Qed.

Lemma ar_of_preempt_antitone p1 p2 : p1 <= p2 -> ar_of_preemptQ p2 <= ar_of_preemptQ p1.
Proof. intros H. unfold ar_of_preemptQ. qcases; lra. Qed.

Theorem hr_ez_ar_order v rate : 0 < rate -> 0 <= v <= 10 ->
  arQ false true false v rate <= arQ false false false v rate /\
  arQ false false false v rate <= arQ true false false v rate.
Proof.
  intros Hr Hv. assert (Hw : window_ok AR_WINDOWS_Q) by (unfold window_ok, all_windows_Q; cbn; tauto).
  destruct (hr_ez_window_order AR_WINDOWS_Q v rate Hw Hr Hv) as [H1 H2].
  unfold arQ. split; apply ar_of_preempt_antitone; assumption.
Qed.

Theorem hr_ez_hp_cs_order v : 0 <= v <= 10 ->
  hpQ false true false v <= hpQ false false false v /\ hpQ false false false v <= hpQ true false false v /\
  csQ false true false v <= csQ false false false v /\ csQ false false false v <= csQ true false false v.
Proof.
  intros [H0 H1]. unfold hpQ, csQ. repeat split.
  - apply Q.min_le_compat_r. lra.
  - apply Q.min_le_compat_r. lra.
  - lra.
  - apply Q.min_glb; lra.
Qed.

(* larger AR / OD values are reported as larger (the reported value is monotone too) *)
Theorem ar_monotone hr ez with_mods v1 v2 rate : 0 < rate -> v1 <= v2 ->
  arQ hr ez with_mods v1 rate <= arQ hr ez with_mods v2 rate.
Proof.
  intros Hr Hv. unfold arQ. apply ar_of_preempt_antitone. apply windows_antitone; try assumption.
  unfold window_ok, all_windows_Q; cbn; tauto.
Qed.

Example twin_values :
  windowQ OSU_GREAT_Q false false false 8 (3 # 2) == 64 # 3 /\ arQ true false false 7 1 == (98 # 10).
Proof. split; vm_compute; reflexivity. Qed.
