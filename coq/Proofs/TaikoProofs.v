(* Proofs/TaikoProofs.v — the taiko gradual calculator (after the fix 8d6162b) refines a plain
   iterator over the one-shot values [one-shot(1); ...; one-shot(hits)], for every flag list
   (which objects are hits), every skill oracle and every sequence of next / nth(k) / len. *)
From Coq Require Import ZArith List Bool Lia.
From V Require Import F64 Gradual GradualProofs GradPerf.
Import ListNotations.
Open Scope Z_scope.

Local Arguments Z.add : simpl never.
Local Arguments Z.sub : simpl never.
Local Arguments Z.ltb : simpl never.
Local Arguments Z.leb : simpl never.
Local Arguments Z.min : simpl never.
Local Arguments Z.to_nat : simpl never.
Local Arguments Z.of_nat : simpl never.

Section Taiko.
Variable S : Type.
Variable process : S -> Z -> S.
Variable s0 : S.

Notation tg := (tgstate S).
Notation pr := (process_range S process s0 0).

Definition hits (l : list bool) : Z := zlen (filter (fun b => b) l).
Lemma hits_app a b : hits (a ++ b) = hits a + hits b.
Proof. unfold hits, zlen. rewrite filter_app, app_length. lia. Qed.
Lemma hits_nonneg l : 0 <= hits l.
Proof. unfold hits, zlen. lia. Qed.
Lemma zlen_app {A} (a b : list A) : zlen (a ++ b) = zlen a + zlen b.
Proof. unfold zlen. rewrite app_length. lia. Qed.

(* the value after the objects [pre] have been passed *)
Definition tval (pre : list bool) : Z * S := (hits pre, pr (sat_sub (zlen pre) 2)).

(* invariant: [pre] are the objects passed so far *)
Definition I (g : tg) (pre : list bool) : Prop :=
  tg_pos g = zlen pre /\ tg_idx g = hits pre /\ tg_combo g = hits pre /\
  tg_skill g = pr (sat_sub (zlen pre) 2).

Variable flags : list bool.
(* `take` is a u32 and becomes u32::MAX once every hit is passed: fewer hits than that *)
Hypothesis Hsmall : zlen flags < 4294967295.
Notation next := (taiko_next S process flags).
Notation nth := (taiko_nth S process flags).
Notation len := (taiko_len S flags).

(* values still to come: the value of a hit is taken right after it, except for the last hit,
   whose value is taken after everything that follows it *)
Fixpoint tvals (pre post : list bool) : list (Z * S) :=
  match post with
  | [] => []
  | h :: tl => (if h then [tval (if hits tl =? 0 then pre ++ h :: tl else pre ++ [h])] else [])
               ++ tvals (pre ++ [h]) tl
  end.

Lemma tvals_length : forall post pre, zlen (tvals pre post) = hits post.
Proof.
  induction post as [|h tl IH]; intros pre; [reflexivity|].
  cbn [tvals]. rewrite zlen_app, IH. unfold hits. destruct h; cbn; unfold zlen; cbn [length]; lia.
Qed.

Lemma hits_cons h tl : hits (h :: tl) = (if h then 1 else 0) + hits tl.
Proof. change (h :: tl) with ([h] ++ tl). rewrite hits_app. destruct h; reflexivity. Qed.

Lemma tvals_nohit : forall post pre, hits post = 0 -> tvals pre post = [].
Proof.
  intros post pre H. pose proof (tvals_length post pre) as L. rewrite H in L.
  destruct (tvals pre post); [reflexivity|]. unfold zlen in L. cbn [length] in L. lia.
Qed.

(* one object passed: the invariant moves on *)
Lemma step_I (g : tg) pre (h : bool) :
  I g pre ->
  I (mk_tg (tg_idx g + (if h then 1 else 0)) (tg_combo g + (if h then 1 else 0)) (tg_pos g + 1)
           (if 2 <=? tg_pos g then process (tg_skill g) (tg_pos g - 2) else tg_skill g))
    (pre ++ [h]).
Proof.
  intros (Hp & Hi & Hc & Hs). unfold I. cbn [tg_pos tg_idx tg_combo tg_skill].
  rewrite zlen_app, hits_app. change (zlen [h]) with 1.
  assert (Hh : hits [h] = if h then 1 else 0) by (destruct h; reflexivity).
  rewrite Hh. repeat split; try lia.
  pose proof (zlen_nonneg pre) as Hn.
  destruct (2 <=? tg_pos g) eqn:E.
  - apply Z.leb_le in E. rewrite Hs, Hp.
    rewrite (sat_sub_pos (zlen pre + 1) 2) by lia. rewrite (sat_sub_pos (zlen pre) 2) by lia.
    replace (zlen pre + 1 - 2) with (zlen pre - 2 + 1) by lia.
    rewrite process_range_succ by lia. f_equal; lia.
  - apply Z.leb_gt in E. rewrite Hs.
    rewrite (sat_sub_zero (zlen pre + 1) 2) by lia. rewrite (sat_sub_zero (zlen pre) 2) by lia. reflexivity.
Qed.

(* the loop over objects without a hit just passes them all *)
Lemma loop_nohit : forall rest (g : tg) pre total,
  I g pre -> hits rest = 0 -> I (taiko_pass_loop S process total rest g) (pre ++ rest).
Proof.
  induction rest as [|h tl IH]; intros g pre total HI H0; cbn [taiko_pass_loop].
  - now rewrite app_nil_r.
  - rewrite hits_cons in H0. pose proof (hits_nonneg tl). destruct h; [lia|].
    pose proof (step_I g pre false HI) as HI'. cbn [app] in HI'.
    replace (tg_idx g + 0) with (tg_idx g) in HI' by lia.
    replace (tg_combo g + 0) with (tg_combo g) in HI' by lia.
    specialize (IH _ (pre ++ [false]) total HI' ltac:(lia)).
    now rewrite <- app_assoc in IH.
Qed.

(* the loop with a hit ahead: stops after the next hit, or — if that was the last hit — at the
   very end; either way the first value still to come is the value of the state reached *)
Lemma loop_some : forall post (g : tg) pre,
  I g pre -> flags = pre ++ post -> 0 < hits post ->
  exists pre' post', flags = pre' ++ post' /\ I (taiko_pass_loop S process (hits flags) post g) pre' /\
                     tvals pre post = tval pre' :: tvals pre' post'.
Proof.
  induction post as [|h tl IH]; intros g pre HI Hf Hh; [change (hits []) with 0 in Hh; lia|].
  cbn [taiko_pass_loop tvals]. pose proof (step_I g pre h HI) as HI'. destruct h.
  - (* a hit *)
    cbn [tg_idx].
    assert (Htot : hits flags = hits pre + 1 + hits tl) by (rewrite Hf, hits_app, hits_cons; lia).
    destruct HI as (_ & Hi & _). pose proof (hits_nonneg tl) as Htl.
    destruct (hits tl =? 0) eqn:E.
    + apply Z.eqb_eq in E.
      replace (tg_idx g + 1 <? hits flags) with false by (symmetry; apply Z.ltb_ge; lia).
      exists (pre ++ true :: tl), []. split; [now rewrite app_nil_r|]. split.
      * pose proof (loop_nohit tl _ (pre ++ [true]) (hits flags) HI' E) as H.
        now rewrite <- app_assoc in H.
      * rewrite (tvals_nohit tl _ E). reflexivity.
    + apply Z.eqb_neq in E.
      replace (tg_idx g + 1 <? hits flags) with true by (symmetry; apply Z.ltb_lt; lia).
      exists (pre ++ [true]), tl. split; [now rewrite <- app_assoc|]. split; [exact HI'|reflexivity].
  - (* not a hit *)
    cbn [app]. replace (tg_idx g + 0) with (tg_idx g) in HI' by lia.
    replace (tg_combo g + 0) with (tg_combo g) in HI' by lia.
    rewrite hits_cons in Hh.
    apply (IH _ (pre ++ [false]) HI'); [now rewrite <- app_assoc|lia].
Qed.

(* state relation: [pre] passed, [post] to come *)
Definition Rt (g : tg) (pre post : list bool) : Prop := flags = pre ++ post /\ I g pre.

Lemma zskip_app {A} (a b : list A) : zskip (zlen a) (a ++ b) = b.
Proof.
  unfold zskip, zlen. rewrite Nat2Z.id. induction a as [|x a IH]; [reflexivity|exact IH].
Qed.

Lemma hits_le_len l : hits l <= zlen l.
Proof.
  unfold hits, zlen. induction l as [|h l IH]; [cbn; lia|]. cbn [filter]. destruct h; cbn [length]; lia.
Qed.

Lemma len_spec_t g pre post : Rt g pre post -> len g = hits post.
Proof.
  intros [Hf (Hp & Hi & _)]. unfold taiko_len, taiko_total_hits. fold (hits flags).
  rewrite Hf, hits_app, Hi. unfold wrap64. pose proof (hits_nonneg post).
  pose proof (hits_le_len post). pose proof (zlen_nonneg pre).
  assert (zlen post <= zlen flags) by (rewrite Hf, zlen_app; lia).
  rewrite Z.mod_small by lia. lia.
Qed.

Lemma Rt_new : Rt (taiko_new S s0) [] flags.
Proof. split; [reflexivity|]. unfold I, taiko_new; cbn. repeat split. Qed.

(* pass_next_hit *)
Lemma pass_none g pre post : Rt g pre post -> hits post = 0 -> taiko_pass S process flags g = (None, g).
Proof.
  intros [Hf (_ & Hi & _)] H0. unfold taiko_pass, taiko_total_hits. fold (hits flags).
  replace (tg_idx g =? hits flags) with true; [reflexivity|].
  symmetry. apply Z.eqb_eq. rewrite Hf, hits_app. lia.
Qed.

Lemma pass_some g pre post : Rt g pre post -> 0 < hits post ->
  exists g' pre' post', taiko_pass S process flags g = (Some g', g') /\ Rt g' pre' post' /\
                        tvals pre post = tval pre' :: tvals pre' post'.
Proof.
  intros [Hf HI] Hh. pose proof HI as (Hp & Hi & _).
  unfold taiko_pass, taiko_total_hits. fold (hits flags).
  replace (tg_idx g =? hits flags) with false
    by (symmetry; apply Z.eqb_neq; rewrite Hf, hits_app; lia).
  replace (zskip (tg_pos g) flags) with post by (rewrite Hp, Hf, zskip_app; reflexivity).
  destruct (loop_some post g pre HI Hf Hh) as (pre' & post' & Hf' & HI' & Hv).
  eexists. exists pre', post'. split; [reflexivity|]. split; [split; assumption|exact Hv].
Qed.

Lemma next_spec_t g pre post : Rt g pre post ->
  match tvals pre post with
  | [] => next g = (None, g)
  | v :: vs => exists g' pre' post', next g = (Some v, g') /\ Rt g' pre' post' /\ tvals pre' post' = vs
                                     /\ tg_idx g' = fst v
  end.
Proof.
  intros HR. pose proof (tvals_length post pre) as L. unfold taiko_next.
  destruct (tvals pre post) as [|v vs] eqn:Ev.
  - change (zlen (@nil (Z * S))) with 0 in L. now rewrite (pass_none g pre post HR ltac:(lia)).
  - assert (Hh : 0 < hits post) by (rewrite <- L; unfold zlen; cbn [length]; lia).
    destruct (pass_some g pre post HR Hh) as (g' & pre' & post' & -> & HR' & Hv).
    rewrite Ev in Hv. injection Hv as -> ->.
    exists g', pre', post'. destruct HR' as [Hf' HI']. pose proof HI' as (_ & Hi' & Hc' & Hs').
    split; [unfold tval; now rewrite Hc', Hs'|]. split; [split; assumption|]. split; [reflexivity|exact Hi'].
Qed.

Lemma loop_spec_t : forall (k : nat) g pre post, Rt g pre post ->
  (k <= length (tvals pre post))%nat ->
  exists g' pre' post', taiko_nth_loop S process flags k g = (Some g', g') /\ Rt g' pre' post' /\
                        tvals pre' post' = skipn k (tvals pre post).
Proof.
  induction k as [|k IH]; intros g pre post HR Hk.
  - exists g, pre, post. split; [reflexivity|]. split; [exact HR|reflexivity].
  - cbn [taiko_nth_loop].
    pose proof (tvals_length post pre) as L.
    assert (Hh : 0 < hits post) by (rewrite <- L; unfold zlen; lia).
    destruct (pass_some g pre post HR Hh) as (g' & pre' & post' & -> & HR' & Hv).
    rewrite Hv in Hk. cbn [length] in Hk.
    destruct (IH g' _ _ HR' ltac:(lia)) as (g'' & pre'' & post'' & Hl & HR'' & Hsk).
    exists g'', pre'', post''. split; [exact Hl|]. split; [exact HR''|]. rewrite Hv. cbn [skipn]. exact Hsk.
Qed.

Theorem taiko_machine_refines : forall ops g pre post,
  Rt g pre post -> Forall nth_ok ops ->
  run_gops next nth len (fun v => v) ops g = spec_gops (tvals pre post) ops.
Proof.
  induction ops as [|o ops IH]; intros g pre post HR Hops; [reflexivity|].
  inversion Hops as [|? ? Ho Hops']; subst.
  destruct o as [|n|]; cbn [run_gops spec_gops].
  - (* next *)
    pose proof (next_spec_t g pre post HR) as H.
    destruct (tvals pre post) as [|v vs] eqn:Ev.
    + rewrite H. f_equal. rewrite (IH g _ _ HR Hops'), Ev. reflexivity.
    + destruct H as (g' & pre' & post' & -> & HR' & <- & _). f_equal. apply (IH g' _ _ HR' Hops').
  - (* nth *)
    cbn in Ho. unfold taiko_nth at 1. rewrite (len_spec_t g pre post HR), <- tvals_length with (pre := pre).
    set (rem := tvals pre post) in *.
    assert (Hk : (Z.to_nat (Z.min n (zlen rem)) <= length rem)%nat) by (unfold zlen; lia).
    destruct (loop_spec_t _ g pre post HR Hk) as (g1 & pre1 & post1 & -> & HR1 & Hsk).
    pose proof (next_spec_t g1 pre1 post1 HR1) as H. rewrite Hsk in H. fold rem in H. fold rem in Hsk.
    destruct (Z_lt_le_dec n (zlen rem)) as [Hlt|Hge].
    + replace (Z.min n (zlen rem)) with n in * by lia.
      destruct (skipn (Z.to_nat n) rem) as [|v vs] eqn:Es.
      * exfalso. assert (length (skipn (Z.to_nat n) rem) = 0%nat) by now rewrite Es.
        rewrite skipn_length in *. unfold zlen in Hlt. lia.
      * destruct H as (g' & pre' & post' & -> & HR' & <- & _). f_equal. apply (IH g' _ _ HR' Hops').
    + replace (Z.min n (zlen rem)) with (zlen rem) in * by lia.
      unfold zlen in H. rewrite Nat2Z.id, skipn_all in H. rewrite H.
      rewrite skipn_all2 by (unfold zlen in Hge; lia).
      unfold zlen in Hsk. rewrite Nat2Z.id, skipn_all in Hsk.
      f_equal. rewrite (IH g1 _ _ HR1 Hops'), Hsk. reflexivity.
  - (* len *)
    rewrite (len_spec_t g pre post HR), <- tvals_length with (pre := pre). f_equal.
    apply (IH g pre post HR Hops').
Qed.

(* one call of nth from any reachable state *)
Lemma nth_spec_t g pre post n : Rt g pre post -> 0 <= n ->
  match skipn (Z.to_nat n) (tvals pre post) with
  | v :: vs => exists g' pre' post', nth n g = (Some v, g') /\ Rt g' pre' post' /\ tvals pre' post' = vs
                                     /\ tg_idx g' = fst v
  | [] => exists g' pre' post', nth n g = (None, g') /\ Rt g' pre' post' /\ tvals pre' post' = []
  end.
Proof.
  intros HR Hn. unfold taiko_nth. rewrite (len_spec_t g pre post HR), <- tvals_length with (pre := pre).
  set (rem := tvals pre post) in *.
  assert (Hk : (Z.to_nat (Z.min n (zlen rem)) <= length rem)%nat) by (unfold zlen; lia).
  destruct (loop_spec_t _ g pre post HR Hk) as (g1 & pre1 & post1 & -> & HR1 & Hsk).
  pose proof (next_spec_t g1 pre1 post1 HR1) as H. rewrite Hsk in H. fold rem in H. fold rem in Hsk.
  destruct (Z_lt_le_dec n (zlen rem)) as [Hlt|Hge].
  - replace (Z.min n (zlen rem)) with n in * by lia.
    destruct (skipn (Z.to_nat n) rem) as [|v vs]; [|exact H].
    rewrite H. exists g1, pre1, post1. split; [reflexivity|]. split; [exact HR1|exact Hsk].
  - replace (Z.min n (zlen rem)) with (zlen rem) in * by lia.
    unfold zlen in H, Hsk. rewrite Nat2Z.id, skipn_all in H, Hsk.
    rewrite skipn_all2 by (unfold zlen in Hge; lia).
    rewrite H. exists g1, pre1, post1. split; [reflexivity|]. split; [exact HR1|exact Hsk].
Qed.

(* ---- gradual performance on top of the taiko machine (C03) ----------------------------- *)
Section Perf.
Context {St P : Type}.
Variable perf : Z * S -> Z -> St -> P.

Definition indexed (l : list (Z * S)) : list (Z * (Z * S)) := map (fun v => (fst v, v)) l.
Lemma indexed_skipn k l : skipn k (indexed l) = indexed (skipn k l).
Proof. unfold indexed. now rewrite skipn_map. Qed.
Lemma indexed_len l : zlen (indexed l) = zlen l.
Proof. unfold indexed, zlen. now rewrite map_length. Qed.

Theorem taiko_gperf_machine_refines : forall (ops : list (pop St)) g pre post,
  Rt g pre post -> Forall (fun o => match o with PNth _ n => 0 <= n | _ => True end) ops ->
  run_pops nth len (@tg_idx S) perf ops g = spec_pops perf (indexed (tvals pre post)) ops.
Proof.
  assert (Hmax : 0 <= USIZE_MAX) by (unfold USIZE_MAX; lia).
  induction ops as [|o ops IH]; intros g pre post HR Hops; [reflexivity|].
  inversion Hops as [|? ? Ho Hops']; subst.
  assert (Hstep : forall s n, 0 <= n ->
    (let '(o, g') := gp_nth nth len (@tg_idx S) perf s n g in
     (match o with Some v => GSome v | None => GNone end) :: run_pops nth len (@tg_idx S) perf ops g')
    = (let '(o, r) := spec_pnth perf s n (indexed (tvals pre post)) in o :: spec_pops perf r ops)).
  { intros s n Hn. unfold gp_nth, spec_pnth.
    rewrite (len_spec_t g pre post HR), indexed_len, tvals_length, indexed_skipn.
    set (n' := Z.min n (sat_sub (hits post) 1)).
    assert (Hn' : 0 <= n') by (unfold n'; pose proof (sat_sub_nonneg (hits post) 1); lia).
    pose proof (nth_spec_t g pre post n' HR Hn') as H.
    destruct (skipn (Z.to_nat n') (tvals pre post)) as [|v vs].
    - destruct H as (g' & pre' & post' & -> & HR' & Hnil). cbn [indexed map].
      f_equal. rewrite (IH g' pre' post' HR' Hops'), Hnil. reflexivity.
    - destruct H as (g' & pre' & post' & -> & HR' & Hvs & Hidx). cbn [indexed map fst].
      rewrite Hidx. f_equal. rewrite (IH g' pre' post' HR' Hops'), Hvs. reflexivity. }
  destruct o as [s|s n|s|]; cbn [run_pops spec_pops].
  - unfold gp_next. apply Hstep. lia.
  - apply Hstep. exact Ho.
  - unfold gp_last. apply Hstep. exact Hmax.
  - rewrite (len_spec_t g pre post HR), indexed_len, tvals_length. f_equal. apply (IH g pre post HR Hops').
Qed.
End Perf.

(* ---- the values are the one-shot results ------------------------------------------------ *)
Lemma inspect_prefix : forall p rest take combo n,
  combo + hits p < take ->
  taiko_inspect (p ++ rest) take combo n = taiko_inspect rest take (combo + hits p) (n + zlen p).
Proof.
  induction p as [|h p IH]; intros rest take combo n H.
  - cbn [app]. change (hits []) with 0. change (zlen (@nil bool)) with 0. now rewrite !Z.add_0_r.
  - cbn [app taiko_inspect].
    assert (Hh : hits (h :: p) = (if h then 1 else 0) + hits p).
    { change (h :: p) with ([h] ++ p). rewrite hits_app. destruct h; reflexivity. }
    pose proof (hits_nonneg p). rewrite Hh in H.
    replace (combo <? take) with true by (symmetry; apply Z.ltb_lt; destruct h; lia).
    rewrite IH by lia. f_equal; [rewrite Hh; lia|unfold zlen; cbn [length]; lia].
Qed.

Lemma inspect_done : forall l take combo n, take <= combo -> taiko_inspect l take combo n = (combo, n).
Proof.
  induction l as [|h l IH]; intros take combo n H; [reflexivity|]. cbn [taiko_inspect].
  replace (combo <? take) with false by (symmetry; apply Z.ltb_ge; lia). now apply IH.
Qed.

Lemma taiko_total_hits_eq l : taiko_total_hits l = hits l.
Proof. reflexivity. Qed.

(* a hit that is not the last one: take = hits so far, below the total, so `take` is used as is *)
Lemma oneshot_tval p post : flags = (p ++ [true]) ++ post -> 0 < hits post ->
  taiko_oneshot S process s0 flags (hits p + 1) = tval (p ++ [true]).
Proof.
  intros Hf Hpost. unfold taiko_oneshot, taiko_create.
  assert (Htot : hits flags = hits p + 1 + hits post).
  { rewrite Hf, !hits_app. change (hits [true]) with 1. lia. }
  assert (Etake : taiko_take flags (hits p + 1) = hits p + 1).
  { unfold taiko_take. rewrite taiko_total_hits_eq.
    replace (hits flags <=? hits p + 1) with false by (symmetry; apply Z.leb_gt; lia).
    now rewrite andb_false_r. }
  rewrite Etake. rewrite Hf at 1. rewrite <- app_assoc.
  pose proof (hits_nonneg p) as Hh. pose proof (zlen_nonneg p) as Hz.
  rewrite inspect_prefix by lia. cbn [app taiko_inspect].
  replace (0 + hits p <? hits p + 1) with true by (symmetry; apply Z.ltb_lt; lia).
  rewrite inspect_done by lia.
  assert (Hlen : zlen flags = zlen p + 1 + zlen post) by (rewrite Hf, !zlen_app; reflexivity).
  pose proof (zlen_nonneg post) as Hzp.
  unfold tval. rewrite hits_app, zlen_app. change (hits [true]) with 1. change (zlen [true]) with 1.
  unfold taiko_n_diff_objects.
  assert (SS : forall a b, sat_sub a b = Z.max 0 (a - b)).
  { intros a b. unfold sat_sub. destruct (Z.ltb_spec a b); lia. }
  destruct (zlen flags <? 2) eqn:E.
  - apply Z.ltb_lt in E. cbn [fst snd]. apply f_equal2; [lia|]. apply f_equal. rewrite !SS. lia.
  - apply Z.ltb_ge in E.
    replace ((0 <? hits p + 1) && (0 <? 0 + zlen p + 1)) with true
      by (symmetry; apply andb_true_iff; split; apply Z.ltb_lt; lia).
    cbn [fst snd]. apply f_equal2; [lia|]. apply f_equal. rewrite !SS. lia.
Qed.

(* the last hit: take = total hits becomes u32::MAX and every object is passed *)
Lemma oneshot_tval_last : 0 < hits flags ->
  taiko_oneshot S process s0 flags (hits flags) = tval flags.
Proof.
  intros Hpos. unfold taiko_oneshot, taiko_create.
  assert (Etake : taiko_take flags (hits flags) = U32_MAX).
  { unfold taiko_take. rewrite taiko_total_hits_eq.
    replace (0 <? hits flags) with true by (symmetry; apply Z.ltb_lt; lia).
    replace (hits flags <=? hits flags) with true by (symmetry; apply Z.leb_le; lia). reflexivity. }
  rewrite Etake. pose proof (hits_le_len flags) as Hle. pose proof (zlen_nonneg flags) as Hz.
  assert (Hi : taiko_inspect flags U32_MAX 0 0 = (hits flags, zlen flags)).
  { pose proof (inspect_prefix flags [] U32_MAX 0 0 ltac:(unfold U32_MAX; lia)) as H.
    rewrite app_nil_r in H. rewrite H. cbn [taiko_inspect]. f_equal; lia. }
  rewrite Hi. unfold tval, taiko_n_diff_objects.
  assert (SS : forall a b, sat_sub a b = Z.max 0 (a - b)).
  { intros a b. unfold sat_sub. destruct (Z.ltb_spec a b); lia. }
  destruct (zlen flags <? 2) eqn:E.
  - apply Z.ltb_lt in E. cbn [fst snd]. apply f_equal2; [reflexivity|]. apply f_equal. rewrite !SS. lia.
  - apply Z.ltb_ge in E.
    replace ((0 <? U32_MAX) && (0 <? zlen flags)) with true
      by (symmetry; apply andb_true_iff; split; apply Z.ltb_lt; unfold U32_MAX; lia).
    cbn [fst snd]. apply f_equal2; [reflexivity|]. apply f_equal. rewrite !SS. lia.
Qed.

Lemma tvals_oneshots : forall post pre, flags = pre ++ post ->
  tvals pre post = map (taiko_oneshot S process s0 flags) (zrange (hits pre + 1) (Z.to_nat (hits post))).
Proof.
  induction post as [|h tl IH]; intros pre Hf; [reflexivity|].
  cbn [tvals]. assert (Hf' : flags = (pre ++ [h]) ++ tl) by (rewrite <- app_assoc; exact Hf).
  rewrite (IH _ Hf'). rewrite hits_app, (hits_cons h tl).
  pose proof (hits_nonneg tl). destruct h.
  - change (hits [true]) with 1.
    replace (Z.to_nat (1 + hits tl)) with (Datatypes.S (Z.to_nat (hits tl))) by lia.
    cbn [zrange map app]. f_equal. symmetry.
    destruct (hits tl =? 0) eqn:E.
    + apply Z.eqb_eq in E. rewrite <- Hf.
      assert (Htot : hits flags = hits pre + 1) by (rewrite Hf, hits_app, hits_cons; lia).
      rewrite <- Htot. apply oneshot_tval_last. pose proof (hits_nonneg pre). lia.
    + apply Z.eqb_neq in E. apply (oneshot_tval pre tl Hf'). lia.
  - change (hits [false]) with 0. cbn [app].
    replace (hits pre + 0 + 1) with (hits pre + 1) by lia.
    replace (0 + hits tl) with (hits tl) by lia. reflexivity.
Qed.

(* a fresh calculator: every op sequence sees the list of one-shot values 1..hits *)
Theorem taiko_gradual_refines ops : Forall nth_ok ops ->
  run_gops next nth len (fun v => v) ops (taiko_new S s0)
  = spec_gops (oneshots (taiko_oneshot S process s0 flags) (taiko_total_hits flags)) ops.
Proof.
  intros Hops. rewrite (taiko_machine_refines ops _ [] flags Rt_new Hops).
  f_equal. rewrite (tvals_oneshots flags [] eq_refl). reflexivity.
Qed.

Theorem taiko_gperf_refines {St P : Type} (perf : Z * S -> Z -> St -> P) ops :
  Forall (fun o => match o with PNth _ n => 0 <= n | _ => True end) ops ->
  run_pops nth len (@tg_idx S) perf ops (taiko_new S s0)
  = spec_pops perf (indexed (map (taiko_oneshot S process s0 flags) (zrange 1 (Z.to_nat (taiko_total_hits flags))))) ops.
Proof.
  intros Hops. rewrite (taiko_gperf_machine_refines perf ops _ [] flags Rt_new Hops).
  f_equal. f_equal. rewrite (tvals_oneshots flags [] eq_refl). reflexivity.
Qed.
End Taiko.
