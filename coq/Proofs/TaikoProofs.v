(* Proofs/TaikoProofs.v — the taiko gradual calculator (after the fix 8d6162b) refines a plain
   iterator over the one-shot values [one-shot(1); ...; one-shot(hits)], for every flag list
   (which objects are hits), every skill oracle and every sequence of next / nth(k) / len. *)
From Coq Require Import ZArith List Bool Lia.
From V Require Import F64 Gradual GradualProofs GradPerf.
Import ListNotations.
Open Scope Z_scope.

Local Arguments Z.add : simpl never.
Local Arguments Z.sub : simpl never.
Local Arguments Z.ltb : simpl never.
Local Arguments Z.leb : simpl never.
Local Arguments Z.min : simpl never.
Local Arguments Z.to_nat : simpl never.
Local Arguments Z.of_nat : simpl never.

Section Taiko.
Variable S : Type.
Variable process : S -> Z -> S.
Variable s0 : S.

Notation tg := (tgstate S).
Notation pr := (process_range S process s0 0).

Definition hits (l : list bool) : Z := zlen (filter (fun b => b) l).
Lemma hits_app a b : hits (a ++ b) = hits a + hits b.
Proof. unfold hits, zlen. rewrite filter_app, app_length. lia. Qed.
Lemma hits_nonneg l : 0 <= hits l.
Proof. unfold hits, zlen. lia. Qed.
Lemma zlen_app {A} (a b : list A) : zlen (a ++ b) = zlen a + zlen b.
Proof. unfold zlen. rewrite app_length. lia. Qed.

(* the value after the objects [pre] have been passed *)
Definition tval (pre : list bool) : Z * S := (hits pre, pr (sat_sub (zlen pre) 2)).

(* invariant: [pre] are the objects passed so far *)
Definition I (g : tg) (pre : list bool) : Prop :=
  tg_pos g = zlen pre /\ tg_idx g = hits pre /\ tg_combo g = hits pre /\
  tg_skill g = pr (sat_sub (zlen pre) 2).

(* values still to come *)
Fixpoint tvals (pre post : list bool) : list (Z * S) :=
  match post with
  | [] => []
  | h :: tl => (if h then [tval (pre ++ [h])] else []) ++ tvals (pre ++ [h]) tl
  end.

Lemma tvals_length : forall post pre, zlen (tvals pre post) = hits post.
Proof.
  induction post as [|h tl IH]; intros pre; [reflexivity|].
  cbn [tvals]. rewrite zlen_app, IH. unfold hits. destruct h; cbn; unfold zlen; cbn [length]; lia.
Qed.

(* one object passed: the invariant moves on *)
Lemma step_I (g : tg) pre (h : bool) :
  I g pre ->
  I (mk_tg (tg_idx g + (if h then 1 else 0)) (tg_combo g + (if h then 1 else 0)) (tg_pos g + 1)
           (if 2 <=? tg_pos g then process (tg_skill g) (tg_pos g - 2) else tg_skill g))
    (pre ++ [h]).
Proof.
  intros (Hp & Hi & Hc & Hs). unfold I. cbn [tg_pos tg_idx tg_combo tg_skill].
  rewrite zlen_app, hits_app. change (zlen [h]) with 1.
  assert (Hh : hits [h] = if h then 1 else 0) by (destruct h; reflexivity).
  rewrite Hh. repeat split; try lia.
  pose proof (zlen_nonneg pre) as Hn.
  destruct (2 <=? tg_pos g) eqn:E.
  - apply Z.leb_le in E. rewrite Hs, Hp.
    rewrite (sat_sub_pos (zlen pre + 1) 2) by lia. rewrite (sat_sub_pos (zlen pre) 2) by lia.
    replace (zlen pre + 1 - 2) with (zlen pre - 2 + 1) by lia.
    rewrite process_range_succ by lia. f_equal; lia.
  - apply Z.leb_gt in E. rewrite Hs.
    rewrite (sat_sub_zero (zlen pre + 1) 2) by lia. rewrite (sat_sub_zero (zlen pre) 2) by lia. reflexivity.
Qed.

(* pass_next_hit: lands right after the next hit, or runs out *)
Lemma pass_spec : forall post (g : tg) pre,
  I g pre ->
  match tvals pre post with
  | [] => exists g', taiko_pass S process post g = (None, g') /\ I g' (pre ++ post)
  | v :: _ => exists g' nh tl,
      post = nh ++ true :: tl /\ taiko_pass S process post g = (Some g', g') /\
      I g' (pre ++ nh ++ [true]) /\ v = tval (pre ++ nh ++ [true]) /\
      tvals pre post = v :: tvals (pre ++ nh ++ [true]) tl
  end.
Proof.
  induction post as [|h tl IH]; intros g pre HI.
  - cbn. exists g. rewrite app_nil_r. split; [reflexivity|exact HI].
  - cbn [tvals taiko_pass]. pose proof (step_I g pre h HI) as HI'. destruct h.
    + eexists. exists [], tl. cbn [app].
      split; [reflexivity|]. split; [reflexivity|]. split; [exact HI'|]. split; reflexivity.
    + cbn [app]. replace (tg_idx g + 0) with (tg_idx g) in HI' by lia.
      replace (tg_combo g + 0) with (tg_combo g) in HI' by lia.
      specialize (IH _ (pre ++ [false]) HI').
      destruct (tvals (pre ++ [false]) tl) as [|v vs] eqn:Ev.
      * destruct IH as (g' & Hg' & HIg'). exists g'. rewrite <- app_assoc in HIg'. split; assumption.
      * destruct IH as (g' & nh & tl' & -> & Hg' & HIg' & Hv & Hvs).
        exists g', (false :: nh), tl'. rewrite <- !app_assoc in *. cbn [app] in *.
        split; [reflexivity|]. split; [exact Hg'|]. split; [exact HIg'|]. split; [exact Hv|exact Hvs].
Qed.

Variable flags : list bool.
Hypothesis Hsmall : zlen flags < 18446744073709551616.       (* a Vec has fewer than 2^64 elements *)
Notation next := (taiko_next S process flags).
Notation nth := (taiko_nth S process flags).
Notation len := (taiko_len S flags).

(* state relation: [pre] passed, [post] to come *)
Definition Rt (g : tg) (pre post : list bool) : Prop := flags = pre ++ post /\ I g pre.

Lemma zskip_app {A} (a b : list A) : zskip (zlen a) (a ++ b) = b.
Proof.
  unfold zskip, zlen. rewrite Nat2Z.id. induction a as [|x a IH]; [reflexivity|exact IH].
Qed.

Lemma hits_le_len l : hits l <= zlen l.
Proof.
  unfold hits, zlen. induction l as [|h l IH]; [cbn; lia|]. cbn [filter]. destruct h; cbn [length]; lia.
Qed.

Lemma len_spec_t g pre post : Rt g pre post -> len g = hits post.
Proof.
  intros [Hf (Hp & Hi & _)]. unfold taiko_len, taiko_total_hits. fold (hits flags).
  rewrite Hf, hits_app, Hi. unfold wrap64. pose proof (hits_nonneg post).
  pose proof (hits_le_len post). pose proof (zlen_nonneg pre).
  assert (zlen post <= zlen flags) by (rewrite Hf, zlen_app; lia).
  rewrite Z.mod_small by lia. lia.
Qed.

Lemma Rt_new : Rt (taiko_new S s0) [] flags.
Proof. split; [reflexivity|]. unfold I, taiko_new; cbn. repeat split. Qed.

Lemma next_spec_t g pre post : Rt g pre post ->
  match tvals pre post with
  | [] => exists g', next g = (None, g') /\ Rt g' (pre ++ post) []
  | v :: vs => exists g' pre' post', next g = (Some v, g') /\ Rt g' pre' post' /\ tvals pre' post' = vs
                                     /\ tg_idx g' = fst v
  end.
Proof.
  intros [Hf HI]. pose proof HI as (Hp & _). unfold taiko_next. rewrite Hp, Hf, zskip_app.
  pose proof (pass_spec post g pre HI) as H.
  destruct (tvals pre post) as [|v vs].
  - destruct H as (g' & -> & HI'). exists g'. split; [reflexivity|]. split; [now rewrite app_nil_r|exact HI'].
  - destruct H as (g' & nh & tl & -> & -> & HI' & -> & Hvs).
    exists g', (pre ++ nh ++ [true]), tl. split.
    + destruct HI' as (_ & _ & Hc & Hs). unfold tval. now rewrite Hc, Hs.
    + split; [split; [now rewrite <- !app_assoc|exact HI']|]. split; [now injection Hvs|].
      destruct HI' as (_ & Hi' & _). exact Hi'.
Qed.

Lemma loop_spec_t : forall (k : nat) g pre post, Rt g pre post ->
  (k <= length (tvals pre post))%nat ->
  exists g' pre' post', taiko_nth_loop S process flags k g = (Some g', g') /\ Rt g' pre' post' /\
                        tvals pre' post' = skipn k (tvals pre post).
Proof.
  induction k as [|k IH]; intros g pre post HR Hk.
  - exists g, pre, post. split; [reflexivity|]. split; [exact HR|reflexivity].
  - cbn [taiko_nth_loop]. pose proof HR as [Hf HI]. pose proof HI as (Hp & _).
    replace (zskip (tg_pos g) flags) with post by (rewrite Hp, Hf, zskip_app; reflexivity).
    pose proof (pass_spec post g pre HI) as H.
    destruct (tvals pre post) as [|v vs] eqn:Ev; [cbn in Hk; lia|].
    destruct H as (g' & nh & tl & Hpost & -> & HI' & _ & Hvs).
    assert (HR' : Rt g' (pre ++ nh ++ [true]) tl) by (split; [rewrite Hf, Hpost, <- !app_assoc; reflexivity|exact HI']).
    injection Hvs as Hvs. cbn [length] in Hk.
    destruct (IH g' _ _ HR' ltac:(rewrite <- Hvs; lia)) as (g'' & pre'' & post'' & Hl & HR'' & Hsk).
    exists g'', pre'', post''. split; [exact Hl|]. split; [exact HR''|]. cbn [skipn]. now rewrite Hvs.
Qed.

Lemma tvals_nil_next g pre post : Rt g pre post -> tvals pre post = [] -> exists g', next g = (None, g') /\ Rt g' (pre ++ post) [].
Proof. intros HR E. pose proof (next_spec_t g pre post HR) as H. now rewrite E in H. Qed.

Theorem taiko_machine_refines : forall ops g pre post,
  Rt g pre post -> Forall nth_ok ops ->
  run_gops next nth len (fun v => v) ops g = spec_gops (tvals pre post) ops.
Proof.
  induction ops as [|o ops IH]; intros g pre post HR Hops; [reflexivity|].
  inversion Hops as [|? ? Ho Hops']; subst.
  destruct o as [|n|]; cbn [run_gops spec_gops].
  - (* next *)
    pose proof (next_spec_t g pre post HR) as H.
    destruct (tvals pre post) as [|v vs] eqn:Ev.
    + destruct H as (g' & -> & HR'). f_equal. rewrite (IH g' _ _ HR' Hops'). reflexivity.
    + destruct H as (g' & pre' & post' & -> & HR' & <- & _). f_equal. apply (IH g' _ _ HR' Hops').
  - (* nth *)
    cbn in Ho. unfold taiko_nth at 1. rewrite (len_spec_t g pre post HR), <- tvals_length with (pre := pre).
    set (rem := tvals pre post) in *.
    assert (Hk : (Z.to_nat (Z.min n (zlen rem)) <= length rem)%nat) by (unfold zlen; lia).
    destruct (loop_spec_t _ g pre post HR Hk) as (g1 & pre1 & post1 & -> & HR1 & Hsk).
    pose proof (next_spec_t g1 pre1 post1 HR1) as H. rewrite Hsk in H. fold rem in H.
    destruct (Z_lt_le_dec n (zlen rem)) as [Hlt|Hge].
    + replace (Z.min n (zlen rem)) with n in * by lia.
      destruct (skipn (Z.to_nat n) rem) as [|v vs] eqn:Es.
      * exfalso. assert (length (skipn (Z.to_nat n) rem) = 0%nat) by now rewrite Es.
        rewrite skipn_length in *. unfold zlen in Hlt. lia.
      * destruct H as (g' & pre' & post' & -> & HR' & <- & _). f_equal. apply (IH g' _ _ HR' Hops').
    + replace (Z.min n (zlen rem)) with (zlen rem) in * by lia.
      unfold zlen in H. rewrite Nat2Z.id, skipn_all in H.
      destruct H as (g' & -> & HR').
      rewrite skipn_all2 by (unfold zlen in Hge; lia).
      f_equal. rewrite (IH g' _ _ HR' Hops'). reflexivity.
  - (* len *)
    rewrite (len_spec_t g pre post HR), <- tvals_length with (pre := pre). f_equal.
    apply (IH g pre post HR Hops').
Qed.

(* one call of nth from any reachable state *)
Lemma nth_spec_t g pre post n : Rt g pre post -> 0 <= n ->
  match skipn (Z.to_nat n) (tvals pre post) with
  | v :: vs => exists g' pre' post', nth n g = (Some v, g') /\ Rt g' pre' post' /\ tvals pre' post' = vs
                                     /\ tg_idx g' = fst v
  | [] => exists g' pre' post', nth n g = (None, g') /\ Rt g' pre' post' /\ tvals pre' post' = []
  end.
Proof.
  intros HR Hn. unfold taiko_nth. rewrite (len_spec_t g pre post HR), <- tvals_length with (pre := pre).
  set (rem := tvals pre post) in *.
  assert (Hk : (Z.to_nat (Z.min n (zlen rem)) <= length rem)%nat) by (unfold zlen; lia).
  destruct (loop_spec_t _ g pre post HR Hk) as (g1 & pre1 & post1 & -> & HR1 & Hsk).
  pose proof (next_spec_t g1 pre1 post1 HR1) as H. rewrite Hsk in H. fold rem in H.
  destruct (Z_lt_le_dec n (zlen rem)) as [Hlt|Hge].
  - replace (Z.min n (zlen rem)) with n in * by lia.
    destruct (skipn (Z.to_nat n) rem) as [|v vs]; [|exact H].
    destruct H as (g' & -> & HR'). exists g', (pre1 ++ post1), []. split; [reflexivity|]. split; [exact HR'|reflexivity].
  - replace (Z.min n (zlen rem)) with (zlen rem) in * by lia.
    unfold zlen in H. rewrite Nat2Z.id, skipn_all in H.
    rewrite skipn_all2 by (unfold zlen in Hge; lia).
    destruct H as (g' & -> & HR'). exists g', (pre1 ++ post1), []. split; [reflexivity|]. split; [exact HR'|reflexivity].
Qed.

(* ---- gradual performance on top of the taiko machine (C03) ----------------------------- *)
Section Perf.
Context {St P : Type}.
Variable perf : Z * S -> Z -> St -> P.

Definition indexed (l : list (Z * S)) : list (Z * (Z * S)) := map (fun v => (fst v, v)) l.
Lemma indexed_skipn k l : skipn k (indexed l) = indexed (skipn k l).
Proof. unfold indexed. now rewrite skipn_map. Qed.
Lemma indexed_len l : zlen (indexed l) = zlen l.
Proof. unfold indexed, zlen. now rewrite map_length. Qed.

Theorem taiko_gperf_machine_refines : forall (ops : list (pop St)) g pre post,
  Rt g pre post -> Forall (fun o => match o with PNth _ n => 0 <= n | _ => True end) ops ->
  run_pops nth len (@tg_idx S) perf ops g = spec_pops perf (indexed (tvals pre post)) ops.
Proof.
  assert (Hmax : 0 <= USIZE_MAX) by (unfold USIZE_MAX; lia).
  induction ops as [|o ops IH]; intros g pre post HR Hops; [reflexivity|].
  inversion Hops as [|? ? Ho Hops']; subst.
  assert (Hstep : forall s n, 0 <= n ->
    (let '(o, g') := gp_nth nth len (@tg_idx S) perf s n g in
     (match o with Some v => GSome v | None => GNone end) :: run_pops nth len (@tg_idx S) perf ops g')
    = (let '(o, r) := spec_pnth perf s n (indexed (tvals pre post)) in o :: spec_pops perf r ops)).
  { intros s n Hn. unfold gp_nth, spec_pnth.
    rewrite (len_spec_t g pre post HR), indexed_len, tvals_length, indexed_skipn.
    set (n' := Z.min n (sat_sub (hits post) 1)).
    assert (Hn' : 0 <= n') by (unfold n'; pose proof (sat_sub_nonneg (hits post) 1); lia).
    pose proof (nth_spec_t g pre post n' HR Hn') as H.
    destruct (skipn (Z.to_nat n') (tvals pre post)) as [|v vs].
    - destruct H as (g' & pre' & post' & -> & HR' & Hnil). cbn [indexed map].
      f_equal. rewrite (IH g' pre' post' HR' Hops'), Hnil. reflexivity.
    - destruct H as (g' & pre' & post' & -> & HR' & Hvs & Hidx). cbn [indexed map fst].
      rewrite Hidx. f_equal. rewrite (IH g' pre' post' HR' Hops'), Hvs. reflexivity. }
  destruct o as [s|s n|s|]; cbn [run_pops spec_pops].
  - unfold gp_next. apply Hstep. lia.
  - apply Hstep. exact Ho.
  - unfold gp_last. apply Hstep. exact Hmax.
  - rewrite (len_spec_t g pre post HR), indexed_len, tvals_length. f_equal. apply (IH g pre post HR Hops').
Qed.
End Perf.

(* ---- the values are the one-shot results ------------------------------------------------ *)
Lemma inspect_prefix : forall p rest take combo n,
  combo + hits p < take ->
  taiko_inspect (p ++ rest) take combo n = taiko_inspect rest take (combo + hits p) (n + zlen p).
Proof.
  induction p as [|h p IH]; intros rest take combo n H.
  - cbn [app]. change (hits []) with 0. change (zlen (@nil bool)) with 0. now rewrite !Z.add_0_r.
  - cbn [app taiko_inspect].
    assert (Hh : hits (h :: p) = (if h then 1 else 0) + hits p).
    { change (h :: p) with ([h] ++ p). rewrite hits_app. destruct h; reflexivity. }
    pose proof (hits_nonneg p). rewrite Hh in H.
    replace (combo <? take) with true by (symmetry; apply Z.ltb_lt; destruct h; lia).
    rewrite IH by lia. f_equal; [rewrite Hh; lia|unfold zlen; cbn [length]; lia].
Qed.

Lemma inspect_done : forall l take combo n, take <= combo -> taiko_inspect l take combo n = (combo, n).
Proof.
  induction l as [|h l IH]; intros take combo n H; [reflexivity|]. cbn [taiko_inspect].
  replace (combo <? take) with false by (symmetry; apply Z.ltb_ge; lia). now apply IH.
Qed.

Lemma oneshot_tval p post : flags = (p ++ [true]) ++ post ->
  taiko_oneshot S process s0 flags (hits p + 1) = tval (p ++ [true]).
Proof.
  intros Hf. unfold taiko_oneshot, taiko_create. rewrite Hf at 1. rewrite <- app_assoc.
  pose proof (hits_nonneg p) as Hh. pose proof (zlen_nonneg p) as Hz.
  rewrite inspect_prefix by lia. cbn [app taiko_inspect].
  replace (0 + hits p <? hits p + 1) with true by (symmetry; apply Z.ltb_lt; lia).
  rewrite inspect_done by lia.
  assert (Hlen : zlen flags = zlen p + 1 + zlen post) by (rewrite Hf, !zlen_app; reflexivity).
  pose proof (zlen_nonneg post) as Hzp.
  unfold tval. rewrite hits_app, zlen_app. change (hits [true]) with 1. change (zlen [true]) with 1.
  unfold taiko_n_diff_objects.
  assert (SS : forall a b, sat_sub a b = Z.max 0 (a - b)).
  { intros a b. unfold sat_sub. destruct (Z.ltb_spec a b); lia. }
  destruct (zlen flags <? 2) eqn:E.
  - apply Z.ltb_lt in E. cbn [fst snd]. apply f_equal2; [lia|]. apply f_equal. rewrite !SS. lia.
  - apply Z.ltb_ge in E.
    replace ((0 <? hits p + 1) && (0 <? 0 + zlen p + 1)) with true
      by (symmetry; apply andb_true_iff; split; apply Z.ltb_lt; lia).
    cbn [fst snd]. apply f_equal2; [lia|]. apply f_equal. rewrite !SS. lia.
Qed.

Lemma tvals_oneshots : forall post pre, flags = pre ++ post ->
  tvals pre post = map (taiko_oneshot S process s0 flags) (zrange (hits pre + 1) (Z.to_nat (hits post))).
Proof.
  induction post as [|h tl IH]; intros pre Hf; [reflexivity|].
  cbn [tvals]. assert (Hf' : flags = (pre ++ [h]) ++ tl) by (rewrite <- app_assoc; exact Hf).
  rewrite (IH _ Hf'). rewrite hits_app.
  assert (Hh : hits (h :: tl) = (if h then 1 else 0) + hits tl).
  { change (h :: tl) with ([h] ++ tl). rewrite hits_app. destruct h; reflexivity. }
  pose proof (hits_nonneg tl). rewrite Hh. destruct h.
  - change (hits [true]) with 1.
    replace (Z.to_nat (1 + hits tl)) with (Datatypes.S (Z.to_nat (hits tl))) by lia.
    cbn [zrange map app]. f_equal. symmetry. now apply (oneshot_tval pre tl).
  - change (hits [false]) with 0. cbn [app].
    replace (hits pre + 0 + 1) with (hits pre + 1) by lia.
    replace (0 + hits tl) with (hits tl) by lia. reflexivity.
Qed.

(* a fresh calculator: every op sequence sees the list of one-shot values 1..hits *)
Theorem taiko_gradual_refines ops : Forall nth_ok ops ->
  run_gops next nth len (fun v => v) ops (taiko_new S s0)
  = spec_gops (oneshots (taiko_oneshot S process s0 flags) (taiko_total_hits flags)) ops.
Proof.
  intros Hops. rewrite (taiko_machine_refines ops _ [] flags Rt_new Hops).
  f_equal. rewrite (tvals_oneshots flags [] eq_refl). reflexivity.
Qed.

Theorem taiko_gperf_refines {St P : Type} (perf : Z * S -> Z -> St -> P) ops :
  Forall (fun o => match o with PNth _ n => 0 <= n | _ => True end) ops ->
  run_pops nth len (@tg_idx S) perf ops (taiko_new S s0)
  = spec_pops perf (indexed (map (taiko_oneshot S process s0 flags) (zrange 1 (Z.to_nat (taiko_total_hits flags))))) ops.
Proof.
  intros Hops. rewrite (taiko_gperf_machine_refines perf ops _ [] flags Rt_new Hops).
  f_equal. f_equal. rewrite (tvals_oneshots flags [] eq_refl). reflexivity.
Qed.
End Taiko.
