(* Proofs/ScoreConvProofs.v — a mode state survives the trip through the mode-agnostic ScoreState
   unchanged, for every state; so handing a generated state to `Performance::state` evaluates the
   state the mode's own builder would evaluate. *)
From Coq Require Import String List Bool ZArith.
From V Require Import Tables ScoreConv.
Import ListNotations.
Open Scope string_scope.

(* generic: if the boolean check holds for field f, the composed conversion is the identity on f *)
Lemma roundtrip_field_sound to_mode from_mode f (s : sstate) :
  roundtrip_field to_mode from_mode f = true ->
  conv to_mode (conv from_mode s) f = s f.
Proof.
  unfold roundtrip_field, conv. destruct (assoc f to_mode) as [g|]; [|discriminate].
  intros H. apply andb_true_iff in H. destruct H as [Hg H].
  apply andb_true_iff in Hg. destruct Hg as [Hg Hf0].
  apply negb_true_iff in Hg. apply negb_true_iff in Hf0. rewrite Hg.
  destruct (assoc g from_mode) as [f'|]; [|discriminate].
  apply String.eqb_eq in H. subst f'. rewrite Hf0. reflexivity.
Qed.

Theorem score_state_roundtrip mode to_mode from_mode :
  table_of "ScoreState" mode = Some to_mode -> table_of mode "ScoreState" = Some from_mode ->
  roundtrip_ok mode = true ->
  forall (s : sstate) f, In f (fields_of to_mode) -> conv to_mode (conv from_mode s) f = s f.
Proof.
  intros Ht Hf Hok s f Hin. unfold roundtrip_ok in Hok. rewrite Ht, Hf in Hok.
  apply andb_true_iff in Hok. destruct Hok as [Hok _].
  apply andb_true_iff in Hok. destruct Hok as [_ Hall].
  rewrite forallb_forall in Hall. apply roundtrip_field_sound, Hall, Hin.
Qed.

(* the check on the tables of the current source, all four modes *)
Theorem tables_score_roundtrip : forallb roundtrip_ok mode_states = true.
Proof. vm_compute. reflexivity. Qed.

(* non-vacuity: the osu table has 8 fields, small_tick_hits among them *)
Example osu_table_has_small_ticks :
  match table_of "ScoreState" "OsuScoreState" with
  | Some t => (length t =? 8)%nat && existsb (String.eqb "small_tick_hits") (fields_of t)
  | None => false
  end = true.
Proof. vm_compute. reflexivity. Qed.
