(* Proofs/WSumProofs.v - `difficulty_value`'s decay-weighted sum in binary64: finite non-negative peaks give a finite,
   non-negative value of at most n * 2^k (monotone rounding against the anchors i * 2^k). *)
From Coq Require Import ZArith Reals Floats Lia Lra List.
From Flocq Require Import Core BinarySingleNaN PrimFloat.
From V Require Import FExact FInt FDy FOps.
From V Require Import F64 StrainsVec Aggregate.
Import ListNotations.
Open Scope R_scope.

Local Instance P53w : Prec_gt_0 53.
Proof. unfold Prec_gt_0. lia. Qed.

Lemma rnd0w : rndNE 0 = 0.
Proof. apply round_0. apply valid_rnd_N. Qed.

Definition wsum_f (decay : PrimFloat.float) (ps : list PrimFloat.float) (acc : PrimFloat.float * PrimFloat.float)
  : PrimFloat.float * PrimFloat.float :=
  fold_left (fun (acc : PrimFloat.float * PrimFloat.float) p =>
               let '(d, w) := acc in ((d + p * w)%float, (w * decay)%float)) ps acc.

Lemma weighted_sum_f : forall decay peaks,
  weighted_sum decay peaks = fst (wsum_f decay (map of_bits peaks) (0%float, 1%float)).
Proof.
  intros decay peaks. unfold weighted_sum, wsum_f. f_equal.
  generalize (0%float, 1%float). induction peaks as [|p l IH]; intros acc; cbn [map fold_left]; [reflexivity|].
  destruct acc as [d w]. apply IH.
Qed.

Section WS.
Variables (k : Z) (decay : PrimFloat.float).
Hypothesis Hk : (0 <= k <= 900)%Z.
Hypothesis Fdec : fin decay.
Hypothesis Rdec : 0 <= RV decay <= 1.

Definition peak_ok (p : PrimFloat.float) : Prop := fin p /\ 0 <= RV p <= bpow radix2 k.

(* invariant after i peaks: the sum is finite, non-negative and at most i * 2^k; the weight is in [0, 1] *)
Definition WInv (i : Z) (acc : PrimFloat.float * PrimFloat.float) : Prop :=
  fin (fst acc) /\ 0 <= RV (fst acc) <= IZR i * bpow radix2 k
  /\ fin (snd acc) /\ 0 <= RV (snd acc) <= 1.

Lemma BF_of_bound : forall x (i : Z), (0 <= i < 2 ^ 52)%Z -> fin x -> 0 <= RV x <= IZR i * bpow radix2 k -> BF (k + 53) x.
Proof.
  intros x i Hi Fx Rx. split; [exact Fx|]. rewrite Rabs_pos_eq by lra.
  apply Rle_trans with (IZR i * bpow radix2 k); [lra|].
  rewrite Z.add_comm, bpow_plus. apply Rmult_le_compat_r; [apply bpow_ge_0|].
  change (bpow radix2 53) with (IZR (2 ^ 53)). apply IZR_le.
  change (2 ^ 52)%Z with 4503599627370496%Z in Hi. change (2 ^ 53)%Z with 9007199254740992%Z. lia.
Qed.

Lemma wstep : forall i acc p, (0 <= i < 2 ^ 52 - 1)%Z -> WInv i acc -> peak_ok p ->
  WInv (i + 1) (let '(d, w) := acc in ((d + p * w)%float, (w * decay)%float)).
Proof.
  intros i [d w] p Hi [Fd [Rd [Fw Rw]]] [Fp Rp]. cbn [fst snd] in *.
  change (2 ^ 52)%Z with 4503599627370496%Z in Hi.
  assert (Bp : BF k p) by (split; [exact Fp|rewrite Rabs_pos_eq; lra]).
  assert (Bw : BF 0 w) by (split; [exact Fw|rewrite Rabs_pos_eq; simpl; lra]).
  assert (Bdec : BF 0 decay) by (split; [exact Fdec|rewrite Rabs_pos_eq; simpl; lra]).
  destruct (mul_R k 0 p w ltac:(lia) ltac:(lia) ltac:(lia) Bp Bw) as [Bt Et].
  (* the term p * w is in [0, 2^k] *)
  assert (Rt : 0 <= RV (p * w)%float <= bpow radix2 k).
  { rewrite Et. split.
    - rewrite <- rnd0w. apply rnd_mono. apply Rmult_le_pos; lra.
    - apply (round_le_generic radix2 fexp64 ZnearestE); [apply generic_format_bpow; unfold FLT_exp; lia|].
      apply Rle_trans with (RV p * 1); [apply Rmult_le_compat_l; lra|lra]. }
  assert (Bd : BF (k + 53) d) by (apply (BF_of_bound d i); [change (2 ^ 52)%Z with 4503599627370496%Z; lia|exact Fd|exact Rd]).
  assert (Bt' : BF (k + 53) (p * w)%float) by (apply (BF_weaken (k + 0)); [lia|exact Bt]).
  destruct (add_R (k + 53) d (p * w)%float ltac:(lia) Bd Bt') as [Bs Es].
  destruct (mul_R 0 0 w decay ltac:(lia) ltac:(lia) ltac:(lia) Bw Bdec) as [Bw' Ew'].
  unfold WInv. cbn [fst snd]. split; [exact (proj1 Bs)|]. split.
  - rewrite Es. split.
    + rewrite <- rnd0w. apply rnd_mono. lra.
    + apply (round_le_generic radix2 fexp64 ZnearestE).
      * apply dy_format; [change (2 ^ 53)%Z with 9007199254740992%Z; lia|lia].
      * rewrite plus_IZR. lra.
  - split; [exact (proj1 Bw')|]. rewrite Ew'. split.
    + rewrite <- rnd0w. apply rnd_mono. apply Rmult_le_pos; lra.
    + replace 1 with (IZR 1) at 2 by reflexivity.
      apply (round_le_generic radix2 fexp64 ZnearestE); [apply int_format; change (2 ^ 53)%Z with 9007199254740992%Z; lia|].
      simpl. apply Rle_trans with (1 * 1); [apply Rmult_le_compat; lra|lra].
Qed.

Lemma wfold : forall ps i acc, (0 <= i)%Z -> (i + Z.of_nat (length ps) < 2 ^ 52)%Z ->
  WInv i acc -> Forall peak_ok ps -> WInv (i + Z.of_nat (length ps)) (wsum_f decay ps acc).
Proof.
  induction ps as [|p ps IH]; intros i acc Hi Hn Hinv Hall; cbn [wsum_f fold_left length].
  - replace (i + Z.of_nat 0)%Z with i by lia. exact Hinv.
  - inversion Hall as [|? ? Hp Hps]; subst.
    replace (i + Z.of_nat (S (length ps)))%Z with ((i + 1) + Z.of_nat (length ps))%Z by lia.
    apply IH; [lia | cbn [length] in Hn; lia | | exact Hps].
    apply wstep; [cbn [length] in Hn; change (2 ^ 52)%Z with 4503599627370496%Z in *; lia | exact Hinv | exact Hp].
Qed.

(* finite, non-negative peaks of at most 2^k give a finite, non-negative difficulty value of at most
   n * 2^k - in binary64, every decay weight in [0, 1] *)
Theorem wsum_f_bound : forall ps, Forall peak_ok ps -> (Z.of_nat (length ps) < 2 ^ 52)%Z ->
  let v := fst (wsum_f decay ps (0%float, 1%float)) in
  fin v /\ 0 <= RV v <= IZR (Z.of_nat (length ps)) * bpow radix2 k.
Proof.
  intros ps Hall Hn.
  assert (H0 : WInv 0 (0%float, 1%float)).
  { destruct zero_int as [F0 R0].
    assert (I1 : IntF 1%float 1) by (change 1%float with (of_Z 1); apply of_Z_int; reflexivity).
    destruct I1 as [F1 R1].
    unfold WInv. cbn [fst snd]. rewrite R0, R1. simpl. repeat split; try assumption; lra. }
  destruct (wfold ps 0 _ ltac:(lia) ltac:(lia) H0 Hall) as [Fv [Rv _]].
  cbv zeta. replace (0 + Z.of_nat (length ps))%Z with (Z.of_nat (length ps)) in Rv by lia.
  split; assumption.
Qed.
End WS.
