(* Proofs/TablesProofs.v — theorems about the models that interpret the generated tables
   (C07, C08, C04).  The `tables_*` lemmas are closed boolean facts about Generated/Tables.v,
   re-evaluated by the kernel whenever the source (hence the generated file) changes; the
   other theorems hold for ANY tables that pass the checks. *)
From Coq Require Import String List Bool ZArith Lia.
From V Require Import Tables Convert ModsRepr AttrsPath PerfConv.
Import ListNotations.

(* ================================ C07 ================================ *)
Lemma mode_eqb_eq a b : mode_eqb a b = true <-> a = b.
Proof. destruct a, b; cbn; split; intros H; try reflexivity; try discriminate. Qed.
Lemma mode_eqb_refl a : mode_eqb a a = true.
Proof. destruct a; reflexivity. Qed.

Lemma cres_eqb_eq a b : cres_eqb a b = true -> a = b.
Proof. destruct a, b; cbn; intros H; try reflexivity; try discriminate. apply mode_eqb_eq in H. now subst. Qed.

Lemma tree_check_spec tree : tree_check tree = true -> forall s c t, tree s c t = spec_tree s c t.
Proof.
  intros H s c t. unfold tree_check in H. rewrite forallb_forall in H.
  assert (Hs : In s all_modes_c) by (destruct s; cbn; tauto). specialize (H s Hs).
  rewrite forallb_forall in H. assert (Hc : In c [false; true]) by (destruct c; cbn; tauto).
  specialize (H c Hc). rewrite forallb_forall in H.
  assert (Ht : In t all_modes_c) by (destruct t; cbn; tauto). specialize (H t Ht).
  now apply cres_eqb_eq.
Qed.

Section C07.
Variable Payload Mods Out : Type.
Variable conv : mode -> Mods -> Payload -> Payload.
Variable body : mode -> string -> Mods -> bmap Payload -> Out.
Variable tree : mode -> bool -> mode -> cres.
Variable flags : list (mode * mode * bool).
Variable entries : list (mode * string * mode * bool * bool).
Hypothesis Htree : tree_check tree = true.
Hypothesis Hflags : flags_check flags = true.
Hypothesis Hentries : entries_check entries = true.

Lemma flags_of_spec m : m <> Osu -> flags_of flags m = Some (m, true).
Proof.
  intros Hm. unfold flags_check in Hflags. rewrite forallb_forall in Hflags.
  assert (Hin : In m [Taiko; Catch; Mania]) by (destruct m; cbn; tauto).
  specialize (Hflags m Hin). unfold flags_of.
  destruct (find _ flags) as [[[a b] c]|]; [|discriminate]. destruct c; [|discriminate].
  apply mode_eqb_eq in Hflags. now subst.
Qed.

(* a conversion entry point whose tree passes the check computes the specification *)
Theorem run_tree_spec (b : bmap Payload) target mods :
  run_tree Payload Mods conv tree flags b target mods = Some (convert_spec Payload Mods conv b target mods).
Proof.
  unfold run_tree, convert_spec. rewrite (tree_check_spec tree Htree). unfold spec_tree.
  destruct (mode_eqb (b_mode b) target) eqn:E1; [reflexivity|].
  destruct (b_conv b); [reflexivity|].
  destruct (negb (mode_eqb (b_mode b) Osu)) eqn:E2; [reflexivity|].
  assert (Hne : target <> Osu).
  { intros ->. apply negb_false_iff in E2. congruence. }
  now rewrite (flags_of_spec target Hne).
Qed.

(* identity on the own mode; only unconverted osu! maps convert; the result is a convert of
   the target mode *)
Theorem convert_spec_facts (b : bmap Payload) target mods :
  (b_mode b = target -> convert_spec Payload Mods conv b target mods = inl b) /\
  (forall b', convert_spec Payload Mods conv b target mods = inl b' -> b' <> b ->
              b_mode b = Osu /\ b_conv b = false /\ b_mode b' = target /\ b_conv b' = true) /\
  (b_mode b <> target -> b_conv b = true -> convert_spec Payload Mods conv b target mods = inr EAlready) /\
  (b_mode b <> target -> b_conv b = false -> b_mode b <> Osu ->
     convert_spec Payload Mods conv b target mods = inr (EConvert (b_mode b) target)).
Proof.
  unfold convert_spec. split; [|split; [|split]].
  - intros ->. now rewrite mode_eqb_refl.
  - intros b1 H Hn.
    destruct (mode_eqb (b_mode b) target) eqn:E1; [injection H as <-; contradiction|].
    destruct (b_conv b); [discriminate|]. destruct (negb (mode_eqb (b_mode b) Osu)) eqn:E2; [discriminate|].
    injection H as <-. cbn. apply negb_false_iff, mode_eqb_eq in E2. auto.
  - intros Hne Hc. destruct (mode_eqb (b_mode b) target) eqn:E1; [apply mode_eqb_eq in E1; contradiction|].
    now rewrite Hc.
  - intros Hne Hc Ho. destruct (mode_eqb (b_mode b) target) eqn:E1; [apply mode_eqb_eq in E1; contradiction|].
    rewrite Hc. destruct (mode_eqb (b_mode b) Osu) eqn:E2; [apply mode_eqb_eq in E2; contradiction|]. reflexivity.
Qed.

Lemma entry_row_spec m kind : In kind ["difficulty"; "strains"; "gradual"]%string ->
  exists r, entry_row entries m kind = Some r /\ r = (m, kind, m, true, true).
Proof.
  intros Hk. unfold entries_check in Hentries. rewrite forallb_forall in Hentries.
  assert (Hm : In m all_modes_c) by (destruct m; cbn; tauto). specialize (Hentries m Hm).
  rewrite forallb_forall in Hentries. specialize (Hentries kind Hk). unfold entry_row.
  destruct (find _ entries) as [[[[[m' k'] t] a] c]|] eqn:E; [|discriminate].
  destruct a; [|discriminate]. destruct c; [|discriminate]. apply mode_eqb_eq in Hentries. subst t.
  apply find_some in E. destruct E as [_ E]. apply andb_true_iff in E. destruct E as [E1 E2].
  apply mode_eqb_eq in E1. apply String.eqb_eq in E2. subst. eexists. split; reflexivity.
Qed.

(* calculating for mode m directly on a map = calculating on the explicitly converted map *)
Theorem direct_equals_explicit (b b' : bmap Payload) m kind mods :
  In kind ["difficulty"; "strains"; "gradual"]%string ->
  convert_spec Payload Mods conv b m mods = inl b' ->
  run_entry Payload Mods conv Out body tree flags entries m kind mods b
  = run_entry Payload Mods conv Out body tree flags entries m kind mods b'.
Proof.
  intros Hk Hc. unfold run_entry. destruct (entry_row_spec m kind Hk) as (r & -> & ->).
  rewrite !run_tree_spec, Hc.
  assert (Hb' : b_mode b' = m).
  { unfold convert_spec in Hc. destruct (mode_eqb (b_mode b) m) eqn:E1.
    - injection Hc as <-. now apply mode_eqb_eq.
    - destruct (b_conv b); [discriminate|]. destruct (negb _); [discriminate|]. now injection Hc as <-. }
  unfold convert_spec. rewrite Hb', mode_eqb_refl. reflexivity.
Qed.

(* a conversion error of the explicit conversion is the error of the direct calculation *)
Theorem direct_error_equals_explicit (b : bmap Payload) m kind mods e :
  In kind ["difficulty"; "strains"; "gradual"]%string ->
  convert_spec Payload Mods conv b m mods = inr e ->
  run_entry Payload Mods conv Out body tree flags entries m kind mods b = Some (inr e).
Proof.
  intros Hk Hc. unfold run_entry. destruct (entry_row_spec m kind Hk) as (r & -> & ->).
  now rewrite run_tree_spec, Hc.
Qed.
End C07.

Lemma tables_convert_ref : tree_check convert_ref_tree = true.
Proof. vm_compute. reflexivity. Qed.
Lemma tables_convert_mut : tree_check convert_mut_tree = true.
Proof. vm_compute. reflexivity. Qed.
Lemma tables_convert_delegates : convert_delegates_to_convert_mut = true.
Proof. vm_compute. reflexivity. Qed.
Lemma tables_convert_flags : flags_check convert_flags = true.
Proof. vm_compute. reflexivity. Qed.
Lemma tables_entries : entries_check entry_points = true.
Proof. vm_compute. reflexivity. Qed.

(* the three entry points agree on the code as it is now (convert delegates to convert_mut) *)
Theorem three_entry_points_agree (Payload Mods : Type) (conv : mode -> Mods -> Payload -> Payload)
    (b : bmap Payload) target mods :
  run_tree Payload Mods conv convert_ref_tree convert_flags b target mods
  = run_tree Payload Mods conv convert_mut_tree convert_flags b target mods
  /\ run_tree Payload Mods conv convert_ref_tree convert_flags b target mods
     = Some (convert_spec Payload Mods conv b target mods)
  /\ convert_delegates_to_convert_mut = true.
Proof.
  rewrite (run_tree_spec Payload Mods conv convert_ref_tree convert_flags tables_convert_ref tables_convert_flags).
  rewrite (run_tree_spec Payload Mods conv convert_mut_tree convert_flags tables_convert_mut tables_convert_flags).
  split; [reflexivity|]. split; [reflexivity|]. exact tables_convert_delegates.
Qed.

Theorem direct_equals_explicit_now (Payload Mods Out : Type) (conv : mode -> Mods -> Payload -> Payload)
    (body : mode -> string -> Mods -> bmap Payload -> Out) (b b' : bmap Payload) m kind mods :
  In kind ["difficulty"; "strains"; "gradual"]%string ->
  convert_spec Payload Mods conv b m mods = inl b' ->
  run_entry Payload Mods conv Out body convert_ref_tree convert_flags entry_points m kind mods b
  = run_entry Payload Mods conv Out body convert_ref_tree convert_flags entry_points m kind mods b'.
Proof.
  exact (direct_equals_explicit Payload Mods Out conv body convert_ref_tree convert_flags entry_points
           tables_convert_ref tables_convert_flags tables_entries b b' m kind mods).
Qed.

(* ================================ C08 ================================ *)
Section C08.
Variable macro : list (string * string).
Variable rows : list (string * bool * string).
Hypothesis Hmacro : macro_check macro = true.
Hypothesis Hrows : has_rows_check rows = true.

Lemma legacy_to_intermode_legacy_name n : In n legacy_names -> legacy_to_intermode n = n.
Proof.
  intros H. cbn in H.
  repeat (destruct H as [<-|H]; [reflexivity|]). contradiction.
Qed.

Lemma mem_s_In n l : mem_s n l = true <-> In n l.
Proof.
  unfold mem_s. rewrite existsb_exists. split.
  - intros (x & Hx & E). apply String.eqb_eq in E. now subst.
  - intros H. exists n. split; [assumption|apply String.eqb_refl].
Qed.

(* every has-mod accessor gives the same answer for the three representations of a
   legacy-representable selection *)
Theorem accessors_agree (s : modset) row :
  legacy_representable s -> In row rows ->
  has_mod macro RLazer row s = Some (s (snd row)) /\
  has_mod macro RIntermode row s = Some (s (snd row)) /\
  has_mod macro RLegacy row s = Some (s (snd row)).
Proof.
  intros Hs Hin. unfold macro_check in Hmacro.
  apply andb_true_iff in Hmacro as [Hm Hm4]. apply andb_true_iff in Hm as [Hm Hm3].
  apply andb_true_iff in Hm as [Hm1 Hm2].
  apply String.eqb_eq in Hm1, Hm2, Hm3, Hm4.
  unfold has_rows_check in Hrows. rewrite forallb_forall in Hrows. specialize (Hrows row Hin).
  destruct row as [[fn is_legacy] name]. cbn [snd] in *. unfold has_mod.
  rewrite Hm1, Hm2, Hm3, Hm4. unfold test_lazer, test_intermode, test_legacy. cbn.
  repeat split.
  apply Bool.eqb_prop in Hrows. destruct is_legacy.
  - symmetry in Hrows. apply mem_s_In in Hrows. now rewrite legacy_to_intermode_legacy_name.
  - destruct (s name) eqn:E; [|reflexivity]. apply Hs in E. apply mem_s_In in E. congruence.
Qed.
End C08.

Lemma tables_has_mod_macro : macro_check has_mod_macro = true.
Proof. vm_compute. reflexivity. Qed.
Lemma tables_has_mod_rows : has_rows_check has_mod_table = true.
Proof. vm_compute. reflexivity. Qed.
Lemma tables_mania_keys : chains_check mania_keys_chains = true.
Proof. vm_compute. reflexivity. Qed.
Lemma tables_map_attr : attr_check map_attr_table = true.
Proof. vm_compute. reflexivity. Qed.

Theorem accessors_agree_now (s : modset) row :
  legacy_representable s -> In row has_mod_table ->
  has_mod has_mod_macro RLazer row s = Some (s (snd row)) /\
  has_mod has_mod_macro RIntermode row s = Some (s (snd row)) /\
  has_mod has_mod_macro RLegacy row s = Some (s (snd row)).
Proof. exact (accessors_agree has_mod_macro has_mod_table tables_has_mod_macro tables_has_mod_rows s row). Qed.

(* mania key count: the same for the three representations of a legacy-representable selection.
   The chains are concrete (generated), so the statement is about them directly; it is proved
   for every selection by case analysis on the ten key mods. *)
Definition key_names : list string :=
  ["OneKey"; "TwoKeys"; "ThreeKeys"; "FourKeys"; "FiveKeys"; "SixKeys"; "SevenKeys"; "EightKeys"; "NineKeys"; "TenKeys"].

Theorem mania_keys_agree_now (s : modset) :
  s "TenKeys"%string = false ->         (* 10K is not legacy-representable *)
  mania_keys mania_keys_chains RLazer s = mania_keys mania_keys_chains RIntermode s /\
  mania_keys mania_keys_chains RLegacy s = mania_keys mania_keys_chains RIntermode s.
Proof.
  intros H10. unfold mania_keys, mania_keys_chains, chain_of. cbn [find fst snd].
  unfold keys_chain, test_lazer, test_intermode, test_legacy. cbn [String.eqb Ascii.eqb Bool.eqb legacy_to_intermode].
  cbn.
  destruct (s "OneKey"%string), (s "TwoKeys"%string), (s "ThreeKeys"%string), (s "FourKeys"%string),
    (s "FiveKeys"%string), (s "SixKeys"%string), (s "SevenKeys"%string), (s "EightKeys"%string),
    (s "NineKeys"%string); rewrite ?H10; split; reflexivity.
Qed.

(* ================================ C04 ================================ *)
Section C04.
Variable Map Attrs Diff Spec State Out : Type.
Variable difficulty : mode -> Diff -> Map -> Attrs.
Variable gen : mode -> Attrs -> Diff -> Spec -> State.
Variable pp : mode -> Attrs -> Diff -> State -> Out.
Variable arms : list (mode * string * mode * bool * bool).
Hypothesis Harms : map_arms_check arms = true.

Notation calc := (calculate Map Attrs Diff Spec State Out difficulty gen pp arms).

Lemma arms_spec m :
  exists c1 c2, find (fun r => let '(m', f, _, _, _) := r in mode_eqb m m' && String.eqb f "generate_state") arms
                = Some (m, "generate_state"%string, m, true, c1)
             /\ find (fun r => let '(m', f, _, _, _) := r in mode_eqb m m' && String.eqb f "calculate") arms
                = Some (m, "calculate"%string, m, true, true) /\ c2 = true.
Proof.
  unfold map_arms_check in Harms. rewrite forallb_forall in Harms.
  assert (Hm : In m all_modes_a) by (destruct m; cbn; tauto). specialize (Harms m Hm).
  destruct (find _ arms) as [[[[[m1 f1] t1] a1] c1]|] eqn:E1; [|discriminate].
  destruct a1; [|discriminate].
  destruct (find (fun r => let '(m', f, _, _, _) := r in mode_eqb m m' && String.eqb f "calculate") arms)
    as [[[[[m2 f2] t2] a2] c2]|] eqn:E2; [|discriminate].
  destruct a2; [|discriminate]. destruct c2; [|discriminate].
  apply andb_true_iff in Harms as [H1 H2]. apply mode_eqb_eq in H1, H2. subst t1 t2.
  apply find_some in E1 as [_ E1]. apply andb_true_iff in E1 as [E1a E1b].
  apply mode_eqb_eq in E1a. apply String.eqb_eq in E1b. subst.
  apply find_some in E2 as [_ E2]. apply andb_true_iff in E2 as [E2a E2b].
  apply mode_eqb_eq in E2a. apply String.eqb_eq in E2b. subst.
  exists c1, true. repeat split.
Qed.

(* both paths evaluate pp on the same attributes, the same Difficulty and the same state *)
Theorem calculate_map m mp d s :
  calc m (MMap mp) d s = Some (pp m (difficulty m d mp) d (gen m (difficulty m d mp) d s)).
Proof.
  destruct (arms_spec m) as (c1 & c2 & E1 & E2 & _).
  unfold calculate, generate_state, attrs_of. rewrite E2, E1. reflexivity.
Qed.
Theorem calculate_attrs m a d s : calc m (MAttrs a) d s = Some (pp m a d (gen m a d s)).
Proof.
  destruct (arms_spec m) as (c1 & c2 & E1 & E2 & _).
  unfold calculate, generate_state, attrs_of. rewrite E2. reflexivity.
Qed.
Theorem attrs_path_eq m mp d s : calc m (MAttrs (difficulty m d mp)) d s = calc m (MMap mp) d s.
Proof. now rewrite calculate_map, calculate_attrs. Qed.
End C04.

Lemma tables_map_arms : map_arms_check perf_map_arms = true.
Proof. vm_compute. reflexivity. Qed.
Lemma tables_into_arms :
  same_mode_arms into_perf_attr_arms 1 && same_mode_arms into_diff_attr_arms 1
  && same_mode_arms into_map_arms 2 = true.
Proof. vm_compute. reflexivity. Qed.
Lemma tables_payload :
  payload_check attrs_payload_of_difficulty_attrs attrs_payload_of_performance_attrs = true.
Proof. vm_compute. reflexivity. Qed.

Theorem attrs_path_eq_now (Map Attrs Diff Spec State Out : Type)
    (difficulty : mode -> Diff -> Map -> Attrs) (gen : mode -> Attrs -> Diff -> Spec -> State)
    (pp : mode -> Attrs -> Diff -> State -> Out) m mp d s :
  calculate Map Attrs Diff Spec State Out difficulty gen pp perf_map_arms m (MAttrs (difficulty m d mp)) d s
  = calculate Map Attrs Diff Spec State Out difficulty gen pp perf_map_arms m (MMap mp) d s.
Proof. exact (attrs_path_eq Map Attrs Diff Spec State Out difficulty gen pp perf_map_arms tables_map_arms m mp d s). Qed.

Lemma tables_clock_rate : rate_check clock_rate_arms = true.
Proof. vm_compute. reflexivity. Qed.

(* TryFrom<OsuPerformance>: every field of the three target builders is initialised from its
   osu! counterpart (same name or documented alias), fields without counterpart start unset *)
Theorem tables_perf_conv : perf_conv_ok = true.
Proof. vm_compute. reflexivity. Qed.

(* what the check means for a single field *)
Lemma carries_ok_field row dst src : carries_ok row = true -> In (dst, src) row -> src = expected_source dst.
Proof.
  unfold carries_ok. intros H Hin. apply andb_true_iff in H. destruct H as [_ H].
  rewrite forallb_forall in H. specialize (H _ Hin). cbn [fst snd] in H. now apply String.eqb_eq in H.
Qed.
