(* Proofs/TaikoSplitProofs.v - the tick loop of the osu! -> taiko slider splitting in binary64 arithmetic (Flocq):
   a split slider is replaced by at least one hit, the first at its own start, all in time order. *)
From Coq Require Import ZArith Reals Floats Lia Lra List.
From Flocq Require Import Core BinarySingleNaN PrimFloat.
From V Require Import FExact FInt FDy TaikoSplit.
From V Require Import F64 F32.
Import ListNotations.
Open Scope R_scope.

Local Instance P53' : Prec_gt_0 53.
Proof. unfold Prec_gt_0. lia. Qed.

Lemma fin_format : forall x, fin x -> generic_format radix2 fexp64 (RV x).
Proof. intros x _. unfold RV. apply generic_format_B2R. Qed.

Lemma bpow_format : forall k : Z, (-1074 <= k)%Z -> generic_format radix2 fexp64 (bpow radix2 k).
Proof.
  intros k Hk. apply generic_format_bpow. unfold FLT_exp. lia.
Qed.

Lemma round_abs_le_bpow : forall x (k : Z), (-1074 <= k)%Z -> Rabs x <= bpow radix2 k ->
  Rabs (rndNE x) <= bpow radix2 k.
Proof.
  intros x k Hk Hx.
  apply (abs_round_le_generic radix2 fexp64 ZnearestE); [apply bpow_format; exact Hk|exact Hx].
Qed.

(* x + y for y >= 0 never goes below x (monotone rounding; x is representable) *)
Lemma add_ge_left_k : forall (k : Z) x y, (0 <= k <= 1000)%Z -> fin x -> fin y -> 0 <= RV y ->
  Rabs (RV x) <= bpow radix2 k -> RV y <= bpow radix2 k ->
  fin (x + y)%float /\ RV x <= RV (x + y)%float /\ Rabs (RV (x + y)%float) <= bpow radix2 (k + 1).
Proof.
  intros k x y Hk Fx Fy Hy Hbx Hby.
  assert (Hsum : Rabs (RV x + RV y) <= bpow radix2 (k + 1)).
  { assert (E101 : bpow radix2 (k + 1) = 2 * bpow radix2 k).
    { rewrite Z.add_comm, bpow_plus. reflexivity. }
    rewrite E101.
    apply Rle_trans with (Rabs (RV x) + Rabs (RV y)); [apply Rabs_triang|].
    rewrite (Rabs_pos_eq (RV y)) by exact Hy. lra. }
  assert (Hr := round_abs_le_bpow _ (k + 1) ltac:(lia) Hsum).
  unfold fin, RV in *. rewrite add_equiv.
  generalize (Bplus_correct prec emax Hprec Hmax mode_NE (Prim2B x) (Prim2B y) Fx Fy).
  simpl round_mode.
  rewrite Rlt_bool_true.
  2:{ apply Rle_lt_trans with (bpow radix2 (k + 1)); [exact Hr|]. apply bpow_lt. unfold emax. lia. }
  intros [H1 [H2 _]]. rewrite H1. split; [exact H2|]. split; [|exact Hr].
  apply (round_ge_generic radix2 fexp64 ZnearestE); [apply generic_format_B2R|lra].
Qed.

Lemma add_ge_left : forall x y, fin x -> fin y -> 0 <= RV y ->
  Rabs (RV x) <= bpow radix2 100 -> RV y <= bpow radix2 100 ->
  fin (x + y)%float /\ RV x <= RV (x + y)%float /\ Rabs (RV (x + y)%float) <= bpow radix2 101.
Proof. intros. apply (add_ge_left_k 100); try assumption. lia. Qed.

Lemma leb_R : forall x y, fin x -> fin y -> PrimFloat.leb x y = Rle_bool (RV x) (RV y).
Proof. intros x y Fx Fy. rewrite leb_equiv. apply Bleb_correct; assumption. Qed.

(* every element of the produced list is finite, they are in non-decreasing order, start at j and
   stay at or below the limit *)
Fixpoint chain (lo : R) (l : list PrimFloat.float) (hi : R) : Prop :=
  match l with
  | [] => True
  | a :: r => fin a /\ lo <= RV a <= hi /\ chain (RV a) r hi
  end.

Lemma ticks_chain : forall fuel j limit tick l,
  fin j -> fin limit -> fin tick -> 0 <= RV tick <= bpow radix2 100 ->
  Rabs (RV limit) <= bpow radix2 100 -> - bpow radix2 100 <= RV j ->
  ticks fuel j limit tick = Some l -> chain (RV j) l (RV limit).
Proof.
  induction fuel as [|f IH]; intros j limit tick l Fj Fl Ft Ht Hl Hj E; [discriminate E|].
  cbn [ticks] in E. rewrite (leb_R j limit Fj Fl) in E.
  destruct (Rle_bool_spec (RV j) (RV limit)) as [Hle|Hgt].
  - destruct (almost_zero tick).
    + injection E as <-. cbn [chain]. split; [exact Fj|]. split; [lra|exact I].
    + destruct (ticks f (j + tick)%float limit tick) as [r|] eqn:Er; [|discriminate E].
      injection E as <-. cbn [chain]. split; [exact Fj|]. split; [lra|].
      assert (Hjb : Rabs (RV j) <= bpow radix2 100).
      { apply Rabs_le. apply Rabs_le_inv in Hl. lra. }
      destruct (add_ge_left j tick Fj Ft (proj1 Ht) Hjb (proj2 Ht)) as [Fn [Hn _]].
      assert (Hc := IH (j + tick)%float limit tick r Fn Fl Ft Ht Hl ltac:(lra) Er).
      (* weaken the lower bound of the tail from the new j to the old one *)
      destruct r as [|a r']; [exact I|]. cbn [chain] in *. destruct Hc as [Fa [Ha Hc]].
      split; [exact Fa|]. split; [lra|exact Hc].
  - injection E as <-. exact I.
Qed.

(* when the loop is entered at all its first element is the start: the conversion never produces
   an empty replacement (the `else` branch that removes the slider is dead) *)
Lemma ticks_head : forall fuel j limit tick l,
  PrimFloat.leb j limit = true -> ticks fuel j limit tick = Some l -> exists r, l = j :: r.
Proof.
  intros [|f] j limit tick l Hle E; [discriminate E|]. cbn [ticks] in E. rewrite Hle in E.
  destruct (almost_zero tick); [injection E as <-; eexists; reflexivity|].
  destruct (ticks f (j + tick)%float limit tick) as [r|]; [|discriminate E].
  injection E as <-. eexists; reflexivity.
Qed.

(* ---- what should_convert guarantees about the tick spacing and the duration ---- *)
Open Scope Z_scope.
Lemma cast_int_range : forall lo hi f, lo <= 0 <= hi -> lo <= cast_int lo hi f <= hi.
Proof.
  intros lo hi f H. unfold cast_int.
  assert (Hs : forall v, lo <= sat lo hi v <= hi).
  { intros v. unfold sat. destruct (v <? lo) eqn:A; [lia|]. destruct (hi <? v) eqn:B; lia. }
  destruct (Prim2SF f) as [s|s| |s m e]; cbn [sf_trunc]; try apply Hs; try lia.
  destruct s; lia.
Qed.
Open Scope R_scope.

Lemma fin_not_nan : forall x, fin x -> PrimFloat.is_nan x = false.
Proof.
  intros x Fx. rewrite is_nan_equiv. unfold fin in Fx. destruct (Prim2B x); try discriminate Fx; reflexivity.
Qed.

Lemma zero_fin : fin 0%float /\ RV 0%float = 0.
Proof. destruct zero_int as [F R]. split; [exact F|exact R]. Qed.

Lemma ltb_R' : forall x y, fin x -> fin y -> PrimFloat.ltb x y = Rlt_bool (RV x) (RV y).
Proof. intros x y Fx Fy. rewrite ltb_equiv. apply Bltb_correct; assumption. Qed.

(* the smaller of a and a finite non-negative b, if it is above 0, is finite and within (0, b] *)
Lemma fmin_pos : forall a b, fin b -> PrimFloat.ltb 0%float (fmin a b) = true ->
  fin (fmin a b) /\ 0 < RV (fmin a b) <= RV b.
Proof.
  intros a b Fb H. destruct zero_fin as [F0 R0].
  assert (Hb : PrimFloat.ltb 0%float b = true -> fin b /\ 0 < RV b <= RV b).
  { intros Hl. rewrite (ltb_R' _ _ F0 Fb), R0 in Hl.
    destruct (Rlt_bool_spec 0 (RV b)); [|discriminate Hl]. split; [exact Fb|lra]. }
  unfold fmin in *. destruct (PrimFloat.is_nan a) eqn:Na; [exact (Hb H)|].
  rewrite (fin_not_nan b Fb) in *.
  destruct (PrimFloat.ltb b a) eqn:Lba; [exact (Hb H)|].
  (* the result is a: not NaN, above 0, and b is not below it - so a is finite *)
  assert (Fa : fin a).
  { unfold fin. rewrite ltb_equiv in H, Lba. rewrite is_nan_equiv in Na.
    unfold fin in Fb, F0.
    destruct (Prim2B a) as [sa|sa| |sa ma ea Ba]; try reflexivity; try discriminate Na.
    destruct sa.
    - (* -inf: 0 < -inf is false *)
      exfalso. destruct (Prim2B 0%float) as [s0|s0| |s0 m0 e0 B0]; try discriminate F0;
        cbn in H; try discriminate H; destruct s0; discriminate H.
    - (* +inf: finite b < +inf is true *)
      exfalso. destruct (Prim2B b) as [sb|sb| |sb mb eb Bb]; try discriminate Fb;
        cbn in Lba; try discriminate Lba; destruct sb; discriminate Lba. }
  split; [exact Fa|].
  rewrite (ltb_R' _ _ F0 Fa), R0 in H. rewrite (ltb_R' _ _ Fb Fa) in Lba.
  destruct (Rlt_bool_spec 0 (RV a)); [|discriminate H].
  destruct (Rlt_bool_spec (RV b) (RV a)); [discriminate Lba|]. lra.
Qed.

Lemma eight_int : IntF 8%float 8.
Proof. change 8%float with (of_Z 8). apply of_Z_int. reflexivity. Qed.

(* duration and tick spacing of a slider that is going to be split *)
Lemma should_convert_facts : forall version sm tr dist spans sv bl,
  (1 <= spans <= 2 ^ 31)%Z ->
  let p := should_convert version sm tr dist spans sv bl in
  sp_convert p = true ->
  (0 <= sp_duration p <= 4294967295)%Z /\ fin (sp_tick p) /\ 0 < RV (sp_tick p) <= IZR 4294967295.
Proof.
  intros version sm tr dist spans sv bl Hs p Hc.
  change (2 ^ 31)%Z with 2147483648%Z in Hs.
  unfold should_convert in p. cbv zeta in p.
  set (dur := to_u32 _) in p.
  assert (Hd : (0 <= dur <= 4294967295)%Z) by (unfold dur, to_u32; apply cast_int_range; lia).
  assert (Isp : IntF (of_Z spans) spans).
  { apply of_Z_int. change (2 ^ 53)%Z with 9007199254740992%Z. lia. }
  assert (Idu : IntF (of_Z dur) dur).
  { apply of_Z_int. change (2 ^ 53)%Z with 9007199254740992%Z. lia. }
  destruct Idu as [Fdu Rdu].
  assert (Hq : IZR 0 <= RV (of_Z dur) / IZR spans <= IZR 4294967295).
  { rewrite Rdu.
    assert (1 <= IZR spans) by (apply IZR_le; lia).
    assert (0 <= IZR dur <= 4294967295) by (split; apply IZR_le; lia).
    assert (Hinv : 0 < / IZR spans <= 1).
    { split; [apply Rinv_0_lt_compat; lra|]. rewrite <- Rinv_1. apply Rinv_le_contravar; lra. }
    unfold Rdiv. split; [apply Rmult_le_pos; lra|].
    apply Rle_trans with (IZR dur * 1); [apply Rmult_le_compat_l; lra|lra]. }
  destruct (div_between (of_Z dur) (of_Z spans) spans 0 4294967295 Fdu Isp) as [Fb Rb];
    [lia | change (2 ^ 53)%Z with 9007199254740992%Z; lia
    | change (2 ^ 53)%Z with 9007199254740992%Z; lia | exact Hq |].
  subst p. cbn [sp_convert sp_duration sp_tick] in *.
  apply andb_prop in Hc. destruct Hc as [Hpos _].
  destruct (fmin_pos _ _ Fb Hpos) as [Ft [Ht1 Ht2]].
  split; [exact Hd|]. split; [exact Ft|]. split; [exact Ht1|].
  apply Rle_trans with (RV (of_Z dur / of_Z spans)%float); [exact Ht2|exact (proj2 Rb)].
Qed.

(* A slider that the conversion splits is replaced by at least one hit, the first at the slider's
   own start time, the following ones in non-decreasing time order up to the limit; all of them are
   finite.  So the branch that REMOVES the slider (and would compute `idx -= 1`) is dead, and the
   converted map stays in time order within each replacement. *)
Theorem split_slider_spec : forall version sm tr t dist spans sv bl l,
  fin t -> Rabs (RV t) <= bpow radix2 40 -> (1 <= spans <= 2 ^ 31)%Z ->
  sp_convert (should_convert version sm tr dist spans sv bl) = true ->
  convert_obj version sm tr (TSlider t dist spans sv bl) = Some l ->
  exists times, l = map (fun x => (0%Z, x)) (t :: times)
    /\ chain (RV t) (t :: times) (RV (tick_limit t (should_convert version sm tr dist spans sv bl))).
Proof.
  intros version sm tr t dist spans sv bl l Ft Hbt Hs Hc E.
  destruct (should_convert_facts version sm tr dist spans sv bl Hs Hc) as [Hd [Ftk [Htk1 Htk2]]].
  cbn [convert_obj] in E. rewrite Hc in E.
  set (p := should_convert version sm tr dist spans sv bl) in *.
  destruct (ticks (tick_fuel p) t (tick_limit t p) (sp_tick p)) as [ts|] eqn:Et; [|discriminate E].
  injection E as <-.
  (* the limit: t <= (t + duration) + tick / 8, all finite *)
  assert (Idu : IntF (of_Z (sp_duration p)) (sp_duration p)).
  { apply of_Z_int. change (2 ^ 53)%Z with 9007199254740992%Z. lia. }
  destruct Idu as [Fdu Rdu].
  assert (B32 : IZR 4294967295 <= bpow radix2 40).
  { change (bpow radix2 40) with (IZR (2 ^ 40)). apply IZR_le.
    change (2 ^ 40)%Z with 1099511627776%Z. lia. }
  destruct (add_ge_left_k 40 t (of_Z (sp_duration p)) ltac:(lia) Ft Fdu) as [F1 [H1 B1]].
  { rewrite Rdu. apply IZR_le. lia. }
  { exact Hbt. }
  { rewrite Rdu. apply Rle_trans with (IZR 4294967295); [apply IZR_le; lia|exact B32]. }
  assert (Hq8 : IZR 0 <= RV (sp_tick p) / IZR 8 <= IZR 4294967295) by lra.
  destruct (div_between (sp_tick p) 8%float 8 0 4294967295 Ftk eight_int) as [F8 R8];
    [lia | change (2 ^ 53)%Z with 9007199254740992%Z; lia
    | change (2 ^ 53)%Z with 9007199254740992%Z; lia | exact Hq8 |].
  destruct (add_ge_left_k 41 (t + of_Z (sp_duration p))%float (sp_tick p / 8)%float ltac:(lia) F1 F8)
    as [FL [HL BL]].
  { exact (proj1 R8). }
  { exact B1. }
  { apply Rle_trans with (IZR 4294967295); [exact (proj2 R8)|].
    apply Rle_trans with (bpow radix2 40); [exact B32|]. apply bpow_le. lia. }
  fold (tick_limit t p) in FL, HL, BL.
  assert (Hle : PrimFloat.leb t (tick_limit t p) = true).
  { rewrite (leb_R _ _ Ft FL). apply Rle_bool_true. lra. }
  destruct (ticks_head _ _ _ _ _ Hle Et) as [r ->].
  exists r. split; [reflexivity|].
  apply (ticks_chain (tick_fuel p) t (tick_limit t p) (sp_tick p)); try assumption.
  - split; [lra|]. apply Rle_trans with (IZR 4294967295); [lra|].
    apply Rle_trans with (bpow radix2 40); [exact B32|]. apply bpow_le. lia.
  - apply Rle_trans with (bpow radix2 42); [exact BL|]. apply bpow_le. lia.
  - apply Rabs_le_inv in Hbt. apply Rle_trans with (- bpow radix2 40); [|lra].
    apply Ropp_le_contravar. apply bpow_le. lia.
Qed.
