(* Proofs/PrngProofs.v - Random::next_int_range is exact in binary64 (no rounding anywhere) and the ranges of the
   mania conversion's generator hold for EVERY generator state. *)
From Coq Require Import ZArith Reals Floats Lia Lra List.
From Flocq Require Import Core BinarySingleNaN PrimFloat.
From V Require Import FExact FInt FDy.
From V Require Import F64 F32 ManiaCols Prng.
Open Scope R_scope.

Lemma int_to_real_dy : DyF INT_TO_REAL 1 (-31).
Proof.
  assert (E : Prim2SF INT_TO_REAL = S754_finite false 4503599627370496 (-83)) by (vm_compute; reflexivity).
  split.
  - apply fin_SF. rewrite E. reflexivity.
  - rewrite RV_SF, E. unfold SF2R, F2R. simpl Fnum. simpl Fexp. simpl cond_Zopp.
    change (IZR 4503599627370496) with (IZR (2 ^ 52)).
    replace (IZR (2 ^ 52)) with (bpow radix2 52) by (symmetry; apply (IZR_Zpower radix2); lia).
    rewrite <- bpow_plus. simpl (52 + -83)%Z. lra.
Qed.

Open Scope Z_scope.

(* Random::next_int_range on ANY raw 31-bit output: no rounding happens anywhere, the result is
   lo + floor(n * (hi - lo) / 2^31), which lies in [lo, hi) *)
Theorem next_int_range_exact : forall n lo hi : Z,
  0 <= n < 2 ^ 31 -> 0 <= lo <= hi -> hi <= 2 ^ 20 ->
  next_int_range n lo hi = lo + n * (hi - lo) / 2 ^ 31.
Proof.
  intros n lo hi Hn Hlo Hhi. unfold next_int_range, to_i32.
  change (2 ^ 31) with 2147483648 in *. change (2 ^ 20) with 1048576 in *.
  set (d := hi - lo).
  assert (Hd : 0 <= d <= 1048576) by (unfold d; lia).
  assert (Dn : DyF (of_Z n) n 0).
  { apply int_dy, of_Z_int. change (2 ^ 53) with 9007199254740992. lia. }
  assert (Dd : DyF (of_Z d) d 0).
  { apply int_dy, of_Z_int. change (2 ^ 53) with 9007199254740992. lia. }
  assert (Dlo : DyF (of_Z lo) (lo * 2 ^ 31) (-31)).
  { apply (dy_rescale (of_Z lo) lo 0 31); [|lia].
    apply int_dy, of_Z_int. change (2 ^ 53) with 9007199254740992. lia. }
  assert (D1 : DyF (INT_TO_REAL * of_Z n)%float (1 * n) (-31 + 0)).
  { apply mul_dy; [exact int_to_real_dy | exact Dn | | lia].
    change (2 ^ 53) with 9007199254740992. lia. }
  assert (D2 : DyF (INT_TO_REAL * of_Z n * of_Z d)%float (1 * n * d) (-31 + 0 + 0)).
  { apply mul_dy; [exact D1 | exact Dd | | lia].
    change (2 ^ 53) with 9007199254740992. nia. }
  simpl (-31 + 0 + 0) in D2.
  assert (D3 : DyF (of_Z lo + INT_TO_REAL * of_Z n * of_Z d)%float (lo * 2 ^ 31 + 1 * n * d) (-31)).
  { apply add_dy; [exact Dlo | exact D2 | | lia].
    change (2 ^ 53) with 9007199254740992. change (2 ^ 31) with 2147483648. nia. }
  rewrite (cast_int_dy _ _ _ _ _ D3); [| change (2 ^ 31) with 2147483648; nia | lia].
  simpl (- -31). change (2 ^ 31) with 2147483648.
  replace (lo * 2147483648 + 1 * n * d) with (n * d + lo * 2147483648) by lia.
  rewrite Z.div_add by lia.
  assert (Hq : 0 <= n * d / 2147483648 <= d).
  { split; [apply Z.div_pos; nia|]. apply Z.div_le_upper_bound; nia. }
  unfold sat.
  destruct (n * d / 2147483648 + lo <? -2147483648) eqn:A; [lia|].
  destruct (2147483647 <? n * d / 2147483648 + lo) eqn:B; lia.
Qed.

Theorem next_int_range_in_range : forall n lo hi : Z,
  0 <= n < 2 ^ 31 -> 0 <= lo < hi -> hi <= 2 ^ 20 ->
  lo <= next_int_range n lo hi < hi.
Proof.
  intros n lo hi Hn Hlo Hhi. rewrite next_int_range_exact by lia.
  change (2 ^ 31) with 2147483648 in *.
  assert (0 <= n * (hi - lo) / 2147483648 < hi - lo).
  { split; [apply Z.div_pos; nia|]. apply Z.div_lt_upper_bound; nia. }
  lia.
Qed.

Lemma ogen_range : forall s, 0 <= fst (ogen s) < M32.
Proof. intros s. unfold ogen. cbn [fst]. apply Z.mod_pos_bound. reflexivity. Qed.

Lemma onext_int_range31 : forall s, 0 <= fst (onext_int s) < 2 ^ 31.
Proof.
  intros s. unfold onext_int. destruct (ogen s) as [u s']. cbn [fst].
  change (2 ^ 31) with M31. apply Z.mod_pos_bound. reflexivity.
Qed.

(* a random column is a valid column: for every generator state and all bounds the mania
   conversion can ask for, next_int_range(lo, hi) lies in [lo, hi) *)
Theorem onext_int_range_in_range : forall s lo hi, 0 <= lo < hi -> hi <= 2 ^ 20 ->
  lo <= fst (onext_int_range s lo hi) < hi.
Proof.
  intros s lo hi Hlo Hhi. unfold onext_int_range.
  generalize (onext_int_range31 s). destruct (onext_int s) as [n s']. cbn [fst]. intros Hn.
  apply next_int_range_in_range; assumption.
Qed.

Theorem onext_int_range_empty : forall s lo, 0 <= lo <= 2 ^ 20 ->
  fst (onext_int_range s lo lo) = lo.
Proof.
  intros s lo Hlo. unfold onext_int_range.
  generalize (onext_int_range31 s). destruct (onext_int s) as [n s']. cbn [fst]. intros Hn.
  rewrite next_int_range_exact by lia. rewrite Z.sub_diag, Z.mul_0_r. cbn. lia.
Qed.

(* next_double is n / 2^31 exactly, hence in [0, 1) *)
Theorem onext_double_unit : forall s,
  fin (fst (onext_double s)) /\ (0 <= RV (fst (onext_double s)) < 1)%R.
Proof.
  intros s. unfold onext_double.
  generalize (onext_int_range31 s). destruct (onext_int s) as [n s']. cbn [fst]. intros Hn.
  change (2 ^ 31) with 2147483648 in Hn.
  assert (D : DyF (INT_TO_REAL * of_Z n)%float (1 * n) (-31 + 0)).
  { apply mul_dy; [exact int_to_real_dy | | | lia].
    - apply int_dy, of_Z_int. change (2 ^ 53) with 9007199254740992. lia.
    - change (2 ^ 53) with 9007199254740992. lia. }
  destruct D as [F R]. split; [exact F|]. rewrite R.
  replace (1 * n) with n by lia. simpl (-31 + 0).
  assert (Hb : bpow radix2 (-31) = (/ 2147483648)%R).
  { rewrite (bpow_neg_inv (-31)) by lia. reflexivity. }
  rewrite Hb.
  assert (0 <= IZR n < 2147483648)%R by (split; [apply IZR_le|apply IZR_lt]; lia).
  split.
  - apply Rmult_le_pos; lra.
  - apply Rmult_lt_reg_r with 2147483648%R; [lra|].
    rewrite Rmult_assoc, Rinv_l by lra. lra.
Qed.

(* .NET generator: a sample lies in [0, i32::MAX) whenever the two table entries do *)
Lemma csample_core : forall a b : Z, 0 <= a <= I32_MAX -> 0 <= b <= I32_MAX ->
  0 <= (let r := a - b in let r := if r =? I32_MAX then r - 1 else r in
        if r <? 0 then r + I32_MAX else r) < I32_MAX.
Proof.
  intros a b Ha Hb. unfold I32_MAX in *. cbv zeta.
  destruct (a - b =? 2147483647) eqn:E1.
  - apply Z.eqb_eq in E1. rewrite E1. cbn. lia.
  - apply Z.eqb_neq in E1. destruct (a - b <? 0) eqn:E2; [apply Z.ltb_lt in E2|apply Z.ltb_ge in E2]; lia.
Qed.

Lemma csample_range : forall s,
  0 <= get (carr s) (if 56 <=? cnext s + 1 then 1 else cnext s + 1) <= I32_MAX ->
  0 <= get (carr s) (if 56 <=? cnextp s + 1 then 1 else cnextp s + 1) <= I32_MAX ->
  0 <= fst (csample_int s) < I32_MAX.
Proof.
  intros s Ha Hb. unfold csample_int. cbn [fst]. exact (csample_core _ _ Ha Hb).
Qed.
