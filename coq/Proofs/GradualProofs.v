(* Proofs/GradualProofs.v — the gradual machine refines a plain iterator over the one-shot
   values, for every object list and every operation sequence. *)
From Coq Require Import ZArith List Bool Lia.
From V Require Import Tables F64 Gradual.
Import ListNotations.
Open Scope Z_scope.

Local Arguments Z.add : simpl never.
Local Arguments Z.sub : simpl never.
Local Arguments Z.ltb : simpl never.
Local Arguments Z.leb : simpl never.
Local Arguments Z.eqb : simpl never.
Local Arguments Z.min : simpl never.
Local Arguments Z.to_nat : simpl never.
Local Arguments Z.of_nat : simpl never.

Ltac zb := repeat match goal with
  | H : (_ <=? _) = true |- _ => apply Z.leb_le in H
  | H : (_ <=? _) = false |- _ => apply Z.leb_gt in H
  | H : (_ <? _) = true |- _ => apply Z.ltb_lt in H
  | H : (_ <? _) = false |- _ => apply Z.ltb_ge in H
  | H : (_ =? _) = true |- _ => apply Z.eqb_eq in H
  | H : (_ =? _) = false |- _ => apply Z.eqb_neq in H
  | H : (_ && _) = true |- _ => apply andb_true_iff in H; destruct H
  | H : (_ && _) = false |- _ => apply andb_false_iff in H
  end.

(* ---- small list/Z facts ---------------------------------------------------------- *)
Lemma zlen_nonneg {A} (l : list A) : 0 <= zlen l.
Proof. unfold zlen; lia. Qed.

Lemma znth_some {A} (l : list A) i : 0 <= i < zlen l -> exists x, znth l i = Some x.
Proof.
  unfold znth, zlen. intros H. replace (i <? 0) with false by (symmetry; apply Z.ltb_ge; lia).
  destruct (nth_error l (Z.to_nat i)) eqn:E; [eauto|].
  apply nth_error_None in E. lia.
Qed.

Lemma znth_none {A} (l : list A) i : zlen l <= i -> znth l i = None.
Proof.
  unfold znth, zlen. intros H. pose proof (Nat2Z.is_nonneg (length l)).
  replace (i <? 0) with false by (symmetry; apply Z.ltb_ge; lia).
  apply nth_error_None. lia.
Qed.

Lemma ztake_succ {A} (l : list A) i x : 0 <= i -> znth l i = Some x ->
  ztake (i + 1) l = ztake i l ++ [x].
Proof.
  unfold znth, ztake. intros Hi. replace (i <? 0) with false by (symmetry; apply Z.ltb_ge; lia).
  replace (Z.to_nat (i + 1)) with (S (Z.to_nat i)) by lia.
  generalize (Z.to_nat i) as n. clear Hi i.
  induction l as [|a l IH]; intros [|n] H; cbn in *; try discriminate.
  - now inversion H.
  - f_equal. now apply IH.
Qed.

Lemma ztake_one {A} (l : list A) h tl : l = h :: tl -> ztake 1 l = [h].
Proof. intros ->. reflexivity. Qed.

Lemma ztake_zero {A} (l : list A) : ztake 0 l = [].
Proof. reflexivity. Qed.

Lemma ztake_all {A} (l : list A) n : zlen l <= n -> ztake n l = l.
Proof. unfold ztake, zlen. intros H. apply firstn_all2. lia. Qed.

Section WithSkill.
Variable S : Type.
Variable process : S -> Z -> S.
Variable s0 : S.

Lemma zrange_snoc start n : zrange start (Datatypes.S n) = zrange start n ++ [start + Z.of_nat n].
Proof.
  revert start. induction n as [|n IH]; intros start.
  - cbn. f_equal. lia.
  - change (zrange start (Datatypes.S (Datatypes.S n)))
      with (start :: zrange (start + 1) (Datatypes.S n)).
    rewrite IH. cbn. f_equal. f_equal. f_equal. lia.
Qed.

Lemma process_range_succ s k : 0 <= k ->
  process_range S process s 0 (k + 1) = process (process_range S process s 0 k) k.
Proof.
  intros Hk. unfold process_range.
  replace (Z.to_nat (k + 1)) with (Datatypes.S (Z.to_nat k)) by lia.
  rewrite zrange_snoc, fold_left_app. cbn. f_equal. lia.
Qed.

Lemma process_range_zero s : process_range S process s 0 0 = s.
Proof. reflexivity. Qed.

Section Machine.
Context {Obj Cnt : Type}.
Variable inc : Cnt -> Obj -> Cnt.
Variable c0 : Cnt.
Variable precount : bool.
Variable objs : list Obj.

Notation N := (zlen objs).
(* the constructor was given no passed_objects: one difficulty object per object after
   the first *)
Notation d := (sat_sub N 1).

Notation gstate := (@gstate S Cnt).
Notation next := (g_next S process inc precount objs d).
Notation nth := (g_nth S process inc precount objs d).
Notation len := (@g_len S Obj Cnt objs d).
Notation new := (g_new S s0 inc c0 precount objs).

(* the value a one-shot calculation of the first p+1 objects gives *)
Definition val (p : Z) : Cnt * S :=
  (fold_left inc (ztake (p + 1) objs) c0, process_range S process s0 0 p).

Fixpoint vals_from (p : Z) (k : nat) : list (Cnt * S) :=
  match k with
  | O => []
  | Datatypes.S k' => val p :: vals_from (p + 1) k'
  end.
Definition all_vals : list (Cnt * S) := vals_from 0 (Z.to_nat N).

(* counts held by the state at index p *)
Definition cnt_at (p : Z) : Cnt :=
  if p =? 0 then (match objs with
                  | h :: _ => if precount then inc c0 h else c0
                  | [] => c0 end)
  else fold_left inc (ztake p objs) c0.

Definition R (g : gstate) (p : Z) : Prop :=
  g_idx g = p /\ 0 <= p <= N /\ g_counts g = cnt_at p
  /\ g_skill g = process_range S process s0 0 (sat_sub p 1).

Lemma R_new : R new 0.
Proof. unfold R, g_new, cnt_at; cbn. repeat split; try lia. apply zlen_nonneg. Qed.

Lemma sat_sub_pos a b : b <= a -> sat_sub a b = a - b.
Proof. intros H. unfold sat_sub. replace (a <? b) with false by (symmetry; apply Z.ltb_ge; lia). reflexivity. Qed.

Lemma sat_sub_zero a b : a <= b -> sat_sub a b = 0.
Proof.
  intros H. unfold sat_sub. destruct (a <? b) eqn:E; [reflexivity|]. zb. lia.
Qed.

Lemma sat_sub_nonneg a b : 0 <= sat_sub a b.
Proof. unfold sat_sub. destruct (a <? b) eqn:E; zb; lia. Qed.

Lemma objs_nonempty : 0 < N -> exists h tl, objs = h :: tl.
Proof. destruct objs as [|h tl]; [unfold zlen; cbn; lia | eauto]. Qed.

Lemma len_spec g p : R g p -> len g = N - p.
Proof.
  intros (Hi & Hp & _). unfold g_len. destruct objs as [|h tl] eqn:E.
  - unfold zlen in *; cbn in *. lia.
  - rewrite sat_sub_pos by (unfold zlen; cbn; lia). lia.
Qed.

Lemma first_spec g : R g 0 -> 0 < N -> R (g_first S inc precount objs g) 1 /\
  (g_counts (g_first S inc precount objs g), g_skill (g_first S inc precount objs g)) = val 0.
Proof.
  intros (Hi & Hp & Hc & Hs) HN. destruct (objs_nonempty HN) as (h & tl & E).
  unfold g_first, R, val, cnt_at in *. cbn [g_idx g_counts g_skill].
  rewrite Hc, Hs. replace (0 =? 0) with true by reflexivity.
  replace (1 =? 0) with false by reflexivity.
  change (0 + 1) with 1. rewrite (ztake_one objs h tl E). rewrite E. cbn [fold_left].
  rewrite (sat_sub_zero 0 1) by lia. rewrite (sat_sub_zero 1 1) by lia.
  split; [|destruct precount; reflexivity].
  repeat split; try lia; try (rewrite <- E; lia). destruct precount; reflexivity.
Qed.

(* one successful step from index p >= 1 *)
Lemma step_counts p h : 1 <= p -> znth objs p = Some h ->
  inc (cnt_at p) h = fold_left inc (ztake (p + 1) objs) c0.
Proof.
  intros Hp Hh. unfold cnt_at. replace (p =? 0) with false by (symmetry; apply Z.eqb_neq; lia).
  rewrite (ztake_succ objs p h) by (assumption || lia). now rewrite fold_left_app.
Qed.

Lemma cnt_at_succ p : 1 <= p -> cnt_at (p + 1) = fold_left inc (ztake (p + 1) objs) c0.
Proof. intros Hp. unfold cnt_at. replace (p + 1 =? 0) with false by (symmetry; apply Z.eqb_neq; lia). reflexivity. Qed.

Lemma next_spec g p : R g p ->
  (p < N -> exists g', next g = (Some (val p), g') /\ R g' (p + 1)) /\
  (p = N -> next g = (None, g)).
Proof.
  intros HR. pose proof HR as (Hi & Hp & Hc & Hs). split.
  - intros Hlt. unfold g_next. rewrite Hi.
    destruct (0 <? p) eqn:Hpos; zb.
    + rewrite sat_sub_pos by lia.
      replace (p - 1 <? N - 1) with true by (symmetry; apply Z.ltb_lt; lia).
      destruct (znth_some objs p ltac:(lia)) as [h Hh]. rewrite Hh.
      eexists. split.
      * cbn [g_counts g_skill]. f_equal. unfold val. rewrite Hc, Hs.
        rewrite sat_sub_pos by lia. rewrite (step_counts p h) by (assumption || lia).
        rewrite <- process_range_succ by lia. replace (p - 1 + 1) with p by lia. reflexivity.
      * unfold R. cbn [g_idx g_counts g_skill]. rewrite Hc, Hs.
        split; [reflexivity|]. split; [lia|]. split.
        -- rewrite (step_counts p h) by (assumption || lia). now rewrite cnt_at_succ by lia.
        -- rewrite !sat_sub_pos by lia. replace (p + 1 - 1) with ((p - 1) + 1) by lia.
           now rewrite process_range_succ by lia.
    + assert (Hp0 : p = 0) by lia. rewrite Hp0 in *.
      destruct (objs_nonempty Hlt) as (h & tl & E).
      destruct (first_spec g HR Hlt) as [HR1 Hv].
      rewrite E. rewrite <- E. eexists. split; [|exact HR1].
      f_equal. f_equal. exact Hv.
  - intros ->. unfold g_next. rewrite Hi.
    destruct (0 <? N) eqn:Hpos; zb.
    + rewrite sat_sub_pos by lia.
      replace (N - 1 <? N - 1) with false by (symmetry; apply Z.ltb_ge; lia). reflexivity.
    + destruct objs as [|h tl]; [reflexivity|]. unfold zlen in *; cbn in *. lia.
Qed.

Lemma loop_spec : forall (k : nat) g p,
  R g p -> 1 <= p -> p + Z.of_nat k <= N ->
  R (g_loop S process inc objs k (p - 1) g) (p + Z.of_nat k).
Proof.
  induction k as [|k IH]; intros g p HR Hp Hk.
  - cbn. now replace (p + Z.of_nat 0) with p by lia.
  - cbn [g_loop]. replace (p - 1 + 1) with p by lia.
    destruct (znth_some objs p ltac:(lia)) as [h Hh]. rewrite Hh.
    pose proof HR as (Hi & Hpr & Hc & Hs).
    assert (HR' : R (mk_g (g_idx g + 1) (inc (g_counts g) h) (process (g_skill g) (p - 1)))
                    (p + 1)).
    { unfold R. cbn [g_idx g_counts g_skill]. rewrite Hi, Hc, Hs.
      split; [reflexivity|]. split; [lia|]. split.
      - rewrite (step_counts p h) by (assumption || lia). now rewrite cnt_at_succ by lia.
      - rewrite !sat_sub_pos by lia. replace (p + 1 - 1) with ((p - 1) + 1) by lia.
        now rewrite process_range_succ by lia. }
    specialize (IH _ (p + 1) HR' ltac:(lia) ltac:(lia)).
    replace (p + 1 - 1) with p in IH by lia.
    replace (p + Z.of_nat (Datatypes.S k)) with (p + 1 + Z.of_nat k) by lia. exact IH.
Qed.

(* nth(n) lands where n+1 next calls land, or exhausts the iterator *)
Lemma nth_spec g p n : R g p -> 0 <= n ->
  (p + n < N -> exists g', nth n g = (Some (val (p + n)), g') /\ R g' (p + n + 1)) /\
  (N <= p + n -> exists g', nth n g = (None, g') /\ R g' N).
Proof.
  intros HR Hn. pose proof HR as (Hi & Hp & Hc & Hs).
  pose proof (len_spec g p HR) as Hlen.
  (* common normal form: after the optional first step the state is at index q >= 1 or
     nothing is to be skipped *)
  unfold g_nth. rewrite Hlen, Hi. clear Hi Hlen.
  destruct ((p =? 0) && (0 <? Z.min n (N - p))) eqn:Hfirst.
  - zb. subst p. assert (HN : 0 < N) by lia.
    destruct (first_spec g HR HN) as [HR1 _].
    set (g1 := g_first S inc precount objs g) in *.
    rewrite (sat_sub_zero 0 1) by lia.
    set (k := Z.min (Z.min n (N - 0) - 1) (sat_sub (sat_sub N 1) 0)).
    assert (Hkv : k = Z.min (Z.min n N - 1) (N - 1)).
    { unfold k. rewrite (sat_sub_pos N 1) by lia. rewrite sat_sub_pos by lia. lia. }
    clearbody k.
    assert (Hk0 : 0 <= k) by lia.
    pose proof (loop_spec (Z.to_nat k) g1 1 HR1 ltac:(lia) ltac:(lia)) as HL.
    replace (1 - 1) with 0 in HL by lia. rewrite Z2Nat.id in HL by lia.
    destruct (next_spec _ _ HL) as [Hlt Heq]. split.
    + intros Hlt'. assert (Hk : k = n - 1) by lia.
      destruct (Hlt ltac:(lia)) as (g' & Hg' & HR').
      exists g'. rewrite Hg'. replace (1 + k) with (0 + n) by lia. split; [reflexivity|].
      replace (0 + n + 1) with (1 + k + 1) by lia. exact HR'.
    + intros Hge. assert (Hk : k = N - 1) by lia.
      eexists. rewrite Heq by lia. split; [reflexivity|].
      assert (HN2 : N = 1 + k) by lia. rewrite HN2. exact HL.
  - (* no first step *)
    destruct (p =? 0) eqn:Hp0; zb.
    + (* p = 0 and min n (N - 0) = 0: either n = 0 or N = 0 *)
      subst p. destruct Hfirst as [Hf|Hf]; [discriminate|]. zb.
      rewrite (sat_sub_zero 0 1) by lia.
      assert (Hk : Z.min (Z.min n (N - 0)) (sat_sub (sat_sub N 1) 0) = 0).
      { pose proof (zlen_nonneg objs). pose proof (sat_sub_nonneg (sat_sub N 1) 0). lia. }
      rewrite Hk. cbn [Z.to_nat g_loop]. change (Z.to_nat 0) with 0%nat. cbn [g_loop].
      destruct (next_spec g 0 HR) as [Hlt Heq]. split.
      * intros Hlt'. assert (n = 0) by lia. subst n.
        destruct (Hlt ltac:(lia)) as (g' & Hg' & HR'). exists g'.
        replace (0 + 0) with 0 by lia. split; [exact Hg'|]. exact HR'.
      * intros Hge. pose proof (zlen_nonneg objs). assert (N = 0) by lia.
        exists g. split; [apply Heq; lia|]. replace N with 0 by lia. exact HR.
    + assert (Hp1 : 1 <= p) by lia.
      rewrite (sat_sub_pos p 1) by lia.
      assert (HN : 1 <= N) by lia.
      set (k := Z.min (Z.min n (N - p)) (sat_sub (sat_sub N 1) (p - 1))).
      assert (Hkv : k = Z.min n (N - p)).
      { unfold k. rewrite (sat_sub_pos N 1) by lia. rewrite sat_sub_pos by lia. lia. }
      clearbody k.
      assert (Hk0 : 0 <= k) by lia.
      pose proof (loop_spec (Z.to_nat k) g p HR Hp1 ltac:(lia)) as HL.
      rewrite Z2Nat.id in HL by lia.
      destruct (next_spec _ _ HL) as [Hlt Heq]. split.
      * intros Hlt'. assert (Hk : k = n) by lia.
        destruct (Hlt ltac:(lia)) as (g' & Hg' & HR'). exists g'. rewrite Hg'.
        rewrite Hk in *. split; [reflexivity | exact HR'].
      * intros Hge. assert (Hk : k = N - p) by lia.
        eexists. rewrite Heq by lia. split; [reflexivity|].
        assert (HN2 : N = p + k) by lia. rewrite HN2. exact HL.
Qed.

(* ---- the plain-iterator spec ------------------------------------------------------- *)
Lemma vals_from_skip : forall (k j : nat) p, (j <= k)%nat ->
  skipn j (vals_from p k) = vals_from (p + Z.of_nat j) (k - j).
Proof.
  induction k as [|k IH]; intros j p Hj.
  - assert (j = 0)%nat by lia. subst. cbn. reflexivity.
  - destruct j as [|j].
    + cbn [skipn]. replace (p + Z.of_nat 0) with p by lia. reflexivity.
    + cbn [skipn vals_from]. rewrite IH by lia.
      replace (p + 1 + Z.of_nat j) with (p + Z.of_nat (Datatypes.S j)) by lia. reflexivity.
Qed.

Lemma vals_from_skip_all (k j : nat) p : (k <= j)%nat -> skipn j (vals_from p k) = [].
Proof.
  intros H. apply skipn_all2.
  assert (Hl : forall k p, length (vals_from p k) = k).
  { induction k0 as [|k0 IH]; intros p0; cbn; [reflexivity | now rewrite IH]. }
  rewrite Hl. exact H.
Qed.

Lemma vals_from_length k p : length (vals_from p k) = k.
Proof. revert p. induction k as [|k IH]; intros p; cbn; [reflexivity | now rewrite IH]. Qed.

Definition rem_at (p : Z) : list (Cnt * S) := vals_from p (Z.to_nat (N - p)).

Theorem machine_refines : forall ops g p,
  R g p ->
  Forall (fun o => match o with GNth n => 0 <= n | _ => True end) ops ->
  run_gops next nth len (fun v => v) ops g = spec_gops (rem_at p) ops.
Proof.
  induction ops as [|o ops IH]; intros g p HR Hops; [reflexivity|].
  inversion Hops as [|? ? Ho Hops']; subst.
  pose proof HR as (Hi & Hp & _).
  destruct o as [|n|].
  - (* next *)
    cbn [run_gops spec_gops]. destruct (next_spec g p HR) as [Hlt Heq].
    destruct (Z.eq_dec p N) as [->|Hne].
    + rewrite (Heq eq_refl). unfold rem_at at 1. replace (Z.to_nat (N - N)) with 0%nat by lia.
      cbn [vals_from]. f_equal.
      specialize (IH g N HR Hops'). unfold rem_at in IH.
      replace (Z.to_nat (N - N)) with 0%nat in IH by lia. exact IH.
    + destruct (Hlt ltac:(lia)) as (g' & Hg' & HR'). rewrite Hg'.
      unfold rem_at at 1.
      replace (Z.to_nat (N - p)) with (Datatypes.S (Z.to_nat (N - (p + 1)))) by lia.
      cbn [vals_from]. f_equal. apply (IH g' (p + 1) HR' Hops').
  - (* nth *)
    cbn [run_gops spec_gops]. destruct (nth_spec g p n HR Ho) as [Hlt Hge].
    destruct (Z_lt_le_dec (p + n) N) as [Hc|Hc].
    + destruct (Hlt Hc) as (g' & Hg' & HR'). rewrite Hg'.
      unfold rem_at at 1. rewrite vals_from_skip by lia.
      replace (Z.to_nat (N - p) - Z.to_nat n)%nat
        with (Datatypes.S (Z.to_nat (N - (p + n + 1)))) by lia.
      cbn [vals_from]. rewrite Z2Nat.id by lia. f_equal.
      replace (p + n + 1) with (p + n + 1) by lia. apply (IH g' (p + n + 1) HR' Hops').
    + destruct (Hge Hc) as (g' & Hg' & HR'). rewrite Hg'.
      unfold rem_at at 1. rewrite vals_from_skip_all by lia. f_equal.
      specialize (IH g' N HR' Hops'). unfold rem_at in IH.
      replace (Z.to_nat (N - N)) with 0%nat in IH by lia. exact IH.
  - (* len *)
    cbn [run_gops spec_gops]. rewrite (len_spec g p HR). f_equal.
    + f_equal. unfold rem_at. rewrite vals_from_length. lia.
    + apply (IH g p HR Hops').
Qed.

(* from a fresh calculator: every op sequence sees exactly the list of one-shot values *)
Theorem gradual_refines_iter : forall ops,
  Forall (fun o => match o with GNth n => 0 <= n | _ => True end) ops ->
  run_gops next nth len (fun v => v) ops new = spec_gops all_vals ops.
Proof.
  intros ops H. rewrite (machine_refines ops new 0 R_new H). unfold rem_at, all_vals.
  now replace (N - 0) with N by lia.
Qed.

Lemma all_vals_length : zlen all_vals = N.
Proof. unfold all_vals, zlen. rewrite vals_from_length. pose proof (zlen_nonneg objs). unfold zlen in *. lia. Qed.

Lemma vals_from_nth : forall (k : nat) p (i : nat), (i < k)%nat ->
  nth_error (vals_from p k) i = Some (val (p + Z.of_nat i)).
Proof.
  induction k as [|k IH]; intros p i Hi; [lia|].
  destruct i as [|i]; cbn [vals_from nth_error].
  - now replace (p + Z.of_nat 0) with p by lia.
  - rewrite IH by lia. f_equal. f_equal. lia.
Qed.

Lemma all_vals_nth i : 0 <= i < N -> znth all_vals i = Some (val i).
Proof.
  intros Hi. unfold znth, all_vals.
  replace (i <? 0) with false by (symmetry; apply Z.ltb_ge; lia).
  rewrite vals_from_nth by lia. f_equal. f_equal. lia.
Qed.

End Machine.

(* ---- the three instances: values are the one-shot calculations ----------------------- *)
(* osu!: take >= 1 for the constructor (no passed_objects = usize::MAX) *)
Lemma osu_n_diff_full objs take : 0 < take -> osu_n_diff objs take = sat_sub (zlen objs) 1.
Proof.
  intros Ht. unfold osu_n_diff, sat_sub.
  replace (0 <? take) with true by (symmetry; apply Z.ltb_lt; lia). cbn [andb].
  pose proof (zlen_nonneg objs).
  destruct (0 <? zlen objs) eqn:E1, (zlen objs <? 1) eqn:E2; zb; lia.
Qed.

Lemma osu_val_oneshot objs i : 0 <= i < zlen objs ->
  val o_inc oc0 objs i = osu_oneshot S process s0 objs (i + 1).
Proof.
  intros Hi. unfold val, osu_oneshot.
  replace (Z.min (i + 1) (zlen objs)) with (i + 1) by lia.
  rewrite osu_n_diff_full by lia. unfold sat_sub.
  replace (i + 1 <? 1) with false by (symmetry; apply Z.ltb_ge; lia).
  replace (zlen objs <? 1) with false by (symmetry; apply Z.ltb_ge; lia).
  replace (Z.min (i + 1 - 1) (zlen objs - 1)) with i by lia. reflexivity.
Qed.

Lemma catch_val_oneshot evs i : 0 <= i < zlen evs ->
  val c_add cc0 evs i = catch_oneshot S process s0 evs (i + 1).
Proof.
  intros Hi. unfold val, catch_oneshot.
  replace (Z.min (i + 1) (zlen evs)) with (i + 1) by lia. unfold sat_sub.
  replace (i + 1 <? 1) with false by (symmetry; apply Z.ltb_ge; lia).
  replace (i + 1 - 1) with i by lia. reflexivity.
Qed.

Lemma mania_val_oneshot objs i : 0 <= i < zlen objs ->
  val m_inc mc0 objs i = mania_oneshot S process s0 objs (i + 1).
Proof.
  intros Hi. unfold val, mania_oneshot.
  replace (Z.min (i + 1) (zlen objs)) with (i + 1) by lia. unfold sat_sub.
  replace (i + 1 <? 1) with false by (symmetry; apply Z.ltb_ge; lia).
  replace (i + 1 - 1) with i by lia. reflexivity.
Qed.

Lemma mania_n_diff_full objs take : zlen objs <= take ->
  mania_n_diff objs take = sat_sub (zlen objs) 1.
Proof. intros H. unfold mania_n_diff. now replace (Z.min take (zlen objs)) with (zlen objs) by lia. Qed.

End WithSkill.

(* ====================== counts of the one-shot calculations (C14) ====================== *)
Section Counts.
Variable S : Type.
Variable process : S -> Z -> S.
Variable s0 : S.

(* --- generic: the prefix grows with n and is capped by the total --- *)
Lemma ztake_min {A} (l : list A) n : ztake (Z.min n (zlen l)) l = ztake n l.
Proof.
  unfold ztake, zlen. destruct (Z_le_gt_dec n (Z.of_nat (length l))) as [H|H].
  - now replace (Z.min n (Z.of_nat (length l))) with n by lia.
  - replace (Z.min n (Z.of_nat (length l))) with (Z.of_nat (length l)) by lia.
    rewrite Nat2Z.id, firstn_all. symmetry. apply firstn_all2. lia.
Qed.

Lemma ztake_split {A} (l : list A) n m : 0 <= n <= m ->
  exists rest, ztake m l = ztake n l ++ rest.
Proof.
  intros H. unfold ztake.
  replace (Z.to_nat m) with (Z.to_nat n + (Z.to_nat m - Z.to_nat n))%nat by lia.
  exists (firstn (Z.to_nat m - Z.to_nat n) (skipn (Z.to_nat n) l)).
  generalize (Z.to_nat n) as a, (Z.to_nat m - Z.to_nat n)%nat as b. clear.
  intros a. revert l. induction a as [|a IH]; intros l b; cbn; [reflexivity|].
  destruct l as [|x l]; cbn; [now destruct b|]. now rewrite IH.
Qed.

Lemma firstn_In {A} (x : A) n l : In x (firstn n l) -> In x l.
Proof.
  revert l. induction n as [|n IH]; intros [|y l] H; cbn in *; try contradiction.
  destruct H as [->|H]; [now left | right; now apply IH].
Qed.

Lemma ztake_length {A} (l : list A) n : 0 <= n -> zlen (ztake n l) = Z.min n (zlen l).
Proof. intros H. unfold ztake, zlen. rewrite firstn_length. lia. Qed.

(* --- osu! --- *)
Definition okind_ok (k : okind) : Prop :=
  match k with OSlider nested large => 0 <= nested /\ 0 <= large | _ => True end.
Definition oc_le (a b : ocounts) : Prop :=
  oc_c a <= oc_c b /\ oc_s a <= oc_s b /\ oc_l a <= oc_l b /\ oc_sp a <= oc_sp b
  /\ oc_combo a <= oc_combo b.

Lemma o_fold_mono l : Forall okind_ok l -> forall c, oc_le c (fold_left o_inc l c).
Proof.
  induction l as [|k l IH]; intros Hok c; cbn; [unfold oc_le; lia|].
  inversion Hok as [|? ? Hk Hl]; subst. specialize (IH Hl (o_inc c k)).
  unfold oc_le in *. destruct k as [|nested large|]; cbn in *; lia.
Qed.

Lemma o_fold_sum l : forall c,
  oc_c (fold_left o_inc l c) + oc_s (fold_left o_inc l c) + oc_sp (fold_left o_inc l c)
  = oc_c c + oc_s c + oc_sp c + zlen l.
Proof.
  induction l as [|k l IH]; intros c; cbn [fold_left]; [unfold zlen; cbn; lia|].
  rewrite IH. unfold zlen. cbn [length]. destruct k; cbn; lia.
Qed.

Theorem osu_oneshot_counts objs n : 0 <= n ->
  let c := fst (osu_oneshot S process s0 objs n) in
  c = fold_left o_inc (ztake n objs) oc0
  /\ oc_c c + oc_s c + oc_sp c = Z.min n (zlen objs).
Proof.
  intros Hn. cbn zeta. unfold osu_oneshot. cbn [fst]. rewrite ztake_min. split; [reflexivity|].
  rewrite o_fold_sum, ztake_length by lia. cbn. lia.
Qed.

Theorem osu_oneshot_mono objs n m : Forall okind_ok objs -> 0 <= n <= m ->
  oc_le (fst (osu_oneshot S process s0 objs n)) (fst (osu_oneshot S process s0 objs m)).
Proof.
  intros Hok H. unfold osu_oneshot. cbn [fst]. rewrite !ztake_min.
  destruct (ztake_split objs n m H) as [rest Hr]. rewrite Hr, fold_left_app.
  apply o_fold_mono.
  assert (Hin : Forall okind_ok (ztake m objs)).
  { unfold ztake. rewrite Forall_forall in *. intros x Hx. apply Hok.
    apply firstn_In in Hx. exact Hx. }
  rewrite Hr in Hin. apply Forall_app in Hin. tauto.
Qed.

Theorem osu_oneshot_cap objs n m : zlen objs <= n -> zlen objs <= m -> 0 < n -> 0 < m ->
  osu_oneshot S process s0 objs n = osu_oneshot S process s0 objs m.
Proof.
  intros H1 H2 H3 H4. unfold osu_oneshot.
  replace (Z.min n (zlen objs)) with (zlen objs) by lia.
  replace (Z.min m (zlen objs)) with (zlen objs) by lia.
  now rewrite !osu_n_diff_full by lia.
Qed.

(* --- catch --- *)
Definition cc_le (a b : ccounts) : Prop :=
  cc_f a <= cc_f b /\ cc_d a <= cc_d b /\ cc_t a <= cc_t b.

Lemma c_fold_mono l : Forall (fun e : cevent => 0 <= snd e) l ->
  forall c, cc_le c (fold_left c_add l c).
Proof.
  induction l as [|e l IH]; intros Hok c; cbn; [unfold cc_le; lia|].
  inversion Hok as [|? ? He Hl]; subst. specialize (IH Hl (c_add c e)).
  unfold cc_le in *. destruct e as [[|] t]; cbn in *; lia.
Qed.

Lemma c_fold_sum l : forall c,
  cc_f (fold_left c_add l c) + cc_d (fold_left c_add l c) = cc_f c + cc_d c + zlen l.
Proof.
  induction l as [|e l IH]; intros c; cbn [fold_left]; [unfold zlen; cbn; lia|].
  rewrite IH. unfold zlen. cbn [length]. destruct e as [[|] t]; cbn; lia.
Qed.

Theorem catch_oneshot_counts evs n : 0 <= n ->
  let c := fst (catch_oneshot S process s0 evs n) in
  c = fold_left c_add (ztake n evs) cc0 /\ cc_f c + cc_d c = Z.min n (zlen evs).
Proof.
  intros Hn. cbn zeta. unfold catch_oneshot. cbn [fst]. rewrite ztake_min. split; [reflexivity|].
  rewrite c_fold_sum, ztake_length by lia. cbn. lia.
Qed.

Theorem catch_oneshot_mono evs n m : Forall (fun e : cevent => 0 <= snd e) evs -> 0 <= n <= m ->
  cc_le (fst (catch_oneshot S process s0 evs n)) (fst (catch_oneshot S process s0 evs m)).
Proof.
  intros Hok H. unfold catch_oneshot. cbn [fst]. rewrite !ztake_min.
  destruct (ztake_split evs n m H) as [rest Hr]. rewrite Hr, fold_left_app.
  apply c_fold_mono.
  assert (Hin : Forall (fun e : cevent => 0 <= snd e) (ztake m evs)).
  { unfold ztake. rewrite Forall_forall in *. intros x Hx. apply Hok.
    apply firstn_In in Hx. exact Hx. }
  rewrite Hr in Hin. apply Forall_app in Hin. tauto.
Qed.

Theorem catch_oneshot_cap evs n m : zlen evs <= n -> zlen evs <= m ->
  catch_oneshot S process s0 evs n = catch_oneshot S process s0 evs m.
Proof.
  intros H1 H2. unfold catch_oneshot.
  replace (Z.min n (zlen evs)) with (zlen evs) by lia.
  now replace (Z.min m (zlen evs)) with (zlen evs) by lia.
Qed.

(* --- mania --- *)
Definition mc_le (a b : mcounts) : Prop :=
  mc_n a <= mc_n b /\ mc_hold a <= mc_hold b /\ mc_combo a <= mc_combo b.

Lemma m_fold_mono l : Forall (fun o => 0 <= m_combo o) l ->
  forall c, mc_le c (fold_left m_inc l c).
Proof.
  induction l as [|o l IH]; intros Hok c; cbn; [unfold mc_le; lia|].
  inversion Hok as [|? ? Ho Hl]; subst. specialize (IH Hl (m_inc c o)).
  unfold mc_le in *. destruct o as [[|] k]; cbn in *; lia.
Qed.

Lemma m_fold_n l : forall c,
  mc_n (fold_left m_inc l c) = mc_n c + zlen l /\
  mc_hold (fold_left m_inc l c) = mc_hold c + zlen (filter (fun o => negb (m_circle o)) l).
Proof.
  induction l as [|o l IH]; intros c; cbn [fold_left filter]; [unfold zlen; cbn; lia|].
  destruct (IH (m_inc c o)) as [H1 H2]. rewrite H1, H2. unfold zlen.
  destruct o as [[|] k]; cbn; lia.
Qed.

Theorem mania_oneshot_counts objs n : 0 <= n ->
  let c := fst (mania_oneshot S process s0 objs n) in
  mc_n c = Z.min n (zlen objs)
  /\ mc_hold c = zlen (filter (fun o => negb (m_circle o)) (ztake n objs)).
Proof.
  intros Hn. cbn zeta. unfold mania_oneshot. cbn [fst]. rewrite ztake_min.
  destruct (m_fold_n (ztake n objs) mc0) as [H1 H2]. rewrite H1, H2, ztake_length by lia.
  cbn. split; lia.
Qed.

Theorem mania_oneshot_mono objs n m : Forall (fun o => 0 <= m_combo o) objs -> 0 <= n <= m ->
  mc_le (fst (mania_oneshot S process s0 objs n)) (fst (mania_oneshot S process s0 objs m)).
Proof.
  intros Hok H. unfold mania_oneshot. cbn [fst]. rewrite !ztake_min.
  destruct (ztake_split objs n m H) as [rest Hr]. rewrite Hr, fold_left_app.
  apply m_fold_mono.
  assert (Hin : Forall (fun o => 0 <= m_combo o) (ztake m objs)).
  { unfold ztake. rewrite Forall_forall in *. intros x Hx. apply Hok.
    apply firstn_In in Hx. exact Hx. }
  rewrite Hr in Hin. apply Forall_app in Hin. tauto.
Qed.

Theorem mania_oneshot_cap objs n m : zlen objs <= n -> zlen objs <= m ->
  mania_oneshot S process s0 objs n = mania_oneshot S process s0 objs m.
Proof.
  intros H1 H2. unfold mania_oneshot.
  replace (Z.min n (zlen objs)) with (zlen objs) by lia.
  now replace (Z.min m (zlen objs)) with (zlen objs) by lia.
Qed.

(* --- taiko: max_combo = min(take, hits) --- *)
Lemma taiko_inspect_combo flags : forall take combo n, combo <= take ->
  fst (taiko_inspect flags take combo n) = Z.min take (combo + taiko_total_hits flags).
Proof.
  induction flags as [|h tl IH]; intros take combo n Hc; cbn [taiko_inspect].
  - unfold taiko_total_hits, zlen. cbn. lia.
  - assert (Hh : taiko_total_hits (h :: tl) = (if h then 1 else 0) + taiko_total_hits tl).
    { unfold taiko_total_hits, zlen. destruct h; cbn [filter length]; lia. }
    rewrite Hh. pose proof (zlen_nonneg (filter (fun b : bool => b) tl)) as Hnn.
    fold (taiko_total_hits tl) in Hnn.
    destruct (combo <? take) eqn:E; zb.
    + rewrite IH by (destruct h; lia). destruct h; lia.
    + rewrite IH by lia. destruct h; lia.
Qed.

Lemma taiko_total_hits_nonneg flags : 0 <= taiko_total_hits flags.
Proof. unfold taiko_total_hits. apply zlen_nonneg. Qed.

Theorem taiko_oneshot_combo flags take : 0 <= take -> taiko_total_hits flags < U32_MAX ->
  fst (taiko_oneshot S process s0 flags take) = Z.min take (taiko_total_hits flags).
Proof.
  intros Ht Hsmall. unfold taiko_oneshot, taiko_create.
  pose proof (taiko_total_hits_nonneg flags) as Hnn.
  assert (Ht' : 0 <= taiko_take flags take).
  { unfold taiko_take, U32_MAX. destruct (_ && _); lia. }
  pose proof (taiko_inspect_combo flags (taiko_take flags take) 0 0 Ht') as H.
  assert (Hmin : Z.min (taiko_take flags take) (0 + taiko_total_hits flags) = Z.min take (taiko_total_hits flags)).
  { unfold taiko_take. destruct (0 <? taiko_total_hits flags) eqn:E1, (taiko_total_hits flags <=? take) eqn:E2;
      cbn [andb]; zb; unfold U32_MAX in *; lia. }
  rewrite Hmin in H.
  destruct (taiko_inspect flags (taiko_take flags take) 0 0) as [combo n]. cbn [fst] in H.
  destruct (zlen flags <? 2); cbn [fst]; lia.
Qed.

(* the fix for F6c: once every hit has been passed the whole map has been passed — the value for
   take = hits is the value of the unlimited calculation (and of every take beyond) *)
Theorem taiko_final_is_full flags take : 0 < taiko_total_hits flags -> taiko_total_hits flags <= take ->
  taiko_oneshot S process s0 flags take = taiko_oneshot S process s0 flags (taiko_total_hits flags).
Proof.
  intros Hpos Hge. unfold taiko_oneshot, taiko_create.
  assert (E : taiko_take flags take = taiko_take flags (taiko_total_hits flags)).
  { unfold taiko_take.
    replace (0 <? taiko_total_hits flags) with true by (symmetry; apply Z.ltb_lt; lia).
    replace (taiko_total_hits flags <=? take) with true by (symmetry; apply Z.leb_le; lia).
    replace (taiko_total_hits flags <=? taiko_total_hits flags) with true by (symmetry; apply Z.leb_le; lia).
    reflexivity. }
  rewrite E. reflexivity.
Qed.

End Counts.

(* ====================== instances: gradual = plain iterator over one-shot values ====== *)
Section Instances.
Variable S : Type.
Variable process : S -> Z -> S.
Variable s0 : S.

Definition nth_ok (o : gop) : Prop := match o with GNth n => 0 <= n | _ => True end.

Lemma vals_from_map {Obj Cnt} (inc : Cnt -> Obj -> Cnt) c0 objs : forall k p,
  vals_from S process s0 inc c0 objs p k
  = map (fun i => val S process s0 inc c0 objs (i - 1)) (zrange (p + 1) k).
Proof.
  induction k as [|k IH]; intros p; cbn [vals_from zrange map]; [reflexivity|].
  rewrite IH. f_equal. f_equal. lia.
Qed.

Lemma zrange_bounds : forall k start i, In i (zrange start k) -> start <= i < start + Z.of_nat k.
Proof.
  induction k as [|k IH]; intros start i H; cbn in H; [contradiction|].
  destruct H as [<-|H]; [lia|]. specialize (IH _ _ H). lia.
Qed.

(* the list of one-shot results for passed_objects = 1 .. total *)
Definition oneshots {A} (f : Z -> A) (total : Z) : list A := map f (zrange 1 (Z.to_nat total)).

Lemma all_vals_oneshots {Obj Cnt} (inc : Cnt -> Obj -> Cnt) c0 (objs : list Obj)
      (f : Z -> Cnt * S) :
  (forall i, 0 <= i < zlen objs -> val S process s0 inc c0 objs i = f (i + 1)) ->
  all_vals S process s0 inc c0 objs = oneshots f (zlen objs).
Proof.
  intros H. unfold all_vals, oneshots. rewrite vals_from_map. apply map_ext_in.
  intros i Hi. apply zrange_bounds in Hi. pose proof (zlen_nonneg objs).
  rewrite H by lia. f_equal. lia.
Qed.

Theorem osu_gradual_refines (objs : list okind) (take : Z) ops :
  0 < take -> Forall nth_ok ops ->
  run_gops (osu_next S process objs take) (osu_nth S process objs take)
           (osu_len S objs take) (fun v => v) ops (osu_new S s0 objs)
  = spec_gops (oneshots (osu_oneshot S process s0 objs) (zlen objs)) ops.
Proof.
  intros Ht Hops. unfold osu_next, osu_nth, osu_len, osu_new.
  rewrite (osu_n_diff_full objs take Ht).
  rewrite (gradual_refines_iter S process s0 o_inc oc0 true objs ops Hops).
  f_equal. apply all_vals_oneshots. intros i Hi. now apply osu_val_oneshot.
Qed.

Theorem catch_gradual_refines (evs : list cevent) ops :
  Forall nth_ok ops ->
  run_gops (catch_next S process evs) (catch_nth S process evs)
           (catch_len S evs) (fun v => v) ops (catch_new S s0 evs)
  = spec_gops (oneshots (catch_oneshot S process s0 evs) (zlen evs)) ops.
Proof.
  intros Hops. unfold catch_next, catch_nth, catch_len, catch_new, catch_n_diff.
  rewrite (gradual_refines_iter S process s0 c_add cc0 false evs ops Hops).
  f_equal. apply all_vals_oneshots. intros i Hi. now apply catch_val_oneshot.
Qed.

Theorem mania_gradual_refines (objs : list mobj) (take : Z) ops :
  zlen objs <= take -> Forall nth_ok ops ->
  run_gops (mania_next S process objs take) (mania_nth S process objs take)
           (mania_len S objs take) (fun v => v) ops (mania_new S s0 objs)
  = spec_gops (oneshots (mania_oneshot S process s0 objs) (zlen objs)) ops.
Proof.
  intros Ht Hops. unfold mania_next, mania_nth, mania_len, mania_new.
  rewrite (mania_n_diff_full objs take Ht).
  rewrite (gradual_refines_iter S process s0 m_inc mc0 true objs ops Hops).
  f_equal. apply all_vals_oneshots. intros i Hi. now apply mania_val_oneshot.
Qed.

(* consequences spelled out: number of values, i-th value, final value *)
Lemma oneshots_length {A} (f : Z -> A) total : 0 <= total -> zlen (oneshots f total) = total.
Proof.
  intros H. unfold oneshots, zlen. rewrite map_length.
  assert (Hl : forall k s, length (zrange s k) = k) by (induction k; intros; cbn; auto).
  rewrite Hl. lia.
Qed.

Lemma oneshots_last {A} (f : Z -> A) total (dflt : A) : 0 < total ->
  last (oneshots f total) dflt = f total.
Proof.
  intros H. unfold oneshots.
  replace (Z.to_nat total) with (Datatypes.S (Z.to_nat (total - 1))) by lia.
  rewrite zrange_snoc, map_app. cbn [map]. rewrite last_last. f_equal. lia.
Qed.

(* plain iteration: len, then next until exhaustion *)
Fixpoint spec_plain {V} (rem : list V) : list (gout V) :=
  match rem with
  | [] => [GLen 0; GNone]
  | v :: r => GLen (Z.of_nat (length rem)) :: GSome v :: spec_plain r
  end.
Fixpoint plain_ops (k : nat) : list gop :=
  match k with
  | O => [GLenOp; GNext]
  | Datatypes.S k' => GLenOp :: GNext :: plain_ops k'
  end.

Lemma spec_plain_ops {V} (rem : list V) :
  spec_gops rem (plain_ops (length rem)) = spec_plain rem.
Proof.
  induction rem as [|v r IH]; [reflexivity|].
  cbn [length plain_ops spec_gops spec_plain]. now rewrite IH.
Qed.

End Instances.

(* ====================== taiko ========================================================== *)
(* skill state = list of processed difficulty-object indices *)
Definition taiko_run (flags : list bool) (ops : list gop) :=
  run_gops (taiko_next (list Z) trace_process flags) (taiko_nth (list Z) trace_process flags)
           (taiko_len (list Z) flags) (fun c => c) ops (taiko_new (list Z) []).
Definition taiko_spec (flags : list bool) (ops : list gop) :=
  spec_gops (oneshots (taiko_oneshot (list Z) trace_process [] flags) (taiko_total_hits flags)) ops.

(* trailing non-hit objects (former finding F6c, fixed): the final gradual value (= one-shot with
   all hits passed) now includes the objects after the last hit, like the unlimited calculation *)
Example taiko_trailing_now_ok :
  let flags := [true; true; true; false] in
  taiko_oneshot (list Z) trace_process [] flags USIZE_MAX
  = taiko_oneshot (list Z) trace_process [] flags (taiko_total_hits flags)
  /\ taiko_run flags [GNext; GNext; GNext; GNext] = taiko_spec flags [GNext; GNext; GNext; GNext].
Proof. vm_compute. split; reflexivity. Qed.

(* the maps of the former findings F6a / F6b now behave like the reference iterator *)
Example taiko_first_not_hit_ok :
  taiko_run [false; true; true; true] [GLenOp; GNext; GNext; GNext; GNext; GLenOp]
  = taiko_spec [false; true; true; true] [GLenOp; GNext; GNext; GNext; GNext; GLenOp].
Proof. vm_compute. reflexivity. Qed.
Example taiko_short_map_ok : taiko_run [true; true] [GLenOp; GNext; GNth 5] = taiko_spec [true; true] [GLenOp; GNext; GNth 5].
Proof. vm_compute. reflexivity. Qed.

(* the refinement theorems take one initial skill state s0 for the gradual and the one-shot
   calculation: the constructors build it from the same values (facts re-read from the source) *)
Theorem tables_setup_facts : forallb snd Tables.setup_facts = true /\ (4 <= length Tables.setup_facts)%nat.
Proof. vm_compute. split; [reflexivity|repeat constructor]. Qed.
