(* Proofs/BananaProofs.v — the banana-shower loop makes progress (C05).
   With the fix every iteration either stops or moves `time` to a strictly larger f32 value; the
   loop therefore visits strictly increasing f32 values not above `end_time`, of which there are
   finitely many (at most 2^32) — so it terminates on every input.  The first half is the theorem
   below (for every fuel, i.e. every prefix of the real execution); the counting step "finitely
   many f32 values" is not formalised (partial). *)
From Coq Require Import ZArith List Bool Lia Floats.
From V Require Import F64 F32 Banana.
Import ListNotations.
Open Scope Z_scope.

(* the times visited by the loop, in order *)
Fixpoint visited (fuel : nat) (time end_time spacing : float) : list float :=
  match fuel with
  | O => []
  | S f =>
      if PrimFloat.leb time end_time then
        let next := f32_add time spacing in
        if PrimFloat.leb next time then [time]
        else time :: visited f next end_time spacing
      else []
  end.

(* consecutive visited times strictly increase (IEEE <), and each is <= end_time *)
Fixpoint increasing (l : list float) : Prop :=
  match l with
  | a :: ((b :: _) as tl) => PrimFloat.leb b a = false /\ increasing tl
  | _ => True
  end.

Theorem visited_increasing : forall fuel time end_time spacing,
  increasing (visited fuel time end_time spacing) /\
  Forall (fun t => PrimFloat.leb t end_time = true) (visited fuel time end_time spacing).
Proof.
  induction fuel as [|f IH]; intros time e sp; cbn [visited]; [split; [exact I|constructor]|].
  destruct (PrimFloat.leb time e) eqn:E1; [|split; [exact I|constructor]].
  destruct (PrimFloat.leb (f32_add time sp) time) eqn:E2.
  - split; [exact I|]. constructor; [exact E1|constructor].
  - destruct (IH (f32_add time sp) e sp) as [Hi Hf]. split.
    + cbn [increasing]. destruct (visited f (f32_add time sp) e sp) as [|b tl] eqn:Ev; [exact I|].
      split; [|exact Hi].
      (* b is the head of the recursive call, i.e. f32_add time sp *)
      destruct f as [|f']; [discriminate|]. cbn [visited] in Ev.
      destruct (PrimFloat.leb (f32_add time sp) e); [|discriminate].
      destruct (PrimFloat.leb (f32_add (f32_add time sp) sp) (f32_add time sp)); injection Ev as <- _; exact E2.
    + constructor; [exact E1|exact Hf].
Qed.

(* the count the loop returns is the number of visited times *)
Theorem count_is_visited : forall fuel time e sp c0,
  snd (count_loop fuel time e sp c0) = true ->
  fst (count_loop fuel time e sp c0) = c0 + Z.of_nat (length (visited fuel time e sp)).
Proof.
  induction fuel as [|f IH]; intros time e sp c0; cbn [count_loop visited]; [discriminate|].
  destruct (PrimFloat.leb time e); [|cbn; lia].
  destruct (PrimFloat.leb (f32_add time sp) time); [cbn; lia|].
  intros H. rewrite (IH _ _ _ _ H). cbn [length]. lia.
Qed.

(* the reported hang: a spinner from 2147483500 to 2147483647 — the model (like the fixed code)
   returns after one iteration *)
Example banana_former_hang : n_bananas 10 2147483500 2147483647 = (2, true, true).
Proof. vm_compute. reflexivity. Qed.
Example banana_ordinary : n_bananas 100 1000 2000 = (17, true, true).
Proof. vm_compute. reflexivity. Qed.
