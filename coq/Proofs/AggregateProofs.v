(* Proofs/AggregateProofs.v — the rating computed internally from the compact strain list
   equals the documented re-aggregation of the exported peaks; the number of exported
   peaks does not depend on the skill. *)
From Coq Require Import ZArith List Bool Lia Floats.
From V Require Import F64 StrainsVec StrainsVecProofs Aggregate Gradual Sections.
Import ListNotations.
Open Scope Z_scope.

(* ---- re-aggregation ------------------------------------------------------------------ *)
Lemma filter_gt_zero_nonzero l :
  forallb strain_ok l = true -> filter gt_zero_bits l = filter nonzero l.
Proof.
  intros H. apply filter_ext_in. intros x Hx. rewrite forallb_forall in H.
  specialize (H x Hx). unfold strain_ok, gt_zero_bits, nonzero in *.
  apply andb_true_iff in H. destruct H as [H0 H1].
  apply Z.leb_le in H0. apply Z.leb_le in H1.
  destruct (x =? 0) eqn:E.
  - apply Z.eqb_eq in E. subst. reflexivity.
  - apply Z.eqb_neq in E. cbn. apply andb_true_iff. split; [apply Z.ltb_lt | apply Z.leb_le]; lia.
Qed.

(* for every reachable state whose elements are what skills push (+0, positive finite or
   +inf), `difficulty_value` on the internal vector = the documented procedure on the
   exported vector: drop zeros, sort descending, weighted sum *)
Theorem reaggregate_eq decay s :
  Inv s -> forallb strain_ok (abs s) = true ->
  exists exported, into_vec s = Some exported /\
    difficulty_value decay s = Some (reaggregate decay exported).
Proof.
  intros HI Hok. exists (abs s). split; [now apply into_vec_spec|].
  unfold difficulty_value, reaggregate, retain_non_zero_and_sort.
  destruct (retain_spec s HI) as (HI1 & Habs1 & Hv1).
  destruct (sort_spec _ HI1 Hv1) as (HI2 & Habs2 & Hv2).
  unfold transmute_into_vec. rewrite Hv2. f_equal. f_equal.
  unfold abs in Habs2 at 1. rewrite (abs_list_values _ Hv2) in Habs2. rewrite Habs2, Habs1.
  now rewrite filter_gt_zero_nonzero.
Qed.

(* the same for the flashlight skill, whose difficulty value is the plain sum *)
Theorem flashlight_sum_eq s :
  Inv s -> forallb strain_ok (abs s) = true ->
  sum s = fsum (filter gt_zero_bits (abs s)).
Proof.
  intros [Hwf _] Hok. unfold sum, values_of.
  destruct (retain_abs_list _ Hwf) as [H1 H2]. rewrite <- H2, H1.
  now rewrite filter_gt_zero_nonzero.
Qed.

(* ---- section counting is skill independent ------------------------------------------ *)
Section SkillIndep.
Variable St : Type.
Variable strain_value_at : St -> Z -> float * St.
Variable initial_strain : St -> float -> Z -> float.

Notation skill_while := (skill_while St initial_strain).
Notation skill_process := (skill_process St strain_value_at initial_strain).

Lemma skill_while_count : forall fuel L t idx s n,
  match skill_while fuel L t idx s, sec_while fuel L t (k_end St s) n with
  | Some s', Some (e, n') => k_end St s' = e /\
        Z.of_nat (length (k_peaks St s')) = Z.of_nat (length (k_peaks St s)) + (n' - n)
  | None, None => True
  | _, _ => False
  end.
Proof.
  induction fuel as [|fuel IH]; intros L t idx s n; cbn [Sections.skill_while sec_while]; [exact I|].
  destruct (PrimFloat.ltb (k_end St s) t).
  - specialize (IH L t idx
      (mk_skill St (k_end St s + L)%float (initial_strain (k_st St s) (k_end St s) idx)
                (k_peaks St s ++ [k_peak St s]) (k_st St s)) (n + 1)).
    cbn [k_end k_peaks] in IH.
    destruct (skill_while fuel L t idx _) as [s'|];
      destruct (sec_while fuel L t (k_end St s + L) (n + 1)) as [[e n']|]; try exact IH.
    destruct IH as [He Hl]. split; [exact He|]. rewrite Hl, app_length. cbn. lia.
  - split; [reflexivity | lia].
Qed.

Lemma skill_process_count L os st it :
  (match os, st with
   | Some s, Some (e, n) => k_end St s = e /\ Z.of_nat (length (k_peaks St s)) = n
   | None, None => True
   | _, _ => False end) ->
  match skill_process L os it, sec_step L st it with
  | Some s, Some (e, n) => k_end St s = e /\ Z.of_nat (length (k_peaks St s)) = n
  | None, None => True
  | _, _ => False
  end.
Proof.
  destruct os as [s|], st as [[e n]|]; try contradiction; try (intros; exact I).
  intros [He Hn]. destruct it as [idx t]. cbn [Sections.skill_process sec_step].
  subst e.
  set (end_ := if idx =? 0 then (fceil (t / L) * L)%float else k_end St s).
  pose proof (skill_while_count (sec_fuel L t end_) L t idx
                (mk_skill St end_ (k_peak St s) (k_peaks St s) (k_st St s)) n) as H.
  cbn [k_end k_peaks] in H.
  destruct (skill_while _ L t idx _) as [s'|]; destruct (sec_while _ L t end_ n) as [[e' n']|];
    try contradiction; try exact I.
  destruct H as [He' Hl]. destruct (strain_value_at (k_st St s') idx) as [v st'].
  cbn [k_end k_peaks]. split; [exact He' | lia].
Qed.

(* whatever the strain functions are, the exported peak list has exactly
   `section_count` entries: all skills of a mode report the same number of sections *)
Theorem section_count_skill_independent L st0 times :
  match skill_export St strain_value_at initial_strain L st0 times, section_count L times with
  | Some peaks, Some n => Z.of_nat (length peaks) = n
  | None, None => True
  | _, _ => False
  end.
Proof.
  unfold skill_export, section_count.
  assert (H : forall its os st,
    (match os, st with
     | Some s, Some (e, n) => k_end St s = e /\ Z.of_nat (length (k_peaks St s)) = n
     | None, None => True
     | _, _ => False end) ->
    match fold_left (skill_process L) its os, fold_left (sec_step L) its st with
    | Some s, Some (e, n) => k_end St s = e /\ Z.of_nat (length (k_peaks St s)) = n
    | None, None => True
    | _, _ => False
    end).
  { induction its as [|it its IH]; intros os st Hr; cbn [fold_left]; [exact Hr|].
    apply IH. now apply skill_process_count. }
  specialize (H (combine (zrange 0 (length times)) times)
                (Some (mk_skill St 0%float 0%float [] st0)) (Some (0%float, 0))).
  cbn [k_end k_peaks length] in H. specialize (H (conj eq_refl eq_refl)).
  destruct (fold_left (skill_process L) _ _) as [s|];
    destruct (fold_left (sec_step L) _ _) as [[e n]|]; try contradiction; try exact I.
  destruct H as [_ Hn]. rewrite app_length. cbn. lia.
Qed.
End SkillIndep.

(* non-vacuity: three objects 1 s apart at t = 100, 1100, 2100 (section length 400) *)
Example section_count_example :
  section_count 400%float [100%float; 1100%float; 2100%float] = Some 6.
Proof. vm_compute. reflexivity. Qed.
