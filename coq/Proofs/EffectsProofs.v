(* Proofs/EffectsProofs.v — the inventory of ambient-effect sites (hash iteration, statics,
   thread-locals, lazy initialisation, interior mutability, clocks, environment, ambient RNGs,
   file system, addresses) that tools/extract.py regenerates from every non-test source file is
   covered: each site is one of the few listed here, each with the reason it cannot make a
   result depend on anything but the inputs.  A new site (or more occurrences in a listed
   file) makes `effects_covered` false, i.e. breaks this obligation (C01, C20). *)
From Coq Require Import String List Bool ZArith.
From V Require Import Tables.
Import ListNotations.
Open Scope string_scope.

(* (file, kind, occurrences allowed) *)
Definition allowed_effects : list (string * string * Z) :=
  [ (* the HashMap of BeatLenDuration: BpmProofs.bpm_any_iteration_order *)
    ("src/model/beatmap/bpm.rs", "hash-iteration", 3%Z);
    (* Beatmap::from_path and its doc: the file's content IS the input *)
    ("src/model/beatmap/mod.rs", "filesystem", 2%Z);
    (* `static COMMON_RATIOS: [f64; 9]`: an immutable table of constants *)
    ("src/taiko/difficulty/rhythm/rhythm_data.rs", "static", 1%Z);
    (* Rc<RefCell>/Arc<RwLock> cells of the taiko object graph: created and dropped inside one
       calculation, never shared between calculations (C10/C20 cell model) *)
    ("src/util/sync.rs", "interior-mutability", 12%Z) ].

Definition site_allowed (s : string * string * Z) : bool :=
  let '(file, kind, n) := s in
  existsb (fun a => let '(f, k, m) := a in String.eqb f file && String.eqb k kind && Z.leb n m) allowed_effects.
Definition effects_covered (sites : list (string * string * Z)) : bool := forallb site_allowed sites.

Lemma tables_effects_covered : effects_covered effect_sites = true.
Proof. vm_compute. reflexivity. Qed.

(* kinds that are never allowed anywhere *)
Definition never_allowed : list string :=
  ["static-mut"; "thread-local"; "lazy-init"; "clock"; "environment"; "ambient-rng"; "address"].
Lemma tables_no_forbidden_kinds :
  forallb (fun s => negb (existsb (String.eqb (snd (fst s))) never_allowed)) effect_sites = true.
Proof. vm_compute. reflexivity. Qed.

(* cfg(feature) sites: only the two `inner` modules (C10) *)
Definition allowed_features : list (string * string) :=
  [("src/util/strains_vec.rs", "raw_strains"); ("src/util/sync.rs", "sync")].
Definition features_covered (sites : list (string * string)) : bool :=
  forallb (fun s => existsb (fun a => String.eqb (fst a) (fst s) && String.eqb (snd a) (snd s)) allowed_features) sites.
Lemma tables_features_covered : features_covered feature_sites = true.
Proof. vm_compute. reflexivity. Qed.

(* unsafe code lives in these files only (C11) *)
Definition allowed_unsafe : list (string * Z) :=
  [("src/any/difficulty/mod.rs", 1%Z); ("src/any/difficulty/skills.rs", 1%Z);
   ("src/model/beatmap/decode.rs", 1%Z); ("src/osu/difficulty/gradual.rs", 5%Z);  (* transmute + NonNull owner: 2 unsafe impl, as_mut, Box::from_raw (fix 4077c30) *)
   ("src/osu/difficulty/skills/strain.rs", 1%Z); ("src/taiko/difficulty/gradual.rs", 1%Z);
   ("src/util/strains_vec.rs", 12%Z)].
Definition unsafe_covered (sites : list (string * Z)) : bool :=
  forallb (fun s => existsb (fun a => String.eqb (fst a) (fst s) && Z.leb (snd s) (snd a)) allowed_unsafe) sites.
Lemma tables_unsafe_covered : unsafe_covered unsafe_sites = true.
Proof. vm_compute. reflexivity. Qed.
