(* Proofs/CRngProofs.v - .NET generator (the Random mods): every raw sample lies in [0, i32::MAX) for every
   generator state whose table entries lie in [-1, i32::MAX), that state invariant is kept by every
   operation, and it holds after seeding with any 32-bit seed.  Hence no i32 subtraction in `sample`
   overflows and next_max's hypothesis (NextMaxProofs) is met in every reachable state. *)
From Coq Require Import ZArith List Lia Bool.
From V Require Import Tables F64 Prng NextMaxProofs.
Import ListNotations.
Open Scope Z_scope.

Definition P2 (v : Z) : Prop := -1 <= v < I32_MAX.
Definition CInv (s : crng) : Prop := Forall P2 (carr s).

Lemma set_nth_Forall : forall (P : Z -> Prop) l i v, Forall P l -> P v -> Forall P (set_nth l i v).
Proof.
  intros P l; induction l as [|a r IH]; intros i v Hl Hv; cbn [set_nth].
  - destruct i; constructor.
  - inversion Hl as [|? ? Ha Hr]; subst. destruct i as [|i']; constructor; auto.
Qed.
Lemma set_Forall : forall (P : Z -> Prop) l i v, Forall P l -> P v -> Forall P (set l i v).
Proof. intros; unfold set; apply set_nth_Forall; assumption. Qed.
Lemma get_Forall : forall (P : Z -> Prop) l i, Forall P l -> P 0 -> P (get l i).
Proof.
  intros P l i Hl H0; unfold get.
  destruct (nth_in_or_default (Z.to_nat i) l 0) as [Hin|Hd].
  - rewrite Forall_forall in Hl; apply Hl; exact Hin.
  - rewrite Hd; exact H0.
Qed.

Lemma P2_0 : P2 0.
Proof. unfold P2, I32_MAX; lia. Qed.

Theorem csample_int_range : forall s, CInv s ->
  0 <= fst (csample_int s) < I32_MAX /\ CInv (snd (csample_int s)).
Proof.
  intros s H; unfold csample_int, CInv in *; cbn [fst snd carr].
  set (i := if 56 <=? cnext s + 1 then 1 else cnext s + 1).
  set (p := if 56 <=? cnextp s + 1 then 1 else cnextp s + 1).
  pose proof (get_Forall P2 (carr s) i H P2_0) as Ha.
  pose proof (get_Forall P2 (carr s) p H P2_0) as Hb.
  set (a := get (carr s) i) in *. set (b := get (carr s) p) in *.
  unfold P2, I32_MAX in *.
  assert (Hr : 0 <= (let r := a - b in let r := if r =? 2147483647 then r - 1 else r in
                if r <? 0 then r + 2147483647 else r) < 2147483647).
  { cbv zeta. destruct (a - b =? 2147483647) eqn:E1.
    - apply Z.eqb_eq in E1. destruct (a - b - 1 <? 0) eqn:E2; [apply Z.ltb_lt in E2|apply Z.ltb_ge in E2]; lia.
    - apply Z.eqb_neq in E1. destruct (a - b <? 0) eqn:E2; [apply Z.ltb_lt in E2|apply Z.ltb_ge in E2]; lia. }
  cbv zeta in Hr. split; [exact Hr|].
  apply set_Forall; [exact H|]. unfold P2, I32_MAX; lia.
Qed.


(* every operation sequence from a state that meets the invariant: plain samples lie in [0, i32::MAX),
   next_max(max) in [0, max) *)
Definition cop_ok (o : cop) : Prop := match o with CNext => True | CMax m => 1 <= m <= 2 ^ 20 end.
Definition cout_ok (o : cop) (v : Z) : Prop :=
  match o with CNext => 0 <= v < I32_MAX | CMax m => 0 <= v < m end.
Theorem crun_range : forall ops s, CInv s -> Forall cop_ok ops -> Forall2 cout_ok ops (crun s ops).
Proof.
  induction ops as [|o r IH]; intros s Hs Hops; cbn [crun]; [constructor|].
  inversion Hops as [|? ? Ho Hr]; subst.
  pose proof (csample_int_range s Hs) as (Hrange & Hinv).
  destruct o as [|m]; cbn [cstep].
  - destruct (csample_int s) as (v, s') eqn:E; cbn [fst snd] in *.
    constructor; [exact Hrange|apply IH; assumption].
  - unfold cnext_max. destruct (csample_int s) as (v, s') eqn:E; cbn [fst snd] in *.
    constructor; [|apply IH; assumption].
    cbn [cout_ok cop_ok] in *. apply next_max_range; [unfold I32_MAX in Hrange; exact Hrange|exact Ho].
Qed.

(* executable form of the invariant (used on the seeds of the correspondence cases) *)
Lemma cinvb_sound : forall s, cinvb s = true -> CInv s.
Proof.
  intros s H; unfold cinvb, CInv in *. rewrite forallb_forall in H. apply Forall_forall. intros v Hv.
  specialize (H v Hv). apply andb_true_iff in H as (H1 & H2). apply Z.leb_le in H1. apply Z.ltb_lt in H2.
  unfold P2; lia.
Qed.
Example cinv_some_seeds : forallb (fun seed => cinvb (cnew seed)) [0; 1; 42; -1; 1337; 2147483647; -2147483648] = true.
Proof. vm_compute. reflexivity. Qed.

(* ---- seeding, every 32-bit seed: entries end in [-1, i32::MAX] (closed) ---- *)
Lemma length_set_nth : forall l i v, length (set_nth l i v) = length l.
Proof. intros l; induction l as [|a r IH]; intros i v; destruct i; cbn [set_nth length]; auto. Qed.
Lemma nth_set_nth_same : forall l i v d, (i < length l)%nat -> nth i (set_nth l i v) d = v.
Proof.
  intros l; induction l as [|a r IH]; intros i v d Hi; cbn [length] in Hi; [lia|].
  destruct i as [|i']; cbn [set_nth nth]; [reflexivity|]. apply IH; lia.
Qed.
Lemma nth_set_nth_other : forall l i j v d, i <> j -> nth j (set_nth l i v) d = nth j l d.
Proof.
  intros l; induction l as [|a r IH]; intros i j v d Hne; cbn [set_nth]; [destruct i; reflexivity|].
  destruct i as [|i']; destruct j as [|j']; cbn [nth]; try reflexivity; try lia. apply IH; lia.
Qed.

Definition P3 (v : Z) : Prop := -1 <= v <= I32_MAX.
Definition P0 (v : Z) : Prop := 0 <= v < I32_MAX.
Definition P1 (v : Z) : Prop := -1985680249 <= v < I32_MAX.
Definition StageA (arr : list Z) : Prop :=
  length arr = 56%nat /\ (forall j, (j < 55)%nat -> P0 (nth j arr 0)) /\ P1 (nth 55 arr 0).

Lemma cinit1_stage : forall fuel arr ii mj mk, StageA arr -> 0 <= ii < 55 -> P0 mk ->
  - I32_MAX <= mj - mk < I32_MAX -> StageA (cinit1 fuel arr ii mj mk).
Proof.
  induction fuel as [|f IH]; intros arr ii mj mk HA Hii Hmk HQ; cbn [cinit1]; [exact HA|].
  set (ii1 := if 55 <=? ii + 21 then ii + 21 - 55 else ii + 21).
  assert (Hii1 : 0 <= ii1 < 55).
  { unfold ii1; destruct (55 <=? ii + 21) eqn:E; [apply Z.leb_le in E|apply Z.leb_gt in E]; lia. }
  destruct HA as (Hlen & Hlow & H55).
  assert (Hn : (Z.to_nat ii1 < 55)%nat) by lia.
  assert (HA' : StageA (set arr ii1 mk)).
  { unfold StageA, set. rewrite length_set_nth. split; [exact Hlen|]. split.
    - intros j Hj. destruct (Nat.eq_dec (Z.to_nat ii1) j) as [E|E].
      + subst j. rewrite nth_set_nth_same by lia. exact Hmk.
      + rewrite nth_set_nth_other by exact E. apply Hlow; exact Hj.
    - rewrite nth_set_nth_other by lia. exact H55. }
  assert (Hget : get (set arr ii1 mk) ii1 = mk).
  { unfold get, set. apply nth_set_nth_same. lia. }
  rewrite Hget.
  apply IH; [exact HA'|exact Hii1| |].
  - unfold P0, I32_MAX in *. destruct (mj - mk <? 0) eqn:E; [apply Z.ltb_lt in E|apply Z.ltb_ge in E]; lia.
  - unfold P0, I32_MAX in *. destruct (mj - mk <? 0) eqn:E; [apply Z.ltb_lt in E|apply Z.ltb_ge in E]; lia.
Qed.

Lemma wrap_fix_P3 : forall z, P3 (let v := wrap_i32 z in if v <? 0 then v + I32_MAX else v).
Proof.
  intros z; cbv zeta; unfold wrap_i32.
  pose proof (Z.mod_pos_bound (z + M31) M32 ltac:(unfold M32; lia)) as Hm.
  set (m := (z + M31) mod M32) in *. unfold P3, M31, M32, I32_MAX in *.
  destruct (m - 2147483648 <? 0) eqn:E; [apply Z.ltb_lt in E|apply Z.ltb_ge in E]; lia.
Qed.

Lemma csweep_Forall : forall is_ arr, Forall P3 arr -> Forall P3 (csweep is_ arr).
Proof.
  induction is_ as [|i r IH]; intros arr H; cbn [csweep]; [exact H|].
  apply IH. apply set_Forall; [exact H|]. apply wrap_fix_P3.
Qed.

Lemma csweep_first : forall is_ arr (G : nat -> Prop), length arr = 56%nat ->
  (forall j, (j < 56)%nat -> G j -> P3 (nth j arr 0)) ->
  length (csweep is_ arr) = 56%nat /\
  (forall j, (j < 56)%nat -> G j \/ In (Z.of_nat j) is_ -> P3 (nth j (csweep is_ arr) 0)).
Proof.
  induction is_ as [|i r IH]; intros arr G Hlen HG; cbn [csweep].
  - split; [exact Hlen|]. intros j Hj [Hg|[]]. apply HG; assumption.
  - set (n := if 55 <=? i + 30 then i + 30 - 55 else i + 30).
    set (v := let v := wrap_i32 (get arr i - get arr (1 + n)) in if v <? 0 then v + I32_MAX else v).
    assert (Hv : P3 v) by apply wrap_fix_P3.
    destruct (IH (set arr i v) (fun j => G j \/ Z.of_nat j = i)) as (Hl' & Hall).
    + unfold set; rewrite length_set_nth; exact Hlen.
    + intros j Hj [Hg|He]; unfold set.
      * destruct (Nat.eq_dec (Z.to_nat i) j) as [E|E].
        -- subst j. rewrite nth_set_nth_same by lia. exact Hv.
        -- rewrite nth_set_nth_other by exact E. apply HG; assumption.
      * assert (E : Z.to_nat i = j) by lia. subst j. rewrite nth_set_nth_same by lia. exact Hv.
    + split; [exact Hl'|]. intros j Hj [Hg|[He|Hin]]; apply Hall; auto.
Qed.

Lemma P0_P3 : forall v, P0 v -> P3 v.
Proof. unfold P0, P3; intros; lia. Qed.

Theorem cnew_weak_inv : forall seed, - M31 <= seed < M31 -> Forall P3 (carr (cnew seed)).
Proof.
  intros seed Hs; unfold cnew; cbn [carr].
  set (sub := if seed =? - M31 then I32_MAX else Z.abs seed).
  assert (Hsub : 0 <= sub <= I32_MAX).
  { unfold sub. destruct (Z.eqb_spec seed (- M31)) as [E|E]; unfold M31, I32_MAX in *; lia. }
  set (mj := 161803398 - sub).
  assert (HA0 : StageA (set (repeat 0 56) 55 mj)).
  { unfold StageA, set. rewrite length_set_nth, repeat_length. split; [reflexivity|]. split.
    - intros j Hj. rewrite nth_set_nth_other by lia.
      destruct (nth_in_or_default j (repeat 0 56) 0) as [Hin|Hd].
      + apply repeat_spec in Hin. rewrite Hin. unfold P0, I32_MAX; lia.
      + rewrite Hd. unfold P0, I32_MAX; lia.
    - change (Z.to_nat 55) with 55%nat. rewrite nth_set_nth_same by (rewrite repeat_length; lia).
      unfold P1, mj, I32_MAX in *. lia. }
  pose proof (cinit1_stage 54 _ 0 mj 1 HA0 ltac:(lia) ltac:(unfold P0, I32_MAX; lia)
                ltac:(unfold mj, I32_MAX in *; lia)) as (Hlen & Hlow & _).
  set (arr1 := cinit1 54 (set (repeat 0 56) 55 mj) 0 mj 1) in *.
  destruct (csweep_first idx_1_55 arr1 (fun j => (j < 55)%nat) Hlen) as (Hl2 & Hall).
  { intros j _ Hj. apply P0_P3, Hlow, Hj. }
  do 3 apply csweep_Forall.
  apply Forall_nth. intros j d Hj. rewrite Hl2 in Hj. rewrite (nth_indep _ d 0) by lia.
  apply Hall; [exact Hj|].
  destruct (Nat.eq_dec j 55) as [E|E]; [right|left; lia].
  subst j. unfold idx_1_55. apply in_map. apply in_seq. lia.
Qed.

(* what util/random/{csharp,osu}.rs say now (regenerated by tools/extract.py on every run): the statements
   Model/Prng.v transcribes - including the two guards of internal_sample, which recorded call
   sequences practically never reach - are present verbatim *)
Lemma tables_prng_facts : forallb snd Tables.prng_facts = true /\ (14 <= List.length Tables.prng_facts)%nat.
Proof. split; [vm_compute; reflexivity|vm_compute; lia]. Qed.

(* the cursors: from any state with both cursors in 0..55 (seeding: 0 and 21) every call indexes the
   56-entry table at 1..55 - `seed_array[loc as usize]` cannot go out of bounds - and leaves them in 1..55 *)
Definition CCur (s : crng) : Prop := 0 <= cnext s <= 55 /\ 0 <= cnextp s <= 55.
Lemma ccursor_step : forall s, CCur s ->
  1 <= cnext (snd (csample_int s)) <= 55 /\ 1 <= cnextp (snd (csample_int s)) <= 55 /\ CCur (snd (csample_int s)).
Proof.
  intros s (Hn & Hp); unfold csample_int, CCur; cbn [snd cnext cnextp].
  destruct (56 <=? cnext s + 1) eqn:E1; [apply Z.leb_le in E1|apply Z.leb_gt in E1];
    (destruct (56 <=? cnextp s + 1) eqn:E2; [apply Z.leb_le in E2|apply Z.leb_gt in E2]); lia.
Qed.
Lemma ccursor_new : forall seed, CCur (cnew seed).
Proof. intros seed; unfold CCur, cnew; cbn [cnext cnextp]; lia. Qed.
