(* Proofs/GradPerfProofs.v — a gradual performance calculator refines "one-shot performance
   of the played prefix", for every object list, every performance oracle and every
   sequence of next / nth / last / len calls (C03, second half of C15). *)
From Coq Require Import ZArith List Bool Lia.
From V Require Import F64 Gradual GradualProofs GradPerf.
Import ListNotations.
Open Scope Z_scope.

Local Arguments Z.add : simpl never.
Local Arguments Z.sub : simpl never.
Local Arguments Z.ltb : simpl never.
Local Arguments Z.min : simpl never.
Local Arguments Z.to_nat : simpl never.
Local Arguments Z.of_nat : simpl never.

Definition pnth_ok {St} (o : pop St) : Prop :=
  match o with PNth _ n => 0 <= n | _ => True end.

Section Machine.
Variable S : Type.
Variable process : S -> Z -> S.
Variable s0 : S.
Context {Obj Cnt St P : Type}.
Variable inc : Cnt -> Obj -> Cnt.
Variable c0 : Cnt.
Variable precount : bool.
Variable objs : list Obj.
Variable perf : Cnt * S -> Z -> St -> P.

Notation N := (zlen objs).
Notation d := (sat_sub N 1).
Notation nth := (g_nth S process inc precount objs d).
Notation len := (@g_len S Obj Cnt objs d).
Notation Rel := (R S process s0 inc c0 precount objs).
Notation value := (val S process s0 inc c0 objs).

(* one-shot values still to come at position p, each with its passed_objects count *)
Fixpoint pvals_from (p : Z) (k : nat) : list (Z * (Cnt * S)) :=
  match k with
  | O => []
  | Datatypes.S k' => (p + 1, value p) :: pvals_from (p + 1) k'
  end.
Definition prem_at (p : Z) := pvals_from p (Z.to_nat (N - p)).

Lemma pvals_from_length k p : length (pvals_from p k) = k.
Proof. revert p. induction k as [|k IH]; intros p; cbn; [reflexivity | now rewrite IH]. Qed.

Lemma pvals_from_skip : forall (j k : nat) p, (j <= k)%nat ->
  skipn j (pvals_from p k) = pvals_from (p + Z.of_nat j) (k - j).
Proof.
  induction j as [|j IH]; intros k p Hjk.
  - cbn [skipn]. replace (p + Z.of_nat 0) with p by lia. now rewrite Nat.sub_0_r.
  - destruct k as [|k]; [lia|]. cbn [pvals_from skipn]. rewrite IH by lia.
    replace (p + 1 + Z.of_nat j) with (p + Z.of_nat (Datatypes.S j)) by lia. reflexivity.
Qed.

Lemma prem_len p : 0 <= p <= N -> zlen (prem_at p) = N - p.
Proof. intros Hp. unfold prem_at, zlen in *. rewrite pvals_from_length. lia. Qed.

(* one call: the machine and the specification agree and stay related *)
Lemma gp_nth_spec g p s n : Rel g p -> 0 <= n ->
  exists g' p',
    gp_nth nth len (@g_idx S Cnt) perf s n g
      = (match fst (spec_pnth perf s n (prem_at p)) with GSome v => Some v | _ => None end, g')
    /\ snd (spec_pnth perf s n (prem_at p)) = prem_at p'
    /\ (fst (spec_pnth perf s n (prem_at p)) = GNone \/
        exists v, fst (spec_pnth perf s n (prem_at p)) = GSome v)
    /\ Rel g' p'
    /\ p' = p + processed_by n (N - p).
Proof.
  intros HR Hn. pose proof HR as (Hi & Hp & _).
  pose proof (len_spec S process s0 inc c0 precount objs g p HR) as Hlen.
  unfold gp_nth, spec_pnth. rewrite Hlen, (prem_len p Hp).
  set (n' := Z.min n (sat_sub (N - p) 1)).
  assert (Hn' : 0 <= n') by (unfold n'; pose proof (sat_sub_nonneg (N - p) 1); lia).
  destruct (nth_spec S process s0 inc c0 precount objs g p n' HR Hn') as [Hlt Hge].
  destruct (Z.eq_dec p N) as [->|Hne].
  - (* nothing remains *)
    assert (n' = 0) by (unfold n'; rewrite sat_sub_zero by lia; lia).
    destruct (Hge ltac:(lia)) as (g' & Hg' & HR'). rewrite Hg'.
    exists g', N. unfold prem_at. replace (Z.to_nat (N - N)) with 0%nat by lia.
    cbn [pvals_from]. rewrite skipn_nil. cbn [fst snd].
    split; [reflexivity|]. split; [reflexivity|]. split; [now left|]. split; [exact HR'|].
    unfold processed_by. lia.
  - assert (Hlt' : p + n' < N) by (unfold n'; rewrite sat_sub_pos by lia; lia).
    destruct (Hlt Hlt') as (g' & Hg' & HR'). rewrite Hg'.
    pose proof HR' as (Hi' & _). rewrite Hi'.
    exists g', (p + n' + 1).
    assert (Hskip : skipn (Z.to_nat n') (prem_at p)
                    = (p + n' + 1, value (p + n')) :: prem_at (p + n' + 1)).
    { unfold prem_at. rewrite pvals_from_skip by lia. rewrite Z2Nat.id by lia.
      replace (Z.to_nat (N - p) - Z.to_nat n')%nat
        with (Datatypes.S (Z.to_nat (N - (p + n' + 1)))) by lia.
      reflexivity. }
    rewrite !Hskip.
    cbn [pvals_from fst snd].
    split; [reflexivity|]. split; [reflexivity|]. split; [right; eexists; reflexivity|].
    split; [exact HR'|].
    unfold processed_by, n'. rewrite sat_sub_pos by lia. lia.
Qed.

Theorem gperf_machine_refines : forall (ops : list (pop St)) g p,
  Rel g p -> Forall pnth_ok ops ->
  run_pops nth len (@g_idx S Cnt) perf ops g = spec_pops perf (prem_at p) ops.
Proof.
  assert (Hmax : 0 <= USIZE_MAX) by (unfold USIZE_MAX; lia).
  induction ops as [|o ops IH]; intros g p HR Hops; [reflexivity|].
  inversion Hops as [|? ? Ho Hops']; subst.
  assert (Hstep : forall s n, 0 <= n ->
    (let '(o, g') := gp_nth nth len (@g_idx S Cnt) perf s n g in
     (match o with Some v => GSome v | None => GNone end) :: run_pops nth len (@g_idx S Cnt) perf ops g')
    = (let '(o, r) := spec_pnth perf s n (prem_at p) in o :: spec_pops perf r ops)).
  { intros s n Hn.
    destruct (gp_nth_spec g p s n HR Hn) as (g' & p' & Hg & Hrem & Hcase & HR' & _).
    rewrite Hg. destruct (spec_pnth perf s n (prem_at p)) as [oo r]. cbn [fst snd] in *.
    subst r. rewrite (IH g' p' HR' Hops').
    destruct Hcase as [-> | [v ->]]; reflexivity. }
  destruct o as [s|s n|s|]; cbn [run_pops spec_pops].
  - unfold gp_next. apply Hstep. lia.
  - apply Hstep. exact Ho.
  - unfold gp_last. apply Hstep. exact Hmax.
  - rewrite (len_spec S process s0 inc c0 precount objs g p HR).
    pose proof HR as (_ & Hp & _). rewrite (prem_len p Hp). f_equal. apply (IH g p HR Hops').
Qed.

(* how many objects one call processes: min(n+1, remaining); None iff nothing remains *)
Theorem gperf_processed g p s n : Rel g p -> 0 <= n ->
  exists g', snd (gp_nth nth len (@g_idx S Cnt) perf s n g) = g'
    /\ Rel g' (p + processed_by n (N - p))
    /\ (fst (gp_nth nth len (@g_idx S Cnt) perf s n g) = None <-> p = N).
Proof.
  intros HR Hn. pose proof HR as (_ & Hp & _).
  destruct (gp_nth_spec g p s n HR Hn) as (g' & p' & Hg & Hrem & Hcase & HR' & Hp').
  exists g'. rewrite Hg. cbn [fst snd]. subst p'.
  split; [reflexivity|]. split; [exact HR'|]. split.
  - intros Hnone0. assert (Hnone : fst (spec_pnth perf s n (prem_at p)) = GNone)
      by (destruct Hcase as [Hc|[v Hc]]; [exact Hc | rewrite Hc in Hnone0; discriminate]).
    clear Hnone0. unfold spec_pnth in Hnone. rewrite (prem_len p Hp) in Hnone.
    destruct (Z.eq_dec p N) as [|Hne]; [assumption|exfalso].
    unfold prem_at in Hnone. rewrite pvals_from_skip in Hnone
      by (rewrite sat_sub_pos by lia; lia).
    replace (Z.to_nat (N - p) - Z.to_nat (Z.min n (sat_sub (N - p) 1)))%nat
      with (Datatypes.S (Z.to_nat (N - p) - Z.to_nat (Z.min n (sat_sub (N - p) 1)) - 1))
      in Hnone by (rewrite sat_sub_pos by lia; lia).
    cbn in Hnone. discriminate.
  - intros Heq. subst p. unfold spec_pnth, prem_at. replace (Z.to_nat (N - N)) with 0%nat by lia.
    cbn [pvals_from]. rewrite skipn_nil. reflexivity.
Qed.

Lemma pvals_from_map : forall k p,
  pvals_from p k = map (fun i => (i, value (i - 1))) (zrange (p + 1) k).
Proof.
  induction k as [|k IH]; intros p; cbn [pvals_from zrange map]; [reflexivity|].
  rewrite IH. f_equal. f_equal. f_equal. lia.
Qed.
End Machine.

(* ---- the three instances, stated against the one-shot functions --------------------- *)
Section Instances.
Variable S : Type.
Variable process : S -> Z -> S.
Variable s0 : S.
Context {St P : Type}.

(* [(1, f 1); ...; (total, f total)] *)
Definition poneshots {A} (f : Z -> A) (total : Z) : list (Z * A) :=
  map (fun i => (i, f i)) (zrange 1 (Z.to_nat total)).

Lemma prem_oneshots {Obj Cnt} (inc : Cnt -> Obj -> Cnt) c0 (objs : list Obj) (f : Z -> Cnt * S) :
  (forall i, 0 <= i < zlen objs -> val S process s0 inc c0 objs i = f (i + 1)) ->
  prem_at S process s0 inc c0 objs 0 = poneshots f (zlen objs).
Proof.
  intros H. unfold prem_at, poneshots. rewrite pvals_from_map.
  replace (zlen objs - 0) with (zlen objs) by lia. apply map_ext_in.
  intros i Hi. apply zrange_bounds in Hi. pose proof (zlen_nonneg objs).
  rewrite H by lia. f_equal. f_equal. lia.
Qed.

Theorem osu_gperf_refines (perf : ocounts * S -> Z -> St -> P) (objs : list okind) (take : Z) ops :
  0 < take -> Forall pnth_ok ops ->
  run_pops (osu_nth S process objs take) (osu_len S objs take) (@g_idx S ocounts) perf ops
           (osu_new S s0 objs)
  = spec_pops perf (poneshots (osu_oneshot S process s0 objs) (zlen objs)) ops.
Proof.
  intros Ht Hops. unfold osu_nth, osu_len, osu_new. rewrite (osu_n_diff_full objs take Ht).
  rewrite (gperf_machine_refines S process s0 o_inc oc0 true objs perf ops _ 0
             (R_new S process s0 o_inc oc0 true objs) Hops).
  f_equal. apply prem_oneshots. intros i Hi. now apply osu_val_oneshot.
Qed.

Theorem catch_gperf_refines (perf : ccounts * S -> Z -> St -> P) (evs : list cevent) ops :
  Forall pnth_ok ops ->
  run_pops (catch_nth S process evs) (catch_len S evs) (@g_idx S ccounts) perf ops
           (catch_new S s0 evs)
  = spec_pops perf (poneshots (catch_oneshot S process s0 evs) (zlen evs)) ops.
Proof.
  intros Hops. unfold catch_nth, catch_len, catch_new, catch_n_diff.
  rewrite (gperf_machine_refines S process s0 c_add cc0 false evs perf ops _ 0
             (R_new S process s0 c_add cc0 false evs) Hops).
  f_equal. apply prem_oneshots. intros i Hi. now apply catch_val_oneshot.
Qed.

Theorem mania_gperf_refines (perf : mcounts * S -> Z -> St -> P) (objs : list mobj) (take : Z) ops :
  zlen objs <= take -> Forall pnth_ok ops ->
  run_pops (mania_nth S process objs take) (mania_len S objs take) (@g_idx S mcounts) perf ops
           (mania_new S s0 objs)
  = spec_pops perf (poneshots (mania_oneshot S process s0 objs) (zlen objs)) ops.
Proof.
  intros Ht Hops. unfold mania_nth, mania_len, mania_new. rewrite (mania_n_diff_full objs take Ht).
  rewrite (gperf_machine_refines S process s0 m_inc mc0 true objs perf ops _ 0
             (R_new S process s0 m_inc mc0 true objs) Hops).
  f_equal. apply prem_oneshots. intros i Hi. now apply mania_val_oneshot.
Qed.
End Instances.

