(* Proofs/GenStateManiaTop.v — the remaining arms of ManiaPerformance::generate_state and the
   C12 theorem for mania (see GenStateManiaProofs.v for the accuracy-driven search). *)
From Coq Require Import ZArith List Bool Floats Lia.
From V Require Import F64 Gradual GenState GenStateMania GradualProofs GenStateProofs GenStateManiaProofs.
Import ListNotations.
Open Scope Z_scope.

Local Arguments Z.mul : simpl never.
Local Arguments Z.add : simpl never.
Local Arguments Z.sub : simpl never.
Local Arguments Z.min : simpl never.
Local Arguments Z.div : simpl never.
Local Arguments Z.ltb : simpl never.
Local Arguments Z.leb : simpl never.
Local Arguments Z.eqb : simpl never.

(* ---- all arms --------------------------------------------------------------------------- *)

Lemma generate_search_eq i acc : mi_acc i = Some acc -> two_unknown i = true ->
  mania_generate i = mania_shift i (snd (mania_full i acc)).
Proof.
  intros Ha Ht. unfold mania_generate, mania_full, mania_search. rewrite Ha.
  unfold two_unknown, n_some in Ht.
  destruct (mi_n320 i), (mi_n300 i), (mi_n200 i), (mi_n100 i), (mi_n50 i);
    cbn [filter is_some length Nat.leb] in Ht; try discriminate Ht; reflexivity.
Qed.

Ltac kept_side O320 O300 O200 O100 O50 :=
  match goal with
  | |- any_unknown _ = true -> _ =>
      let H := fresh in intros H;
      first [ exfalso; unfold any_unknown, n_some in H; rewrite ?O320, ?O300, ?O200, ?O100, ?O50 in H;
              cbn [filter is_some length Nat.leb] in H; discriminate H
            | lia ]
  | _ => first [exact I | lia]
  end.

Lemma direct_ok i : mania_in_ok i -> (mi_acc i = None \/ two_unknown i = false) ->
  mania_gs_ok i (mania_generate i).
Proof.
  intros Hok Hcase.
  destruct (mania_basic i Hok) as (A0 & A1 & A2 & A3 & C320 & C300 & C200 & C100 & C50).
  unfold mania_generate.
  unfold mclamp, mn_rem, mn_total, mn_misses, mn0 in *.
  set (N0 := Z.min (mi_passed i) (mi_n_objects i)) in *.
  set (M := omin (mi_misses i) N0) in *.
  set (T := if mi_classic i then N0 else N0 + mi_holds i) in *.
  cbv zeta.
  destruct (mi_n320 i) as [v320|] eqn:O320, (mi_n300 i) as [v300|] eqn:O300, (mi_n200 i) as [v200|] eqn:O200,
           (mi_n100 i) as [v100|] eqn:O100, (mi_n50 i) as [v50|] eqn:O50;
    (destruct (mi_acc i) as [acc|] eqn:Oacc;
     [ destruct Hcase as [Hc|Hc]; [discriminate Hc|];
       unfold two_unknown, n_some in Hc; rewrite ?O320, ?O300, ?O200, ?O100, ?O50 in Hc;
       cbn [filter is_some length Nat.leb] in Hc; try discriminate Hc
     | ]);
    destruct (mi_best i) eqn:Ebest;
    cbn [omin] in *; rewrite ?sat_sub_spec;
    (split;
     [ unfold mn_misses, mn_total, mn0; cbn [ms_misses]; fold N0; fold M; fold T; lia
     | cbn [ms_n320 ms_n300 ms_n200 ms_n100 ms_n50]; lia
     | unfold mn_rem, mn_misses, mn_total, mn0; fold N0; fold M; fold T; cbn [ms_n320 ms_n300 ms_n200 ms_n100 ms_n50]; lia
     | unfold kept, mclamp, mn_rem, mn_total, mn_misses, mn0; rewrite ?O320, ?O300, ?O200, ?O100, ?O50;
       fold N0; fold M; fold T; cbn [omin ms_n320 ms_n300 ms_n200 ms_n100 ms_n50];
       repeat split; kept_side O320 O300 O200 O100 O50
     | unfold ms_total, mn_total, mn0; fold N0; fold T; cbn [ms_n320 ms_n300 ms_n200 ms_n100 ms_n50 ms_misses]; lia
     | unfold ms_total, mclamp, mn_rem, mn_total, mn_misses, mn0; rewrite ?O320, ?O300, ?O200, ?O100, ?O50;
       fold N0; fold M; fold T; cbn [omin ms_n320 ms_n300 ms_n200 ms_n100 ms_n50 ms_misses]; lia ]).
Qed.

Theorem mania_generate_ok i : mania_in_ok i -> mania_accepts i = true -> mania_gs_ok i (mania_generate i).
Proof.
  intros Hok Hacc. unfold mania_accepts in Hacc.
  destruct (mi_acc i) as [acc|] eqn:Oacc; [|apply direct_ok; [exact Hok|now left]].
  destruct (two_unknown i) eqn:Htwo; [|apply direct_ok; [exact Hok|now right]].
  rewrite (generate_search_eq i acc Oacc Htwo).
  apply shift_ok; [exact Hok|exact Htwo|].
  destruct (search_SInv i acc Hok Htwo) as [Hinf|HQ]; [|exact HQ].
  rewrite Hinf, ltb_inf_inf in Hacc. discriminate Hacc.
Qed.

(* feeding a consistent full state back (every field provided, as the builder stores it after
   the first call) returns exactly that state: for every priority and with or without accuracy *)
Lemma mania_feed_back_fixed i s :
  ms_misses s = mn_misses i -> 0 <= ms_misses s <= mn0 i ->
  0 <= ms_n320 s <= mn_rem i -> 0 <= ms_n300 s <= mn_rem i -> 0 <= ms_n200 s <= mn_rem i ->
  0 <= ms_n100 s <= mn_rem i -> 0 <= ms_n50 s <= mn_rem i -> mn_total i <= ms_total s ->
  mania_generate (mania_feed_back i s) = s.
Proof.
  intros Hm Hm1 B320 B300 B200 B100 B50 Hf.
  destruct s as [a b c d e m]. unfold ms_total in Hf.
  cbn [ms_n320 ms_n300 ms_n200 ms_n100 ms_n50 ms_misses] in *.
  unfold mania_generate, mania_feed_back.
  cbn [mi_passed mi_n_objects mi_holds mi_misses mi_classic mi_n320 mi_n300 mi_n200 mi_n100 mi_n50 mi_acc mi_best omin
       ms_n320 ms_n300 ms_n200 ms_n100 ms_n50 ms_misses].
  unfold mn_rem, mn_total, mn_misses, mn0 in *.
  set (N0 := Z.min (mi_passed i) (mi_n_objects i)) in *.
  set (T := if mi_classic i then N0 else N0 + mi_holds i) in *.
  assert (E1 : Z.min m N0 = m) by lia. rewrite E1.
  assert (Ea : Z.min a (T - m) = a) by lia.
  assert (Eb : Z.min b (T - m) = b) by lia.
  assert (Ec : Z.min c (T - m) = c) by lia.
  assert (Ed : Z.min d (T - m) = d) by lia.
  assert (Ee : Z.min e (T - m) = e) by lia.
  rewrite Ea, Eb, Ec, Ed, Ee.
  assert (R1 : sat_sub T (a + b + c + d + e + m) = 0) by (rewrite sat_sub_spec; lia).
  assert (R2 : sat_sub (T - m) (a + b + c + d + e) = 0) by (rewrite sat_sub_spec; lia).
  rewrite R1, R2, !Z.add_0_r.
  destruct (mi_acc i), (mi_best i); reflexivity.
Qed.

(* hence generating twice gives the same state *)
Theorem mania_generate_idem i : mania_in_ok i -> mania_accepts i = true ->
  mania_generate (mania_feed_back i (mania_generate i)) = mania_generate i.
Proof.
  intros Hok Hacc.
  destruct (mania_generate_ok i Hok Hacc)
    as [(Gm & Gm1 & Gm2) (P320 & P300 & P200 & P100 & P50) (U320 & U300 & U200 & U100 & U50) _ Gf _].
  apply mania_feed_back_fixed; first [exact Gm | lia].
Qed.

(* the hypothesis is needed: a NaN accuracy is never closer than infinity, so the search
   accepts nothing and the fallback state replaces the provided n50 = 0 by the remainder *)
Lemma mania_nan_refuted :
  let i := mk_mania_in 2 0 4294967295 None None None None (Some 0) None (Some nan) true true in
  mania_in_ok i /\ mania_accepts i = false /\ ms_n50 (mania_generate i) = 2.
Proof.
  split; [|split; vm_compute; reflexivity].
  unfold mania_in_ok. cbn. repeat split; try lia; intros v H; try discriminate H; injection H as <-; lia.
Qed.
