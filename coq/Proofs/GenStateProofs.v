(* Proofs/GenStateProofs.v — consistency of generated score states (C12) for all attribute
   shapes and all provided subsets.  The float estimates of the accuracy-driven branches are
   quantified away: the facts hold for whatever candidates the floor/ceil window contains,
   provided one candidate is accepted (true whenever the accuracy is a number, see the
   [*_accepts] predicates which are evaluated on every recorded trace). *)
From Coq Require Import ZArith List Bool Lia Floats.
From V Require Import F64 Gradual GenState GradualProofs.
Import ListNotations.
Open Scope Z_scope.

Local Arguments Z.add : simpl never.
Local Arguments Z.sub : simpl never.
Local Arguments Z.mul : simpl never.
Local Arguments Z.min : simpl never.
Local Arguments Z.ltb : simpl never.
Local Arguments Z.leb : simpl never.
Local Arguments Z.eqb : simpl never.
Local Arguments Z.to_nat : simpl never.

Lemma sat_sub_spec a b : sat_sub a b = Z.max 0 (a - b).
Proof. unfold sat_sub. destruct (a <? b) eqn:E; zb; lia. Qed.

Lemma omin_le o cap : 0 <= cap -> (forall v, o = Some v -> 0 <= v) -> 0 <= omin o cap <= cap.
Proof. intros Hc Ho. unfold omin. destruct o as [v|]; [specialize (Ho v eq_refl)|]; lia. Qed.

Lemma omin_some v cap : omin (Some v) cap = Z.min v cap.
Proof. reflexivity. Qed.

(* ---- the best-candidate fold --------------------------------------------------------- *)
Section Pick.
Context {B : Type}.
Variable cand : Z -> B.
Variable dist : Z -> float.

Lemma pick_in : forall xs st,
  snd (pick cand dist xs st) = snd st \/
  exists x, In x xs /\ snd (pick cand dist xs st) = cand x.
Proof.
  unfold pick. induction xs as [|x xs IH]; intros st; cbn [fold_left]; [now left|].
  destruct (PrimFloat.ltb (dist x) (fst st)) eqn:E.
  - destruct (IH (dist x, cand x)) as [H|[y [Hy H]]].
    + right. exists x. split; [now left | exact H].
    + right. exists y. split; [now right | exact H].
  - destruct (IH st) as [H|[y [Hy H]]].
    + now left.
    + right. exists y. split; [now right | exact H].
Qed.

(* if the first candidate is accepted, the result is one of the candidates *)
Lemma pick_accepted x xs bd b :
  PrimFloat.ltb (dist x) bd = true ->
  exists y, In y (x :: xs) /\ snd (pick cand dist (x :: xs) (bd, b)) = cand y.
Proof.
  intros Hacc. unfold pick. cbn [fold_left fst]. rewrite Hacc.
  destruct (pick_in xs (dist x, cand x)) as [H|[y [Hy H]]].
  - exists x. split; [now left | exact H].
  - exists y. split; [now right | exact H].
Qed.
End Pick.

Lemma range_incl_bounds lo hi x : In x (range_incl lo hi) -> lo <= x <= hi.
Proof.
  unfold range_incl. destruct (hi <? lo) eqn:E; [contradiction|]. zb.
  intros H. apply zrange_bounds in H. lia.
Qed.

(* ================================== taiko ================================== *)
Definition taiko_in_ok (i : taiko_in) : Prop :=
  0 <= ti_max_combo i /\ 0 <= ti_passed i /\
  (forall v, ti_combo i = Some v -> 0 <= v) /\ (forall v, ti_n300 i = Some v -> 0 <= v) /\
  (forall v, ti_n100 i = Some v -> 0 <= v) /\ (forall v, ti_misses i = Some v -> 0 <= v).

Definition taiko_total (i : taiko_in) : Z := Z.min (ti_passed i) (ti_max_combo i).
Definition taiko_misses (i : taiko_in) : Z := omin (ti_misses i) (taiko_total i).
Definition taiko_remaining (i : taiko_in) : Z := taiko_total i - taiko_misses i.

(* the accuracy-only search accepts its first candidate (window non-empty, distance finite) *)
Definition taiko_accepts (i : taiko_in) : bool :=
  match ti_acc i, ti_n300 i, ti_n100 i with
  | Some acc, None, None =>
      let nr := taiko_remaining i in
      let raw := (acc * of_Z (2 * taiko_total i) - of_Z nr)%float in
      let lo := Z.min nr (to_u32 (ffloor raw)) in
      let hi := Z.min nr (to_u32 (fceil raw)) in
      match range_incl lo hi with
      | x :: _ => (0 <=? x) &&
                  PrimFloat.ltb (fdist acc (taiko_accuracy x (nr - x) (taiko_misses i))) F64_MAX
      | [] => false
      end
  | _, _, _ => true
  end.

(* what C12 asks of a generated state *)
Record taiko_gs_ok (i : taiko_in) (s : taiko_state) : Prop := {
  tg_misses : ts_misses s = taiko_misses i /\ 0 <= ts_misses s <= taiko_total i;
  tg_bounds : 0 <= ts_n300 s <= taiko_remaining i /\ 0 <= ts_n100 s <= taiko_remaining i;
  tg_filled : taiko_total i <= ts_n300 s + ts_n100 s + ts_misses s;
  tg_sum : omin (ti_n300 i) (taiko_remaining i) + omin (ti_n100 i) (taiko_remaining i)
           + taiko_misses i <= taiko_total i ->
           ts_n300 s + ts_n100 s + ts_misses s = taiko_total i;
  tg_kept300 : forall v, ti_n300 i = Some v -> Z.min v (taiko_remaining i) <= ts_n300 s
                 /\ (ti_n100 i = None -> ts_n300 s = Z.min v (taiko_remaining i));
  tg_kept100 : forall v, ti_n100 i = Some v -> Z.min v (taiko_remaining i) <= ts_n100 s
                 /\ (ti_n300 i = None -> ts_n100 s = Z.min v (taiko_remaining i));
  tg_combo : 0 <= ts_combo s <= sat_sub (ti_max_combo i) (ts_misses s)
             /\ (forall c, ti_combo i = Some c -> ts_combo s <= c) }.

Theorem taiko_generate_ok i :
  taiko_in_ok i -> taiko_accepts i = true -> taiko_gs_ok i (taiko_generate i).
Proof.
  intros (Hmc & Hp & Hc & H3 & H1 & Hm) Hacc.
  assert (Ht : 0 <= taiko_total i) by (unfold taiko_total; lia).
  pose proof (omin_le (ti_misses i) (taiko_total i) Ht Hm) as Hmis.
  fold (taiko_misses i) in Hmis.
  assert (Hr : 0 <= taiko_remaining i) by (unfold taiko_remaining; lia).
  pose proof (omin_le (ti_n300 i) (taiko_remaining i) Hr H3) as H300.
  pose proof (omin_le (ti_n100 i) (taiko_remaining i) Hr H1) as H100.
  unfold taiko_generate. fold (taiko_total i). fold (taiko_misses i).
  fold (taiko_remaining i).
  set (n300 := omin (ti_n300 i) (taiko_remaining i)) in *.
  set (n100 := omin (ti_n100 i) (taiko_remaining i)) in *.
  (* the pair of hit results chosen by the big match *)
  match goal with |- taiko_gs_ok i (let '(a, b) := ?E in _) => set (pair := E) end.
  assert (Hpair : let '(a, b) := pair in
            0 <= a <= taiko_remaining i /\ 0 <= b <= taiko_remaining i /\
            taiko_total i <= a + b + taiko_misses i /\
            (n300 + n100 + taiko_misses i <= taiko_total i -> a + b + taiko_misses i = taiko_total i) /\
            (forall v, ti_n300 i = Some v -> n300 <= a /\ (ti_n100 i = None -> a = n300)) /\
            (forall v, ti_n100 i = Some v -> n100 <= b /\ (ti_n300 i = None -> b = n100))).
  { unfold pair. unfold taiko_remaining in *.
    destruct (ti_acc i) as [acc|] eqn:Eacc.
    - destruct (ti_n300 i) as [v3|] eqn:E3, (ti_n100 i) as [v1|] eqn:E1.
      + rewrite sat_sub_spec. destruct (ti_best i); repeat split; intros; try discriminate; lia.
      + rewrite sat_sub_spec. subst n100. cbn [omin] in *.
        repeat split; intros; try discriminate; lia.
      + rewrite sat_sub_spec. subst n300. cbn [omin] in *.
        repeat split; intros; try discriminate; lia.
      + (* accuracy only: the search *)
        unfold taiko_accepts in Hacc. rewrite Eacc, E3, E1 in Hacc.
        unfold taiko_remaining in Hacc.
        set (nr := taiko_total i - taiko_misses i) in *.
        set (raw := (acc * of_Z (2 * taiko_total i) - of_Z nr)%float) in *.
        set (lo := Z.min nr (to_u32 (ffloor raw))) in *.
        set (hi := Z.min nr (to_u32 (fceil raw))) in *.
        destruct (range_incl lo hi) as [|x xs] eqn:Er; [discriminate|].
        apply andb_true_iff in Hacc. destruct Hacc as [Hx0 Hlt]. zb.
        pose proof (pick_accepted (fun y => (y, nr - y))
                      (fun y => fdist acc (taiko_accuracy y (nr - y) (taiko_misses i)))
                      x xs F64_MAX (n300, n100) Hlt) as (y & Hy & Hres).
        rewrite Hres.
        assert (Hyb : lo <= y <= hi) by (apply range_incl_bounds; rewrite Er; exact Hy).
        assert (Hxb : lo <= x <= hi) by (apply range_incl_bounds; rewrite Er; now left).
        assert (Hlo : 0 <= lo).
        { (* x >= 0 is the first candidate and candidates ascend from lo; lo = x *)
          unfold range_incl in Er. destruct (hi <? lo); [discriminate|].
          destruct (Z.to_nat (hi - lo + 1)); cbn in Er; [discriminate|]. inversion Er. lia. }
        subst n300 n100. cbn [omin]. unfold hi in Hyb.
        repeat split; intros; try discriminate; lia.
    - rewrite sat_sub_spec.
      destruct (ti_best i).
      + destruct (ti_n300 i) as [v3|] eqn:E3, (ti_n100 i) as [v1|] eqn:E1;
          subst n300 n100; cbn [omin] in *; repeat split; intros; try discriminate; lia.
      + destruct (ti_n100 i) as [v1|] eqn:E1, (ti_n300 i) as [v3|] eqn:E3;
          subst n300 n100; cbn [omin] in *; repeat split; intros; try discriminate; lia. }
  destruct pair as [a b]. destruct Hpair as (Ha & Hb & Hfill & Hsum & Hk3 & Hk1).
  constructor; cbn [ts_misses ts_n300 ts_n100 ts_combo].
  - split; [reflexivity | lia].
  - split; assumption.
  - exact Hfill.
  - exact Hsum.
  - intros v Hv. destruct (Hk3 v Hv) as [Hle Heq]. subst n300. rewrite Hv in *. cbn [omin] in *.
    split; [exact Hle | exact Heq].
  - intros v Hv. destruct (Hk1 v Hv) as [Hle Heq]. subst n100. rewrite Hv in *. cbn [omin] in *.
    split; [exact Hle | exact Heq].
  - rewrite sat_sub_spec. destruct (ti_combo i) as [c|] eqn:Ec.
    + specialize (Hc c eq_refl). split; [lia|]. intros c' Hc'. inversion Hc'. lia.
    + split; [lia|]. intros c' Hc'. discriminate.
Qed.

(* generating again from the generated state changes nothing *)
Theorem taiko_generate_idem i :
  taiko_in_ok i -> taiko_accepts i = true ->
  taiko_generate (taiko_feed_back i (taiko_generate i)) = taiko_generate i.
Proof.
  intros Hok Hacc. pose proof Hok as (Hmc & Hp & Hc & H3 & H1 & Hm).
  destruct (taiko_generate_ok i Hok Hacc) as [[Hm1 Hm2] [Hb3 Hb1] Hfill _ _ _ [Hcb _]].
  set (s := taiko_generate i) in *.
  unfold taiko_generate at 1. unfold taiko_feed_back.
  cbn [ti_max_combo ti_passed ti_combo ti_n300 ti_n100 ti_misses ti_acc ti_best].
  fold (taiko_total i). cbn [omin].
  replace (Z.min (ts_misses s) (taiko_total i)) with (ts_misses s) by lia.
  unfold taiko_remaining in *. rewrite <- Hm1 in *.
  replace (Z.min (ts_n300 s) (taiko_total i - ts_misses s)) with (ts_n300 s) by lia.
  replace (Z.min (ts_n100 s) (taiko_total i - ts_misses s)) with (ts_n100 s) by lia.
  replace (sat_sub (taiko_total i) (ts_n300 s + ts_n100 s + ts_misses s)) with 0
    by (rewrite sat_sub_spec; lia).
  replace (Z.min (ts_combo s) (sat_sub (ti_max_combo i) (ts_misses s))) with (ts_combo s) by lia.
  destruct (ti_acc i), (ti_best i); cbn; rewrite ?Z.add_0_r; destruct s; reflexivity.
Qed.

(* ================================== osu! ================================== *)
Definition osu_in_ok (i : osu_in) : Prop :=
  0 <= oi_n_objects i /\ 0 <= oi_sliders i /\ 0 <= oi_large_ticks i /\ 0 <= oi_max_combo i
  /\ 0 <= oi_passed i /\
  (forall v, oi_combo i = Some v -> 0 <= v) /\ (forall v, oi_n300 i = Some v -> 0 <= v) /\
  (forall v, oi_n100 i = Some v -> 0 <= v) /\ (forall v, oi_n50 i = Some v -> 0 <= v) /\
  (forall v, oi_misses i = Some v -> 0 <= v) /\ (forall v, oi_large i = Some v -> 0 <= v) /\
  (forall v, oi_small i = Some v -> 0 <= v) /\ (forall v, oi_ends i = Some v -> 0 <= v).

Definition osu_n (i : osu_in) : Z := Z.min (oi_passed i) (oi_n_objects i).
Definition osu_misses (i : osu_in) : Z := omin (oi_misses i) (osu_n i).
Definition osu_rem (i : osu_in) : Z := osu_n i - osu_misses i.

(* the generated hit results fill the objects: true whenever an accuracy-driven search
   accepted a candidate (always, for an accuracy that is a number); checked on every trace *)
Definition osu_filled (i : osu_in) : Prop :=
  let s := osu_generate i in osu_n i <= os_n300 s + os_n100 s + os_n50 s + os_misses s.

Record osu_gs_ok (i : osu_in) (s : osu_state) : Prop := {
  og_misses : os_misses s = osu_misses i /\ 0 <= os_misses s <= osu_n i;
  og_bounds : 0 <= os_n300 s <= osu_rem i /\ 0 <= os_n100 s <= osu_rem i
              /\ 0 <= os_n50 s <= osu_rem i;
  og_sum : omin (oi_n300 i) (osu_rem i) + omin (oi_n100 i) (osu_rem i)
           + omin (oi_n50 i) (osu_rem i) + osu_misses i <= osu_n i ->
           os_n300 s + os_n100 s + os_n50 s + os_misses s = osu_n i;
  og_kept300 : forall v, oi_n300 i = Some v -> Z.min v (osu_rem i) <= os_n300 s
      /\ ((oi_n100 i = None \/ oi_n50 i = None) -> os_n300 s = Z.min v (osu_rem i));
  og_kept100 : forall v, oi_n100 i = Some v -> Z.min v (osu_rem i) <= os_n100 s
      /\ ((oi_n300 i = None \/ oi_n50 i = None) -> os_n100 s = Z.min v (osu_rem i));
  og_kept50 : forall v, oi_n50 i = Some v -> Z.min v (osu_rem i) <= os_n50 s
      /\ ((oi_n300 i = None \/ oi_n100 i = None) -> os_n50 s = Z.min v (osu_rem i));
  og_combo : 0 <= os_combo s <= sat_sub (oi_max_combo i) (os_misses s)
             /\ (forall c, oi_combo i = Some c -> os_combo s <= c);
  og_sliders : 0 <= os_ends s <= oi_sliders i
               /\ 0 <= os_large s <= oi_sliders i + oi_large_ticks i
               /\ 0 <= os_small s <= oi_sliders i }.

(* the nested search of the (None, None, None) branch: a fold whose every step either keeps
   the best candidate or replaces it by one satisfying Q *)
Lemma nested_in {B} (F : float * B -> Z -> float * B) (Q : Z -> B -> Prop) :
  (forall st a, snd (F st a) = snd st \/ Q a (snd (F st a))) ->
  forall outer st,
    snd (fold_left F outer st) = snd st \/
    exists a, In a outer /\ Q a (snd (fold_left F outer st)).
Proof.
  intros HF. induction outer as [|a outer IH]; intros st; cbn [fold_left]; [now left|].
  destruct (IH (F st a)) as [H|(a' & Ha & H)].
  - destruct (HF st a) as [H2|H2].
    + left. now rewrite H.
    + right. exists a. split; [now left|]. now rewrite H.
  - right. exists a'. split; [now right | exact H].
Qed.

Lemma to_u32_nonneg f : 0 <= to_u32 f.
Proof.
  unfold to_u32, cast_int.
  destruct (Prim2SF f) as [s|s| |s m e]; try lia; try (destruct s; lia).
  all: cbn [sf_trunc]; unfold sat;
    repeat match goal with |- context [if ?c then _ else _] => destruct c eqn:? end; zb; lia.
Qed.

Ltac osu_fin :=
  repeat split; intros; try discriminate;
  repeat match goal with
         | H : _ \/ _ |- _ => destruct H
         | H : Some _ = Some _ |- _ => inversion H; clear H; subst
         end; try discriminate; try lia.

Definition osu_hits_good (i : osu_in) (t : Z * Z * Z) : Prop :=
  let '(a, b, c) := t in
  let n300 := omin (oi_n300 i) (osu_rem i) in
  let n100 := omin (oi_n100 i) (osu_rem i) in
  let n50 := omin (oi_n50 i) (osu_rem i) in
  osu_n i <= a + b + c + osu_misses i ->
  0 <= a <= osu_rem i /\ 0 <= b <= osu_rem i /\ 0 <= c <= osu_rem i /\
  (n300 + n100 + n50 + osu_misses i <= osu_n i -> a + b + c + osu_misses i = osu_n i) /\
  (forall v, oi_n300 i = Some v ->
     n300 <= a /\ ((oi_n100 i = None \/ oi_n50 i = None) -> a = n300)) /\
  (forall v, oi_n100 i = Some v ->
     n100 <= b /\ ((oi_n300 i = None \/ oi_n50 i = None) -> b = n100)) /\
  (forall v, oi_n50 i = Some v ->
     n50 <= c /\ ((oi_n300 i = None \/ oi_n100 i = None) -> c = n50)).

Lemma osu_hits_ok i : osu_in_ok i -> osu_hits_good i (osu_hits i).
Proof.
  intros (Hno & Hsl & Hlt & Hmc & Hp & Hc & H3 & H1 & H5 & Hm & Hlg & Hsm & Hen).
  assert (Hn : 0 <= osu_n i) by (unfold osu_n; lia).
  pose proof (omin_le (oi_misses i) (osu_n i) Hn Hm) as Hmis. fold (osu_misses i) in Hmis.
  assert (Hr : 0 <= osu_rem i) by (unfold osu_rem; lia).
  pose proof (omin_le (oi_n300 i) (osu_rem i) Hr H3) as H300.
  pose proof (omin_le (oi_n100 i) (osu_rem i) Hr H1) as H100.
  pose proof (omin_le (oi_n50 i) (osu_rem i) Hr H5) as H50.
  unfold osu_hits_good, osu_hits. fold (osu_n i). fold (osu_misses i). fold (osu_rem i).
  set (n300 := omin (oi_n300 i) (osu_rem i)) in *.
  set (n100 := omin (oi_n100 i) (osu_rem i)) in *.
  set (n50 := omin (oi_n50 i) (osu_rem i)) in *.
  destruct (osu_slider_parts i) as [[ends large] small].
  destruct (osu_slider_acc i) as [sv msv].
  unfold osu_rem in *.

    destruct (oi_acc i) as [acc|] eqn:Eacc.
    - destruct (oi_n300 i) as [v3|] eqn:E3, (oi_n100 i) as [v1|] eqn:E1,
               (oi_n50 i) as [v5|] eqn:E5; subst n300 n100 n50; cbn [omin] in *.
      + rewrite sat_sub_spec. destruct (oi_best i); intros Hf; osu_fin.
      + rewrite sat_sub_spec. intros Hf; osu_fin.
      + rewrite sat_sub_spec. intros Hf; osu_fin.
      + (* Some, None, None: search over n100 *)
        replace (Z.min (Z.min v3 (osu_n i - osu_misses i)) (osu_n i - osu_misses i))
          with (Z.min v3 (osu_n i - osu_misses i)) by lia.
        match goal with |- context [snd (pick ?c ?d (range_incl ?lo ?hi) ?init)] =>
          destruct (pick_in c d (range_incl lo hi) init) as [Hp0|(y & Hy & Hp0)];
          try (apply range_incl_bounds in Hy); pose proof (to_u32_nonneg (ffloor
            ((acc * of_Z (300 * osu_n i + msv) -
              of_Z (50 * (osu_n i - osu_misses i - Z.min v3 (osu_n i - osu_misses i)) +
                    300 * Z.min v3 (osu_n i - osu_misses i) + sv)) / 50)%float)) as Hnn
        end; rewrite Hp0; cbn [snd]; intros Hf; osu_fin.
      + rewrite sat_sub_spec. intros Hf; osu_fin.
      + (* None, Some, None: search over n300 *)
        replace (Z.min (Z.min v1 (osu_n i - osu_misses i)) (osu_n i - osu_misses i))
          with (Z.min v1 (osu_n i - osu_misses i)) by lia.
        match goal with |- context [snd (pick ?c ?d (range_incl ?lo ?hi) ?init)] =>
          destruct (pick_in c d (range_incl lo hi) init) as [Hp0|(y & Hy & Hp0)];
          try (apply range_incl_bounds in Hy); pose proof (to_u32_nonneg (ffloor
            ((acc * of_Z (300 * osu_n i + msv) -
              of_Z (50 * (osu_n i - osu_misses i - Z.min v1 (osu_n i - osu_misses i)) +
                    100 * Z.min v1 (osu_n i - osu_misses i) + sv)) / 250)%float)) as Hnn
        end; rewrite Hp0; cbn [snd]; intros Hf; osu_fin.
      + (* None, None, Some: search over n300 *)
        replace (Z.min (Z.min v5 (osu_n i - osu_misses i)) (osu_n i - osu_misses i))
          with (Z.min v5 (osu_n i - osu_misses i)) by lia.
        match goal with |- context [snd (pick ?c ?d (range_incl ?lo ?hi) ?init)] =>
          destruct (pick_in c d (range_incl lo hi) init) as [Hp0|(y & Hy & Hp0)];
          try (apply range_incl_bounds in Hy); pose proof (to_u32_nonneg (ffloor
            ((acc * of_Z (300 * osu_n i + msv) +
              of_Z (100 * osu_misses i + 50 * Z.min v5 (osu_n i - osu_misses i)) -
              of_Z (100 * osu_n i + sv)) / 200)%float)) as Hnn
        end; rewrite Hp0; cbn [snd]; intros Hf; osu_fin.
      + (* None, None, None: nested search, then the priority shift *)
        set (nrem := osu_n i - osu_misses i) in *.
        match goal with
        | |- context [fold_left ?F (range_incl ?lo3 ?hi3) ?init] =>
          pose proof (nested_in F
            (fun a r => exists b, (0 <= nrem - a -> 0 <= b) /\ b <= nrem - a
                                  /\ r = (a, b, nrem - a - b))) as Hnest;
          assert (Hstep : forall st a, snd (F st a) = snd st \/
                    (exists b, (0 <= nrem - a -> 0 <= b) /\ b <= nrem - a
                               /\ snd (F st a) = (a, b, nrem - a - b)));
          [ intros st a; cbn beta;
            match goal with |- context [pick ?c ?d (range_incl ?lo ?hi) st] =>
              destruct (pick_in c d (range_incl lo hi) st) as [Hq|(b & Hb & Hq)] end;
            [ now left
            | right; exists b; apply range_incl_bounds in Hb;
              match type of Hb with Z.min (to_u32 ?f) _ <= _ <= _ =>
                pose proof (to_u32_nonneg f) end;
              split; [lia|]; split; [lia | exact Hq] ]
          | destruct (Hnest Hstep (range_incl lo3 hi3) init) as [Hp0|(a & Ha & b & Hb0 & Hb1 & Hp0)];
            clear Hnest Hstep ]
        end.
        * rewrite Hp0. cbn [snd].
          destruct (oi_best i); cbn -[Z.div]; rewrite ?Z.div_0_l by lia;
            rewrite ?Z.mul_0_r, ?Z.add_0_l, ?Z.sub_0_r, ?Z.min_id; intros Hf; osu_fin.
        * rewrite Hp0.
          apply range_incl_bounds in Ha.
          match type of Ha with Z.min _ (to_u32 ?f) <= _ <= _ =>
            pose proof (to_u32_nonneg f) as Hnn3 end.
          set (c50 := nrem - a - b) in *.
          assert (Hc50 : 0 <= c50) by (unfold c50; lia).
          assert (Hb0' : 0 <= b) by lia.
          destruct (oi_best i).
          -- set (n := Z.min a (c50 / 4)).
             assert (Hn4 : 0 <= c50 / 4 /\ 4 * (c50 / 4) <= c50).
             { split; [apply Z.div_pos; lia | apply Z.mul_div_le; lia]. }
             assert (Hnb : 0 <= n <= a /\ 4 * n <= c50) by (unfold n; lia).
             intros Hf; osu_fin.
          -- set (n := b / 5).
             assert (Hn5 : 0 <= n /\ 5 * n <= b).
             { unfold n. split; [apply Z.div_pos; lia | apply Z.mul_div_le; lia]. }
             intros Hf; osu_fin.
    - rewrite sat_sub_spec. destruct (oi_best i).
      + destruct (oi_n300 i) as [v3|] eqn:E3, (oi_n100 i) as [v1|] eqn:E1,
                 (oi_n50 i) as [v5|] eqn:E5; subst n300 n100 n50; cbn [omin] in *;
          intros Hf; osu_fin.
      + destruct (oi_n50 i) as [v5|] eqn:E5, (oi_n100 i) as [v1|] eqn:E1,
                 (oi_n300 i) as [v3|] eqn:E3; subst n300 n100 n50; cbn [omin] in *;
          intros Hf; osu_fin.
Qed.

Theorem osu_generate_ok i : osu_in_ok i -> osu_filled i -> osu_gs_ok i (osu_generate i).
Proof.
  intros Hok Hfill. pose proof (osu_hits_ok i Hok) as Hhits.
  destruct Hok as (Hno & Hsl & Hlt & Hmc & Hp & Hc & H3 & H1 & H5 & Hm & Hlg & Hsm & Hen).
  assert (Hn : 0 <= osu_n i) by (unfold osu_n; lia).
  pose proof (omin_le (oi_misses i) (osu_n i) Hn Hm) as Hmis. fold (osu_misses i) in Hmis.
  assert (Hparts : let '(ends, large, small) := osu_slider_parts i in
            0 <= ends <= oi_sliders i /\ 0 <= large <= oi_sliders i + oi_large_ticks i
            /\ 0 <= small <= oi_sliders i).
  { unfold osu_slider_parts. destruct (osu_origin_of i).
    - lia.
    - destruct (oi_ends i) as [e|] eqn:Ee, (oi_large i) as [l|] eqn:El;
        try specialize (Hen e eq_refl); try specialize (Hlg l eq_refl); lia.
    - destruct (oi_small i) as [e|] eqn:Ee, (oi_large i) as [l|] eqn:El;
        try specialize (Hsm e eq_refl); try specialize (Hlg l eq_refl); lia. }
  unfold osu_filled in Hfill. revert Hfill. unfold osu_generate.
  fold (osu_n i). fold (osu_misses i).
  destruct (osu_slider_parts i) as [[ends large] small].
  destruct (osu_hits i) as [[a b] c]. cbn [os_n300 os_n100 os_n50 os_misses].
  intros Hfill. unfold osu_hits_good in Hhits.
  destruct (Hhits Hfill) as (Ha & Hb & Hcc & Hsum & Hk3 & Hk1 & Hk5).
  constructor; cbn [os_misses os_n300 os_n100 os_n50 os_combo os_ends os_large os_small].
  - split; [reflexivity | lia].
  - repeat split; lia.
  - exact Hsum.
  - intros v Hv. destruct (Hk3 v Hv) as [Hle Heq]. rewrite Hv in *. cbn [omin] in *.
    split; [exact Hle | exact Heq].
  - intros v Hv. destruct (Hk1 v Hv) as [Hle Heq]. rewrite Hv in *. cbn [omin] in *.
    split; [exact Hle | exact Heq].
  - intros v Hv. destruct (Hk5 v Hv) as [Hle Heq]. rewrite Hv in *. cbn [omin] in *.
    split; [exact Hle | exact Heq].
  - rewrite sat_sub_spec. destruct (oi_combo i) as [c'|] eqn:Ec.
    + specialize (Hc c' eq_refl). split; [lia|]. intros c'' Hc''. inversion Hc''. lia.
    + split; [lia|]. intros c'' Hc''. discriminate.
  - exact Hparts.
Qed.

(* generating again from the generated state changes nothing *)
Theorem osu_generate_idem i :
  osu_in_ok i -> osu_filled i ->
  osu_generate (osu_feed_back i (osu_generate i)) = osu_generate i.
Proof.
  intros Hok Hfill. pose proof (osu_generate_ok i Hok Hfill) as G.
  destruct G as [[Hm1 Hm2] (Hb3 & Hb1 & Hb5) _ _ _ _ [Hcb _] _].
  unfold osu_filled in Hfill.
  pose proof Hok as (Hno & Hsl & Hlt & Hmc & Hp & Hc & H3 & H1 & H5 & Hm & Hlg & Hsm & Hen).
  set (s := osu_generate i) in *.
  (* the slider parts of the second run are those of the first *)
  assert (Hparts : osu_slider_parts (osu_feed_back i s) = (os_ends s, os_large s, os_small s)
                   /\ osu_slider_parts i = (os_ends s, os_large s, os_small s)).
  { subst s. unfold osu_generate, osu_feed_back, osu_slider_parts, osu_origin_of.
    cbn [oi_lazer oi_classic oi_ends oi_large oi_small oi_sliders oi_large_ticks].
    destruct (osu_hits i) as [[a b] c].
    destruct (oi_lazer i), (oi_classic i); cbn [negb os_ends os_large os_small];
      destruct (oi_ends i) as [e|] eqn:Ee, (oi_large i) as [l|] eqn:El,
               (oi_small i) as [sm|] eqn:Es;
      try specialize (Hen e eq_refl); try specialize (Hlg l eq_refl);
      try specialize (Hsm sm eq_refl);
      split; repeat match goal with |- (_, _) = (_, _) => apply f_equal2 end; lia. }
  destruct Hparts as [Hp2 Hp1].
  unfold osu_generate at 1. rewrite Hp2.
  assert (Hhits : osu_hits (osu_feed_back i s) = (os_n300 s, os_n100 s, os_n50 s)).
  { unfold osu_hits. rewrite Hp2.
    destruct (osu_slider_acc (osu_feed_back i s)) as [sv msv].
    unfold osu_feed_back.
    cbn [oi_passed oi_n_objects oi_misses oi_n300 oi_n100 oi_n50 oi_acc oi_best omin].
    fold (osu_n i). unfold osu_rem in *. rewrite <- Hm1 in *.
    replace (Z.min (os_misses s) (osu_n i)) with (os_misses s) by lia.
    replace (Z.min (os_n300 s) (osu_n i - os_misses s)) with (os_n300 s) by lia.
    replace (Z.min (os_n100 s) (osu_n i - os_misses s)) with (os_n100 s) by lia.
    replace (Z.min (os_n50 s) (osu_n i - os_misses s)) with (os_n50 s) by lia.
    replace (sat_sub (osu_n i) (os_n300 s + os_n100 s + os_n50 s + os_misses s)) with 0
      by (rewrite sat_sub_spec; lia).
    destruct (oi_acc i), (oi_best i); cbn; rewrite ?Z.add_0_r; reflexivity. }
  rewrite Hhits.
  unfold osu_feed_back. cbn [oi_passed oi_n_objects oi_misses oi_max_combo oi_combo omin].
  fold (osu_n i).
  replace (Z.min (os_misses s) (osu_n i)) with (os_misses s) by lia.
  replace (Z.min (os_combo s) (sat_sub (oi_max_combo i) (os_misses s))) with (os_combo s) by lia.
  destruct s; reflexivity.
Qed.

(* ================================== catch ================================== *)
Definition catch_in_ok (i : catch_in) : Prop :=
  0 <= ci_fruits i /\ 0 <= ci_droplets i /\ 0 <= ci_tiny i /\
  (forall v, ci_combo i = Some v -> 0 <= v) /\ (forall v, ci_o_fruits i = Some v -> 0 <= v) /\
  (forall v, ci_o_droplets i = Some v -> 0 <= v) /\ (forall v, ci_o_tiny i = Some v -> 0 <= v) /\
  (forall v, ci_o_tiny_misses i = Some v -> 0 <= v) /\ (forall v, ci_misses i = Some v -> 0 <= v).
Definition catch_total (i : catch_in) : Z := ci_fruits i + ci_droplets i.

(* what C12 asks of a generated catch state: misses within the palpable objects; fruits and
   droplets non-negative and adding up — with the misses — to exactly fruits + droplets for EVERY
   combination of provided values; a kind that was not provided stays within its own maximum;
   the combo within what is achievable and below a provided one; tiny droplets and tiny droplet
   misses non-negative and together at most the tiny droplets of the map *)
Record catch_gs_ok (i : catch_in) (s : catch_state) : Prop := {
  cg_misses : cs_misses s = omin (ci_misses i) (catch_total i) /\ 0 <= cs_misses s <= catch_total i;
  cg_nonneg : 0 <= cs_fruits s /\ 0 <= cs_droplets s;
  cg_sum : cs_fruits s + cs_droplets s + cs_misses s = catch_total i;
  cg_caps : (ci_o_fruits i = None -> cs_fruits s <= ci_fruits i) /\
            (ci_o_droplets i = None -> cs_droplets s <= ci_droplets i);
  cg_combo : 0 <= cs_combo s <= catch_total i - cs_misses s /\
             (forall c, ci_combo i = Some c -> cs_combo s <= c);
  cg_tiny : 0 <= cs_tiny s /\ 0 <= cs_tiny_misses s /\
            (ci_acc i = None -> ci_o_tiny i = None \/ ci_o_tiny_misses i = None ->
             cs_tiny s + cs_tiny_misses s = ci_tiny i) }.

Lemma catch_find_best_bounds (at_ : Z) (cand_dist : Z -> float) lo hi :
  0 <= at_ -> 0 <= lo ->
  let r := snd (pick (fun t => (t, at_ - t)) cand_dist (range_incl (Z.min at_ lo) (Z.min at_ hi)) (infinity, (0, 0))) in
  0 <= fst r /\ 0 <= snd r /\ fst r + snd r <= at_.
Proof.
  intros Ha Hlo r. subst r.
  destruct (pick_in (fun t => (t, at_ - t)) cand_dist (range_incl (Z.min at_ lo) (Z.min at_ hi)) (infinity, (0, 0)))
    as [H|(x & Hx & H)]; rewrite H; cbn [fst snd].
  - lia.
  - apply range_incl_bounds in Hx. lia.
Qed.

(* fruits / droplets: pure integer arithmetic *)
Lemma catch_fd_ok i m : catch_in_ok i -> 0 <= m <= catch_total i ->
  let fd := catch_fd i m in
  0 <= fst fd /\ 0 <= snd fd /\ fst fd + snd fd + m = catch_total i /\
  (ci_o_fruits i = None -> fst fd <= ci_fruits i) /\ (ci_o_droplets i = None -> snd fd <= ci_droplets i).
Proof.
  intros (Hf & Hd & Ht & Hc & Hof & Hod & Hot & Hotm & Hm) Hm'. unfold catch_fd, catch_total in *. cbv zeta.
  destruct (ci_o_fruits i) as [f|]; [specialize (Hof f eq_refl)|];
    (destruct (ci_o_droplets i) as [d|]; [specialize (Hod d eq_refl)|]);
    cbn [fst snd]; rewrite ?sat_sub_spec; repeat split; intros; try discriminate; lia.
Qed.

Lemma catch_find_best_ok i nf nd m acc : 0 <= ci_tiny i ->
  let r := catch_find_best i nf nd m acc in 0 <= fst r /\ 0 <= snd r /\ fst r + snd r <= ci_tiny i.
Proof.
  intros Ht. unfold catch_find_best. cbv zeta.
  apply catch_find_best_bounds; [exact Ht|apply to_u32_nonneg].
Qed.

Lemma catch_tiny_ok i nf nd m : catch_in_ok i ->
  let tt := catch_tiny i nf nd m in
  0 <= fst tt /\ 0 <= snd tt /\
  (ci_acc i = None -> ci_o_tiny i = None \/ ci_o_tiny_misses i = None -> fst tt + snd tt = ci_tiny i).
Proof.
  intros (Hf & Hd & Ht & Hc & Hof & Hod & Hot & Hotm & Hm). unfold catch_tiny. cbv zeta.
  pose proof (fun a => catch_find_best_ok i nf nd m a Ht) as Hfb. cbv zeta in Hfb.
  destruct (ci_o_tiny i) as [t|]; [specialize (Hot t eq_refl)|];
    (destruct (ci_o_tiny_misses i) as [tm|]; [specialize (Hotm tm eq_refl)|]).
  - destruct (ci_acc i) as [a|].
    + destruct (t + tm =? ci_tiny i) eqn:E.
      * cbn [fst snd]. repeat split; try lia; try (intros; discriminate).
      * destruct (Hfb a) as (H1 & H2 & H3). repeat split; try assumption; try (intros; discriminate).
    + cbn [fst snd]. rewrite sat_sub_spec. repeat split; try lia; try (intros _ [H|H]; discriminate).
  - cbn [fst snd]. rewrite sat_sub_spec. repeat split; try lia.
  - cbn [fst snd]. rewrite sat_sub_spec. repeat split; try lia.
  - destruct (ci_acc i) as [a|].
    + destruct (Hfb a) as (H1 & H2 & H3). repeat split; try assumption; try (intros; discriminate).
    + cbn [fst snd]. repeat split; lia.
Qed.

Theorem catch_generate_ok i : catch_in_ok i -> catch_gs_ok i (catch_generate i).
Proof.
  intros Hok. pose proof Hok as (Hf & Hd & Ht & Hc & Hof & Hod & Hot & Hotm & Hm).
  unfold catch_generate. fold (catch_total i).
  set (m := omin (ci_misses i) (catch_total i)).
  assert (Hm' : 0 <= m <= catch_total i) by (apply omin_le; [unfold catch_total; lia|exact Hm]).
  pose proof (catch_fd_ok i m Hok Hm') as Hfd. cbv zeta in Hfd.
  destruct (catch_fd i m) as [nf nd]. cbn [fst snd] in Hfd. destruct Hfd as (Hnf & Hnd & Hsum & Hcf & Hcd).
  pose proof (catch_tiny_ok i nf nd m Hok) as Htt. cbv zeta in Htt.
  destruct (catch_tiny i nf nd m) as [t tm]. cbn [fst snd] in Htt. destruct Htt as (Ht1 & Ht2 & Ht3).
  constructor; cbn [cs_misses cs_fruits cs_droplets cs_combo cs_tiny cs_tiny_misses].
  - split; [reflexivity|lia].
  - split; assumption.
  - exact Hsum.
  - split; assumption.
  - rewrite sat_sub_spec. destruct (ci_combo i) as [c|]; [specialize (Hc c eq_refl)|].
    + split; [lia|]. intros c' H. injection H as <-. lia.
    + split; [lia|]. intros c' H. discriminate.
  - repeat split; assumption.
Qed.

(* generating again from the generated state (every field provided) returns it, for EVERY input:
   the fruit / droplet arm sees a full state and keeps it; the tiny-droplet arm either keeps a
   pair that already adds up or re-runs the same search on the same counts *)
Theorem catch_generate_idem i : catch_in_ok i ->
  catch_generate (catch_feed_back i (catch_generate i)) = catch_generate i.
Proof.
  intros Hok. pose proof Hok as (Hf & Hd & Ht & Hc & Hof & Hod & Hot & Hotm & Hm).
  unfold catch_generate at 2 3. fold (catch_total i).
  set (m := omin (ci_misses i) (catch_total i)).
  assert (Hm' : 0 <= m <= catch_total i) by (apply omin_le; [unfold catch_total; lia|exact Hm]).
  pose proof (catch_fd_ok i m Hok Hm') as Hfd. cbv zeta in Hfd.
  destruct (catch_fd i m) as [nf nd] eqn:Efd. cbn [fst snd] in Hfd. destruct Hfd as (Hnf & Hnd & Hsum & Hcf & Hcd).
  pose proof (catch_tiny_ok i nf nd m Hok) as Htt. cbv zeta in Htt.
  destruct (catch_tiny i nf nd m) as [t tm] eqn:Ett. cbn [fst snd] in Htt. destruct Htt as (Ht1 & Ht2 & Ht3).
  set (combo := match ci_combo i with Some c => Z.min c (sat_sub (catch_total i) m) | None => sat_sub (catch_total i) m end).
  assert (Hcombo : 0 <= combo <= catch_total i - m).
  { subst combo. rewrite sat_sub_spec. destruct (ci_combo i) as [c|]; [specialize (Hc c eq_refl)|]; lia. }
  unfold catch_generate, catch_feed_back.
  cbn [ci_fruits ci_droplets ci_tiny ci_combo ci_o_fruits ci_o_droplets ci_o_tiny ci_o_tiny_misses ci_misses ci_acc
       cs_misses cs_fruits cs_droplets cs_combo cs_tiny cs_tiny_misses omin].
  fold (catch_total i).
  assert (E1 : Z.min m (catch_total i) = m) by lia. rewrite E1.
  assert (E2 : Z.min combo (sat_sub (catch_total i) m) = combo) by (rewrite sat_sub_spec; lia). rewrite E2.
  (* fruits / droplets *)
  assert (Efd2 : catch_fd (mk_catch_in (ci_fruits i) (ci_droplets i) (ci_tiny i) (Some combo) (Some nf) (Some nd)
                                        (Some t) (Some tm) (Some m) (ci_acc i)) m = (nf, nd)).
  { unfold catch_fd. cbn [ci_fruits ci_droplets ci_o_fruits ci_o_droplets]. unfold catch_total in *.
    rewrite !sat_sub_spec. f_equal; lia. }
  rewrite Efd2.
  (* tiny droplets *)
  assert (Ett2 : catch_tiny (mk_catch_in (ci_fruits i) (ci_droplets i) (ci_tiny i) (Some combo) (Some nf) (Some nd)
                                          (Some t) (Some tm) (Some m) (ci_acc i)) nf nd m = (t, tm)).
  { unfold catch_tiny in *. cbn [ci_tiny ci_o_tiny ci_o_tiny_misses ci_acc].
    assert (Hfb : forall a, catch_find_best (mk_catch_in (ci_fruits i) (ci_droplets i) (ci_tiny i) (Some combo) (Some nf)
                                                         (Some nd) (Some t) (Some tm) (Some m) (ci_acc i)) nf nd m a
                            = catch_find_best i nf nd m a) by reflexivity.
    destruct (ci_acc i) as [a|] eqn:Ea.
    - destruct (t + tm =? ci_tiny i) eqn:E; [reflexivity|]. rewrite Hfb.
      (* the pair came out of the search (or of a provided pair that did not add up, which also
         went through the search): the search is a function of the same arguments *)
      destruct (ci_o_tiny i) as [t0|] eqn:E0; [specialize (Hot t0 eq_refl)|];
        (destruct (ci_o_tiny_misses i) as [tm0|] eqn:E1'; [specialize (Hotm tm0 eq_refl)|]).
      + destruct (t0 + tm0 =? ci_tiny i) eqn:E'.
        * injection Ett as <- <-. rewrite E' in E. discriminate.
        * exact Ett.
      + injection Ett as <- <-. apply Z.eqb_neq in E. rewrite sat_sub_spec in E. lia.
      + injection Ett as <- <-. apply Z.eqb_neq in E. rewrite sat_sub_spec in E. lia.
      + exact Ett.
    - f_equal. rewrite sat_sub_spec.
      destruct (ci_o_tiny i) as [t0|] eqn:E0; [specialize (Hot t0 eq_refl)|];
        (destruct (ci_o_tiny_misses i) as [tm0|] eqn:E1'; [specialize (Hotm tm0 eq_refl)|]);
        injection Ett as <- <-; rewrite ?sat_sub_spec; lia. }
  rewrite Ett2. reflexivity.
Qed.

(* ---- osu!: the hypothesis [osu_filled] of osu_generate_ok is only needed for the accuracy
   searches (fewer than two hit results provided together with an accuracy); in every other arm
   the generated state fills the objects unconditionally ------------------------------------ *)
Definition osu_two_provided (i : osu_in) : bool :=
  match oi_n300 i, oi_n100 i, oi_n50 i with
  | Some _, Some _, _ | Some _, _, Some _ | _, Some _, Some _ => true
  | _, _, _ => false
  end.

Lemma osu_filled_direct i : osu_in_ok i ->
  oi_acc i = None \/ osu_two_provided i = true -> osu_filled i.
Proof.
  intros (Hno & Hsl & Hlt & Hmc & Hp & Hc & H3 & H1 & H5 & Hm & Hlg & Hsm & Hen) Hcase.
  assert (Hn : 0 <= osu_n i) by (unfold osu_n; lia).
  pose proof (omin_le (oi_misses i) (osu_n i) Hn Hm) as Hmis. fold (osu_misses i) in Hmis.
  assert (Hr : 0 <= osu_rem i) by (unfold osu_rem; lia).
  pose proof (omin_le (oi_n300 i) (osu_rem i) Hr H3) as H300.
  pose proof (omin_le (oi_n100 i) (osu_rem i) Hr H1) as H100.
  pose proof (omin_le (oi_n50 i) (osu_rem i) Hr H5) as H50.
  unfold osu_filled, osu_generate. cbv zeta. fold (osu_n i). fold (osu_misses i).
  destruct (osu_slider_parts i) as [[ends large] small].
  assert (G : let '(a, b, c) := osu_hits i in osu_n i <= a + b + c + osu_misses i).
  { unfold osu_hits. fold (osu_n i). fold (osu_misses i). fold (osu_rem i).
    destruct (osu_slider_parts i) as [[ends' large'] small'].
    destruct (osu_slider_acc i) as [sv msv].
    unfold osu_two_provided in Hcase. unfold osu_rem in *.
    destruct (oi_acc i) as [acc|];
      destruct (oi_n300 i) as [v3|], (oi_n100 i) as [v1|], (oi_n50 i) as [v5|];
      try (destruct Hcase as [Hcase|Hcase]; discriminate Hcase);
      destruct (oi_best i); cbn [omin] in *; rewrite ?sat_sub_spec; lia. }
  destruct (osu_hits i) as [[a b] c]. cbn [os_n300 os_n100 os_n50 os_misses]. exact G.
Qed.
