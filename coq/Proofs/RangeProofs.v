(* Proofs/RangeProofs.v - difficulty_range (src/model/beatmap/attributes.rs) on binary64: the value computed is the
   rounded piecewise-linear map G, which is antitone; hence hit windows shrink as OD / AR grow - on the floats the
   code computes, for every window table of the crate and every positive clock rate. *)
From Coq Require Import ZArith Reals Floats Lia Lra.
From Flocq Require Import Core BinarySingleNaN PrimFloat.
From V Require Import FExact FInt FOps.
From V Require Import F64 F32 Attributes.
Open Scope R_scope.

Section Range.
(* a window triple of integers min >= avg >= max, e.g. 80 / 50 / 20 *)
Variables (w : windows) (a b c : Z).
Hypothesis Ha : IntF (w_min w) a.
Hypothesis Hb : IntF (w_avg w) b.
Hypothesis Hc : IntF (w_max w) c.
Hypothesis Hord : (c <= b <= a)%Z.
Hypothesis Hbound : (Z.abs a <= 2048 /\ Z.abs b <= 2048 /\ Z.abs c <= 2048)%Z.

Definition HI (x : R) : R := rndNE (IZR b + rndNE (rndNE (IZR (c - b) * rndNE (x - 5)) / 5)).
Definition LO (x : R) : R := rndNE (IZR b - rndNE (rndNE (IZR (b - a) * rndNE (5 - x)) / 5)).
Definition G (x : R) : R :=
  if Rlt_bool 5 x then HI x else if Rlt_bool x 5 then LO x else IZR b.

Lemma rnd_int : forall z : Z, (Z.abs z <= 2 ^ 53)%Z -> rndNE (IZR z) = IZR z.
Proof. intros z Hz. apply round_generic; [apply valid_rnd_N|apply int_format; exact Hz]. Qed.

Lemma rnd_0 : rndNE 0 = 0.
Proof. apply round_0. apply valid_rnd_N. Qed.

Lemma HI_le : forall x, 5 <= x -> HI x <= IZR b.
Proof.
  intros x Hx. unfold HI.
  assert (H1 : 0 <= rndNE (x - 5)) by (rewrite <- rnd_0; apply rnd_mono; lra).
  assert (Hcb : IZR (c - b) <= 0) by (apply IZR_le; lia).
  assert (H2 : rndNE (IZR (c - b) * rndNE (x - 5)) <= 0).
  { rewrite <- rnd_0. apply rnd_mono. 
    replace 0 with (IZR (c - b) * 0) by ring. apply Rmult_le_compat_neg_l; assumption. }
  assert (H3 : rndNE (rndNE (IZR (c - b) * rndNE (x - 5)) / 5) <= 0).
  { rewrite <- rnd_0. apply rnd_mono. lra. }
  rewrite <- (rnd_int b) at 2 by (change (2 ^ 53)%Z with 9007199254740992%Z; lia).
  apply rnd_mono. lra.
Qed.

Lemma LO_ge : forall x, x <= 5 -> IZR b <= LO x.
Proof.
  intros x Hx. unfold LO.
  assert (H1 : 0 <= rndNE (5 - x)) by (rewrite <- rnd_0; apply rnd_mono; lra).
  assert (Hba : IZR (b - a) <= 0) by (apply IZR_le; lia).
  assert (H2 : rndNE (IZR (b - a) * rndNE (5 - x)) <= 0).
  { rewrite <- rnd_0. apply rnd_mono.
    replace 0 with (IZR (b - a) * 0) by ring. apply Rmult_le_compat_neg_l; assumption. }
  assert (H3 : rndNE (rndNE (IZR (b - a) * rndNE (5 - x)) / 5) <= 0).
  { rewrite <- rnd_0. apply rnd_mono. lra. }
  rewrite <- (rnd_int b) at 1 by (change (2 ^ 53)%Z with 9007199254740992%Z; lia).
  apply rnd_mono. lra.
Qed.

Lemma HI_anti : forall x y, x <= y -> HI y <= HI x.
Proof.
  intros x y Hxy. unfold HI.
  assert (Hcb : IZR (c - b) <= 0) by (apply IZR_le; lia).
  assert (H1 : rndNE (x - 5) <= rndNE (y - 5)) by (apply rnd_mono; lra).
  assert (H2 : rndNE (IZR (c - b) * rndNE (y - 5)) <= rndNE (IZR (c - b) * rndNE (x - 5))).
  { apply rnd_mono. apply Rmult_le_compat_neg_l; assumption. }
  assert (H3 : rndNE (rndNE (IZR (c - b) * rndNE (y - 5)) / 5) <= rndNE (rndNE (IZR (c - b) * rndNE (x - 5)) / 5)).
  { apply rnd_mono. lra. }
  apply rnd_mono. lra.
Qed.

Lemma LO_anti : forall x y, x <= y -> LO y <= LO x.
Proof.
  intros x y Hxy. unfold LO.
  assert (Hba : IZR (b - a) <= 0) by (apply IZR_le; lia).
  assert (H1 : rndNE (5 - y) <= rndNE (5 - x)) by (apply rnd_mono; lra).
  assert (H2 : rndNE (IZR (b - a) * rndNE (5 - x)) <= rndNE (IZR (b - a) * rndNE (5 - y))).
  { apply rnd_mono. apply Rmult_le_compat_neg_l; assumption. }
  assert (H3 : rndNE (rndNE (IZR (b - a) * rndNE (5 - x)) / 5) <= rndNE (rndNE (IZR (b - a) * rndNE (5 - y)) / 5)).
  { apply rnd_mono. lra. }
  apply rnd_mono. lra.
Qed.

(* the rounded piecewise-linear map is antitone on the whole line *)
Lemma G_anti : forall x y, x <= y -> G y <= G x.
Proof.
  intros x y Hxy. unfold G.
  destruct (Rlt_bool_spec 5 x) as [Hx|Hx]; destruct (Rlt_bool_spec 5 y) as [Hy|Hy]; try lra.
  - apply HI_anti; exact Hxy.
  - destruct (Rlt_bool_spec x 5) as [Hx5|Hx5].
    + apply Rle_trans with (IZR b); [apply HI_le; lra|apply LO_ge; lra].
    + apply HI_le; lra.
  - destruct (Rlt_bool_spec x 5) as [Hx5|Hx5]; destruct (Rlt_bool_spec y 5) as [Hy5|Hy5]; try lra.
    + apply LO_anti; exact Hxy.
    + apply LO_ge; lra.
Qed.

Lemma BF_of_IntF : forall x z, IntF x z -> (Z.abs z <= 2048)%Z -> BF 40 x.
Proof.
  intros x z [F R] Hz. split; [exact F|]. rewrite R, <- abs_IZR.
  change (bpow radix2 40) with (IZR (2 ^ 40)). apply IZR_le. change (2 ^ 40)%Z with 1099511627776%Z. lia.
Qed.

Lemma five_int : IntF 5%float 5.
Proof. change 5%float with (of_Z 5). apply of_Z_int. reflexivity. Qed.

(* the float computed by difficulty_range is G of the argument's real value *)
Lemma difficulty_range_G : forall d, fin d -> Rabs (RV d) <= bpow radix2 40 ->
  BF 83 (difficulty_range d w) /\ RV (difficulty_range d w) = G (RV d).
Proof.
  intros d Fd Bd. destruct Hbound as [Ba [Bb Bc]].
  assert (Bmin := BF_of_IntF _ _ Ha Ba). assert (Bavg := BF_of_IntF _ _ Hb Bb). assert (Bmax := BF_of_IntF _ _ Hc Bc).
  assert (B5 := BF_of_IntF _ _ five_int ltac:(lia)).
  assert (Bdd : BF 40 d) by (split; assumption).
  destruct Ha as [_ Ra]. destruct Hb as [Fb Rb]. destruct Hc as [_ Rc]. destruct five_int as [F5 R5].
  assert (H5abs : 1 <= Rabs (RV 5%float)) by (rewrite R5, Rabs_pos_eq; lra).
  unfold difficulty_range, G.
  rewrite (ltb_RR _ _ F5 Fd), (ltb_RR _ _ Fd F5), R5.
  destruct (Rlt_bool_spec 5 (RV d)) as [H|H].
  - destruct (sub_R 40 _ _ ltac:(lia) Bmax Bavg) as [B1 E1].
    destruct (sub_R 40 _ _ ltac:(lia) Bdd B5) as [B2 E2].
    destruct (mul_R 41 41 _ _ ltac:(lia) ltac:(lia) ltac:(lia) B1 B2) as [B3 E3].
    destruct (div_R 82 _ _ ltac:(lia) B3 F5 H5abs) as [B4 E4].
    destruct (add_R 82 _ _ ltac:(lia) (BF_weaken 40 82 _ ltac:(lia) Bavg) B4) as [B6 E6].
    split; [exact B6|]. unfold HI.
    rewrite E6, E4, E3, E2, E1, Rb, Rc, R5. rewrite <- minus_IZR.
    rewrite (rnd_int (c - b)) by (change (2 ^ 53)%Z with 9007199254740992%Z; lia). reflexivity.
  - destruct (Rlt_bool_spec (RV d) 5) as [H'|H'].
    + destruct (sub_R 40 _ _ ltac:(lia) Bavg Bmin) as [B1 E1].
      destruct (sub_R 40 _ _ ltac:(lia) B5 Bdd) as [B2 E2].
      destruct (mul_R 41 41 _ _ ltac:(lia) ltac:(lia) ltac:(lia) B1 B2) as [B3 E3].
      destruct (div_R 82 _ _ ltac:(lia) B3 F5 H5abs) as [B4 E4].
      destruct (sub_R 82 _ _ ltac:(lia) (BF_weaken 40 82 _ ltac:(lia) Bavg) B4) as [B6 E6].
      split; [exact B6|]. unfold LO.
      rewrite E6, E4, E3, E2, E1, Rb, Ra, R5. rewrite <- minus_IZR.
      rewrite (rnd_int (b - a)) by (change (2 ^ 53)%Z with 9007199254740992%Z; lia). reflexivity.
    + split; [apply (BF_weaken 40 83); [lia|exact Bavg]|exact Rb].
Qed.

(* hit windows shrink as the difficulty value grows - on the binary64 values the code computes *)
Theorem difficulty_range_antitone : forall d1 d2, fin d1 -> fin d2 ->
  Rabs (RV d1) <= bpow radix2 40 -> Rabs (RV d2) <= bpow radix2 40 -> RV d1 <= RV d2 ->
  fin (difficulty_range d1 w) /\ fin (difficulty_range d2 w)
  /\ RV (difficulty_range d2 w) <= RV (difficulty_range d1 w).
Proof.
  intros d1 d2 F1 F2 B1 B2 Hle.
  destruct (difficulty_range_G d1 F1 B1) as [G1 E1]. destruct (difficulty_range_G d2 F2 B2) as [G2 E2].
  split; [exact (proj1 G1)|]. split; [exact (proj1 G2)|]. rewrite E1, E2. apply G_anti. exact Hle.
Qed.
End Range.

(* ---- the crate's window tables ---- *)
Lemma int_const : forall (f : PrimFloat.float) (z : Z), f = of_Z z -> (Z.abs z < 2 ^ 53)%Z -> IntF f z.
Proof. intros f z -> Hz. apply of_Z_int. exact Hz. Qed.

Ltac win_const := apply int_const; [vm_compute; reflexivity | vm_compute; reflexivity].

Definition ordered_window (w : windows) : Prop :=
  exists a b c : Z, IntF (w_min w) a /\ IntF (w_avg w) b /\ IntF (w_max w) c
    /\ (c <= b <= a)%Z /\ (Z.abs a <= 2048 /\ Z.abs b <= 2048 /\ Z.abs c <= 2048)%Z.

Lemma tables_ordered : ordered_window OSU_GREAT /\ ordered_window OSU_OK /\ ordered_window OSU_MEH
  /\ ordered_window TAIKO_GREAT /\ ordered_window TAIKO_OK /\ ordered_window AR_WINDOWS.
Proof.
  repeat split.
  - exists 80%Z, 50%Z, 20%Z. repeat split; try win_const; lia.
  - exists 140%Z, 100%Z, 60%Z. repeat split; try win_const; lia.
  - exists 200%Z, 150%Z, 100%Z. repeat split; try win_const; lia.
  - exists 50%Z, 35%Z, 20%Z. repeat split; try win_const; lia.
  - exists 120%Z, 80%Z, 50%Z. repeat split; try win_const; lia.
  - exists 1800%Z, 1200%Z, 450%Z. repeat split; try win_const; lia.
Qed.

(* for every ordered window table, every pair of difficulty values d1 <= d2 (any finite floats up to
   2^40) and every positive clock rate in [2^-7, 2^7]: the window for d2, divided by the clock rate, is
   not larger than the one for d1 - on the binary64 values, no real-number twin involved *)
Theorem window_antitone : forall w d1 d2 clock, ordered_window w ->
  fin d1 -> fin d2 -> Rabs (RV d1) <= bpow radix2 40 -> Rabs (RV d2) <= bpow radix2 40 -> RV d1 <= RV d2 ->
  fin clock -> bpow radix2 (-7) <= RV clock ->
  fin (difficulty_range d1 w / clock)%float /\ fin (difficulty_range d2 w / clock)%float
  /\ RV (difficulty_range d2 w / clock)%float <= RV (difficulty_range d1 w / clock)%float.
Proof.
  intros w d1 d2 clock [a [b [c [Ha [Hb [Hc [Hord Hbnd]]]]]]] F1 F2 B1 B2 Hle Fc Hc7.
  assert (Hcp : 0 < RV clock). { apply Rlt_le_trans with (bpow radix2 (-7)); [apply bpow_gt_0|exact Hc7]. }
  destruct (difficulty_range_G w a b c Ha Hb Hc Hord Hbnd d1 F1 B1) as [G1 E1].
  destruct (difficulty_range_G w a b c Ha Hb Hc Hord Hbnd d2 F2 B2) as [G2 E2].
  assert (Habs : bpow radix2 (- 7) <= Rabs (RV clock)) by (rewrite Rabs_pos_eq; lra).
  destruct (div_R2 83 7 _ clock ltac:(lia) ltac:(lia) ltac:(lia) G1 Fc Habs) as [Q1 R1].
  destruct (div_R2 83 7 _ clock ltac:(lia) ltac:(lia) ltac:(lia) G2 Fc Habs) as [Q2 R2].
  split; [exact (proj1 Q1)|]. split; [exact (proj1 Q2)|].
  rewrite R1, R2. apply rnd_mono. rewrite E1, E2.
  assert (Hg := G_anti a b c Hord Hbnd (RV d1) (RV d2) Hle).
  unfold Rdiv. apply Rmult_le_compat_r; [apply Rlt_le, Rinv_0_lt_compat; exact Hcp|exact Hg].
Qed.
