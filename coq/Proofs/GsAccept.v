(* Proofs/GsAccept.v — the hypotheses of the C12 theorems as one computable predicate, so that
   the correspondence run can evaluate them on every recorded trace: a reachable input on which
   a hypothesis is false is an input the theorems do not cover. *)
From Coq Require Import ZArith NArith List Bool Floats Lia.
From V Require Import F64 Gradual GenState GenStateMania GsCases GradualProofs GenStateProofs GenStateManiaProofs.
Import ListNotations.
Open Scope Z_scope.

Definition osu_filled_b (i : osu_in) : bool :=
  let s := osu_generate i in osu_n i <=? os_n300 s + os_n100 s + os_n50 s + os_misses s.

Lemma osu_filled_b_true i : osu_filled_b i = true -> osu_filled i.
Proof. unfold osu_filled_b, osu_filled. cbv zeta. intros H. apply Z.leb_le in H. exact H. Qed.

Definition gs_accepts (c : gs_case) : bool :=
  match c with
  | GOsu i => osu_filled_b i
  | GTaiko i => taiko_accepts i
  | GCatch _ => true
  | GMania i => mania_accepts i
  end.

(* ids of the cases on which a theorem hypothesis is false, tagged 9 *)
Definition accept_bad (cases : list (N * gs_case * list Z * list Z)) : list (N * N) :=
  flat_map (fun c => let '(id, g, _, _) := c in if gs_accepts g then [] else [(id, 9%N)]) cases.
