(* Proofs/OptTwinProofs.v — the one-dimensional accuracy searches are globally optimal, for
   every object count (no bound): nothing in 0..=R is closer to the target than the better of
   the clamped floor and ceil of the exact estimate. *)
From Coq Require Import ZArith List Bool Lia.
From V Require Import OptTwin.
Import ListNotations.
Open Scope Z_scope.

Local Arguments Z.mul : simpl never.
Local Arguments Z.div : simpl never.

Lemma floor_spec p q : 0 < q -> (p / q) * q <= p < (p / q + 1) * q.
Proof. intros Hq. pose proof (Z.div_mod p q ltac:(lia)). pose proof (Z.mod_pos_bound p q Hq). nia. Qed.

Lemma ceil_spec p q : 0 < q -> (- ((- p) / q) - 1) * q < p <= (- ((- p) / q)) * q.
Proof. intros Hq. pose proof (floor_spec (- p) q Hq). nia. Qed.

(* between floor and ceil there is no integer *)
Lemma floor_ceil p q : 0 < q -> let f := p / q in let c := - ((- p) / q) in c = f \/ c = f + 1.
Proof. intros Hq f c. pose proof (floor_spec p q Hq). pose proof (ceil_spec p q Hq). subst f c. nia. Qed.

Theorem nearest_range p q R : 0 < q -> 0 <= R -> 0 <= nearest p q R <= R.
Proof. intros Hq HR. unfold nearest. destruct (_ <? _); lia. Qed.

Theorem nearest_optimal p q R y : 0 < q -> 0 <= R -> 0 <= y <= R ->
  Z.abs (p - nearest p q R * q) <= Z.abs (p - y * q).
Proof.
  intros Hq HR Hy. unfold nearest.
  pose proof (floor_spec p q Hq) as Hf. pose proof (ceil_spec p q Hq) as Hc.
  pose proof (floor_ceil p q Hq) as Hfc. cbv zeta in Hfc.
  set (f := p / q) in *. set (c := - ((- p) / q)) in *.
  set (lo := Z.min R (Z.max 0 f)). set (hi := Z.min R (Z.max 0 c)).
  (* whichever of lo / hi is kept, it is at least as close as both *)
  assert (Hbest : forall b, (b = if Z.abs (p - hi * q) <? Z.abs (p - lo * q) then hi else lo) ->
                  Z.abs (p - b * q) <= Z.abs (p - lo * q) /\ Z.abs (p - b * q) <= Z.abs (p - hi * q)).
  { intros b ->. destruct (Z.abs (p - hi * q) <? Z.abs (p - lo * q)) eqn:E.
    - apply Z.ltb_lt in E. lia.
    - apply Z.ltb_ge in E. lia. }
  destruct (Hbest _ eq_refl) as [Hlo Hhi].
  (* y is on one side of the gap (f, c) *)
  assert (Hy' : Z.abs (p - lo * q) <= Z.abs (p - y * q) \/ Z.abs (p - hi * q) <= Z.abs (p - y * q)).
  { destruct (Z_le_gt_dec y f) as [Le|Gt].
    - (* y <= f: lo = min R (max 0 f) is between y and f, and f*q <= p *)
      left. subst lo. assert (y <= Z.min R (Z.max 0 f) <= Z.max 0 f) by lia.
      destruct (Z_le_gt_dec 0 f); [|lia].
      assert (Z.min R (Z.max 0 f) <= f) by lia. nia.
    - (* y >= f + 1 >= c: hi = min R (max 0 c) is between c and y, and p <= c*q *)
      right. subst hi. assert (c <= y) by lia.
      assert (Z.max 0 c <= y) by lia.
      assert (Hm : Z.min R (Z.max 0 c) = Z.max 0 c) by lia. rewrite Hm.
      destruct (Z_le_gt_dec 0 c) as [C0|C0].
      + replace (Z.max 0 c) with c by lia. nia.
      + replace (Z.max 0 c) with 0 by lia. nia. }
  lia.
Qed.

(* taiko: for every object count T > 0, every miss count, every target a/b (b > 0) and every
   other number y of 300s among the R = T - m non-missed objects (the 100s are the rest) *)
Theorem taiko_twin_optimal T m a b y : 0 < T -> 0 <= m <= T -> 0 < b -> 0 <= y <= T - m ->
  0 <= taiko_twin T m a b <= T - m /\
  taiko_dist T m a b (taiko_twin T m a b) <= taiko_dist T m a b y.
Proof.
  intros HT Hm Hb Hy. unfold taiko_twin, taiko_dist. cbv zeta.
  split; [apply nearest_range; lia|].
  pose proof (nearest_optimal (2 * T * a - (T - m) * b) b (T - m) y Hb ltac:(lia) Hy) as H.
  set (x := nearest (2 * T * a - (T - m) * b) b (T - m)) in *.
  replace (2 * T * a - (x + (T - m)) * b) with (2 * T * a - (T - m) * b - x * b) by lia.
  replace (2 * T * a - (y + (T - m)) * b) with (2 * T * a - (T - m) * b - y * b) by lia.
  exact H.
Qed.

(* taiko_dist really is the distance in accuracy, scaled by the positive constant 2*T*b:
   |a/b - (2x + (R - x)) / (2T)| = taiko_dist / (2T*b) *)
Lemma taiko_dist_is_scaled_accuracy_distance T m a b x :
  taiko_dist T m a b x = Z.abs (a * (2 * T) - (2 * x + (T - m - x)) * b).
Proof. unfold taiko_dist. f_equal. lia. Qed.

(* catch: for every count of caught fruits + droplets, tiny droplets at_, misses and target *)
Theorem catch_twin_optimal fd at_ m a b y : 0 <= fd -> 0 <= at_ -> 0 <= m -> 0 < b -> 0 <= y <= at_ ->
  0 <= catch_twin fd at_ m a b <= at_ /\
  catch_dist fd at_ m a b (catch_twin fd at_ m a b) <= catch_dist fd at_ m a b y.
Proof.
  intros Hfd Hat Hm Hb Hy. unfold catch_twin, catch_dist. cbv zeta.
  split; [apply nearest_range; lia|].
  pose proof (nearest_optimal ((fd + at_ + m) * a - fd * b) b at_ y Hb Hat Hy) as H.
  set (x := nearest ((fd + at_ + m) * a - fd * b) b at_) in *.
  replace ((fd + at_ + m) * a - (fd + x) * b) with ((fd + at_ + m) * a - fd * b - x * b) by lia.
  replace ((fd + at_ + m) * a - (fd + y) * b) with ((fd + at_ + m) * a - fd * b - y * b) by lia.
  exact H.
Qed.

(* non-vacuity: 100 objects, 3 misses, target 0.9 = 9/10: 77 great, 20 ok *)
Example taiko_twin_example : taiko_twin 100 3 9 10 = 83 /\ taiko_dist 100 3 9 10 83 = 0.
Proof. vm_compute. split; reflexivity. Qed.
