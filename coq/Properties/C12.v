(* Properties/C12.v — generated score states are consistent, stable, and what calculate() uses *)
From Coq Require Import ZArith List Bool Floats String.
From V Require Import F64 Gradual GenState GenStateMania GenStateProofs GenStateManiaProofs GenStateManiaTop Tables ScoreConv ScoreConvProofs.
Import ListNotations.
Open Scope Z_scope.

(* osu!: for every attribute shape, every subset of provided results with any non-negative
   values, both priorities, all three origins, any passed_objects and any accuracy: misses are
   clamped to the objects; every hit result is within the non-missed objects; the results add
   up to the object count whenever the (clamped) provided ones do not exceed it; a provided
   result is never reduced below its clamp and is kept exactly when another result is free;
   the combo never exceeds max_combo - misses nor a provided combo; slider hits are within
   their maxima.  [osu_filled] (the accuracy search accepted a candidate; automatically true
   without accuracy or when a hit result absorbs the remainder) is evaluated on every trace. *)
Theorem C12_osu_state_consistent : forall i : osu_in,
  osu_in_ok i -> osu_filled i -> osu_gs_ok i (osu_generate i).
Proof. exact osu_generate_ok. Qed.
Print Assumptions C12_osu_state_consistent.

Theorem C12_osu_idempotent : forall i : osu_in,
  osu_in_ok i -> osu_filled i ->
  osu_generate (osu_feed_back i (osu_generate i)) = osu_generate i.
Proof. exact osu_generate_idem. Qed.
Print Assumptions C12_osu_idempotent.

(* taiko: same facts; here the acceptance of the search is a decidable predicate on the
   input ([taiko_accepts], true without accuracy or with a provided hit result) *)
Theorem C12_taiko_state_consistent : forall i : taiko_in,
  taiko_in_ok i -> taiko_accepts i = true -> taiko_gs_ok i (taiko_generate i).
Proof. exact taiko_generate_ok. Qed.
Print Assumptions C12_taiko_state_consistent.

Theorem C12_taiko_idempotent : forall i : taiko_in,
  taiko_in_ok i -> taiko_accepts i = true ->
  taiko_generate (taiko_feed_back i (taiko_generate i)) = taiko_generate i.
Proof. exact taiko_generate_idem. Qed.
Print Assumptions C12_taiko_idempotent.

(* osu!: the hypothesis osu_filled of C12_osu_state_consistent is only needed for the accuracy searches
   (an accuracy together with fewer than two provided hit results); everywhere else it is a theorem *)
Theorem C12_osu_filled_direct : forall i : osu_in, osu_in_ok i ->
  oi_acc i = None \/ osu_two_provided i = true -> osu_filled i.
Proof. exact osu_filled_direct. Qed.
Print Assumptions C12_osu_filled_direct.

(* non-vacuity: a concrete accuracy-only taiko input is accepted and fills *)
Example C12_taiko_example :
  let i := mk_taiko_in 100 4294967295 None None None (Some 3) (Some 0x1.ccccccccccccdp-1%float) true in
  taiko_accepts i = true /\ taiko_state_list (taiko_generate i) = [97; 83; 14; 3].
Proof. vm_compute. split; reflexivity. Qed.

(* catch: for EVERY attribute shape and every combination of provided values (no acceptance
   hypothesis needed): misses within the palpable objects, fruits + droplets + misses = fruits +
   droplets of the map, a kind that was not provided stays within its own maximum, combo within the
   achievable one and below a provided one, tiny droplets / tiny droplet misses non-negative and
   within the map's tiny droplets *)
Theorem C12_catch_state_consistent : forall i : catch_in, catch_in_ok i -> catch_gs_ok i (catch_generate i).
Proof. exact catch_generate_ok. Qed.
Print Assumptions C12_catch_state_consistent.

(* catch: generating twice gives the same state, for EVERY input (NaN accuracy included) *)
Theorem C12_catch_idempotent : forall i : catch_in, catch_in_ok i ->
  catch_generate (catch_feed_back i (catch_generate i)) = catch_generate i.
Proof. exact catch_generate_idem. Qed.
Print Assumptions C12_catch_idempotent.

(* mania: for EVERY attribute shape, every subset of provided hit results, both priorities,
   classic or not, with or without accuracy.  The four nested candidate loops are covered without
   any assumption on their float bounds; the one hypothesis, `mania_accepts`, says that the
   search accepted a candidate and is evaluated on every recorded trace (Proofs/GsAccept.v). *)
Theorem C12_mania_state_consistent : forall i : mania_in,
  mania_in_ok i -> mania_accepts i = true -> mania_gs_ok i (mania_generate i).
Proof. exact mania_generate_ok. Qed.
Print Assumptions C12_mania_state_consistent.

Theorem C12_mania_idempotent : forall i : mania_in,
  mania_in_ok i -> mania_accepts i = true ->
  mania_generate (mania_feed_back i (mania_generate i)) = mania_generate i.
Proof. exact mania_generate_idem. Qed.
Print Assumptions C12_mania_idempotent.

(* the hypothesis cannot be dropped: with a NaN accuracy nothing is accepted and the fallback
   state overrides a provided n50 (outside the property: an accuracy is a number) *)
Theorem C12_mania_nan_refuted :
  let i := mk_mania_in 2 0 4294967295 None None None None (Some 0) None (Some nan) true true in
  mania_in_ok i /\ mania_accepts i = false /\ ms_n50 (mania_generate i) = 2.
Proof. exact mania_nan_refuted. Qed.
Print Assumptions C12_mania_nan_refuted.

(* non-vacuity: a concrete accuracy-only mania input is accepted *)
Example C12_mania_example :
  let i := mk_mania_in 20 3 4294967295 None None None None None (Some 2) (Some 0x1.ccccccccccccdp-1%float) true false in
  mania_accepts i = true /\ ms_total (mania_generate i) = 23.
Proof. vm_compute. split; reflexivity. Qed.

(* the generated state survives the mode-agnostic ScoreState: `From<Mode> for ScoreState` followed
   by `From<ScoreState> for Mode` (tables regenerated from src/any/score_state.rs on every run) is
   the identity on every field of every mode state, so `Performance::state(generated)` evaluates the
   state the mode's own builder generated *)
Theorem C12_score_state_roundtrip : forall mode to_mode from_mode,
  table_of "ScoreState"%string mode = Some to_mode -> table_of mode "ScoreState"%string = Some from_mode ->
  roundtrip_ok mode = true ->
  forall (s : sstate) f, In f (fields_of to_mode) -> conv to_mode (conv from_mode s) f = s f.
Proof. exact score_state_roundtrip. Qed.
Print Assumptions C12_score_state_roundtrip.
Theorem C12_score_state_roundtrip_now : forallb roundtrip_ok mode_states = true.
Proof. exact tables_score_roundtrip. Qed.
Print Assumptions C12_score_state_roundtrip_now.
