(* Properties/C02.v — gradual difficulty equals difficulty of the played prefix. *)
From Coq Require Import ZArith List Bool.
From V Require Import Tables F64 Gradual GradualProofs TaikoProofs.
Import ListNotations.
Open Scope Z_scope.

(* For every object list, every skill (state type, initial state, process function) and
   every sequence of next / nth(k) / len calls, a fresh gradual calculator returns exactly
   what a plain iterator over [one-shot(1); ...; one-shot(total)] returns — counts and
   skill state.  Hence: the i-th value is the one-shot calculation with passed_objects(i),
   exactly `len()` = total values are produced, and the final one is the full calculation.
   [take] is the passed_objects setting of the Difficulty handed to the constructor
   (usize::MAX when unset). *)
Theorem C02_osu : forall (S : Type) (process : S -> Z -> S) (s0 : S)
    (objs : list okind) (take : Z) (ops : list gop),
  0 < take -> Forall nth_ok ops ->
  run_gops (osu_next S process objs take) (osu_nth S process objs take)
           (osu_len S objs take) (fun v => v) ops (osu_new S s0 objs)
  = spec_gops (oneshots (osu_oneshot S process s0 objs) (zlen objs)) ops.
Proof. exact osu_gradual_refines. Qed.
Print Assumptions C02_osu.

Theorem C02_catch : forall (S : Type) (process : S -> Z -> S) (s0 : S)
    (evs : list cevent) (ops : list gop),
  Forall nth_ok ops ->
  run_gops (catch_next S process evs) (catch_nth S process evs)
           (catch_len S evs) (fun v => v) ops (catch_new S s0 evs)
  = spec_gops (oneshots (catch_oneshot S process s0 evs) (zlen evs)) ops.
Proof. exact catch_gradual_refines. Qed.
Print Assumptions C02_catch.

Theorem C02_mania : forall (S : Type) (process : S -> Z -> S) (s0 : S)
    (objs : list mobj) (take : Z) (ops : list gop),
  zlen objs <= take -> Forall nth_ok ops ->
  run_gops (mania_next S process objs take) (mania_nth S process objs take)
           (mania_len S objs take) (fun v => v) ops (mania_new S s0 objs)
  = spec_gops (oneshots (mania_oneshot S process s0 objs) (zlen objs)) ops.
Proof. exact mania_gradual_refines. Qed.
Print Assumptions C02_mania.

(* plain iteration spelled out: len, value, len, value, ..., 0, None *)
Theorem C02_plain_iteration : forall (V : Type) (rem : list V),
  spec_gops rem (plain_ops (length rem)) = spec_plain rem.
Proof. exact @spec_plain_ops. Qed.
Print Assumptions C02_plain_iteration.

(* the final value is the unlimited calculation (one-shot(total) = one-shot(usize::MAX)) *)
Theorem C02_final_is_full_osu : forall (S : Type) (process : S -> Z -> S) (s0 : S)
    (objs : list okind) (n m : Z),
  zlen objs <= n -> zlen objs <= m -> 0 < n -> 0 < m ->
  osu_oneshot S process s0 objs n = osu_oneshot S process s0 objs m.
Proof. exact osu_oneshot_cap. Qed.
Print Assumptions C02_final_is_full_osu.

Theorem C02_final_is_full_catch : forall (S : Type) (process : S -> Z -> S) (s0 : S)
    (evs : list cevent) (n m : Z),
  zlen evs <= n -> zlen evs <= m ->
  catch_oneshot S process s0 evs n = catch_oneshot S process s0 evs m.
Proof. exact catch_oneshot_cap. Qed.
Print Assumptions C02_final_is_full_catch.

Theorem C02_final_is_full_mania : forall (S : Type) (process : S -> Z -> S) (s0 : S)
    (objs : list mobj) (n m : Z),
  zlen objs <= n -> zlen objs <= m ->
  mania_oneshot S process s0 objs n = mania_oneshot S process s0 objs m.
Proof. exact mania_oneshot_cap. Qed.
Print Assumptions C02_final_is_full_mania.

(* taiko (after the fixes 8d6162b and the F6c fix): for every flag list (which objects are hits), every skill oracle
   and every op sequence the calculator equals the plain iterator over one-shot(1..hits);
   passed_objects counts hits *)
Theorem C02_taiko : forall (S : Type) (process : S -> Z -> S) (s0 : S) (flags : list bool),
  zlen flags < 4294967295 -> forall ops : list gop, Forall nth_ok ops ->
  run_gops (taiko_next S process flags) (taiko_nth S process flags) (taiko_len S flags) (fun v => v) ops
           (taiko_new S s0)
  = spec_gops (oneshots (taiko_oneshot S process s0 flags) (taiko_total_hits flags)) ops.
Proof. exact taiko_gradual_refines. Qed.
Print Assumptions C02_taiko.

(* taiko, former finding F6c (fixed): passing the last hit passes the whole map, so the final
   gradual value — the one-shot value with all hits passed — is the value of the unlimited
   calculation and of every passed_objects beyond, for every flag list incl. trailing non-hits *)
Theorem C02_final_is_full_taiko : forall (S : Type) (process : S -> Z -> S) (s0 : S)
    (flags : list bool) (take : Z),
  0 < taiko_total_hits flags -> taiko_total_hits flags <= take ->
  taiko_oneshot S process s0 flags take = taiko_oneshot S process s0 flags (taiko_total_hits flags).
Proof. exact taiko_final_is_full. Qed.
Print Assumptions C02_final_is_full_taiko.

Example C02_taiko_trailing_now_ok :
  let flags := [true; true; true; false] in
  taiko_oneshot (list Z) trace_process [] flags USIZE_MAX
  = taiko_oneshot (list Z) trace_process [] flags (taiko_total_hits flags)
  /\ taiko_run flags [GNext; GNext; GNext; GNext] = taiko_spec flags [GNext; GNext; GNext; GNext].
Proof. exact taiko_trailing_now_ok. Qed.

(* the one-shot side counts min(take, hits) *)
Theorem C02_taiko_combo : forall (S : Type) (process : S -> Z -> S) (s0 : S)
    (flags : list bool) (take : Z), 0 <= take -> taiko_total_hits flags < U32_MAX ->
  fst (taiko_oneshot S process s0 flags take) = Z.min take (taiko_total_hits flags).
Proof. exact taiko_oneshot_combo. Qed.
Print Assumptions C02_taiko_combo.

(* the theorems above take ONE initial skill state for the gradual and the one-shot calculation; in the
   source both constructors build their skills from the same values, in the same order (re-read on
   every run: skill constructor calls of all four modes, catcher-width correction before its uses) *)
Theorem C02_setup_facts_now : forallb snd Tables.setup_facts = true /\ (4 <= length Tables.setup_facts)%nat.
Proof. exact tables_setup_facts. Qed.
Print Assumptions C02_setup_facts_now.
