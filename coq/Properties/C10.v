(* Properties/C10.v — the cargo features raw_strains and sync never change any result. *)
From Coq Require Import String List Bool ZArith.
From V Require Import F64 StrainsVec StrainsVecProofs Tables EffectsProofs Interleave InterleaveProofs SumZero SumZeroProofs.
Import ListNotations.
Open Scope Z_scope.

(* raw_strains: for every sequence of pushed 64-bit words other than a NaN with a clear sign bit
   — zeros of both signs, negative values (which skills do produce), subnormals, positive finite
   values, infinities — the compact list and the plain Vec<f64> have the same length, iterate to
   the same values, convert to the same vector, and give the same sorted non-zero vector that
   the weighted sums are computed from.  (Exported peaks are scanned for NaN on every run.) *)
Theorem C10_raw_equiv : forall pushes : list Z,
  forallb push_ok pushes = true -> Z.of_nat (length pushes) < SIGN ->
  let ops := map OPush pushes in
  let '(s, ok) := StrainsVec.run sv_empty ops in
  let r := fold_left raw_push pushes [] in
  ok = true /\ len s = Z.of_nat (length r) /\ iter_all s = r /\ into_vec s = Some r
  /\ transmute_into_vec (retain_non_zero_and_sort s)
     = Some (raw_sort_desc (raw_retain_non_zero r)).
Proof. exact raw_equiv. Qed.
Print Assumptions C10_raw_equiv.

(* the precondition is necessary: a positive NaN is kept by the compact list and dropped by the
   raw one, which is why the checks also scan every exported peak *)
(* ... and so does `len()` after the zeros are removed (it did not before the compact list's
   stale length was fixed: the seed S-C10-4 turned that latent difference into a result difference) *)
Theorem C10_raw_len_equiv : forall pushes : list Z,
  forallb push_ok pushes = true -> Z.of_nat (length pushes) < SIGN ->
  let s := fst (StrainsVec.run sv_empty (map OPush pushes)) in
  let r := fold_left raw_push pushes [] in
  len (retain_non_zero_and_sort s) = Z.of_nat (length (raw_sort_desc (raw_retain_non_zero r))).
Proof. exact raw_len_equiv. Qed.
Print Assumptions C10_raw_len_equiv.

Theorem C10_precondition_necessary :
  exists b, 0 <= b < TWO64 /\ push_ok b = false /\
    transmute_into_vec (retain_non_zero_and_sort (fst (push sv_empty b)))
    <> Some (raw_sort_desc (raw_retain_non_zero (raw_push [] b))).
Proof. exact raw_differs_nan_refuted. Qed.
Print Assumptions C10_precondition_necessary.

(* sync: the Rc<RefCell> and Arc<RwLock> cells are the same state machine on every operation
   sequence; they differ only in how a conflicting access fails, and the access pattern of the
   taiko object graph (temporaries, nested reads, writes with no guard alive) never conflicts *)
Theorem C10_cell_equiv : forall ops c,
  match cell_run RefCellFlavour c ops, cell_run RwLockFlavour c ops with
  | Done a, Done b => a = b
  | Panicked, Blocked => True
  | _, _ => False
  end.
Proof. exact cell_equiv. Qed.
Print Assumptions C10_cell_equiv.
Theorem C10_no_conflict : forall ops c depth mut_held,
  readers c = depth -> writer c = mut_held -> (mut_held = true -> depth = 0%nat) ->
  well_nested depth mut_held ops = true ->
  exists c', cell_run RefCellFlavour c ops = Done c' /\ cell_run RwLockFlavour c ops = Done c'.
Proof. exact well_nested_no_conflict. Qed.
Print Assumptions C10_no_conflict.

(* the only cfg(feature) sites of the current source are the two `inner` modules *)
Theorem C10_feature_sites : features_covered feature_sites = true.
Proof. exact tables_features_covered. Qed.
Print Assumptions C10_feature_sites.

(* `sum` (the flashlight difficulty value): the raw_strains variant adds the +0.0 entries of the plain
   vector, the compact variant skips its zero runs.  For every push sequence without a positive NaN the
   two sums are the same float, or both are a zero (adding +0.0 leaves every binary64 accumulator
   unchanged except that -0.0 becomes +0.0 - proved with Flocq) *)
Theorem C10_raw_sum_equiv : forall pushes : list Z,
  forallb push_ok pushes = true -> Z.of_nat (length pushes) < SIGN ->
  let s := fst (StrainsVec.run sv_empty (map OPush pushes)) in
  let r := fold_left raw_push pushes [] in
  zsim (raw_sum r) (sum s).
Proof. exact raw_sum_equiv. Qed.
Print Assumptions C10_raw_sum_equiv.
