(* Properties/C06.v — decoding always yields a well-formed beatmap (the modelled part: timing-line
   bookkeeping, tandem sort; the tokenisers and number parsers are exercised by the byte-level
   oracle only — partial). *)
From Coq Require Import ZArith List Bool Floats.
From V Require Import Tables F64 F32 Decode DecodeProofs.
Import ListNotations.
Open Scope Z_scope.

(* for EVERY sequence of timing lines (any times, beat lengths incl. NaN, flags, any order) and
   both kinds of mode, the decoded timing, difficulty and effect points are strictly increasing
   by time (f64::total_cmp order) *)
Theorem C06_control_points_strict : forall scroll ls, ds_ok (decode_lines scroll ls).
Proof. exact decode_lines_strict. Qed.
Print Assumptions C06_control_points_strict.

(* the insert / replace step keeps any strictly ordered vector strictly ordered and contains the
   new point *)
Theorem C06_cp_add_strict : forall (A : Type) (key : A -> Z) x l, strict key l -> strict key (cp_add key x l).
Proof. exact @cp_add_strict. Qed.
Print Assumptions C06_cp_add_strict.
Theorem C06_cp_add_has : forall (A : Type) (key : A -> Z) x l, In x (cp_add key x l).
Proof. exact @cp_add_has. Qed.
Print Assumptions C06_cp_add_has.

(* objects and hit sounds are permuted by the same swaps: sorting them in tandem is sorting the
   list of (object, sound) lines, for every swap sequence the sorter can produce *)
Theorem C06_tandem_aligned : forall (A B : Type) (sw : list (Z * Z)) (a : list A) (b : list B),
  length a = length b ->
  apply_swaps sw (combine a b) = combine (apply_swaps sw a) (apply_swaps sw b).
Proof. exact @tandem_aligned. Qed.
Print Assumptions C06_tandem_aligned.

(* complete on small inputs: all 1093 time patterns of up to 6 objects over 3 distinct times: the
   tandem sort (both uses of the sorter, i.e. including the mark reset) is the stable sort of the
   lines by time — objects in non-decreasing order, each with the sound of its own line *)
Theorem C06_tandem_sorts_small : forall times,
  In times (all_lists 6 [4607182418800017408; 0; 4611686018427387904]) ->
  lines_eqb (sort_objects (with_sounds times)) (stable_sort_lines (with_sounds times)) = true.
Proof. exact tandem_sorts_small_spec. Qed.
Print Assumptions C06_tandem_sorts_small.

Example C06_example :
  tps_words (decode_lines false [mk_tline 100 500 true false; mk_tline 50 400 true false; mk_tline 100 300 true false])
  = [to_bits 50; to_bits 400; to_bits 100; to_bits 300].
Proof. vm_compute. reflexivity. Qed.

(* time order of mania maps / converts: `sort::osu_legacy` only re-orders simultaneous objects of a
   slice that was ordered by start time immediately before (its port reads the pivot by index, so on
   unordered input it would NOT sort); the call sites are re-read from the source on every run *)
Theorem C06_sort_facts_now : forallb snd Tables.sort_facts = true /\ (3 <= length Tables.sort_facts)%nat.
Proof. exact tables_sort_facts. Qed.
Print Assumptions C06_sort_facts_now.
