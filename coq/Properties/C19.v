(* Properties/C19.v — converted maps are well-formed inputs of their target mode (the modelled
   parts; pattern choice and slider geometry are exercised by the direct oracle only — partial). *)
From Coq Require Import ZArith List Bool Floats Reals.
From Flocq Require Import Core.
From V Require Import Tables F64 F32 FExact FInt FDy Decode DecodeProofs ManiaCols ManiaColsProofs Prng PrngProofs NextMaxProofs CRngProofs TaikoSplit TaikoSplitProofs.
Import ListNotations.
Open Scope Z_scope.

(* mania: the key count is the key-mod value if one is active and otherwise between 4 and 7, for
   every cs, od and object mix *)
Theorem C19_target_columns_range : forall cs od n len, 4 <= target_columns None cs od n len <= 7.
Proof. exact target_columns_range. Qed.
Print Assumptions C19_target_columns_range.
Theorem C19_target_columns_keys : forall k cs od n len, target_columns (Some k) cs od n len = k.
Proof. exact target_columns_keys. Qed.
Print Assumptions C19_target_columns_keys.

(* mania: a note placed in column c of k (k = 1..10) through column_to_pos is read back as column
   c; and no integral x position in 0..512 is read as a column at or above the key count, for
   every key count 1..18 (both complete over their finite domains) *)
Theorem C19_column_inverse : forall k c, 1 <= k <= 10 -> 0 <= c < k -> column (column_to_pos c k) (of_Z k) = c.
Proof. exact column_inverse. Qed.
Print Assumptions C19_column_inverse.
(* the same for the unclamped quotient: every note the conversion writes through column_to_pos lies
   strictly inside the stage (x < 512), which is what "a column below the key count" means *)
Theorem C19_column_raw_inverse : forall k c, 1 <= k <= 10 -> 0 <= c < k -> column_raw (column_to_pos c k) (of_Z k) = c.
Proof. exact column_raw_inverse. Qed.
Print Assumptions C19_column_raw_inverse.
Theorem C19_column_clamp_hides_512 :
  column_raw (column_to_pos 8 8) (of_Z 8) = 8 /\ column (column_to_pos 8 8) (of_Z 8) = 7.
Proof. exact column_clamp_hides_512. Qed.
Print Assumptions C19_column_clamp_hides_512.
Theorem C19_column_below : forall k x, 1 <= k <= 18 -> 0 <= x <= 512 -> column (of_Z x) (of_Z k) < k.
Proof. exact column_below. Qed.
Print Assumptions C19_column_below.

(* taiko: objects and sounds are spliced in lock step and then sorted in tandem, so there is one
   sound per object after every sequence of splices *)
Theorem C19_splice_lockstep : forall (O S : Type) (ops : list (splice_op O S)) st,
  length (fst st) = length (snd st) -> Forall op_ok ops ->
  length (fst (fold_left apply_splice ops st)) = length (snd (fold_left apply_splice ops st)).
Proof. exact @splice_lockstep. Qed.
Print Assumptions C19_splice_lockstep.
Theorem C19_tandem_aligned : forall (A B : Type) (sw : list (Z * Z)) (a : list A) (b : list B),
  length a = length b ->
  apply_swaps sw (combine a b) = combine (apply_swaps sw a) (apply_swaps sw b).
Proof. exact @tandem_aligned. Qed.
Print Assumptions C19_tandem_aligned.

(* taiko: the effect points added during conversion go through the same insert / replace step,
   which keeps the vector strictly ordered *)
Theorem C19_effect_points_strict : forall (x : epoint) l,
  strict (fun q => fkey (ep_time q)) l -> strict (fun q => fkey (ep_time q)) (cp_add (fun q => fkey (ep_time q)) x l).
Proof. intros x l. exact (cp_add_strict (fun q => fkey (ep_time q)) x l). Qed.
Print Assumptions C19_effect_points_strict.

(* the one place where column_to_pos and column disagree is outside the conversion's domain *)
Theorem C19_column_inverse_14_refuted : column (column_to_pos 7 14) (of_Z 14) = 6.
Proof. exact column_inverse_14_refuted. Qed.
Print Assumptions C19_column_inverse_14_refuted.

(* time order of mania maps / converts: `sort::osu_legacy` only re-orders simultaneous objects of a
   slice that was ordered by start time immediately before (its port reads the pivot by index, so on
   unordered input it would NOT sort); the call sites are re-read from the source on every run *)
Theorem C19_sort_facts_now : forallb snd Tables.sort_facts = true /\ (3 <= length Tables.sort_facts)%nat.
Proof. exact tables_sort_facts. Qed.
Print Assumptions C19_sort_facts_now.

(* mania conversion, random columns: Random::next_int_range is EXACT in binary64 - 2^-31, n * 2^-31,
   n * (hi - lo) * 2^-31 and the sum with lo are all representable, so no operation rounds - and equals
   lo + floor(n * (hi - lo) / 2^31) for every raw 31-bit output n (proved with Flocq) *)
Theorem C19_next_int_range_exact : forall n lo hi : Z,
  0 <= n < 2 ^ 31 -> 0 <= lo <= hi -> hi <= 2 ^ 20 ->
  next_int_range n lo hi = lo + n * (hi - lo) / 2 ^ 31.
Proof. exact next_int_range_exact. Qed.
Print Assumptions C19_next_int_range_exact.

(* ... hence for EVERY state of the generator (model of src/util/random/osu.rs, tied to the code by
   recorded call sequences on every run) a random column asked for in [lo, hi) is in [lo, hi), and
   next_double lies in [0, 1) *)
Theorem C19_random_column_in_range : forall (s : orng) (lo hi : Z), 0 <= lo < hi -> hi <= 2 ^ 20 ->
  lo <= fst (onext_int_range s lo hi) < hi.
Proof. exact onext_int_range_in_range. Qed.
Print Assumptions C19_random_column_in_range.

Theorem C19_next_double_unit : forall s : orng,
  fin (fst (onext_double s)) /\ (0 <= RV (fst (onext_double s)) < 1)%R.
Proof. exact onext_double_unit. Qed.
Print Assumptions C19_next_double_unit.

Example C19_random_column_example :
  orun (onew 1337) [ORange 0 7; ORange 2 5; OBool; OInt] = [0; 2; 0; 1928063929].
Proof. vm_compute. reflexivity. Qed.

(* taiko conversion, slider splitting (Model/TaikoSplit.v: should_convert_slider_to_taiko_hits and the
   tick loop, bit-exact on binary64 and compared with the real conversion on every run).  For every
   slider the conversion decides to split - any map version, slider multiplier, tick rate, velocity,
   beat length, path length - with a finite start time within +-2^40 ms and 1..2^31 spans: the
   replacement is never empty, starts with a hit at the slider's own start time, and its hits are
   finite and in non-decreasing time order up to the loop's limit.  Hence the branch that removes
   the slider (`idx -= 1`) is dead, and each replacement keeps the map in time order. *)
Theorem C19_taiko_split_slider : forall version sm tr t dist spans sv bl l,
  fin t -> (Rabs (RV t) <= bpow radix2 40)%R -> 1 <= spans <= 2 ^ 31 ->
  sp_convert (should_convert version sm tr dist spans sv bl) = true ->
  convert_obj version sm tr (TSlider t dist spans sv bl) = Some l ->
  exists times, l = map (fun x => (0, x)) (t :: times)
    /\ chain (RV t) (t :: times) (RV (tick_limit t (should_convert version sm tr dist spans sv bl))).
Proof. exact split_slider_spec. Qed.
Print Assumptions C19_taiko_split_slider.

(* what the split decision guarantees: a duration that fits u32 and a finite, strictly positive tick
   spacing of at most 2^32 ms (so the loop's `tick == 0` escape is never the reason it stops) *)
Theorem C19_taiko_split_params : forall version sm tr dist spans sv bl,
  1 <= spans <= 2 ^ 31 ->
  let p := should_convert version sm tr dist spans sv bl in
  sp_convert p = true ->
  0 <= sp_duration p <= 4294967295 /\ fin (sp_tick p) /\ (0 < RV (sp_tick p) <= IZR 4294967295)%R.
Proof. exact should_convert_facts. Qed.
Print Assumptions C19_taiko_split_params.

(* the .NET generator behind the Random mods: next_max(max) = (sample * max) as i32 lies in [0, max)
   for every raw sample below i32::MAX and every max up to 2^20 - on the binary64 values (the constant
   1/i32::MAX is not a power of two, so this is monotone rounding against dyadic anchors, not exactness) *)
Theorem C19_next_max_in_range : forall r max : Z, 0 <= r < 2147483647 -> 1 <= max <= 2 ^ 20 ->
  0 <= to_i32 ((of_Z r * INV_I32_MAX) * of_Z max)%float < max.
Proof. exact next_max_range. Qed.
Print Assumptions C19_next_max_in_range.

(* the .NET generator as a state machine: table entries within [-1, i32::MAX) is an invariant of
   `internal_sample`, under it the i32 subtraction cannot overflow and every raw sample lies in
   [0, i32::MAX) - so the hypothesis of C19_next_max_in_range is met after ANY sequence of calls:
   plain samples within [0, i32::MAX), next_max(max) within [0, max) *)
Theorem C19_csharp_sample_invariant : forall s, CInv s ->
  0 <= fst (csample_int s) < I32_MAX /\ CInv (snd (csample_int s)).
Proof. exact csample_int_range. Qed.
Print Assumptions C19_csharp_sample_invariant.
Theorem C19_csharp_run_in_range : forall ops s, CInv s -> Forall cop_ok ops -> Forall2 cout_ok ops (crun s ops).
Proof. exact crun_range. Qed.
Print Assumptions C19_csharp_run_in_range.
(* seeding, every 32-bit seed: the table entries end within the CLOSED range [-1, i32::MAX].  The
   strict bound needed by the invariant above is NOT implied by the seeding arithmetic (a wrapped
   difference may equal i32::MAX exactly); it is established per seed by evaluation (cinvb, sound by
   cinvb_sound; Example cinv_some_seeds) - partial for the universal claim over seeds. *)
Theorem C19_csharp_seed_entries_partial : forall seed, - M31 <= seed < M31 -> Forall P3 (carr (cnew seed)).
Proof. exact cnew_weak_inv. Qed.
Print Assumptions C19_csharp_seed_entries_partial.
Theorem C19_csharp_invariant_decidable : forall s, cinvb s = true -> CInv s.
Proof. exact cinvb_sound. Qed.
Print Assumptions C19_csharp_invariant_decidable.

(* the source statements the .NET generator model transcribes are the ones in the file now; the
   guard `ret_val == i32::MAX` fires on about one call in 2^31, so the recorded sequences alone
   would not notice its removal - this regenerated fact does *)
Theorem C19_csharp_source_now : forallb snd Tables.prng_facts = true /\ (14 <= List.length Tables.prng_facts)%nat.
Proof. exact tables_prng_facts. Qed.
Print Assumptions C19_csharp_source_now.

(* the .NET generator's cursors: seeded at 0 and 21, and from any state with both in 0..55 every call
   reads and writes the 56-entry table at 1..55 only (no out-of-bounds index for any call sequence) *)
Theorem C19_csharp_cursors : (forall seed, CCur (cnew seed)) /\ (forall s, CCur s ->
  1 <= cnext (snd (csample_int s)) <= 55 /\ 1 <= cnextp (snd (csample_int s)) <= 55 /\ CCur (snd (csample_int s))).
Proof. exact (conj ccursor_new ccursor_step). Qed.
Print Assumptions C19_csharp_cursors.
