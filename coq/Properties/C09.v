(* Properties/C09.v — finite, non-negative results: the provable part (partial).  Finiteness of
   everything that goes through pow / ln / erf lives in libm and is decided by the scan only. *)
From Coq Require Import ZArith QArith List Bool Reals Floats Qreals.
From Flocq Require Import Core.
From V Require Import F64 FExact FInt Accuracy AccuracyProofs AccCases AccFloatProofs FDy FOps StrainsVec Aggregate WSumProofs.
Import ListNotations.

(* accuracies lie in [0, 1] for every state with non-negative counts, every origin, the
   zero-denominator guard included *)
Theorem C09_osu_acc_in_unit : forall o n300 n100 n50 misses ends large small,
  (0 <= n300)%Z -> (0 <= n100)%Z -> (0 <= n50)%Z -> (0 <= misses)%Z -> (0 <= ends)%Z -> (0 <= large)%Z -> (0 <= small)%Z ->
  match o with OStable => True | OWithSliderAcc a b | OWithoutSliderAcc a b => (0 <= a /\ 0 <= b)%Z end ->
  (0 <= acc_of (osu_acc_nd o n300 n100 n50 misses ends large small) <= 1)%Q.
Proof. exact osu_acc_in_unit. Qed.
Print Assumptions C09_osu_acc_in_unit.
Theorem C09_taiko_acc_in_unit : forall n300 n100 misses,
  (0 <= n300)%Z -> (0 <= n100)%Z -> (0 <= misses)%Z -> (0 <= acc_of (taiko_acc_nd n300 n100 misses) <= 1)%Q.
Proof. exact taiko_acc_in_unit. Qed.
Print Assumptions C09_taiko_acc_in_unit.
Theorem C09_catch_acc_in_unit : forall f d t tm m,
  (0 <= f)%Z -> (0 <= d)%Z -> (0 <= t)%Z -> (0 <= tm)%Z -> (0 <= m)%Z -> (0 <= acc_of (catch_acc_nd f d t tm m) <= 1)%Q.
Proof. exact catch_acc_in_unit. Qed.
Print Assumptions C09_catch_acc_in_unit.
Theorem C09_mania_acc_in_unit : forall classic n320 n300 n200 n100 n50 m,
  (0 <= n320)%Z -> (0 <= n300)%Z -> (0 <= n200)%Z -> (0 <= n100)%Z -> (0 <= n50)%Z -> (0 <= m)%Z ->
  (0 <= acc_of (mania_acc_nd classic n320 n300 n200 n100 n50 m) <= 1)%Q.
Proof. exact mania_acc_in_unit. Qed.
Print Assumptions C09_mania_acc_in_unit.

(* the decay-weighted sum of peaks in [0, M] (weight k >= 0, decay 0 <= w < 1) is non-negative and
   at most M * k / (1 - w): finite non-negative peaks give a finite non-negative difficulty value *)
Theorem C09_weighted_sum_bound : forall (l : list Q) (M k w : Q),
  (0 <= k -> 0 <= w -> w < 1 -> 0 <= M -> (forall p, In p l -> 0 <= p <= M) ->
   0 <= wsum l k w /\ (1 - w) * wsum l k w <= M * k)%Q.
Proof. exact wsum_bound. Qed.
Print Assumptions C09_weighted_sum_bound.

Example C09_example : (acc_of (osu_acc_nd (OWithSliderAcc 4 2) 3 1 0 1 2 3 0) == 139 # 192)%Q.
Proof. vm_compute. reflexivity. Qed.

(* the FLOAT the code returns: `f64::from(numerator) / f64::from(denominator)` (0.0 for a zero
   denominator) is finite, lies in [0, 1] and is within 2^-53 of the exact accuracy above - it is that
   fraction correctly rounded (Flocq); recorded accuracies are compared with this model bit for bit *)
Theorem C09_float_accuracy : forall n d : Z, (0 <= n <= d)%Z -> (d < 2 ^ 53)%Z ->
  fin (facc (n, d)) /\ (0 <= RV (facc (n, d)) <= 1)%R
  /\ (Rabs (RV (facc (n, d)) - Q2R (acc_of (n, d))) <= bpow radix2 (-53))%R.
Proof. exact facc_close. Qed.
Print Assumptions C09_float_accuracy.

(* osu!'s public accuracy adds the tick parts with the binary64 weights 0.6 and 0.2 (not a quotient of
   two integers): the value computed in binary64 - every origin, every state with counts below 2^28,
   the `denominator.eq(0.0)` guard included - is finite and within [0, 1] (monotone rounding, Flocq) *)
Theorem C09_osu_float_accuracy : forall o n300 n100 n50 misses ends large small,
  cnt n300 -> cnt n100 -> cnt n50 -> cnt misses -> cnt ends -> cnt large -> cnt small ->
  match o with OStable => True | OWithSliderAcc a b | OWithoutSliderAcc a b => cnt a /\ cnt b end ->
  let f := fquot (osu_facc_nd o n300 n100 n50 misses ends large small) in
  fin f /\ (0 <= RV f <= 1)%R.
Proof. exact osu_facc_unit. Qed.
Print Assumptions C09_osu_float_accuracy.

(* the same bound on the binary64 value `difficulty_value` computes (for strain in peaks: difficulty +=
   strain * weight; weight *= decay): finite peaks in [0, 2^k] and a decay weight in [0, 1] give a
   finite, non-negative result of at most n * 2^k - no overflow, no NaN, for up to 2^52 peaks *)
Theorem C09_weighted_sum_float : forall (k : Z) (decay : PrimFloat.float), (0 <= k <= 900)%Z ->
  fin decay -> (0 <= RV decay <= 1)%R ->
  forall ps : list PrimFloat.float, Forall (peak_ok k) ps -> (Z.of_nat (length ps) < 2 ^ 52)%Z ->
  let v := fst (wsum_f decay ps (0%float, 1%float)) in
  fin v /\ (0 <= RV v <= IZR (Z.of_nat (length ps)) * bpow radix2 k)%R.
Proof. exact wsum_f_bound. Qed.
Print Assumptions C09_weighted_sum_float.

Theorem C09_weighted_sum_is_model : forall decay peaks,
  weighted_sum decay peaks = fst (wsum_f decay (map of_bits peaks) (0%float, 1%float)).
Proof. exact weighted_sum_f. Qed.
Print Assumptions C09_weighted_sum_is_model.
