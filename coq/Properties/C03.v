(* Properties/C03.v — gradual performance equals performance of the partial play. *)
From Coq Require Import ZArith List Bool.
From V Require Import Tables F64 Gradual GradualProofs GradPerf GradPerfProofs TaikoProofs.
Import ListNotations.
Open Scope Z_scope.

(* [perf attrs passed state] is the performance calculation on previously computed
   attributes — the same function for the gradual and the one-shot path.  The reference
   `spec_pops` walks the list [(1, one-shot 1); ...; (total, one-shot total)]: nth(state, n)
   skips min(n, remaining-1) entries and returns perf (one-shot i) i state for the entry i
   it lands on.  So, for every object list, every skill oracle, every performance oracle,
   every score state (consistent or not) and every way of mixing next / nth / last / len,
   the gradual performance calculator returns what a one-shot Performance with
   passed_objects(i) and that state returns, i being the number of objects processed. *)
Theorem C03_osu : forall (S : Type) (process : S -> Z -> S) (s0 : S) (St P : Type)
    (perf : ocounts * S -> Z -> St -> P) (objs : list okind) (take : Z) (ops : list (pop St)),
  0 < take -> Forall pnth_ok ops ->
  run_pops (osu_nth S process objs take) (osu_len S objs take) (@g_idx S ocounts) perf ops
           (osu_new S s0 objs)
  = spec_pops perf (poneshots (osu_oneshot S process s0 objs) (zlen objs)) ops.
Proof. exact osu_gperf_refines. Qed.
Print Assumptions C03_osu.

Theorem C03_catch : forall (S : Type) (process : S -> Z -> S) (s0 : S) (St P : Type)
    (perf : ccounts * S -> Z -> St -> P) (evs : list cevent) (ops : list (pop St)),
  Forall pnth_ok ops ->
  run_pops (catch_nth S process evs) (catch_len S evs) (@g_idx S ccounts) perf ops
           (catch_new S s0 evs)
  = spec_pops perf (poneshots (catch_oneshot S process s0 evs) (zlen evs)) ops.
Proof. exact catch_gperf_refines. Qed.
Print Assumptions C03_catch.

Theorem C03_mania : forall (S : Type) (process : S -> Z -> S) (s0 : S) (St P : Type)
    (perf : mcounts * S -> Z -> St -> P) (objs : list mobj) (take : Z) (ops : list (pop St)),
  zlen objs <= take -> Forall pnth_ok ops ->
  run_pops (mania_nth S process objs take) (mania_len S objs take) (@g_idx S mcounts) perf ops
           (mania_new S s0 objs)
  = spec_pops perf (poneshots (mania_oneshot S process s0 objs) (zlen objs)) ops.
Proof. exact mania_gperf_refines. Qed.
Print Assumptions C03_mania.

(* taiko (after the fix 8d6162b): the same statement; passed_objects counts hits, the spec walks
   [(i, one-shot i)] for i = 1..hits *)
Theorem C03_taiko : forall (S : Type) (process : S -> Z -> S) (s0 : S) (flags : list bool),
  zlen flags < 4294967295 ->
  forall (St P : Type) (perf : Z * S -> Z -> St -> P) (ops : list (pop St)),
  Forall (fun o => match o with PNth _ n => 0 <= n | _ => True end) ops ->
  run_pops (taiko_nth S process flags) (taiko_len S flags) (@tg_idx S) perf ops (taiko_new S s0)
  = spec_pops perf (indexed S (map (taiko_oneshot S process s0 flags)
                                   (zrange 1 (Z.to_nat (taiko_total_hits flags))))) ops.
Proof. intros S process s0 flags H St P perf ops Hops. exact (taiko_gperf_refines S process s0 flags H perf ops Hops). Qed.
Print Assumptions C03_taiko.

(* one call from any reachable state: min(n+1, remaining) objects are processed, the
   passed_objects value handed on is the new position, None exactly when nothing remains *)
Theorem C03_processed : forall (S : Type) (process : S -> Z -> S) (s0 : S)
    (Obj Cnt St P : Type) (inc : Cnt -> Obj -> Cnt) (c0 : Cnt) (precount : bool)
    (objs : list Obj) (perf : Cnt * S -> Z -> St -> P) (g : @gstate S Cnt) (p : Z) (s : St) (n : Z),
  R S process s0 inc c0 precount objs g p -> 0 <= n ->
  exists g',
    snd (gp_nth (g_nth S process inc precount objs (sat_sub (zlen objs) 1))
                (g_len S objs (sat_sub (zlen objs) 1)) (@g_idx S Cnt) perf s n g) = g'
    /\ R S process s0 inc c0 precount objs g' (p + processed_by n (zlen objs - p))
    /\ (fst (gp_nth (g_nth S process inc precount objs (sat_sub (zlen objs) 1))
                    (g_len S objs (sat_sub (zlen objs) 1)) (@g_idx S Cnt) perf s n g) = None
        <-> p = zlen objs).
Proof. exact gperf_processed. Qed.
Print Assumptions C03_processed.

(* non-vacuity: a three-object osu! map, a mixed call sequence *)
Example C03_example :
  run_pops (osu_nth (list Z) trace_process [OCircle; OSlider 2 1; OSpinner] USIZE_MAX)
           (osu_len (list Z) [OCircle; OSlider 2 1; OSpinner] USIZE_MAX) (@g_idx (list Z) ocounts)
           (fun cs i (s : Z) => (oc_list (fst cs), i, s))
           [PLen; PNext 7; PNth 8 5; PLast 9; PLen]
           (osu_new (list Z) [] [OCircle; OSlider 2 1; OSpinner])
  = [GLen 3; GSome ([1; 0; 0; 0; 1], 1, 7); GSome ([1; 1; 1; 1; 5], 3, 8); GNone; GLen 0].
Proof. vm_compute. reflexivity. Qed.

(* the theorems above take ONE initial skill state for the gradual and the one-shot calculation; in the
   source both constructors build their skills from the same values, in the same order (re-read on
   every run: skill constructor calls of all four modes, catcher-width correction before its uses) *)
Theorem C03_setup_facts_now : forallb snd Tables.setup_facts = true /\ (4 <= length Tables.setup_facts)%nat.
Proof. exact tables_setup_facts. Qed.
Print Assumptions C03_setup_facts_now.
