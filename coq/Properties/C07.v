(* Properties/C07.v — mode dispatch and map conversion are mutually consistent. *)
From Coq Require Import String List Bool ZArith.
From V Require Import Tables Convert PerfConv TablesProofs.
Import ListNotations.

(* the decision trees regenerated from convert_ref / convert_mut agree with the specification
   on all 32 combinations (source mode x is_convert x target); convert delegates to convert_mut *)
Theorem C07_convert_ref_tree : tree_check convert_ref_tree = true.
Proof. exact tables_convert_ref. Qed.
Print Assumptions C07_convert_ref_tree.
Theorem C07_convert_mut_tree : tree_check convert_mut_tree = true.
Proof. exact tables_convert_mut. Qed.
Print Assumptions C07_convert_mut_tree.
Theorem C07_convert_flags : flags_check convert_flags = true.
Proof. exact tables_convert_flags. Qed.
Print Assumptions C07_convert_flags.
Theorem C07_entry_points : entries_check entry_points = true.
Proof. exact tables_entries. Qed.
Print Assumptions C07_entry_points.

(* by value, by reference, in place: equal maps or equal errors, equal to the specification,
   for every map, target, mods and converter oracle *)
Theorem C07_three_entry_points_agree : forall (Payload Mods : Type)
    (conv : mode -> Mods -> Payload -> Payload) (b : bmap Payload) target mods,
  run_tree Payload Mods conv convert_ref_tree convert_flags b target mods
  = run_tree Payload Mods conv convert_mut_tree convert_flags b target mods
  /\ run_tree Payload Mods conv convert_ref_tree convert_flags b target mods
     = Some (convert_spec Payload Mods conv b target mods)
  /\ convert_delegates_to_convert_mut = true.
Proof. exact three_entry_points_agree. Qed.
Print Assumptions C07_three_entry_points_agree.

(* identity on the own mode; only un-converted osu! maps convert and the result is a convert of
   the target mode; the two error cases *)
Theorem C07_spec_facts : forall (Payload Mods : Type) (conv : mode -> Mods -> Payload -> Payload)
    (b : bmap Payload) target mods,
  (b_mode b = target -> convert_spec Payload Mods conv b target mods = inl b) /\
  (forall b', convert_spec Payload Mods conv b target mods = inl b' -> b' <> b ->
              b_mode b = Osu /\ b_conv b = false /\ b_mode b' = target /\ b_conv b' = true) /\
  (b_mode b <> target -> b_conv b = true -> convert_spec Payload Mods conv b target mods = inr EAlready) /\
  (b_mode b <> target -> b_conv b = false -> b_mode b <> Osu ->
     convert_spec Payload Mods conv b target mods = inr (EConvert (b_mode b) target)).
Proof. exact convert_spec_facts. Qed.
Print Assumptions C07_spec_facts.

(* calculating for a target mode directly on a map = calculating on the explicitly converted map,
   for the 12 mode entry points (difficulty, strains, gradual constructor of each mode) *)
Theorem C07_direct_equals_explicit : forall (Payload Mods Out : Type)
    (conv : mode -> Mods -> Payload -> Payload) (body : mode -> string -> Mods -> bmap Payload -> Out)
    (b b' : bmap Payload) m kind mods,
  In kind ["difficulty"; "strains"; "gradual"]%string ->
  convert_spec Payload Mods conv b m mods = inl b' ->
  run_entry Payload Mods conv Out body convert_ref_tree convert_flags entry_points m kind mods b
  = run_entry Payload Mods conv Out body convert_ref_tree convert_flags entry_points m kind mods b'.
Proof. exact direct_equals_explicit_now. Qed.
Print Assumptions C07_direct_equals_explicit.

Example C07_example :
  run_tree nat unit (fun _ _ p => S p) convert_ref_tree convert_flags (mk_map Osu false 5) Mania tt
  = Some (inl (mk_map Mania true 6)) /\
  run_tree nat unit (fun _ _ p => S p) convert_mut_tree convert_flags (mk_map Mania true 6) Taiko tt
  = Some (inr EAlready).
Proof. split; vm_compute; reflexivity. Qed.

(* Performance::try_mode / mode_or_ignore: the builder of the target mode starts from the converted
   map and from exactly the settings and score specification the osu! builder held (same-named
   fields, catch's aliases), nothing else is reset — tables regenerated from the three
   `impl TryFrom<OsuPerformance>` on every run *)
Theorem C07_try_mode_carries_now : perf_conv_ok = true.
Proof. exact tables_perf_conv. Qed.
Print Assumptions C07_try_mode_carries_now.
Theorem C07_try_mode_carries_field : forall row dst src,
  carries_ok row = true -> In (dst, src) row -> src = expected_source dst.
Proof. exact carries_ok_field. Qed.
Print Assumptions C07_try_mode_carries_field.
