(* Properties/C15.v — gradual calculators obey the iterator protocol. *)
From Coq Require Import ZArith List Bool.
From V Require Import F64 Gradual GradualProofs GradPerf GradPerfProofs TaikoProofs.
Import ListNotations.
Open Scope Z_scope.

(* The reference semantics is `spec_gops`: a plain iterator over a list (next pops the
   head; nth(n) drops n elements and pops, exhausting the iterator when fewer remain; len
   is the number of remaining elements; everything returns None after exhaustion).
   std's skip / step_by / zip / collect are defined from next / nth / size_hint, so they see
   the same sequence.  The theorems quantify over every op sequence, every k >= 0
   (usize::MAX included) and every object list. *)
Theorem C15_osu : forall (S : Type) (process : S -> Z -> S) (s0 : S)
    (objs : list okind) (take : Z) (ops : list gop),
  0 < take -> Forall nth_ok ops ->
  run_gops (osu_next S process objs take) (osu_nth S process objs take)
           (osu_len S objs take) (fun v => v) ops (osu_new S s0 objs)
  = spec_gops (oneshots (osu_oneshot S process s0 objs) (zlen objs)) ops.
Proof. exact osu_gradual_refines. Qed.
Print Assumptions C15_osu.

Theorem C15_catch : forall (S : Type) (process : S -> Z -> S) (s0 : S)
    (evs : list cevent) (ops : list gop),
  Forall nth_ok ops ->
  run_gops (catch_next S process evs) (catch_nth S process evs)
           (catch_len S evs) (fun v => v) ops (catch_new S s0 evs)
  = spec_gops (oneshots (catch_oneshot S process s0 evs) (zlen evs)) ops.
Proof. exact catch_gradual_refines. Qed.
Print Assumptions C15_catch.

Theorem C15_mania : forall (S : Type) (process : S -> Z -> S) (s0 : S)
    (objs : list mobj) (take : Z) (ops : list gop),
  zlen objs <= take -> Forall nth_ok ops ->
  run_gops (mania_next S process objs take) (mania_nth S process objs take)
           (mania_len S objs take) (fun v => v) ops (mania_new S s0 objs)
  = spec_gops (oneshots (mania_oneshot S process s0 objs) (zlen objs)) ops.
Proof. exact mania_gradual_refines. Qed.
Print Assumptions C15_mania.

(* the generic machine, from any reachable state: the simulation used above *)
Theorem C15_machine_from_any_state : forall (S : Type) (process : S -> Z -> S) (s0 : S)
    (Obj Cnt : Type) (inc : Cnt -> Obj -> Cnt) (c0 : Cnt) (precount : bool)
    (objs : list Obj) (ops : list gop) (g : @gstate S Cnt) (p : Z),
  R S process s0 inc c0 precount objs g p ->
  Forall (fun o => match o with GNth n => 0 <= n | _ => True end) ops ->
  run_gops (g_next S process inc precount objs (sat_sub (zlen objs) 1))
           (g_nth S process inc precount objs (sat_sub (zlen objs) 1))
           (g_len S objs (sat_sub (zlen objs) 1)) (fun v => v) ops g
  = spec_gops (rem_at S process s0 inc c0 objs p) ops.
Proof. exact machine_refines. Qed.
Print Assumptions C15_machine_from_any_state.

(* taiko (after the fix 8d6162b): the same protocol theorem — nth exhausts and returns None past
   the end, len = number of hits still to come (never underflows), None forever afterwards *)
Theorem C15_taiko : forall (S : Type) (process : S -> Z -> S) (s0 : S) (flags : list bool),
  zlen flags < 4294967295 -> forall ops : list gop, Forall nth_ok ops ->
  run_gops (taiko_next S process flags) (taiko_nth S process flags) (taiko_len S flags) (fun v => v) ops
           (taiko_new S s0)
  = spec_gops (oneshots (taiko_oneshot S process s0 flags) (taiko_total_hits flags)) ops.
Proof. exact taiko_gradual_refines. Qed.
Print Assumptions C15_taiko.

(* gradual PERFORMANCE calculators: one call of nth(state, n) from any reachable state processes
   min(n+1, remaining) objects (last = nth(usize::MAX)), and returns None exactly when nothing
   remains - the protocol clause for the performance iterators (the values are C03's) *)
Theorem C15_gperf_processed : forall (S : Type) (process : S -> Z -> S) (s0 : S)
    (Obj Cnt St P : Type) (inc : Cnt -> Obj -> Cnt) (c0 : Cnt) (precount : bool)
    (objs : list Obj) (perf : Cnt * S -> Z -> St -> P) (g : @gstate S Cnt) (p : Z) (s : St) (n : Z),
  R S process s0 inc c0 precount objs g p -> 0 <= n ->
  exists g',
    snd (gp_nth (g_nth S process inc precount objs (sat_sub (zlen objs) 1))
                (g_len S objs (sat_sub (zlen objs) 1)) (@g_idx S Cnt) perf s n g) = g'
    /\ R S process s0 inc c0 precount objs g' (p + processed_by n (zlen objs - p))
    /\ (fst (gp_nth (g_nth S process inc precount objs (sat_sub (zlen objs) 1))
                    (g_len S objs (sat_sub (zlen objs) 1)) (@g_idx S Cnt) perf s n g) = None
        <-> p = zlen objs).
Proof. exact gperf_processed. Qed.
Print Assumptions C15_gperf_processed.
