(* Properties/C14.v — reported object counts account for exactly the objects of the map. *)
From Coq Require Import ZArith List Bool.
From V Require Import F64 Gradual GradualProofs.
Import ListNotations.
Open Scope Z_scope.

(* osu!: counts are those of the first min(n, total) objects; circles + sliders +
   spinners = min(n, total) *)
Theorem C14_osu_counts : forall (S : Type) (process : S -> Z -> S) (s0 : S)
    (objs : list okind) (n : Z), 0 <= n ->
  let c := fst (osu_oneshot S process s0 objs n) in
  c = fold_left o_inc (ztake n objs) oc0
  /\ oc_c c + oc_s c + oc_sp c = Z.min n (zlen objs).
Proof. exact osu_oneshot_counts. Qed.
Print Assumptions C14_osu_counts.

Theorem C14_osu_monotone : forall (S : Type) (process : S -> Z -> S) (s0 : S)
    (objs : list okind) (n m : Z), Forall okind_ok objs -> 0 <= n <= m ->
  oc_le (fst (osu_oneshot S process s0 objs n)) (fst (osu_oneshot S process s0 objs m)).
Proof. exact osu_oneshot_mono. Qed.
Print Assumptions C14_osu_monotone.

Theorem C14_osu_cap : forall (S : Type) (process : S -> Z -> S) (s0 : S)
    (objs : list okind) (n m : Z),
  zlen objs <= n -> zlen objs <= m -> 0 < n -> 0 < m ->
  osu_oneshot S process s0 objs n = osu_oneshot S process s0 objs m.
Proof. exact osu_oneshot_cap. Qed.
Print Assumptions C14_osu_cap.

(* catch: fruits + droplets = min(n, palpable objects); counts of the first n records *)
Theorem C14_catch_counts : forall (S : Type) (process : S -> Z -> S) (s0 : S)
    (evs : list cevent) (n : Z), 0 <= n ->
  let c := fst (catch_oneshot S process s0 evs n) in
  c = fold_left c_add (ztake n evs) cc0 /\ cc_f c + cc_d c = Z.min n (zlen evs).
Proof. exact catch_oneshot_counts. Qed.
Print Assumptions C14_catch_counts.

Theorem C14_catch_monotone : forall (S : Type) (process : S -> Z -> S) (s0 : S)
    (evs : list cevent) (n m : Z),
  Forall (fun e : cevent => 0 <= snd e) evs -> 0 <= n <= m ->
  cc_le (fst (catch_oneshot S process s0 evs n)) (fst (catch_oneshot S process s0 evs m)).
Proof. exact catch_oneshot_mono. Qed.
Print Assumptions C14_catch_monotone.

Theorem C14_catch_cap : forall (S : Type) (process : S -> Z -> S) (s0 : S)
    (evs : list cevent) (n m : Z), zlen evs <= n -> zlen evs <= m ->
  catch_oneshot S process s0 evs n = catch_oneshot S process s0 evs m.
Proof. exact catch_oneshot_cap. Qed.
Print Assumptions C14_catch_cap.

(* mania: n_objects = min(n, total), hold notes are the non-circles of the prefix *)
Theorem C14_mania_counts : forall (S : Type) (process : S -> Z -> S) (s0 : S)
    (objs : list mobj) (n : Z), 0 <= n ->
  let c := fst (mania_oneshot S process s0 objs n) in
  mc_n c = Z.min n (zlen objs)
  /\ mc_hold c = zlen (filter (fun o => negb (m_circle o)) (ztake n objs)).
Proof. exact mania_oneshot_counts. Qed.
Print Assumptions C14_mania_counts.

Theorem C14_mania_monotone : forall (S : Type) (process : S -> Z -> S) (s0 : S)
    (objs : list mobj) (n m : Z), Forall (fun o => 0 <= m_combo o) objs -> 0 <= n <= m ->
  mc_le (fst (mania_oneshot S process s0 objs n)) (fst (mania_oneshot S process s0 objs m)).
Proof. exact mania_oneshot_mono. Qed.
Print Assumptions C14_mania_monotone.

Theorem C14_mania_cap : forall (S : Type) (process : S -> Z -> S) (s0 : S)
    (objs : list mobj) (n m : Z), zlen objs <= n -> zlen objs <= m ->
  mania_oneshot S process s0 objs n = mania_oneshot S process s0 objs m.
Proof. exact mania_oneshot_cap. Qed.
Print Assumptions C14_mania_cap.

(* taiko: max combo = min(n, number of hits) — monotone and capped by construction *)
Theorem C14_taiko_combo : forall (S : Type) (process : S -> Z -> S) (s0 : S)
    (flags : list bool) (take : Z), 0 <= take -> taiko_total_hits flags < U32_MAX ->
  fst (taiko_oneshot S process s0 flags take) = Z.min take (taiko_total_hits flags).
Proof. exact taiko_oneshot_combo. Qed.
Print Assumptions C14_taiko_combo.
