(* Properties/C01.v — calculations are deterministic, pure functions of their inputs.
   A Gallina model cannot exhibit nondeterminism; what is proved is that the places where
   hidden state could enter are (a) all known — the inventory is regenerated from the source
   on every run — and (b) each irrelevant to the result. *)
From Coq Require Import String List Bool ZArith Permutation Floats.
From V Require Import F64 Tables Bpm BpmProofs EffectsProofs.
Import ListNotations.

(* the only hash-map iteration in the library: whatever order the map is iterated in, bpm()
   returns what the insertion-order model returns (which is run against the code) *)
Theorem C01_bpm_any_iteration_order : forall tps last iterated,
  Permutation (entries tps last) iterated -> bpm_of iterated = bpm tps last.
Proof. exact bpm_any_iteration_order. Qed.
Print Assumptions C01_bpm_any_iteration_order.

Theorem C01_max_by_order_independent : forall l l',
  NoDup (map e_idx l) -> Permutation l l' -> max_by l = max_by l'.
Proof. exact max_by_order_independent. Qed.
Print Assumptions C01_max_by_order_independent.

(* every ambient-effect site of the current source is one of the listed, discharged ones *)
Theorem C01_effects_covered : effects_covered effect_sites = true.
Proof. exact tables_effects_covered. Qed.
Print Assumptions C01_effects_covered.
Theorem C01_no_forbidden_kinds :
  forallb (fun s => negb (existsb (String.eqb (snd (fst s))) never_allowed)) effect_sites = true.
Proof. exact tables_no_forbidden_kinds. Qed.
Print Assumptions C01_no_forbidden_kinds.

(* non-vacuity: a two-way tie (1000 ms of 500 ms beats, then 1000 ms of 250 ms beats): the first
   beat length wins in both iteration orders *)
Example C01_tie :
  let es := entries [(0%float, 500%float); (1000%float, 250%float)] (Some 2000%float) in
  length es = 2%nat /\ bpm_of es = 120%float /\ bpm_of (rev es) = 120%float.
Proof. vm_compute. repeat split. Qed.

(* the model of bpm() (whose order independence is C01_bpm_any_iteration_order) transcribes the
   comparator that is in the source now: re-read by the translator on every run *)
Theorem C01_bpm_facts_now : forallb snd Tables.bpm_facts = true /\ (3 <= length Tables.bpm_facts)%nat.
Proof. exact tables_bpm_facts. Qed.
Print Assumptions C01_bpm_facts_now.
