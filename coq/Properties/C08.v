(* Properties/C08.v — results do not depend on how equivalent settings are expressed. *)
From Coq Require Import String List Bool ZArith.
From V Require Import Tables ModsRepr TablesProofs.
Import ListNotations.

(* every has-mod accessor of GameMods (table regenerated from impl_has_mod!) answers the same for
   the lazer, intermode and legacy representation of ANY legacy-representable selection *)
Theorem C08_accessors_agree : forall (s : modset) row,
  legacy_representable s -> In row has_mod_table ->
  has_mod has_mod_macro RLazer row s = Some (s (snd row)) /\
  has_mod has_mod_macro RIntermode row s = Some (s (snd row)) /\
  has_mod has_mod_macro RLegacy row s = Some (s (snd row)).
Proof. exact accessors_agree_now. Qed.
Print Assumptions C08_accessors_agree.

(* the mania key count (three if-chains regenerated from mania_keys) is the same for the three
   representations of any selection without 10K (which legacy bits cannot express) *)
Theorem C08_mania_keys_agree : forall (s : modset),
  s "TenKeys"%string = false ->
  mania_keys mania_keys_chains RLazer s = mania_keys mania_keys_chains RIntermode s /\
  mania_keys mania_keys_chains RLegacy s = mania_keys mania_keys_chains RIntermode s.
Proof. exact mania_keys_agree_now. Qed.
Print Assumptions C08_mania_keys_agree.

(* closed facts about the regenerated tables *)
Theorem C08_macro_arms : macro_check has_mod_macro = true.
Proof. exact tables_has_mod_macro. Qed.
Print Assumptions C08_macro_arms.
Theorem C08_rows : has_rows_check has_mod_table = true.
Proof. exact tables_has_mod_rows. Qed.
Print Assumptions C08_rows.
Theorem C08_key_chains : chains_check mania_keys_chains = true.
Proof. exact tables_mania_keys. Qed.
Print Assumptions C08_key_chains.
(* every lazer rate mod (DT, HT, NC, DC) contributes the speed change it carries, unscaled, so a
   speed change r is the clock rate r; intermode/legacy use rosu-mods' legacy rates *)
Theorem C08_clock_rate_arms : rate_check clock_rate_arms = true.
Proof. exact tables_clock_rate. Qed.
Print Assumptions C08_clock_rate_arms.
(* DifficultyAdjust: ar/cs read for osu!/catch, hp/od for all four modes *)
Theorem C08_map_attr : attr_check map_attr_table = true.
Proof. exact tables_map_attr. Qed.
Print Assumptions C08_map_attr.

Example C08_example :
  let s := fun n => orb (String.eqb n "HardRock") (String.eqb n "SevenKeys") in
  mania_keys mania_keys_chains RLegacy s = Some (Some 7%Z) /\
  has_mod has_mod_macro RLegacy ("hr", true, "HardRock")%string s = Some true /\
  has_mod has_mod_macro RLazer ("ez", true, "Easy")%string s = Some false.
Proof. repeat split; vm_compute; reflexivity. Qed.
