(* Properties/C04.v — reusing computed attributes gives the same performance as using the map. *)
From Coq Require Import String List Bool ZArith.
From V Require Import Tables AttrsPath TablesProofs.
Import ListNotations.

(* For every mode, map, Difficulty, score specification and every difficulty / state-generation /
   pp oracle: calculate() started from the attributes the map yields equals calculate() started
   from the map — both evaluate pp on the same attributes, settings and generated state.  The
   Map arm of the builders is regenerated from the source (perf_map_arms). *)
Theorem C04_attrs_path_eq : forall (Map Attrs Diff Spec State Out : Type)
    (difficulty : mode -> Diff -> Map -> Attrs) (gen : mode -> Attrs -> Diff -> Spec -> State)
    (pp : mode -> Attrs -> Diff -> State -> Out) m mp d s,
  calculate Map Attrs Diff Spec State Out difficulty gen pp perf_map_arms m (MAttrs (difficulty m d mp)) d s
  = calculate Map Attrs Diff Spec State Out difficulty gen pp perf_map_arms m (MMap mp) d s.
Proof. exact attrs_path_eq_now. Qed.
Print Assumptions C04_attrs_path_eq.

(* the attributes a result from the map is computed on (and embeds) are the one-shot difficulty *)
Theorem C04_calculate_map : forall (Map Attrs Diff Spec State Out : Type)
    (difficulty : mode -> Diff -> Map -> Attrs) (gen : mode -> Attrs -> Diff -> Spec -> State)
    (pp : mode -> Attrs -> Diff -> State -> Out) m mp d s,
  calculate Map Attrs Diff Spec State Out difficulty gen pp perf_map_arms m (MMap mp) d s
  = Some (pp m (difficulty m d mp) d (gen m (difficulty m d mp) d s)).
Proof.
  intros. exact (calculate_map Map Attrs Diff Spec State Out difficulty gen pp perf_map_arms tables_map_arms m mp d s).
Qed.
Print Assumptions C04_calculate_map.

(* closed facts about the regenerated tables: each builder's Map arm calculates for its own mode
   with its own Difficulty and calculate() goes through generate_state(); every IntoPerformance
   arm keeps the mode; performance attributes contribute their .difficulty *)
Theorem C04_map_arms : map_arms_check perf_map_arms = true.
Proof. exact tables_map_arms. Qed.
Print Assumptions C04_map_arms.
Theorem C04_into_arms :
  same_mode_arms into_perf_attr_arms 1 && same_mode_arms into_diff_attr_arms 1
  && same_mode_arms into_map_arms 2 = true.
Proof. exact tables_into_arms. Qed.
Print Assumptions C04_into_arms.
Theorem C04_payload :
  payload_check attrs_payload_of_difficulty_attrs attrs_payload_of_performance_attrs = true.
Proof. exact tables_payload. Qed.
Print Assumptions C04_payload.
