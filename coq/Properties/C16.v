(* Properties/C16.v — strain output is consistent with the star rating it explains *)
From Coq Require Import ZArith List Bool Floats Reals Lia.
From V Require Import Tables F64 FExact FInt StrainsVec StrainsVecProofs Aggregate Gradual Sections AggregateProofs SecTerm SecFacts.
Import ListNotations.
Open Scope Z_scope.

(* the rating computed from the internal compact vector equals the documented
   re-aggregation (drop zeros, sort descending, decay-weighted sum) of the exported vector,
   for every reachable vector of non-negative peaks and every decay weight *)
Theorem C16_reaggregate_eq : forall (decay : float) (s : sv),
  Inv s -> forallb strain_ok (abs s) = true ->
  exists exported, into_vec s = Some exported /\
    difficulty_value decay s = Some (reaggregate decay exported).
Proof. exact reaggregate_eq. Qed.
Print Assumptions C16_reaggregate_eq.

Theorem C16_flashlight_sum_eq : forall s : sv,
  Inv s -> forallb strain_ok (abs s) = true ->
  sum s = fsum (filter gt_zero_bits (abs s)).
Proof. exact flashlight_sum_eq. Qed.
Print Assumptions C16_flashlight_sum_eq.

(* exported vectors re-expand the zero runs: into_vec is the plain list *)
Theorem C16_into_vec_is_plain_list : forall s : sv, Inv s -> into_vec s = Some (abs s).
Proof. exact into_vec_spec. Qed.
Print Assumptions C16_into_vec_is_plain_list.

(* all skills of a mode report the same number of sections: the length of the exported
   peak list is a function of the object times and the section length only *)
Theorem C16_section_count_skill_independent :
  forall (St : Type) (strain_value_at : St -> Z -> float * St)
         (initial_strain : St -> float -> Z -> float) (L : float) (st0 : St) (times : list float),
  match skill_export St strain_value_at initial_strain L st0 times, section_count L times with
  | Some peaks, Some n => Z.of_nat (length peaks) = n
  | None, None => True
  | _, _ => False
  end.
Proof. exact section_count_skill_independent. Qed.
Print Assumptions C16_section_count_skill_independent.

(* the section loop terminates (binary64 arithmetic, Flocq): for every section length that is an
   integer in [256, 1024] and every list of finite object times within +-2^38 ms (the decoder caps
   times at i32::MAX ms and the clock rate is at least 0.01), every skill - whatever its strain
   functions - is processed completely and exports at least one peak; in particular the fuel the
   executable model computes is always enough, so a model result is never an artefact of the fuel *)
Theorem C16_section_loop_terminates :
  forall (St : Type) (strain_value_at : St -> Z -> float * St)
         (initial_strain : St -> float -> Z -> float)
         (L : float) (l : Z) (st0 : St) (times : list float),
  IntF L l -> 256 <= l <= 1024 -> Forall time_ok times ->
  exists peaks, skill_export St strain_value_at initial_strain L st0 times = Some peaks
                /\ (1 <= length peaks)%nat.
Proof. exact skill_export_total. Qed.
Print Assumptions C16_section_loop_terminates.

(* ... and the number of sections the loop adds for one object is explicit: from an end at the k-th
   multiple of l it is max 0 (ceil(t / l) - k), every fuel above it gives the same result, and the
   new end is the first multiple of l that is not below t (no rounding error accumulates) *)
Theorem C16_section_loop_steps : forall (L t e : float) (l k pushed : Z),
  IntF L l -> 0 < l <= 2 ^ 20 -> IntF e (k * l) -> Z.abs (k * l) <= 2 ^ 52 ->
  fin t -> (RV t <= IZR (2 ^ 52))%R ->
  let n := sec_steps t l k in
  (forall fuel, (n < fuel)%nat ->
     sec_while fuel L t e pushed = Some (addn n e L, pushed + Z.of_nat n))
  /\ IntF (addn n e L) ((k + Z.of_nat n) * l)
  /\ Z.abs ((k + Z.of_nat n) * l) <= 2 ^ 52 + 2 ^ 20
  /\ ~ (RV (addn n e L) < RV t)%R
  /\ (n = 0%nat \/ (RV (addn n e L) - IZR l < RV t)%R).
Proof. exact sec_while_terminates. Qed.
Print Assumptions C16_section_loop_steps.

(* what the source says now: every SECTION_LENGTH / SECTION_LEN constant is such an integer, and the
   loop has the transcribed shape and is the only writer of the section end *)
Theorem C16_section_facts_now : forallb snd section_facts = true /\ (4 <= length section_facts)%nat
  /\ forallb len_ok section_lengths = true /\ (2 <= length section_lengths)%nat.
Proof.
  exact (conj tables_section_facts (conj tables_section_facts_present
          (conj tables_section_lengths_ok tables_section_lengths_present))).
Qed.
Print Assumptions C16_section_facts_now.

Theorem C16_section_lengths_terminate : forall p, In p section_lengths ->
  forall times, Forall time_ok times ->
  exists n, section_count (of_Z (snd p)) times = Some n /\ 1 <= n.
Proof. exact section_lengths_terminate. Qed.
Print Assumptions C16_section_lengths_terminate.

(* non-vacuity: 400 and 750 are such lengths, and integral times up to 2^38 are admissible *)
Example C16_lengths_admissible : IntF 400%float 400 /\ IntF 750%float 750.
Proof. exact (conj L400 L750). Qed.
Example C16_times_admissible : Forall time_ok [of_Z 0; of_Z 1250; of_Z (-3000); of_Z 274877906944].
Proof. repeat (apply Forall_cons; [apply time_ok_of_Z; unfold TB; lia|]). apply Forall_nil. Qed.
