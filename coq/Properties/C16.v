(* Properties/C16.v — strain output is consistent with the star rating it explains *)
From Coq Require Import ZArith List Bool Floats.
From V Require Import F64 StrainsVec StrainsVecProofs Aggregate Gradual Sections AggregateProofs.
Import ListNotations.
Open Scope Z_scope.

(* the rating computed from the internal compact vector equals the documented
   re-aggregation (drop zeros, sort descending, decay-weighted sum) of the exported vector,
   for every reachable vector of non-negative peaks and every decay weight *)
Theorem C16_reaggregate_eq : forall (decay : float) (s : sv),
  Inv s -> forallb strain_ok (abs s) = true ->
  exists exported, into_vec s = Some exported /\
    difficulty_value decay s = Some (reaggregate decay exported).
Proof. exact reaggregate_eq. Qed.
Print Assumptions C16_reaggregate_eq.

Theorem C16_flashlight_sum_eq : forall s : sv,
  Inv s -> forallb strain_ok (abs s) = true ->
  sum s = fsum (filter gt_zero_bits (abs s)).
Proof. exact flashlight_sum_eq. Qed.
Print Assumptions C16_flashlight_sum_eq.

(* exported vectors re-expand the zero runs: into_vec is the plain list *)
Theorem C16_into_vec_is_plain_list : forall s : sv, Inv s -> into_vec s = Some (abs s).
Proof. exact into_vec_spec. Qed.
Print Assumptions C16_into_vec_is_plain_list.

(* all skills of a mode report the same number of sections: the length of the exported
   peak list is a function of the object times and the section length only *)
Theorem C16_section_count_skill_independent :
  forall (St : Type) (strain_value_at : St -> Z -> float * St)
         (initial_strain : St -> float -> Z -> float) (L : float) (st0 : St) (times : list float),
  match skill_export St strain_value_at initial_strain L st0 times, section_count L times with
  | Some peaks, Some n => Z.of_nat (length peaks) = n
  | None, None => True
  | _, _ => False
  end.
Proof. exact section_count_skill_independent. Qed.
Print Assumptions C16_section_count_skill_independent.
