(* Properties/C13.v — accuracy-driven hit results are the closest achievable to the target *)
From Coq Require Import ZArith List Bool Floats.
From V Require Import F64 Gradual GenState OptCheck OptSmall.
Import ListNotations.
Open Scope Z_scope.

(* On the property's own exhaustive domain the float model — the one that is run against
   the implementation — returns the requested misses, fills the objects, and is within 1e-12
   of the best distance over ALL distributions (complete enumeration inside the kernel VM;
   the bounds are in the domain definitions of Model/OptCheck.v). *)
Theorem C13_taiko_small : forall c, In c taiko_domain -> taiko_opt_check c = true.
Proof. exact taiko_opt_small. Qed.
Print Assumptions C13_taiko_small.

Theorem C13_catch_small : forall c, In c catch_domain -> catch_opt_check c = true.
Proof. exact catch_opt_small. Qed.
Print Assumptions C13_catch_small.

Theorem C13_osu_small : osu_lvl1 = true.
Proof. exact osu_lvl1_true. Qed.
Print Assumptions C13_osu_small.

(* mania's generate_state is not modelled: C13 for mania is decided by the brute-force
   oracle on the implementation only (exhaustive on the same small domain in the thorough
   tier).  Optimality for unbounded sizes in exact arithmetic (the opt_exact lemmas of DESIGN.md) is not proved. *)
