(* Properties/C13.v — accuracy-driven hit results are the closest achievable to the target *)
From Coq Require Import ZArith List Bool Floats.
From V Require Import OptCheckMania OptTwin OptTwinProofs F64 Gradual GenState OptCheck OptSmall.
Import ListNotations.
Open Scope Z_scope.

(* On the property's own exhaustive domain the float model — the one that is run against
   the implementation — returns the requested misses, fills the objects, and is within 1e-12
   of the best distance over ALL distributions (complete enumeration inside the kernel VM;
   the bounds are in the domain definitions of Model/OptCheck.v). *)
Theorem C13_taiko_small : forall c, In c taiko_domain -> taiko_opt_check c = true.
Proof. exact taiko_opt_small. Qed.
Print Assumptions C13_taiko_small.

Theorem C13_catch_small : forall c, In c catch_domain -> catch_opt_check c = true.
Proof. exact catch_opt_small. Qed.
Print Assumptions C13_catch_small.

Theorem C13_osu_small : osu_lvl1 = true.
Proof. exact osu_lvl1_true. Qed.
Print Assumptions C13_osu_small.

(* mania's generate_state is not modelled: C13 for mania is decided by the brute-force
   oracle on the implementation only (exhaustive on the same small domain in the thorough
   tier).  Optimality for unbounded sizes in exact arithmetic (the opt_exact lemmas of DESIGN.md) is not proved. *)

(* ---- unbounded: the one-dimensional searches (taiko: 300s vs 100s; catch: tiny droplets) ----
   For EVERY object count, miss count and target accuracy a/b, no other distribution is closer to
   the target than the exact twin's choice (the better of the clamped floor and ceil of the exact
   estimate, floor first).  The twin is tied to the implementation on every recorded
   accuracy-only taiko / catch trace: the implementation's choice is as close as the twin's up
   to 1e-12 (tools/m_gs.py twin_run). *)
Theorem C13_nearest_optimal : forall p q R y : Z, 0 < q -> 0 <= R -> 0 <= y <= R ->
  Z.abs (p - nearest p q R * q) <= Z.abs (p - y * q).
Proof. exact nearest_optimal. Qed.
Print Assumptions C13_nearest_optimal.

Theorem C13_taiko_any_size : forall T m a b y : Z, 0 < T -> 0 <= m <= T -> 0 < b -> 0 <= y <= T - m ->
  0 <= taiko_twin T m a b <= T - m /\
  taiko_dist T m a b (taiko_twin T m a b) <= taiko_dist T m a b y.
Proof. exact taiko_twin_optimal. Qed.
Print Assumptions C13_taiko_any_size.

Theorem C13_catch_any_size : forall fd at_ m a b y : Z, 0 <= fd -> 0 <= at_ -> 0 <= m -> 0 < b -> 0 <= y <= at_ ->
  0 <= catch_twin fd at_ m a b <= at_ /\
  catch_dist fd at_ m a b (catch_twin fd at_ m a b) <= catch_dist fd at_ m a b y.
Proof. exact catch_twin_optimal. Qed.
Print Assumptions C13_catch_any_size.

(* mania on its small domain: every shape up to 6 objects and 2 hold notes, every miss count, the
   23-point accuracy grid, both priorities, classic and lazer — the float model (the one run against
   the implementation) returns the requested misses, fills the judgements and is within 1e-12 of the
   best of ALL distributions of the five hit results *)
Theorem C13_mania_small : mania_lvl1 = true.
Proof. exact mania_lvl1_true. Qed.
Print Assumptions C13_mania_small.
