(* Properties/C05.v — no panic, abort or hang (partial by nature: what lives in slider geometry,
   skill evaluators, libm and the allocator is covered by the isolated-worker run only).
   Collected here: the panic / non-termination sites of the MODELLED components. *)
From Coq Require Import ZArith List Bool Floats.
From V Require Import F64 F32 Banana BananaProofs StrainsVec StrainsVecProofs Gradual GradualProofs
  GenState GenStateProofs ManiaCols ManiaColsProofs Decode DecodeProofs
  FExact FInt Sections SecTerm.
Import ListNotations.
Open Scope Z_scope.

(* banana shower (catch spinners): every iteration of the loop either stops or moves to a strictly
   larger f32 time not above the end time, and the count returned is the number of times visited.
   Finitely many f32 values lie below the end time, so the loop terminates on every input
   (the counting step itself is not formalised). *)
Theorem C05_banana_progress : forall fuel time end_time spacing,
  increasing (visited fuel time end_time spacing) /\
  Forall (fun t => PrimFloat.leb t end_time = true) (visited fuel time end_time spacing).
Proof. exact visited_increasing. Qed.
Print Assumptions C05_banana_progress.
Theorem C05_banana_count : forall fuel time e sp c0,
  snd (count_loop fuel time e sp c0) = true ->
  fst (count_loop fuel time e sp c0) = c0 + Z.of_nat (length (visited fuel time e sp)).
Proof. exact count_is_visited. Qed.
Print Assumptions C05_banana_count.

(* gradual calculators (osu!/catch/mania machine): from every reachable state next() and nth(n)
   are defined — a value while objects remain, None afterwards — i.e. the slice index of the
   model's "index panic" branch is never out of range *)
Theorem C05_gradual_next_defined : forall (S : Type) (process : S -> Z -> S) (s0 : S) (Obj Cnt : Type)
    (inc : Cnt -> Obj -> Cnt) (c0 : Cnt) (precount : bool) (objs : list Obj) (g : @gstate S Cnt) p,
  R S process s0 inc c0 precount objs g p ->
  (p < zlen objs -> exists g', g_next S process inc precount objs (sat_sub (zlen objs) 1) g
                               = (Some (val S process s0 inc c0 objs p), g')
                               /\ R S process s0 inc c0 precount objs g' (p + 1)) /\
  (p = zlen objs -> g_next S process inc precount objs (sat_sub (zlen objs) 1) g = (None, g)).
Proof. exact next_spec. Qed.
Print Assumptions C05_gradual_next_defined.

(* compact strain list: the zero counter never overflows while fewer than 2^63 values were pushed *)
Theorem C05_strains_push_no_overflow : forall (s : sv) (b : Z),
  Inv s -> 0 <= b < TWO64 -> len s + 1 < SIGN -> snd (push s b) = true.
Proof.
  intros s b HI Hb Hl. pose proof (push_spec s b HI Hl Hb) as H.
  destruct (push s b) as [s' ok]. destruct H as (H & _). exact H.
Qed.
Print Assumptions C05_strains_push_no_overflow.

(* score-state generation (osu!, taiko): every field of the generated state is within its bounds
   (no u32 underflow in the subtractions), for all inputs *)
Theorem C05_osu_generate_ok : forall i : osu_in, osu_in_ok i -> osu_filled i -> osu_gs_ok i (osu_generate i).
Proof. exact osu_generate_ok. Qed.
Print Assumptions C05_osu_generate_ok.
Theorem C05_taiko_generate_ok : forall i : taiko_in,
  taiko_in_ok i -> taiko_accepts i = true -> taiko_gs_ok i (taiko_generate i).
Proof. exact taiko_generate_ok. Qed.
Print Assumptions C05_taiko_generate_ok.

(* mania conversion: a column computed from any integral x in 0..512 is a valid index below the
   key count (every array indexed by column has that many entries) *)
Theorem C05_column_in_bounds : forall k x, 1 <= k <= 18 -> 0 <= x <= 512 -> column (of_Z x) (of_Z k) < k.
Proof. exact column_below. Qed.
Print Assumptions C05_column_in_bounds.

(* decoder: the control-point insert is total and keeps the invariant its binary search needs *)
Theorem C05_control_points : forall scroll ls, ds_ok (decode_lines scroll ls).
Proof. exact decode_lines_strict. Qed.
Print Assumptions C05_control_points.

(* the strain-section loop `while curr.start_time > section_end { ...; section_end += L }` terminates
   for every object (binary64 arithmetic, proved with Flocq): for a section length that is an integer
   in [256, 1024] - the source's constants are 400 and 750, see C16_section_facts_now - and finite
   times within +-2^38 ms every skill is processed completely, whatever its strain functions *)
Theorem C05_section_loop_terminates :
  forall (St : Type) (strain_value_at : St -> Z -> float * St)
         (initial_strain : St -> float -> Z -> float)
         (L : float) (l : Z) (st0 : St) (times : list float),
  IntF L l -> 256 <= l <= 1024 -> Forall time_ok times ->
  exists peaks, skill_export St strain_value_at initial_strain L st0 times = Some peaks
                /\ (1 <= length peaks)%nat.
Proof. exact skill_export_total. Qed.
Print Assumptions C05_section_loop_terminates.
