(* Properties/C17.v — the attribute builder is self-consistent and matches what calculators use.
   Float model (Model/Attributes.v, bit-exact against the real builder on every run) for the
   structural clauses; exact twin over Q (Model/AttributesQ.v) for the clauses the property
   states "up to float rounding". *)
From Coq Require Import ZArith QArith List Bool Floats.
From Coq Require Import Reals.
From Flocq Require Import Core.
From V Require Import F64 F32 Attributes AttributesQ AttributesProofs FExact FInt FOps RangeProofs.
Import ListNotations.
Open Scope Q_scope.

(* hit_windows() and build() agree with each other *)
Theorem C17_build_uses_hit_windows : forall b : builder, r_hw (build b) = hit_windows_of b.
Proof. exact build_uses_hit_windows. Qed.
Print Assumptions C17_build_uses_hit_windows.

(* a value supplied with with_mods = true is reported back unchanged, whatever the mods (HR/EZ)
   and the clock rate: AR (every mode), OD (osu!, taiko; catch and mania report the value
   itself), CS (exact in floats), HP (up to its cap of 10) *)
Theorem C17_ar_roundtrip : forall hr ez v rate, arQ hr ez true v rate == v.
Proof. exact ar_roundtrip. Qed.
Print Assumptions C17_ar_roundtrip.
Theorem C17_od_roundtrip_osu : forall hr ez v rate, od_osuQ hr ez true v rate == v.
Proof. exact od_roundtrip_osu. Qed.
Print Assumptions C17_od_roundtrip_osu.
Theorem C17_od_roundtrip_taiko : forall hr ez v rate, od_taikoQ hr ez true v rate == v.
Proof. exact od_roundtrip_taiko. Qed.
Print Assumptions C17_od_roundtrip_taiko.
Theorem C17_od_catch_mania : forall b : builder,
  a_mode b = ACatch \/ a_mode b = AMania -> r_od (build b) = kvalue (a_od b) (m_od b).
Proof. exact build_od_catch_mania. Qed.
Print Assumptions C17_od_catch_mania.
Theorem C17_cs_roundtrip_float : forall b : builder,
  k_with_mods (a_cs b) = true -> r_cs (build b) = kvalue (a_cs b) (m_cs b).
Proof. exact build_cs_with_mods. Qed.
Print Assumptions C17_cs_roundtrip_float.
Theorem C17_hp_roundtrip : forall hr ez v, v <= 10 -> hpQ hr ez true v == v.
Proof. exact hp_roundtrip. Qed.
Print Assumptions C17_hp_roundtrip.

(* hit windows (AR preempt; osu!/catch great, ok, meh; taiko great, ok) shrink monotonically as
   the value grows, for every mod combination, both with_mods settings and every clock rate *)
Theorem C17_windows_antitone : forall w hr ez with_mods v1 v2 rate,
  window_ok w -> 0 < rate -> v1 <= v2 ->
  windowQ w hr ez with_mods v2 rate <= windowQ w hr ez with_mods v1 rate.
Proof. exact windows_antitone. Qed.
Print Assumptions C17_windows_antitone.

(* ... and scale inversely with the clock rate (mania's rate-compensated window is excluded,
   DESIGN.md §5 C17) *)
Theorem C17_windows_inverse_clock : forall w hr ez v rate,
  0 < rate -> windowQ w hr ez false v rate * rate == windowQ w hr ez false v 1.
Proof. exact windows_inverse_clock. Qed.
Print Assumptions C17_windows_inverse_clock.

(* HR never yields easier and EZ never harder values than no mod, on [0, 10] *)
Theorem C17_hr_ez_windows : forall w v rate, window_ok w -> 0 < rate -> 0 <= v <= 10 ->
  windowQ w true false false v rate <= windowQ w false false false v rate /\
  windowQ w false false false v rate <= windowQ w false true false v rate.
Proof. exact hr_ez_window_order. Qed.
Print Assumptions C17_hr_ez_windows.
Theorem C17_hr_ez_ar : forall v rate, 0 < rate -> 0 <= v <= 10 ->
  arQ false true false v rate <= arQ false false false v rate /\
  arQ false false false v rate <= arQ true false false v rate.
Proof. exact hr_ez_ar_order. Qed.
Print Assumptions C17_hr_ez_ar.
Theorem C17_hr_ez_hp_cs : forall v, 0 <= v <= 10 ->
  hpQ false true false v <= hpQ false false false v /\ hpQ false false false v <= hpQ true false false v /\
  csQ false true false v <= csQ false false false v /\ csQ false false false v <= csQ true false false v.
Proof. exact hr_ez_hp_cs_order. Qed.
Print Assumptions C17_hr_ez_hp_cs.

Example C17_example_float :
  let b := mk_builder AOsu false (mk_mdk true 9%float false) (mk_mdk false 8%float false)
                      (mk_mdk false 4%float false) (mk_mdk false 5%float false)
                      false false None None None None 1.5%float in
  r_ar (build b) = ((1200 - 400) / 150 + 5)%float /\ hw_great (r_hw (build b)) = (32 / 1.5)%float.
Proof. split; vm_compute; reflexivity. Qed.

(* hit windows shrink monotonically as OD / AR grow - proved ON THE BINARY64 VALUES the code computes
   (Flocq: every operation of difficulty_range is the rounding of the exact result, rounding is monotone,
   the table entries are integers), with no real-number twin in between: for every window table of the
   crate (all six are ordered min >= avg >= max), any two finite difficulty values d1 <= d2 up to 2^40
   and every finite clock rate of at least 2^-7, the window for d2 divided by the clock rate is not
   larger than the one for d1 *)
Theorem C17_window_antitone_float : forall w d1 d2 clock, ordered_window w ->
  fin d1 -> fin d2 -> (Rabs (RV d1) <= bpow radix2 40)%R -> (Rabs (RV d2) <= bpow radix2 40)%R -> (RV d1 <= RV d2)%R ->
  fin clock -> (bpow radix2 (-7) <= RV clock)%R ->
  fin (difficulty_range d1 w / clock)%float /\ fin (difficulty_range d2 w / clock)%float
  /\ (RV (difficulty_range d2 w / clock)%float <= RV (difficulty_range d1 w / clock)%float)%R.
Proof. exact window_antitone. Qed.
Print Assumptions C17_window_antitone_float.

Theorem C17_window_tables_ordered : ordered_window OSU_GREAT /\ ordered_window OSU_OK /\ ordered_window OSU_MEH
  /\ ordered_window TAIKO_GREAT /\ ordered_window TAIKO_OK /\ ordered_window AR_WINDOWS.
Proof. exact tables_ordered. Qed.
Print Assumptions C17_window_tables_ordered.
