(* Properties/C20.v — concurrent use is interference-free.  What is logic is proved; what the
   OS scheduler and std's Arc/RwLock do is exercised by the threaded oracle (partial). *)
From Coq Require Import String List Bool Arith Permutation.
From V Require Import Tables EffectsProofs Interleave InterleaveProofs.
Import ListNotations.

(* calculations are deterministic steppers over private state reading a shared read-only
   environment: EVERY schedule (interleaving) that runs the same steps ends in the same states,
   in particular the states of running the workers one after another *)
Theorem C20_interleave_confluent : forall (Env S : Type) (step : Env -> nat -> S -> S) (env : Env)
    (s1 s2 : list nat), Permutation s1 s2 ->
  forall st k, run Env S step env s1 st k = run Env S step env s2 st k.
Proof. intros Env S step env s1 s2 H st k. exact (interleave_confluent Env S step env s1 s2 H st k). Qed.
Print Assumptions C20_interleave_confluent.

Theorem C20_equals_sequential : forall (Env S : Type) (step : Env -> nat -> S -> S) (env : Env)
    workers n sched, Permutation sched (sequential workers n) ->
  forall st k, run Env S step env sched st k = run Env S step env (sequential workers n) st k.
Proof. intros Env S step env w n sched H st k. exact (interleaving_equals_sequential Env S step env w n sched H st k). Qed.
Print Assumptions C20_equals_sequential.

(* a gradual calculator handed from thread to thread between steps produces the sequence it
   produces on one thread: whichever threads own it, step for step *)
Theorem C20_handover_invariant : forall (Env S : Type) (step : Env -> nat -> S -> S) (env : Env) i
    (threads1 threads2 : list nat) (o1 o2 : owned S),
  length threads1 = length threads2 -> snd o1 = snd o2 ->
  snd (fold_left (fun o t => step_on Env S step env i t o) threads1 o1)
  = snd (fold_left (fun o t => step_on Env S step env i t o) threads2 o2).
Proof. exact handover_invariant. Qed.
Print Assumptions C20_handover_invariant.

(* what justifies "private state, read-only environment" for the code as it is now: no statics
   with interior mutability, thread-locals, lazy globals or other ambient state anywhere in the
   non-test source (inventory regenerated on every run); the only interior mutability is the
   taiko cell type, created and dropped inside one calculation *)
Theorem C20_effects_covered : effects_covered effect_sites = true.
Proof. exact tables_effects_covered. Qed.
Print Assumptions C20_effects_covered.
Theorem C20_no_forbidden_kinds :
  forallb (fun s => negb (existsb (String.eqb (snd (fst s))) never_allowed)) effect_sites = true.
Proof. exact tables_no_forbidden_kinds. Qed.
Print Assumptions C20_no_forbidden_kinds.

(* the sync cells never conflict under the library's access pattern, in either implementation *)
Theorem C20_cells_no_conflict : forall ops c depth mut_held,
  readers c = depth -> writer c = mut_held -> (mut_held = true -> depth = 0) ->
  well_nested depth mut_held ops = true ->
  exists c', cell_run RefCellFlavour c ops = Done c' /\ cell_run RwLockFlavour c ops = Done c'.
Proof. exact well_nested_no_conflict. Qed.
Print Assumptions C20_cells_no_conflict.

Example C20_example :
  run unit nat (fun _ i s => s + i + 1) tt [0; 1; 0; 2; 1; 0] (fun _ => 0) 0
  = run unit nat (fun _ i s => s + i + 1) tt (sequential [0; 1; 2] (fun i => 3 - i)) (fun _ => 0) 0.
Proof. reflexivity. Qed.
