(* Properties/C11.v — obligations for C11 (unsafe code never performs an invalid access).
   Only statements, `exact`, and Print Assumptions live here. *)
From Coq Require Import ZArith List Bool.
From V Require Import F64 StrainsVec StrainsVecProofs Tables Owner OwnerProofs EffectsProofs.
Import ListNotations.
Open Scope Z_scope.

(* The compact strain list behaves exactly like a plain list under every operation
   sequence: all observations (iteration, into_vec incl. its raw-slice copies, the
   transmute after retain, the length) are those of the list obtained by appending the
   canonical element per push, filtering zeros per retain and sorting per sort — including the
   length, which after the fix of `retain_non_zero` is the plain list's length in every state. *)
Theorem C11_sv_refines_plain_list : forall ops : list op,
  legal [] ops -> n_pushes ops < SIGN ->
  let '(s, ok) := run sv_empty ops in
  let l := spec_run [] ops in
  ok = true /\ iter_all s = l /\ into_vec s = Some l
  /\ transmute_into_vec (retain_non_zero s) = Some (filter nonzero l)
  /\ len s = Z.of_nat (length l).
Proof. exact observe_refines. Qed.
Print Assumptions C11_sv_refines_plain_list.

(* `transmute_into_vec`'s safety contract ("no zeros") holds at its only call site shape:
   directly after `retain_non_zero`. *)
Theorem C11_sv_transmute_safe : forall s : sv, Inv s ->
  transmute_into_vec (retain_non_zero s) = Some (filter nonzero (abs s)).
Proof. exact transmute_after_retain. Qed.
Print Assumptions C11_sv_transmute_safe.

(* every `copy_slice(slice, count, _)` in `into_vec` stays inside `slice` and copies only
   value entries: the model returns None otherwise, and it never does. *)
Theorem C11_sv_into_vec_in_bounds : forall s : sv, Inv s -> into_vec s = Some (abs s).
Proof. exact into_vec_spec. Qed.
Print Assumptions C11_sv_into_vec_in_bounds.

(* `incr_zero_count` never overflows (ok = true) and the invariant is kept by push *)
Theorem C11_sv_push_no_overflow : forall (s : sv) (b : Z),
  Inv s -> len s + 1 < SIGN -> 0 <= b < TWO64 ->
  let '(s', ok) := push s b in
  ok = true /\ Inv s' /\ abs s' = abs s ++ [canon b] /\ len s' = len s + 1
  /\ (Exact s -> Exact s').
Proof. exact push_spec. Qed.
Print Assumptions C11_sv_push_no_overflow.

(* the iterator yields exactly the abstract list (and so never underflows its length) *)
Theorem C11_sv_iter : forall s : sv, Inv s -> iter_all s = abs s.
Proof. exact iter_all_spec. Qed.
Print Assumptions C11_sv_iter.

(* std's sort (any sort returning a descending permutation) agrees with the model's *)
Theorem C11_sv_sort_unique : forall l l' : list Z,
  Forall (fun w => 0 <= w < TWO64) l ->
  Permutation.Permutation l l' -> Sorted.Sorted desc l' -> l' = sort_desc_list l.
Proof. exact any_desc_sort_agrees. Qed.
Print Assumptions C11_sv_sort_unique.

(* ---- hand-extended lifetimes ---------------------------------------------------------------
   OsuGradualDifficulty / TaikoGradualDifficulty keep references into a boxed slice they own
   themselves; BeatmapState::point_split re-types a scratch vector of raw pointers as &[&str]
   for the duration of one call.  Model/Owner.v is the heap / ownership model; the facts it
   rests on (field order, no reassignment after `new`, not Clone, the exact shape of
   point_split and that nothing else touches the scratch vector) are re-read from the source
   by the translator on every run (Tables.lifetime_facts). *)

(* every history of moves, method calls, unrelated allocations and frees, and drop: no use
   follows a reference into freed memory, no cell is freed twice *)
Theorem C11_gradual_self_reference_safe : forall (h : heap) (n : nat) (ops : list hop),
  fault (run_hist false h n ops) = false.
Proof. exact history_safe. Qed.
Print Assumptions C11_gradual_self_reference_safe.

(* ... and the drop at the end releases both cells (alive until then) exactly once *)
Theorem C11_gradual_drop_releases : forall (h : heap) (n : nat) (ops : list hop),
  ~ In HDrop ops ->
  let s := run_hist false h n ops in
  let s' := hstep false s HDrop in
  cv s' = None /\ fault s' = false /\
  is_live (hp s') (length h) = false /\ is_live (hp s') (S (length h)) = false /\
  is_live (hp s) (length h) = true /\ is_live (hp s) (S (length h)) = true.
Proof. exact drop_frees_both. Qed.
Print Assumptions C11_gradual_drop_releases.

(* the decoder's scratch vector: over any sequence of lines and curve-point lists, every
   pointer read points into the line being parsed and none survives the call *)
Theorem C11_point_split_safe : forall ops : list dop, Forall no_touch ops ->
  d_fault (drun true ops) = false /\ d_buf (drun true ops) = [].
Proof. exact scratch_safe. Qed.
Print Assumptions C11_point_split_safe.

(* the source facts the two theorems are conditional on hold in the current tree *)
Theorem C11_lifetime_facts_now : forallb snd lifetime_facts = true.
Proof. exact tables_lifetime_facts. Qed.
Print Assumptions C11_lifetime_facts_now.
Theorem C11_lifetime_facts_present : (18 <= length lifetime_facts)%nat.
Proof. exact tables_lifetime_facts_present. Qed.
Print Assumptions C11_lifetime_facts_present.

(* every `unsafe` token of the current source lies in one of the files modelled above, with at
   most the number of occurrences that were examined (inventory regenerated on every run): new
   unsafe code anywhere else breaks this theorem *)
Theorem C11_unsafe_sites_covered : unsafe_covered unsafe_sites = true.
Proof. exact tables_unsafe_covered. Qed.
Print Assumptions C11_unsafe_sites_covered.
