(* Properties/C18.v — builder settings mean the same thing wherever they are set. *)
From Coq Require Import String List Bool ZArith Floats.
From V Require Import Tables Builder BuilderProofs.
Import ListNotations.
Open Scope string_scope.

(* Configuring a Performance through its own setters = handing it a Difficulty with the same
   setters applied, for every sequence of setter calls, every mode and every starting
   Difficulty — the setters being interpreted through the dispatch tables regenerated from
   the source; setters that are no-op arms for the mode (all of them documented as irrelevant
   for it, see C18_noop_documented) are the only ones dropped. *)
Theorem C18_perf_setters_equiv : forall (M : Type) (ops : list (sop M)) (m : mode) (d : diff M),
  let p := fold_left (perf_apply perf_dispatch mode_builders) ops (mk_perf m d) in
  p_mode p = m /\
  p_diff p = fold_left diff_apply (filter (fun o => negb (noop_for perf_dispatch m o)) ops) d.
Proof. exact perf_setters_equiv_now. Qed.
Print Assumptions C18_perf_setters_equiv.

(* closed facts about the tables regenerated from the current source *)
Theorem C18_setters_forward : setters_forward_check perf_dispatch mode_builders = true.
Proof. exact tables_setters_forward. Qed.
Print Assumptions C18_setters_forward.
Theorem C18_difficulty_replaces : difficulty_replaces_check perf_dispatch mode_builders = true.
Proof. exact tables_difficulty_replaces. Qed.
Print Assumptions C18_difficulty_replaces.
Theorem C18_noop_documented : noop_documented_check perf_dispatch perf_doc = true.
Proof. exact tables_noop_documented. Qed.
Print Assumptions C18_noop_documented.
Theorem C18_difficulty_setters : difficulty_setters_check difficulty_setters = true.
Proof. exact tables_difficulty_setters. Qed.
Print Assumptions C18_difficulty_setters.
Theorem C18_inspect_tables : inspect_check difficulty_fields inspect_fields into_difficulty_calls = true.
Proof. exact tables_inspect. Qed.
Print Assumptions C18_inspect_tables.

(* Difficulty survives the round trip through its inspectable form, for every Difficulty that
   setters can build (wf: stored values are fixed points of their clamps) *)
Theorem C18_inspect_roundtrip : forall (M : Type) (d : diff M), wf d -> into_difficulty (inspect d) = d.
Proof. exact inspect_roundtrip. Qed.
Print Assumptions C18_inspect_roundtrip.
Theorem C18_reachable_wf : forall (M : Type) (m0 : M) (ops : list (sop M)),
  wf (fold_left diff_apply ops (diff_new m0)).
Proof. exact wf_reachable. Qed.
Print Assumptions C18_reachable_wf.

(* clamps: for EVERY float (NaN, infinities included) the stored value is never below / above
   the documented bounds, and clamping is idempotent *)
Theorem C18_clock_rate_bounds : forall x,
  PrimFloat.ltb (clamp_rate x) 0x1.47ae147ae147bp-7%float = false /\ PrimFloat.ltb 100%float (clamp_rate x) = false.
Proof. exact clamp_rate_bounds. Qed.
Print Assumptions C18_clock_rate_bounds.
Theorem C18_attr_bounds : forall x,
  PrimFloat.ltb (clamp_attr x) (-20)%float = false /\ PrimFloat.ltb 20%float (clamp_attr x) = false.
Proof. exact clamp_attr_bounds. Qed.
Print Assumptions C18_attr_bounds.

(* independent setters commute; the last call of a setter wins *)
Theorem C18_setters_commute : forall (M : Type) (d : diff M) (o1 o2 : sop M),
  sop_name o1 <> sop_name o2 -> diff_apply (diff_apply d o1) o2 = diff_apply (diff_apply d o2) o1.
Proof. exact setters_commute. Qed.
Print Assumptions C18_setters_commute.
Theorem C18_setter_overwrites : forall (M : Type) (d : diff M) (o1 o2 : sop M),
  sop_name o1 = sop_name o2 -> diff_apply (diff_apply d o1) o2 = diff_apply d o2.
Proof. exact setter_overwrites. Qed.
Print Assumptions C18_setter_overwrites.

Example C18_example :
  let d := fold_left diff_apply [SClock 1000%float; SAr (-25)%float true; SPassed 7%Z; SAr 9.5%float false]
                     (diff_new tt) in
  d_clock d = Some 100%float /\ d_ar d = Some (9.5%float, false) /\ d_passed d = Some 7%Z /\ wf d.
Proof.
  cbv zeta. split; [reflexivity|]. split; [reflexivity|]. split; [reflexivity|].
  exact (C18_reachable_wf unit tt _).
Qed.
