#!/usr/bin/env python3
"""Regenerates MANIFEST.json from the table below (kept next to the checks)."""
import json
import os
import subprocess

VERIF = os.path.dirname(os.path.dirname(os.path.abspath(__file__)))
COMMON_NOTE = ("Coq 8.16.1 kernel + vm_compute; no axioms beyond the stdlib ones reported by Print Assumptions "
               "(allow-list in tools/vlib.py); hand-written executable models tied to /repo by the correspondence "
               "harness (vh, cfg(rosu_pp_verif) hooks) on every run; python driver and trace->Coq literal printers trusted.")

CLAIMED = {
    "C02": dict(
        text='Coq theorems for every object list / hit-flag list, every skill oracle and every op sequence: a fresh gradual calculator of ALL FOUR modes (taiko included, after the fixes 8d6162b and 0673ba4) returns exactly what a plain iterator over [one-shot(1..total)] returns (counts and skill state), so value i = passed_objects(i) and #values = len. Final value = full calculation: theorem for all four modes (for taiko since the fix 0673ba4 of the former finding F6c: passing the last hit passes the trailing non-hit objects too). Float attributes are compared bitwise gradual-vs-one-shot on the implementation for every prefix.',
        tech='Coq simulation proof (gradual machine refines list iterator, 4 modes) + model/impl correspondence + bitwise differential'),
    "C01": dict(
        text="A Gallina model cannot exhibit nondeterminism, so the proof is: (a) the inventory of ambient-effect sites (hash "
             "iteration, statics, thread-locals, lazy init, interior mutability, clocks, environment, ambient RNGs, file system, "
             "addresses) is REGENERATED from every non-test source file on each run and a kernel-evaluated theorem says each "
             "site is one of four listed, discharged ones and no forbidden kind occurs; (b) for the one hash map (bpm) a Coq "
             "theorem: for every timing-point list and EVERY iteration order (permutation) of the map's entries, bpm() returns "
             "what the insertion-order model returns, and that model is tied bit-for-bit to Beatmap::bpm. Purity of the "
             "unmodelled numerics rests on the inventory plus the repetition oracle (every API repeated in shuffled orders, "
             "fresh vs reused builders, map hash before/after, two processes) - partial.",
        tech="translator-generated effect inventory + Coq permutation-invariance proof + repetition/cross-process differential"),
    "C03": dict(
        text='Coq theorems for every object list, every skill oracle, every performance oracle, every score state and every sequence of next/nth(k)/last/len calls, all four modes: a fresh gradual performance calculator returns exactly perf(one-shot(i), i, state) for the position i it reaches (min(n+1, remaining) objects processed, None iff nothing remains) - what a one-shot Performance with passed_objects(i) and that state evaluates, the performance function being the same oracle in both paths. Tied to the code by model/impl correspondence on counts, Some/None, len and the passed_objects value, and by bitwise comparison of every gradual result with the one-shot Performance.',
        tech='Coq simulation proof (gradual performance refines one-shot performance of the prefix, 4 modes) + model/impl correspondence + bitwise differential'),
    "C04": dict(
        text="Coq theorem, for every mode, map, Difficulty, score specification and every difficulty/state/pp oracle: "
             "calculate() from the attributes the map yields = calculate() from the map (both evaluate pp on the same attributes, "
             "settings and generated state), over a model that interprets the Map arm of the four builders as REGENERATED from the "
             "source on every run (translator tools/extract.py; finite table theorems re-checked by the kernel). The pp bodies are "
             "oracles. Tied to the code additionally by a bitwise differential over all entry points (map by ref/value, difficulty "
             "and performance attributes, .performance(), mode builders, try_mode, calculate after generate_state) and the "
             "embedded difficulty attributes.",
        tech="Coq proof over a model interpreting translator-generated tables + bitwise entry-point differential"),
    "C07": dict(
        text="Coq theorems over decision trees REGENERATED from convert/convert_ref/convert_mut on every run: on all 32 "
             "(source mode, is_convert, target) combinations the three entry points agree with each other and with the "
             "specification (identity on the own mode, only unconverted osu! converts, result flagged, both errors), for every "
             "map payload, mods and converter oracle; every one of the 12 mode entry points starts with convert_ref to its own mode "
             "with the caller's mods, hence calculating directly = calculating on the explicitly converted map (theorem). The "
             "converters' effect on the objects is an oracle. Tied to the code additionally by a bitwise differential "
             "(convert*/calculate_for_mode/strains_for_mode/gradual/try_mode/mode_or_ignore).",
        tech="Coq proof over translator-generated decision trees + bitwise differential"),
    "C08": dict(
        text="Coq theorems over the accessor tables REGENERATED from src/model/mods.rs on every run: every has-mod accessor and "
             "the mania key count answer the same for the lazer, intermode and legacy representation of ANY legacy-representable "
             "selection; every lazer rate mod contributes the speed change it carries (so speed r = clock_rate(r)); "
             "DifficultyAdjust accessors cover ar/cs for osu!/catch and hp/od for all modes. The correspondence between legacy bits, "
             "intermode names and lazer variants is rosu-mods' (trusted). Tied to the code by a bitwise differential over five "
             "representations, rate mods with custom speed vs clock_rate, DifficultyAdjust vs overrides (difficulty, strains, "
             "performance).",
        tech="Coq proof over translator-generated accessor tables + bitwise representation differential"),
    "C17": dict(
        text="Coq float model of BeatmapAttributesBuilder::{hit_windows, build} (f64 on the kernel's floats, f32 steps via "
             "SpecFloat rounding), tied BIT-EXACTLY to the real builder on every run; theorems: build() and hit_windows() agree "
             "(float model, structural); over the exact twin (Q): round trip of values supplied with with_mods=true for every "
             "mod/clock rate (AR; OD osu!/taiko; CS; HP up to its cap), every window antitone in the value, inverse clock-rate "
             "scaling, HR/EZ ordering on [0,10]. Window monotonicity is ALSO proved directly on the binary64 values (Flocq: every "
             "operation of difficulty_range is the rounding of the exact result, rounding is monotone) for all six window tables "
             "and every clock rate >= 2^-7, without the twin; for the other clauses the twin's agreement with the float model is "
             "validated numerically in Coq (1e-6), not proved; mania's rate-compensated window is excluded from the monotonicity/scaling theorems. Agreement "
             "of osu!/taiko/catch difficulty attributes with the builder is checked bitwise on real calculations.",
        tech="bit-exact Coq float model + Q-twin proofs (lra) + direct oracles"),
    "C18": dict(
        text="Coq theorems: for every sequence of setter calls, mode and starting Difficulty, Performance setters (interpreted "
             "through the dispatch tables REGENERATED from the source on every run) leave exactly the Difficulty that the same "
             "setters build, no-op arms (all documented as irrelevant - table theorem) aside; inspect/into_difficulty round trip "
             "for every reachable Difficulty; clamps hold for EVERY float incl. NaN/inf and are idempotent; independent setters "
             "commute, the last call wins. Which Difficulty fields a mode's calculation reads is not modelled (direct oracle). "
             "Tied to the code by a bitwise differential (setters vs Difficulty, mode builders, round trip, clamps, shuffled "
             "orders, irrelevant setters).",
        tech="Coq proof over a Difficulty model and translator-generated dispatch tables + bitwise differential"),
    "C09": dict(
        text="Partial by nature. Coq theorems: the four ScoreState::accuracy functions lie in [0,1] for every state with "
             "non-negative counts and every origin, zero-denominator guard included (exact model); the FLOAT the code returns is modelled "
             "too, compared bit for bit on every recorded state, and proved with Flocq finite, within [0,1] and - for the "
             "integer-quotient modes - within 2^-53 of the exact value (osu!'s binary64 tick weights 0.6/0.2 included); the decay-weighted sum of peaks in [0,M] is non-negative and bounded by M*k/(1-w) (over Q), and on the binary64 values: finite peaks in [0,2^k] give a finite non-negative difficulty value of at most n*2^k (Flocq, monotone rounding). "
             "Finiteness and sign of everything that goes through pow/ln/erf/sqrt (skill evaluators, pp formulas) cannot be "
             "proved with the installed tooling (no bit-exact libm model): decided by scanning every f64 field of difficulty, "
             "strain and performance attributes on degenerate and ordinary maps x every prefix x consistent score states x "
             "settings in the reachable ranges; zero hits = zero pp is checked there too.",
        tech="Coq proofs for accuracy range and weighted-sum bound + exhaustive float-field scan"),
    "C10": dict(
        text="Coq theorem (unbounded push sequences): for every sequence of 64-bit words other than a positive NaN the compact "
             "strain list and the raw_strains Vec<f64> have the same length, iteration, into_vec and sorted non-zero vector "
             "(refutation lemma shows the precondition is necessary; every exported peak is scanned for NaN); the RefCell and "
             "RwLock cells are one state machine up to how a conflict fails, and the library's access pattern never conflicts; "
             "cfg(feature) sites regenerated from source are only the two inner modules. Tied to the code by the compact-list "
             "op-sequence differential and by running the same seeded workload under four separately built binaries "
             "(numeric comparison, -0 = 0). `sum`: same float or both a zero, for every such push sequence (adding +0.0 never changes a binary64 accumulator except for the sign of zero - Flocq).",
        tech="Coq refinement proof (compact vs raw strain list) + four-feature-build differential"),
    "C20": dict(
        text="Coq theorems: calculations modelled as deterministic steppers over private state with a shared read-only "
             "environment give the same final states under EVERY schedule (permutation of steps), in particular the sequential "
             "one; handing a stepper between threads is invisible; the sync cells never conflict. What makes the model apply to "
             "the code - no statics, thread-locals, lazy globals or shared interior mutability - is a kernel-evaluated theorem "
             "over the effect inventory REGENERATED from the source on every run. OS scheduling, memory ordering and std's "
             "Arc/RwLock are outside the model: exercised by thread pools of 2-16 threads with shuffled/duplicated assignment, "
             "a many-round stress on small seeded jobs, and per-step thread hand-over of gradual calculators with sync (partial).",
        tech="Coq confluence proof over an interleaving model + translator-generated effect inventory + threaded differential"),
    "C05": dict(
        text="Partial by nature. Coq theorems for the panic / non-termination sites of the modelled components: the banana-shower loop visits strictly increasing f32 times (terminates; the counting step 'finitely many f32 values' is not formalised), gradual next/nth are defined from every reachable state, the strain list's zero counter cannot overflow, generate_state (osu!, taiko) stays within bounds, mania columns are valid indices for every key count and integral x, control-point insertion is total. Everything else (slider geometry, skill evaluators, pp formulas, allocator) is decided by the isolated-worker run: each case in a child process under a 60 s watchdog and a 4 GiB address-space limit, release builds for the adversarial domain, release and debug (overflow checks) for the realistic one.",
        tech='Coq proofs for modelled panic/termination sites + isolated-worker exploration with watchdog'),
    "C06": dict(
        text='Coq theorems: for EVERY sequence of timing lines the decoded timing/difficulty/effect points are strictly ordered (model of the pending/flush/binary-search-insert logic, tied word for word to the decoder on every run); objects and sounds are permuted by the same swaps (tandem sort = sort of the zipped lines) for every swap sequence; complete check of the tandem sort incl. sorter reuse on all 1093 small time patterns. NOT modelled: tokenisers, number parsers, encodings, slider path parsing, mania legacy sort - for those totality / io-errors-only / finiteness / clamps / bytes=str=path are decided by the byte-level oracle only (partial).',
        tech='Coq invariant proof over a decoder bookkeeping model + word-exact correspondence + byte-level well-formedness oracle'),
    "C19": dict(
        text='Coq theorems: mania key count = key mod or within 4..7 for every cs/od/object mix (model tied to the code); a note placed through column_to_pos is read back in its column (clamped and unclamped quotient) for all key counts 1..10 and no integral x maps to a column at or above the key count for 1..18 (complete finite checks over the f32 model, tied to ManiaObject::column); taiko objects/sounds spliced in lock step and sorted in tandem keep one sound per object; effect points stay strictly ordered. the taiko slider splitting (split decision and tick loop) is modelled bit-exactly and compared with the real conversion on every run; proved with Flocq: a split slider is replaced by at least one hit, the first at its own start, all finite and in time order (the branch that removes the slider is dead). NOT modelled: mania pattern choice, slider geometry - decided by the direct oracle over generated osu! maps x targets x key mods (partial). Random columns: both pseudo random generators are modelled (tied to the code by recorded call sequences); Random::next_int_range is proved exact in binary64 (Flocq) and within [lo, hi) for EVERY generator state, next_double within [0, 1); next_max(max) of the .NET generator within [0, max) for every sample below i32::MAX; the .NET generator as a state machine: table entries within [-1, i32::MAX) is an invariant of internal_sample under which no i32 subtraction overflows, hence after ANY call sequence plain samples lie in [0, i32::MAX) and next_max in [0, max) (CRngProofs); seeding is proved to leave entries in the closed range [-1, i32::MAX] for every 32-bit seed, the strict bound is evaluated per seed of the recorded sequences (partial over seeds); the transcribed statements of csharp.rs and osu.rs are regenerated from the source and required verbatim (prng_facts).',
        tech='Coq proofs over column/key-count models + correspondence + structural oracle on conversions'),
    "C11": dict(
        text="Coq theorems (unbounded op sequences) that the compact strain list refines a plain list, that transmute_into_vec's "
             "and from_raw_parts' contracts hold and that zero counts never overflow; model tied to src/util/strains_vec.rs by "
             "bit-exact op-sequence differential through the verification hook. The hand-extended lifetimes (osu!/taiko gradual "
             "self-references, the decoder's *const str scratch vector) are proved safe on a heap/ownership/tag model for EVERY "
             "history of moves, uses, unrelated allocations/frees and the drop, and every sequence of lines; that model is "
             "conditional on 18 facts (field order, no reassignment after new, not Clone, raw-pointer owner, exact shape of "
             "point_split, no other use of the scratch vector) REGENERATED from the source on every run and checked by a "
             "kernel-evaluated theorem, each with a refutation lemma. Supporting, not proof: Miri (Stacked Borrows; Tree Borrows "
             "in the thorough tier) over /verif/miri, and an oracle that rejected slider lines leave no trace. Partial: the "
             "ownership model is hand-written, not derived from MIR.",
        tech="Coq refinement + ownership-history proofs, source facts regenerated per run, model/impl correspondence, Miri as supporting oracle"),
    "C12": dict(
        text="Coq theorems for ALL attribute shapes / provided subsets / priorities / origins / passed_objects (all four modes): "
             "misses <= objects, hit results within the non-missed objects, sum = objects whenever the clamped provided results "
             "fit, provided results never reduced and kept exactly when another result is free, combo <= achievable, slider "
             "hits within maxima, and idempotence of generate_state; the float search is quantified away (any candidate of the "
             "window). All four modes are modelled branch for branch and proved (mania incl. its four nested candidate loops and "
             "the classic-mode shifts); the one hypothesis - the accuracy search accepted a candidate - is a computable boolean "
             "evaluated on every recorded trace and false only for a NaN accuracy (refutation lemma). "
             "calculate() == state(generated).calculate() is checked on the implementation.",
        tech="Coq proofs over a branch-for-branch model of generate_state + bit-exact model/impl correspondence + direct oracle"),
    "C13": dict(
        text="Finite-but-complete Coq theorems (kernel VM evaluation of the float model that is run against the code): on the "
             "property's exhaustive small domain (osu 115k cases, taiko 2k, catch 25k) the generated state has the requested "
             "misses and is within 1e-12 of the best distance over all distributions. Mania and sizes beyond the domain: brute "
             "force with exact rationals on the implementation (exhaustive on the small domain in the thorough tier, sampled "
             "above). Unbounded theorems for taiko and catch: the exact-rational twin of their search is optimal for EVERY "
             "object count, target and miss count (nearest_optimal), the float search being tied to the twin per trace. "
             "No unbounded optimality theorem for osu! and mania (partial).",
        tech="Coq vm_compute exhaustive enumeration over the float model + model/impl correspondence + exact-rational brute force"),
    "C14": dict(
        text="Coq theorems about the one-shot models: counts are those of the first min(n,total) units, osu circles+sliders+spinners "
             "= min(n,total), catch fruits+droplets = min(n,palpables), mania n_objects/hold notes of the prefix, taiko combo = "
             "min(n,hits); monotone in n; every n >= total gives the unlimited result. Tied to the code by comparing the real "
             "attributes for every n in 0..total+2 with the model and with an independent count over the hook views.",
        tech="Coq proofs over one-shot count models + model/impl correspondence + independent recount"),
    "C15": dict(
        text='The simulation theorems of C02 read as the iterator protocol, all four modes (taiko after the fix 8d6162b): for every op sequence over next/nth(k)/len (k arbitrary >= 0) the machine equals a plain list iterator (nth exhausts and returns None past the end, len = remaining and never underflows, None forever after exhaustion); gradual performance: nth(state,n) processes min(n+1, remaining), last all remaining, None iff nothing remains (C03 theorems).',
        tech='Coq simulation proof over arbitrary op sequences + model/impl correspondence + reference-iterator differential'),
    "C16": dict(
        text="Coq theorems: for every reachable compact strain vector of non-negative peaks the internally computed "
             "difficulty value equals the documented re-aggregation of the exported vector (and the flashlight sum likewise); "
             "the number of exported peaks is independent of the skill (any strain functions). Tied to the code by recomputing "
             "catch/mania stars, the osu flashlight rating and the section counts INSIDE Coq from the real strains() output and "
             "comparing with the real attributes (bit-exact up to the sign of zero). Finite/non-negative peaks: direct scan. "
             "The section loop is proved terminating in binary64 arithmetic (Flocq): for an integral section length in "
             "[256, 1024] - the source's constants, regenerated on every run - and finite object times within +-2^38 ms "
             "(evaluated on every trace) the section end stays an exact multiple of the length, the number of sections "
             "added is explicit, and the fuel the model computes always suffices.",
        tech="Coq proofs over aggregation/section models + in-Coq recomputation from real strain output"),
}


def main():
    props = [json.loads(l) for l in open(os.path.join(VERIF, "properties.jsonl"))]
    try:
        commits = subprocess.check_output(
            ["git", "-C", "/repo", "log", "--format=%h %s"], text=True).splitlines()
        hooks = [c.split()[0] for c in commits if c.split(" ", 1)[1].startswith("verif hooks")]
    except Exception:
        hooks = []
    checks, na = [], []
    for p in props:
        pid = p["id"]
        if pid in CLAIMED and os.path.exists(os.path.join(VERIF, "tools", "props", pid.lower() + ".py")):
            c = CLAIMED[pid]
            checks.append({
                "property_id": pid,
                "quick_cmd": f"python3 tools/check.py {pid} --tier quick",
                "thorough_cmd": f"python3 tools/check.py {pid} --tier thorough",
                "evidence_file": f"evidence/{pid}.json",
                "replay_cmd_template": f"python3 tools/check.py {pid} --replay {{path}}",
                "engine": "coq+vh",
                "level_claimed": {"category": "proof", "text": c["text"], "design_ref": f"DESIGN.md §5 {pid}"},
                "level_note": c.get("note", COMMON_NOTE),
                "technique": c["tech"]})
        else:
            na.append({"property_id": pid,
                       "reason": "check not built yet in this round (Coq model planned in DESIGN.md §5); not claimed"})
    m = {"version": 1,
         "setup_cmd": "bash tools/setup.sh",
         "hooks": {"guard": "rosu_pp_verif",
                   "enable": "RUSTFLAGS=\"--cfg rosu_pp_verif\" (set by tools/vlib.py harness_build)",
                   "baseline_off_cmd": "cd /repo && cargo test --workspace --no-fail-fast --offline",
                   "source_commits": hooks, "add_only": True},
         "engines": [{"name": "coq+vh", "path": "tools/check.py",
                      "serves_properties": [c["property_id"] for c in checks],
                      "kind_free_text": "Coq 8.16 proofs about hand-written executable models (coq/), Rust harness vh "
                                        "(harness/) driving the real crate through cfg(rosu_pp_verif) hooks, python driver "
                                        "doing obligations + correspondence + direct search"}],
         "checks": checks,
         "not_applicable": na,
         "notes": "See DESIGN.md. Each check: (A) recompiles Properties/<id>.v and compares Print Assumptions with an allow-list, "
                  "(B) runs model-vs-implementation correspondence in coqc/vm_compute, (C) evaluates the property directly on "
                  "the implementation. Genuine defects: known_findings.json (open findings print KNOWN-FINDING lines; fixed "
                  "ones were repaired by fix: commits in /repo)."}
    json.dump(m, open(os.path.join(VERIF, "MANIFEST.json"), "w"), indent=1)
    print("claimed:", [c["property_id"] for c in checks])


if __name__ == "__main__":
    main()
