#!/bin/bash
# usage: goal.sh <file.v> <line>  -- show goals after <line> lines (dev helper)
f=$1; n=$2
d=$(dirname $f); b=$(basename $f .v)
head -n $n $f > $d/_goal_$b.v
echo "Show." >> $d/_goal_$b.v
cd /verif/coq && timeout 300 coqc -Q . V $d/_goal_$b.v 2>&1 | grep -v "WARNING conda" | head -${3:-60}
rm -f $d/_goal_$b.* $d/._goal_$b.aux
