"""C06: decoder traces against the Coq model (timing-line bookkeeping, tandem sort) and the
direct well-formedness oracle on arbitrary byte strings."""
from vlib import *

HEADER = """From Coq Require Import ZArith NArith List Floats.
From V Require Import F64 F32 Decode.
Import ListNotations.
Open Scope Z_scope.
"""


def run(chk, binary, n_timing, n_objects, n_bytes):
    rc, out, err, dt = harness_run(binary, ["dec", chk.seed, n_timing, n_objects, n_bytes], timeout=3000)
    if rc != 0:
        chk.violation("harness dec crashed", {"stderr": err[-3000:], "cmd": f"vh dec {chk.seed} {n_timing} {n_objects} {n_bytes}"})
        return
    rows = jsonl(out)
    timing, objects = [], []
    for r in rows:
        case = r["case"]
        if case == "bytes":
            chk.count([r["bytes_hex"][:4000], r["len"]], r.get("n_objects", 0) >= 1)
            chk.dist(f"dec.bytes.{r['kind']}")
            chk.dist("dec.outcome=" + r.get("outcome", "panic")[:24])
        else:
            chk.count([case, r["map"]], len(r["lines"]) >= 2)
            chk.dist(f"dec.{case}.lines=" + str(min(len(r["lines"]), 6)) + ("+" if len(r["lines"]) > 6 else ""))
        if "panic" in r:
            chk.violation(f"decoding panicked ({case}): {r['panic']}",
                          {"case": {k: r[k] for k in r if k not in ("fails",)}, "replay": f"vh dec {chk.seed} ... ({case} case id {r['id']})"})
            continue
        if "error" in r:
            chk.violation(f"decoding a well-formed generated file failed: {r['error']}", {"map": r.get("map")})
            continue
        for f in r.get("fails", []):
            chk.violation(f"decoded map is not well formed ({case}): {f}",
                          {"map": r.get("map"), "bytes_hex": r.get("bytes_hex"), "kind": r.get("kind"),
                           "replay": f"vh dec {chk.seed} {n_timing} {n_objects} {n_bytes} ({case} case id {r['id']})"})
        if case == "timing":
            timing.append(r)
        elif case == "objects":
            objects.append(r)
            # the sound written on an object's line stays with it (osu!, taiko, catch)
            want = sorted(r["lines"], key=lambda p: (total_key(p[0]),))
            got = r["decoded"]
            if sorted(map(tuple, got)) != sorted(map(tuple, r["lines"])):
                chk.violation("objects/sounds of the decoded map are not those of the lines (a sound moved to another object)",
                              {"map": r["map"], "lines": r["lines"], "decoded": got})
    if timing:
        chk.sample({"model": "Decode.timing", "lines": timing[0]["lines"][:4], "timing_points_words": timing[0]["tps"][:6]})
    if objects:
        chk.sample({"model": "Decode.objects", "lines": objects[0]["lines"][:5], "decoded": objects[0]["decoded"][:5]})

    def tcase(r):
        ls = "; ".join(f"({t}, {b}, {cbool(u)}, {cbool(k)})" for t, b, u, k in r["lines"])
        return (f"({r['id']}%N, {cbool(r['mode'] in (1, 3))}, [{ls}], {zlist(r['tps'])}, {zlist(r['dps'])}, {zlist(r['eps'])})")

    def ocase(r):
        ls = "; ".join(f"({t}, {s})" for t, s in r["lines"])
        ds = "; ".join(f"({t}, {s})" for t, s in r["decoded"])
        return f"({r['id']}%N, [{ls}], [{ds}])"
    tsh, _ = balance_shards(timing, lambda r: 1 + len(r["lines"]), NCPU // 2)
    osh, _ = balance_shards(objects, lambda r: 1 + len(r["lines"]), NCPU // 2)
    bodies = (["Definition cases := [\n  " + ";\n  ".join(tcase(r) for r in s) + "].\nEval vm_compute in timing_bad cases." for s in tsh] +
              ["Definition cases := [\n  " + ";\n  ".join(ocase(r) for r in s) + "].\nEval vm_compute in objects_bad cases." for s in osh])
    srows = tsh + osh
    for (o, e), s in zip(coq_eval(f"{chk.pid}-dec", bodies, HEADER), srows):
        if e is not None:
            chk.broken_obligation("correspondence", "coqc failed on decoder cases: " + e)
            continue
        bad = parse_eval_list(o)
        if bad is None:
            chk.broken_obligation("correspondence", "unparsable coqc output: " + o[-800:])
            continue
        byid = {r["id"]: r for r in s}
        for cid, which in bad:
            chk.cov["correspondence_mismatches"] += 1
            r = byid[cid]
            what = {1: "timing points", 2: "difficulty points", 3: "effect points", 4: "object/sound order"}[which]
            chk.broken_obligation("correspondence", f"Decode model and decoder differ on the {what}",
                                  {"map": r["map"], "lines": r["lines"], "tps": r.get("tps"), "dps": r.get("dps"),
                                   "eps": r.get("eps"), "decoded": r.get("decoded")})
    chk.cov.setdefault("traces_validated_against_model", 0)
    chk.cov["traces_validated_against_model"] += len(timing) + len(objects)


def total_key(w):
    return w if w < (1 << 63) else (1 << 63) - 1 - (w - (1 << 63)) - (1 << 63)
