"""C05: no panic, abort or hang.  Each batch of cases runs in a child process under a watchdog
(no output for WATCHDOG seconds = hang of the case in progress) and an address-space limit; a
child that dies (abort, stack overflow, allocation failure) or hangs is attributed to the case
whose `begin` line was the last one printed, and the run resumes after that case."""
import resource
import select
import subprocess
from vlib import *

HEADER = """From Coq Require Import ZArith NArith List Floats.
From V Require Import F64 F32 Banana.
Import ListNotations.
Open Scope Z_scope.
"""
WATCHDOG = 60          # seconds without progress inside one case
MEM_LIMIT = 4 << 30    # bytes of address space per child


def _limits():
    resource.setrlimit(resource.RLIMIT_AS, (MEM_LIMIT, MEM_LIMIT))
    resource.setrlimit(resource.RLIMIT_CORE, (0, 0))


def run_range(binary, seed, start, count, realistic):
    """Yields ('result', row) / ('hang'|'died', begin_row, detail) for cases start..start+count."""
    pos, end = start, start + count
    while pos < end:
        args = [binary, "nop", str(seed), str(pos), str(end - pos)] + (["real"] if realistic else [])
        p = subprocess.Popen(args, stdout=subprocess.PIPE, stderr=subprocess.PIPE, preexec_fn=_limits, text=True, bufsize=1)
        current = None
        failed = False
        while True:
            r, _, _ = select.select([p.stdout], [], [], WATCHDOG)
            if not r:
                p.kill()
                yield ("hang", current, f"no output for {WATCHDOG}s")
                failed = True
                break
            line = p.stdout.readline()
            if not line:
                break
            line = line.strip()
            if not line.startswith("{"):
                continue
            row = json.loads(line)
            if "begin" in row:
                current = row
            else:
                yield ("result", row, current)
                pos = row["id"] + 1
                current = None
        rc = p.wait()
        if not failed and rc != 0:
            err = p.stderr.read()[-1500:]
            yield ("died", current, f"child exited with status {rc}: {err}")
            failed = True
        if failed:
            pos = (current["begin"] + 1) if current else pos + 1
        elif pos < end and current is None and rc == 0:
            break


def run(chk, binary, n_adv, n_real, debug_binary=None, n_real_debug=0):
    jobs = []
    workers = max(2, NCPU // 2)
    for realistic, b, n, tag in ((False, binary, n_adv, "adversarial/release"), (True, binary, n_real, "realistic/release"),
                                 (True, debug_binary, n_real_debug, "realistic/debug")):
        if b is None or n == 0:
            continue
        per = max(1, (n + workers - 1) // workers)
        for s in range(0, n, per):
            jobs.append((b, s, min(per, n - s), realistic, tag))

    def work(job):
        b, s, c, realistic, tag = job
        return tag, list(run_range(b, chk.seed, s, c, realistic))
    slowest = 0
    with concurrent.futures.ThreadPoolExecutor(max_workers=workers) as ex:
        for tag, events in ex.map(work, jobs):
            for ev in events:
                kind = ev[0]
                if kind == "result":
                    row, begin = ev[1], ev[2]
                    chk.count([tag, row["id"]], row["status"] == "ok")
                    chk.dist(f"nop.{tag}.{row['status'] if row['status'] in ('ok', 'panic', 'undecodable') else 'outside-domain'}")
                    if begin:
                        chk.dist(f"nop.shape={begin['shape']}")
                    chk.cov["public_calls"] = chk.cov.get("public_calls", 0) + row.get("calls", 0)
                    slowest = max(slowest, row["ms"])
                    if row["status"] == "panic":
                        chk.violation(f"panic ({tag}): {row['panic']}",
                                      {"map": begin["map"] if begin else None, "shape": begin["shape"] if begin else None,
                                       "replay": f"vh nop {chk.seed} {row['id']} 1{' real' if tag.startswith('realistic') else ''}"})
                else:
                    begin, detail = ev[1], ev[2]
                    chk.dist(f"nop.{tag}.{kind}")
                    chk.violation(f"{'hang' if kind == 'hang' else 'abort'} ({tag}): {detail}",
                                  {"map": begin["map"] if begin else None, "shape": begin["shape"] if begin else None,
                                   "replay": (f"vh nop {chk.seed} {begin['begin']} 1{' real' if tag.startswith('realistic') else ''}"
                                              if begin else None)})
    chk.cov["slowest_case_ms"] = slowest
    chk.cov["watchdog_s"] = WATCHDOG
    chk.cov["address_space_limit_bytes"] = MEM_LIMIT
    chk.sample({"oracle": "nop", "domains": ["adversarial/release", "realistic/release", "realistic/debug"],
                "per_case": "bpm, attribute builder, conversion to every reachable mode, difficulty, strains, performance "
                            "with 4 score states and 3 score specifications, generate_state, both gradual calculators"})


def run_banana(chk, binary, count):
    rc, out, err, dt = harness_run(binary, ["banana", chk.seed, count], timeout=600)
    if rc != 0:
        chk.violation("harness banana crashed (or hung)", {"stderr": err[-2000:]})
        return
    rows = jsonl(out)
    body = ("Definition cases := [\n  " + ";\n  ".join(f"({r['id']}%N, {r['start']}, {r['end']}, {r['n']})" for r in rows)
            + "].\nEval vm_compute in banana_bad cases.")
    for o, e in coq_eval(f"{chk.pid}-banana", [body], HEADER):
        if e is not None:
            chk.broken_obligation("correspondence", "coqc failed on banana cases: " + e)
            continue
        bad = parse_eval_list(o)
        if bad is None:
            chk.broken_obligation("correspondence", "unparsable coqc output: " + o[-800:])
            continue
        byid = {r["id"]: r for r in rows}
        for cid, which in bad:
            chk.cov["correspondence_mismatches"] += 1
            chk.broken_obligation("correspondence",
                                  "Banana model and BananaShower::new differ" if which == 1 else "Banana model ran out of fuel",
                                  {"case": byid[cid]})
    chk.cov.setdefault("traces_validated_against_model", 0)
    chk.cov["traces_validated_against_model"] += len(rows)
