"""M2: strains vs ratings — harness traces, direct oracle (C16), re-aggregation inside Coq."""
import math
import struct
from vlib import *

HEADER = """From Coq Require Import ZArith NArith List Floats.
From V Require Import F64 StrainsVec Aggregate Gradual Sections SvCases StrainCases.
Import ListNotations.
Open Scope Z_scope.
"""
MODES = ["osu", "taiko", "catch", "mania"]
RX, AP, TD = 128, 8192, 4


def fl(b):
    return struct.unpack("<d", struct.pack("<Q", b))[0]


def weighted(peaks, decay):
    ps = sorted((p for p in peaks if p > 0), reverse=True)
    d, w = 0.0, 1.0
    for p in ps:
        d += p * w
        w *= decay
    return d


def oracle_c16(r):
    out = []
    m = r["mode"]
    sk = r["skills"]
    lens = {k: len(v) for k, v in sk.items()}
    if len(set(lens.values())) > 1:
        out.append((None, f"skills report different numbers of sections: {lens}"))
    for k, v in sk.items():
        for j, w in enumerate(v):
            x = fl(w)
            if x != x or math.isinf(x) or x < 0 or (w >> 63):
                out.append((None, f"peak #{j} of {k} is {x} (bits {w:#x})"))
                break
    f = [fl(b) for b in r["attrs"]["f"]]
    bits = r["settings"]["bits"]

    def close(a, b):
        return abs(a - b) <= 1e-9 * max(1.0, abs(a), abs(b))
    if m == 2:
        exp = math.sqrt(weighted([fl(w) for w in sk["movement"]], 0.94)) * 4.59
        if not close(exp, f[0]):
            out.append((None, f"catch stars {f[0]} but the returned peaks re-aggregate to {exp}"))
    elif m == 3:
        exp = weighted([fl(w) for w in sk["strains"]], 0.9) * 0.018
        if not close(exp, f[0]):
            cls = "mania-strains-ignore-map-mods" if r["settings"]["lazer_extra"] and r["settings"]["repr"] == 4 else None
            out.append((cls, f"mania stars {f[0]} but the returned peaks re-aggregate to {exp}"))
    elif m == 0 and not bits & TD:
        exp = math.sqrt(sum(p for p in (fl(w) for w in sk["flashlight"]) if p > 0)) * 0.0675
        exp *= 0.7 if bits & RX else 0.4 if bits & AP else 1.0
        if not close(exp, f[3]):
            out.append((None, f"osu flashlight rating {f[3]} but the returned peaks re-aggregate to {exp}"))
    return out


def rle(xs):
    runs = []
    for x in xs:
        if runs and runs[-1][0] == x:
            runs[-1][1] += 1
        else:
            runs.append([x, 1])
    return "[" + "; ".join(f"({z(a)}, {b})" for a, b in runs) + "]"


def cases_of(r):
    m = r["mode"]
    sk = r["skills"]
    a = r["attrs"]["f"]
    st = r["settings"]
    cs = []
    if m == 2:
        cs.append(f"SCatch {rle(sk['movement'])} {a[0]}")
    elif m == 3:
        cs.append(f"SMania {rle(sk['strains'])} {a[0]}")
    elif m == 0 and not st["bits"] & TD:
        cs.append(f"SOsuFl {rle(sk['flashlight'])} {a[3]} {cbool(bool(st['bits'] & RX))} {cbool(bool(st['bits'] & AP))}")
    if m in (0, 3) and not (m == 3 and st["repr"] == 4 and st["lazer_extra"]):
        n = len(r["times"])
        take = n if st["passed"] is None else min(st["passed"], n)
        times = r["times"][1:take]
        span = (fl(max(times, key=fl)) - fl(min(times, key=fl))) if times else 0
        # hypothesis of the termination theorem (Proofs/SecTerm.v: time_ok): finite, within 2^38 ms
        cr = fl(r["clock_rate"])
        r["_time_ok"] = all(abs(fl(w) / cr) <= 274877906944 for w in times)
        if span < 3_000_000:      # keep the section loop's fuel moderate inside coqc
            cs.append(f"SCount 400%float {f64_hex(r['clock_rate'])}%float {zlist(times)} "
                      f"{len(next(iter(sk.values())))}")
    return cs


def run(chk, binary, count, max_objects, budget=2_500_000, per_item=120_000):
    rc, out, err, dt = harness_run(binary, ["strains", chk.seed, count, max_objects], timeout=3000)
    if rc != 0:
        chk.violation("harness strains crashed", {"stderr": err[-3000:]})
        return
    rows = jsonl(out)
    coq_cases = []
    for r in rows:
        if "skills" not in r:
            if "panic" in r:
                chk.violation("strains/difficulty panicked: " + r["panic"], {"case": r})
            else:
                chk.dist("strains.undecodable")
            continue
        nontrivial = len(r["times"]) >= 2
        chk.count([r["map"], r["settings"], r["mode"]], nontrivial)
        chk.dist(f"strains.mode={MODES[r['mode']]}{'(convert)' if r['src_mode'] != r['mode'] else ''}")
        chk.dist(f"strains.shape={r['shape']}")
        zeros = sum(1 for v in r["skills"].values() for w in v if w == 0)
        chk.dist("strains.zero_sections=" + ("0" if zeros == 0 else "1-9" if zeros < 10 else ">=10"))
        for cls, msg in oracle_c16(r):
            chk.violation(f"{MODES[r['mode']]}: {msg}", {"finding_class": cls, "mode": MODES[r["mode"]],
                                                         "settings": r["settings"], "map": r["map"],
                                                         "replay": f"vh strains {chk.seed} {count} {max_objects} (case id {r['id']})"})
        for c in cases_of(r):
            coq_cases.append((len(coq_cases), r, c))
        if "_time_ok" in r:
            chk.dist("strains.section_times_within_2^38ms=" + ("yes" if r.pop("_time_ok") else "NO (outside the termination theorem)"))
    if rows:
        r = next((r for r in rows if "skills" in r), None)
        if r:
            chk.sample({"model": "Aggregate", "mode": MODES[r["mode"]], "settings": r["settings"],
                        "sections": {k: len(v) for k, v in r["skills"].items()}})
    # Coq parses big literals slowly (~1 MB/min): pack shards by literal size and leave the
    # largest cases to the thorough tier (they are still checked by the direct oracle above)
    # the model sorts the non-zero peaks by insertion (quadratic): cases with more than 20000 runs are
    # left to the direct oracle as well
    heavy = [t for t in coq_cases if t[2].count("(") > 20000]
    coq_cases = [t for t in coq_cases if t[2].count("(") <= 20000]
    shards, skipped = balance_shards(coq_cases, lambda t: len(t[2]) + (t[2].count("(") ** 2) // 40, NCPU, budget, per_item)
    skipped = skipped + heavy
    chk.cov["strain_cases_left_to_direct_oracle_only"] = len(skipped)
    coq_cases = [t for s in shards for t in s]
    bodies = ["Definition cases : list (N * strain_case) := [\n  " +
              ";\n  ".join(f"({k}%N, {c})" for k, _, c in s) + "].\nEval vm_compute in strain_bad cases."
              for s in shards]
    results = coq_eval(f"{chk.pid}-strains", bodies, HEADER)
    for (o, e), s in zip(results, shards):
        if e is not None:
            chk.broken_obligation("correspondence", "coqc failed on strain cases: " + e)
            continue
        bad = parse_eval_list(o)
        if bad is None:
            chk.broken_obligation("correspondence", "unparsable coqc output: " + o[-800:])
            continue
        byid = {k: (r, c) for k, r, c in s}
        for (cid,) in bad:
            chk.cov["correspondence_mismatches"] += 1
            r, c = byid[cid]
            cls = "mania-strains-ignore-map-mods" if (r["mode"] == 3 and r["settings"]["repr"] == 4
                                                      and r["settings"]["lazer_extra"]) else None
            if chk.known_class(cls):
                continue
            chk.broken_obligation("correspondence",
                                  f"re-aggregation inside Coq differs from the reported rating ({c.split()[0]})",
                                  {"mode": MODES[r["mode"]], "settings": r["settings"], "map": r["map"],
                                   "coq_case": c[:2000]})
    chk.cov.setdefault("traces_validated_against_model", 0)
    chk.cov["traces_validated_against_model"] += len(coq_cases)
