#!/bin/bash
# Builds the framework from files on disk only (offline): translator output, Coq development,
# harness binaries (default, the feature combinations of C10/C20, the debug profile of C05).
set -e
cd "$(dirname "$0")/.."
export CARGO_NET_OFFLINE=true
mkdir -p .cache/bin evidence coq/Generated
python3 tools/extract.py
( cd coq && coq_makefile -f _CoqProject -o Makefile >/dev/null && timeout 3000 make -j16 >/dev/null )
python3 - <<'PY'
import sys
sys.path.insert(0, "tools")
import vlib
for feats, profile in (((), "release"), (("raw_strains",), "release"), (("sync",), "release"),
                       (("raw_strains", "sync"), "release"), ((), "debug")):
    b, log = vlib.harness_build(features=feats, profile=profile)
    if b is None:
        print(log); sys.exit(1)
    print("setup ok:", b)
PY
# prime Miri's sysroot and the interpreter build of the crate (C11's supporting run); not fatal here,
# the check itself reports a failing run
( cd miri && CARGO_TARGET_DIR=../.cache/target-miri timeout 1500 cargo +nightly miri run --offline >/dev/null 2>&1 && echo "setup ok: miri" ) || echo "setup note: miri priming did not finish"
