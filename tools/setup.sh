#!/bin/bash
# Builds the framework from files on disk only (offline): Coq development + harness.
set -e
cd "$(dirname "$0")/.."
export CARGO_NET_OFFLINE=true
mkdir -p .cache/bin evidence
( cd coq && coq_makefile -f _CoqProject -o Makefile >/dev/null && timeout 3000 make -j16 >/dev/null )
python3 - <<'PY'
import sys
sys.path.insert(0, "tools")
import vlib
b, log = vlib.harness_build()
if b is None:
    print(log); sys.exit(1)
print("setup ok:", b)
PY
