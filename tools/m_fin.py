"""C09: finite / non-negative scan of every float (direct oracle) and the exact accuracy model."""
from vlib import *

HEADER = """From Coq Require Import ZArith NArith QArith List Floats.
From V Require Import F64 Accuracy AccCases.
Import ListNotations.
Open Scope Z_scope.
"""
MODES = ["osu", "taiko", "catch", "mania"]


def run(chk, binary, count, max_objects):
    rc, out, err, dt = harness_run(binary, ["fin", chk.seed, count, max_objects], timeout=3000)
    if rc != 0:
        chk.violation("harness fin crashed", {"stderr": err[-3000:], "cmd": f"vh fin {chk.seed} {count} {max_objects}"})
        return
    rows = [r for r in jsonl(out) if "skip" not in r]
    accs = []
    for r in rows:
        chk.count([r["map"], r["settings"], r["mode"]], True)
        chk.dist(f"fin.mode={MODES[r['mode']]}{'(convert)' if r['src_mode'] != r['mode'] else ''}")
        chk.dist(f"fin.shape={r['shape']}")
        chk.cov["floats_scanned"] = chk.cov.get("floats_scanned", 0) + r.get("floats", 0)
        if "panic" in r:
            chk.violation(f"{MODES[r['mode']]}: panicked: {r['panic']}", {"map": r["map"], "settings": r["settings"]})
        for f in r.get("fails", []):
            chk.violation(f"{MODES[r['mode']]} ({r['shape']}): {f}",
                          {"mode": MODES[r["mode"]], "settings": r["settings"], "map": r["map"],
                           "replay": f"vh fin {chk.seed} {count} {max_objects} (case id {r['id']})"})
        for a in r.get("accs", [])[:6]:
            accs.append((len(accs), a["in"], a["acc"]))
    if rows:
        chk.sample({"oracle": "fin", "mode": MODES[rows[0]["mode"]], "shape": rows[0]["shape"], "settings": rows[0]["settings"],
                    "floats_scanned": rows[0].get("floats")})
    shards, _ = balance_shards(accs, lambda a: 1)
    bodies = ["Definition cases := [\n  " + ";\n  ".join(f"({i}%N, {zlist(row)}, {w})" for i, row, w in s)
              + "].\nEval vm_compute in acc_bad cases." for s in shards]
    for (o, e), s in zip(coq_eval(f"{chk.pid}-acc", bodies, HEADER), shards):
        if e is not None:
            chk.broken_obligation("correspondence", "coqc failed on accuracy cases: " + e)
            continue
        bad = parse_eval_list(o)
        if bad is None:
            chk.broken_obligation("correspondence", "unparsable coqc output: " + o[-800:])
            continue
        byid = {i: (row, w) for i, row, w in s}
        for cid, which in bad:
            chk.cov["correspondence_mismatches"] += 1
            chk.broken_obligation("correspondence",
                                  "ScoreState::accuracy is not the binary64 quotient the float model computes (bit comparison)"
                                  if which == 3 else "exact accuracy model and ScoreState::accuracy differ by more than 1e-12",
                                  {"row": byid[cid][0], "accuracy_word": byid[cid][1]})
    chk.cov.setdefault("traces_validated_against_model", 0)
    chk.cov["traces_validated_against_model"] += len(accs)
