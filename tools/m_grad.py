"""M3: gradual difficulty vs one-shot — harness traces, direct oracles (C02/C14/C15) and the
Coq-model correspondence."""
from vlib import *

HEADER = """From Coq Require Import ZArith NArith List Floats.
From V Require Import F64 Gradual SvCases GradCases.
Import ListNotations.
Open Scope Z_scope.
"""
USIZE_MAX = (1 << 64) - 1
MODES = ["osu", "taiko", "catch", "mania"]
N_INTS = {0: 5, 1: 1, 2: 3, 3: 3}      # ints without the trailing is_convert flag


def strip(mode, a):
    """ints without is_convert"""
    return a["i"][:N_INTS[mode]]


def is_conv(mode, a):
    return None if mode == 0 else a["i"][N_INTS[mode]]


def view_coq(r):
    m = r["mode"]
    st = r["settings"]
    take = st["passed"] if st["passed"] is not None else USIZE_MAX
    if m == 0:
        objs = []
        for k, nested, large in r["view"]:
            objs.append("OCircle" if k == 0 else f"OSlider {nested} {large}" if k == 1 else "OSpinner")
        return f"VOsu [{'; '.join(objs)}] {take}"
    if m == 1:
        return "VTaiko [" + "; ".join(cbool(b) for b in r["view"]) + "]"
    if m == 2:
        return "VCatch [" + "; ".join(f"({cbool(f)}, {t})" for f, t in r["view"]["events"]) + "]"
    objs = "; ".join(f"mk_mobj {cbool(c)} {k}" for c, s, e, k in r["view"])
    return f"VMania [{objs}] {take}"


def gop_coq(o):
    return {"next": "GNext", "len": "GLenOp"}.get(o[0]) or f"GNth {o[1]}"


def gout_coq(mode, o):
    if o is None:
        return "GNone"
    if isinstance(o, int):
        return f"GLen {o}"
    return "GSome " + zlist(strip(mode, o))


def plain_as_seq(r):
    """plain iteration recorded by the harness, as an op sequence with outputs"""
    ops, outs = [["len"]], [r["len0"]]
    for v, l in zip(r["vals"], r["lens"]):
        ops += [["next"], ["len"]]
        outs += [v, l]
    return ops, outs


def case_coq(r):
    m = r["mode"]
    seqs = []
    if "vals" in r and len(r["vals"]) <= r["total"] + 8:
        seqs.append(plain_as_seq(r))
    for s in r.get("seqs", []):
        if "outs" in s:
            seqs.append((s["ops"], s["outs"]))
    seqs_c = "; ".join("([" + "; ".join(gop_coq(o) for o in ops) + "], [" +
                       "; ".join(gout_coq(m, o) for o in outs) + "])" for ops, outs in seqs)
    shots = "; ".join(f"({n}, {zlist(strip(m, a))})" for n, a in enumerate(r["oneshot"]))
    shots += f"; ({USIZE_MAX}, {zlist(strip(m, r['full']))})"
    return f"({r['id']}%N, {view_coq(r)}, [{seqs_c}], [{shots}])"


def shard_body(rows):
    return ("Definition cases := [\n  " + ";\n  ".join(case_coq(r) for r in rows) + "].\n"
            "Eval vm_compute in grad_bad cases.")


# --------------------------------------------------------------------------- direct oracles

def taiko_class(r):
    """class of the former finding F6c (fixed by 0673ba4; no longer listed, so it suppresses nothing)"""
    flags = r["view"]
    if flags and any(flags) and not flags[-1]:
        return "taiko-trailing-non-hit"
    return None


def oracle_c02(r):
    """gradual value i == one-shot passed_objects(i); count == announced len; last == full"""
    out = []
    m = r["mode"]
    if "vals" not in r:
        return out
    vals, shots = r["vals"], r["oneshot"]
    if r["len0"] != len(vals):
        out.append((None, f"announced len {r['len0']} but produced {len(vals)} values"))
    for i, v in enumerate(vals):
        if i + 1 >= len(shots):
            out.append((None, f"gradual produced value #{i + 1} beyond total {r['total']}"))
            break
        if v != shots[i + 1]:
            out.append((None, f"value #{i + 1} differs from one-shot passed_objects({i + 1}): "
                              f"gradual={v} oneshot={shots[i + 1]}"))
            break
    if vals and vals[-1] != r["full"]:
        # former finding F6c (taiko map ending in non-hit objects): fixed, reported like any other
        cls = taiko_class(r) if m == 1 else None
        out.append((cls, f"final gradual value differs from the full calculation: {vals[-1]} vs {r['full']}"))
    if not vals and r["total"] > 0:
        out.append((None, f"no values produced although the map has {r['total']} countable objects"))
    out += preset_msgs(r, values=True, protocol=True)
    return out


def preset_msgs(r, values=True, protocol=True):
    """a Difficulty that already carries passed_objects(k): the calculator yields as many values as it
    announced (never more than the map holds), len counts down, value i is one-shot passed_objects(i)"""
    p = r.get("preset")
    if not p:
        return []
    pre = f"Difficulty with passed_objects({p['k']}) preset: "
    if "panic" in p:
        return [(None, pre + "panicked: " + p["panic"])]
    out = []
    if protocol:
        if p["len0"] > max(r["total"], 1):
            out.append((None, pre + f"len() at creation is {p['len0']} but the map has {r['total']} countable objects"))
        if p["n"] != p["len0"]:
            out.append((None, pre + f"announced len {p['len0']} but produced {p['n']} values"))
        if p["bad_len"] is not None:
            out.append((None, pre + f"len() after {p['bad_len']} next() calls is not the announced {p['len0']} minus {p['bad_len']}"))
        if not p["after_none"]:
            out.append((None, pre + "a call after exhaustion returned Some"))
    if values and p["bad_val"] is not None:
        out.append((None, pre + f"value #{p['bad_val']} differs from one-shot passed_objects({p['bad_val']})"))
    return out


def oracle_c15(r):
    """iterator protocol against the reference list of one-shot values"""
    out = []
    m = r["mode"]
    cls_t = None
    total = r["total"]
    if "panic_plain" in r:
        out.append((cls_t, "plain iteration panicked: " + r["panic_plain"]))
    if "panic_wrapper" in r:
        out.append((None, "the mode-agnostic GradualDifficulty panicked: " + r["panic_wrapper"]))
    if r.get("wrapper_eq") is False:
        out.append((None, f"the mode-agnostic GradualDifficulty (next / nth / len / size_hint) differs from the mode's own "
                          f"calculator on the ops {r.get('wrapper_ops')}"))
    out += preset_msgs(r, values=False, protocol=True)
    if "vals" in r:
        n = len(r["vals"])
        for i, l in enumerate(r["lens"]):
            if l != r["len0"] - (i + 1):
                out.append((cls_t, f"len() after {i + 1} next() calls is {l}, expected {r['len0'] - i - 1}"))
                break
        if r["len0"] != n:
            out.append((None, f"len() at creation is {r['len0']} but {n} values follow"))
        if not all(r["after"]):
            out.append((cls_t, "a call after exhaustion returned Some"))
        if r["len_end"] != 0:
            out.append((None, f"len() after exhaustion is {r['len_end']}"))
    # reference: list of values a plain iteration yields == one-shot values 1..total
    ref = r["oneshot"][1:total + 1]
    for s in r.get("seqs", []):
        if "panic" in s:
            out.append((cls_t, f"op sequence {s['ops']} panicked: {s['panic']}"))
            continue
        if "outs" not in s:
            continue
        p = 0
        for k, (op, o) in enumerate(zip(s["ops"], s["outs"])):
            if op[0] == "next":
                exp = ref[p] if p < len(ref) else None
                p = min(p + 1, len(ref))
            elif op[0] == "nth":
                j = p + op[1]
                exp = ref[j] if j < len(ref) else None
                p = min(j + 1, len(ref))
            else:
                exp = len(ref) - p
            if o != exp:
                cls = None
                out.append((cls, f"op #{k} {op} of {s['ops'][:k + 1]} returned {o}, reference iterator gives {exp}"))
                break
    return out


def count_view(r, n):
    """independent python count of the first n units of the view"""
    m = r["mode"]
    v = r["view"]
    if m == 0:
        pre = v[:n]
        return [sum(1 for o in pre if o[0] == 0), sum(1 for o in pre if o[0] == 1),
                sum(o[2] for o in pre if o[0] == 1), sum(1 for o in pre if o[0] == 2),
                len(pre) + sum(o[1] for o in pre if o[0] == 1)]
    if m == 1:
        return [min(n, sum(1 for b in v if b))]
    if m == 2:
        pre = v["events"][:n]
        return [sum(1 for f, _ in pre if f), sum(1 for f, _ in pre if not f), sum(t for _, t in pre)]
    pre = v[:n]
    return [len(pre), sum(1 for o in pre if not o[0]), sum(o[3] for o in pre)]


def oracle_c14(r):
    out = []
    m = r["mode"]
    total = r["total"]
    shots = r["oneshot"]
    prev = None
    for n, a in enumerate(shots):
        c = strip(m, a)
        exp = count_view(r, n)
        if c != exp:
            out.append((None, f"passed_objects({n}): counts {c} but the map's first {n} units contain {exp}"))
            break
        if m == 0 and c[0] + c[1] + c[3] != min(n, total):
            out.append((None, f"osu circles+sliders+spinners {c} != min({n},{total})"))
        if prev is not None and any(x < y for x, y in zip(c, prev)):
            out.append((None, f"counts decrease from n={n - 1} to n={n}: {prev} -> {c}"))
        prev = c
    for n in range(total + 1, len(shots)):
        if shots[n] != r["full"]:
            out.append((None, f"passed_objects({n}) with n > total={total} differs from the unlimited calculation"))
            break
    conv_expected = 1 if (r["src_mode"] == 0 and m != 0) else 0
    for a in shots + [r["full"]]:
        ic = is_conv(m, a)
        if ic is not None and ic != conv_expected:
            out.append((None, f"is_convert={ic} but src_mode={r['src_mode']} target={m}"))
            break
    if m == 2 and r["view"]["n_palpable"] != len(r["view"]["events"]):
        out.append((None, "catch: palpable objects and recorded counts differ in number"))
    if m == 2 and "expect_fruits" in r["view"] and strip(m, r["full"])[0] != r["view"]["expect_fruits"]:
        out.append((None, f"catch: {strip(m, r['full'])[0]} fruits reported but the map has "
                          f"{r['view']['expect_fruits']} circles + slider heads, repeats and tails"))
    return out


# --------------------------------------------------------------------------- runner

def collect(chk, binary, count, max_objects):
    rc, out, err, dt = harness_run(binary, ["grad", chk.seed, count, max_objects], timeout=3000)
    if rc != 0:
        chk.violation("harness grad crashed", {"stderr": err[-3000:], "cmd": f"vh grad {chk.seed} {count} {max_objects}"})
        return []
    rows = jsonl(out)
    good = []
    for r in rows:
        if "decode_error" in r or "convert_error" in r:
            chk.dist("grad.undecodable")
            continue
        good.append(r)
    return good


def nontrivial(r):
    return r.get("total", 0) >= 2


def run(chk, binary, count, max_objects, oracles, model=True):
    rows = collect(chk, binary, count, max_objects)
    for r in rows:
        chk.count([r["map"], r["settings"], r["mode"]], nontrivial(r))
        chk.dist(f"grad.mode={MODES[r['mode']]}{'(convert)' if r['src_mode'] != r['mode'] else ''}")
        chk.dist(f"grad.shape={r['shape']}")
        if r.get("preset"):
            chk.dist("grad.preset_passed_objects")
        t = r.get("total", 0)
        chk.dist("grad.total=" + ("0" if t == 0 else "1-3" if t <= 3 else "4-20" if t <= 20 else ">20"))
        for key in ("panic_oneshot", "panic_view"):
            if key in r:
                chk.violation(f"{key}: {r[key]}", {"case": r, "replay": f"vh grad {chk.seed} (case id {r['id']})"})
        if "oneshot" not in r:
            continue
        for orc in oracles:
            for cls, msg in orc(r):
                chk.violation(f"{MODES[r['mode']]}: {msg}",
                              {"finding_class": cls, "mode": MODES[r["mode"]], "settings": r["settings"],
                               "map": r["map"], "view": r["view"], "case_id": r["id"],
                               "replay": f"vh grad {chk.seed} {count} {max_objects} (case id {r['id']})"})
    ok = [r for r in rows if "oneshot" in r]
    if ok:
        r = ok[0]
        chk.sample({"model": "Gradual", "mode": MODES[r["mode"]], "shape": r["shape"], "total": r["total"],
                    "settings": r["settings"], "ops": [s["ops"][:6] for s in r.get("seqs", [])][:2]})
    if model and ok:
        per = max(1, (len(ok) + NCPU - 1) // NCPU)
        shards = [ok[i:i + per] for i in range(0, len(ok), per)]
        results = coq_eval(f"{chk.pid}-grad", [shard_body(s) for s in shards], HEADER)
        for (o, e), srows in zip(results, shards):
            if e is not None:
                chk.broken_obligation("correspondence", "coqc failed on gradual cases: " + e)
                continue
            bad = parse_eval_list(o)
            if bad is None:
                chk.broken_obligation("correspondence", "unparsable coqc output: " + o[-800:])
                continue
            byid = {r["id"]: r for r in srows}
            for cid, which in bad:
                chk.cov["correspondence_mismatches"] += 1
                r = byid[cid]
                what = (f"op sequence #{which - 100}" if which < 200 else f"one-shot entry #{which - 200}")
                chk.broken_obligation(
                    "correspondence",
                    f"Gradual model ({MODES[r['mode']]}) and implementation differ on {what}",
                    {"case_id": cid, "mode": MODES[r["mode"]], "view": r["view"], "settings": r["settings"],
                     "map": r["map"], "seqs": r.get("seqs"), "len0": r.get("len0"),
                     "vals_ints": [strip(r["mode"], v) for v in r.get("vals", [])],
                     "oneshot_ints": [strip(r["mode"], v) for v in r["oneshot"]]})
        chk.cov.setdefault("traces_validated_against_model", 0)
        chk.cov["traces_validated_against_model"] += len(ok)
    return rows
