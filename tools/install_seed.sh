#!/bin/bash
# install_seed.sh <seed-id> <property> <worktree> <checks,comma> <summary> <needs>
# Copies a seeded change from a scratch worktree into /verif/seeded/<id>, confirms it there
# (tools/confirm_seed.sh), runs the listed checks against it (tools/seedtest.py) and removes the worktree.
id=$1; prop=$2; wt=$3; checks=$4; summary=$5; needs=$6
d=/verif/seeded/$id
mkdir -p $d
cp $wt/patch.diff $d/patch.diff || exit 2
cp $wt/tests/seed_demo.rs $d/seed_demo.rs 2>/dev/null
python3 - "$id" "$prop" "$checks" "$summary" "$needs" "$wt" <<'PY'
import json,sys
id,prop,checks,summary,needs,wt=sys.argv[1:7]
json.dump({"id":id,"property":prop,"checks":checks.split(","),"summary":summary,"needs":needs,
 "demo":"seed_demo.rs (integration test; tests/seed_demo.rs in a worktree)",
 "confirmed":f"tools/confirm_seed.sh {wt} integration (confirm.log): existing suite passes apart from the known basic_osu failure, demo fails with the change and passes without",
 "author":"independent sub-agent given only the property text (second round: asked for a different clause/mechanism than the first seed)"},
 open(f"/verif/seeded/{id}/meta.json","w"), indent=1)
PY
bash /verif/tools/confirm_seed.sh $wt integration > $d/confirm.log 2>&1
python3 /verif/tools/seedtest.py $id
git -C /repo worktree remove --force $wt
