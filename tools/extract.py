#!/usr/bin/env python3
"""extract.py — translator from the table-shaped parts of /repo/src to Gallina
(DESIGN.md §1.2, M6).  Regenerates coq/Generated/Tables.v on every run; the finite
theorems in Proofs/TablesProofs.v are then re-checked against what the code says NOW.

What is translated (and nothing else):
  * any/performance/mod.rs   : per setter of `Performance`, the arm taken for each mode
                               (forwarded mode method or `self`), and the modes the doc
                               comment names as relevant
  * */performance/mod.rs     : per builder method, whether it forwards to a `Difficulty`
                               setter (which one, argument order), replaces the Difficulty,
                               writes a score field, or something else
  * any/difficulty/mod.rs    : per `Difficulty` setter the field written and its clamp; the
                               getters' defaults; inspect()/into_difficulty() field maps
  * model/mods.rs            : the impl_has_mod!/impl_map_attr! tables and their macro arms,
                               the three mania_keys chains, the clock_rate arms
  * model/beatmap/mod.rs     : decision trees of convert / convert_ref / convert_mut
  * {osu,taiko,catch,mania}/ : first conversion call of every mode entry point, what the
                               three `convert` functions assign to mode / is_convert
  * util/map_or_attrs.rs, any/performance/into.rs : which field of performance attributes
                               becomes the MapOrAttrs payload; every entry point routes to
                               from_map_or_attrs
A construct the translator does not recognise is emitted as an `Unparsed` entry, which makes
the dependent theorem fail (reported by the check, never ignored)."""
import os
import re
import sys

REPO = os.environ.get("VERIF_REPO", "/repo")
VERIF = os.path.dirname(os.path.dirname(os.path.abspath(__file__)))
OUT = os.path.join(os.environ.get("VERIF_COQ", os.path.join(VERIF, "coq")), "Generated", "Tables.v")
MODES = ["Osu", "Taiko", "Catch", "Mania"]
MODE_DIR = {"Osu": "osu", "Taiko": "taiko", "Catch": "catch", "Mania": "mania"}


def read(rel):
    try:
        return open(os.path.join(REPO, rel), errors="replace").read()
    except OSError:
        return ""


def strip_comments(src, keep_docs=False):
    """Removes // and /* */ comments (string literals respected); keeps length/newlines."""
    out = []
    i, n = 0, len(src)
    while i < n:
        c = src[i]
        if c == '"':
            j = i + 1
            while j < n and src[j] != '"':
                j += 2 if src[j] == "\\" else 1
            out.append(src[i:j + 1])
            i = j + 1
        elif src.startswith("//", i):
            j = src.find("\n", i)
            j = n if j < 0 else j
            if keep_docs and src.startswith("///", i):
                out.append(src[i:j])
            else:
                out.append(" " * (j - i))
            i = j
        elif src.startswith("/*", i):
            j = src.find("*/", i + 2)
            j = n if j < 0 else j + 2
            out.append(re.sub(r"[^\n]", " ", src[i:j]))
            i = j
        elif c == "'" and i + 2 < n and (src[i + 2] == "'" or (src[i + 1] == "\\" and src.find("'", i + 2) in (i + 3, i + 4))):
            j = src.find("'", i + 2)
            out.append(src[i:j + 1])
            i = j + 1
        else:
            out.append(c)
            i += 1
    return "".join(out)


def match_brace(src, i, open_c="{", close_c="}"):
    """src[i] == open_c; returns index of the matching close."""
    depth = 0
    n = len(src)
    while i < n:
        c = src[i]
        if c == '"':
            i += 1
            while i < n and src[i] != '"':
                i += 2 if src[i] == "\\" else 1
        elif c == open_c:
            depth += 1
        elif c == close_c:
            depth -= 1
            if depth == 0:
                return i
        i += 1
    return -1


FN_RE = re.compile(r"\b(?:pub(?:\([a-z]+\))?\s+)?(?:const\s+)?(?:unsafe\s+)?fn\s+([A-Za-z_]\w*)\s*(?:<[^>{}()]*>)?\s*\(")


def functions(src_nc, docs_src=None):
    """[(name, params, ret, body, doc)] of every fn (comments already stripped)."""
    res = []
    for m in FN_RE.finditer(src_nc):
        p_open = m.end() - 1
        p_close = match_brace(src_nc, p_open, "(", ")")
        if p_close < 0:
            continue
        b_open = src_nc.find("{", p_close)
        semi = src_nc.find(";", p_close)
        if b_open < 0 or (0 <= semi < b_open):
            continue
        b_close = match_brace(src_nc, b_open)
        if b_close < 0:
            continue
        doc = ""
        if docs_src is not None:
            # doc comment lines immediately above the fn (attributes may sit in between)
            head = docs_src[:m.start()].rstrip().split("\n")
            lines = []
            k = len(head) - 1
            # the line holding `pub fn` prefix fragments
            while k >= 0 and (head[k].strip().startswith("#[") or head[k].strip() == ""
                              or head[k].strip().startswith("///") or head[k].strip().startswith("//")):
                if head[k].strip().startswith("///"):
                    lines.append(head[k].strip()[3:].strip())
                k -= 1
            doc = " ".join(reversed(lines))
        res.append((m.group(1), src_nc[p_open + 1:p_close], src_nc[p_close + 1:b_open].strip(),
                    src_nc[b_open + 1:b_close], doc))
    return res


def norm(s):
    return re.sub(r"\s+", " ", s).strip()


def coq_str(s):
    return '"' + s.replace('"', "'") + '"'


def coq_list(items):
    return "[" + "; ".join(items) + "]"


def params_of(params):
    """parameter names except self"""
    names = []
    for p in split_top(params, ","):
        p = p.strip()
        if not p or p in ("self", "mut self", "&self", "&mut self"):
            continue
        names.append(p.split(":")[0].replace("mut ", "").strip())
    return names


def split_top(s, sep):
    out, depth, cur = [], 0, ""
    for ch in s:
        if ch in "([{":
            depth += 1
        elif ch in ")]}":
            depth -= 1
        if ch == sep and depth == 0:
            out.append(cur)
            cur = ""
        else:
            cur += ch
    if cur.strip():
        out.append(cur)
    return out


# ------------------------------------------------------------------ Performance dispatch

def parse_perf_dispatch():
    raw = read("src/any/performance/mod.rs")
    nc = strip_comments(raw)
    docs = strip_comments(raw, keep_docs=True)
    # impl<'map> Performance<'map> { ... } : the first impl block of Performance
    m = re.search(r"impl<'map>\s+Performance<'map>\s*\{", nc)
    if not m:
        return [], []
    end = match_brace(nc, m.end() - 1)
    block, dblock = nc[m.end():end], docs[m.end():end]
    rows, docrows = [], []
    for name, params, ret, body, doc in functions(block, dblock):
        if "-> Self" not in ("-> " + ret.replace("->", "").strip()) or name in ("new",):
            if name not in ("try_mode",):
                pass
        if name in ("new", "calculate", "try_mode", "mode_or_ignore", "generate_state"):
            continue
        args = params_of(params)
        arms = {}
        b = norm(body)
        mm = re.match(r"^match self \{(.*)\}$", b)
        il = re.match(r"^if let Self::(\w+)\((\w+)\) = self \{ Self::(\w+)\((\w+)\.(\w+)\(([^()]*)\)\) \} else \{ self \}$", b)
        if mm:
            for arm in split_top(mm.group(1), ","):
                arm = arm.strip()
                if not arm:
                    continue
                pat, _, rhs = arm.partition("=>")
                pats = [p.strip() for p in pat.split("|")]
                rhs = rhs.strip()
                for p in pats:
                    pm = re.match(r"^(?:this @ )?Self::(\w+)\((\w+)\)$", p)
                    if not pm:
                        arms[p] = ("unparsed", arm)
                        continue
                    mode, var = pm.group(1), pm.group(2)
                    rm = re.match(r"^Self::(\w+)\((\w+)\.(\w+)\((.*)\)\)$", rhs)
                    if rhs == "self" or rhs == "this":
                        arms[mode] = ("noop",)
                    elif rm and rm.group(1) == mode and rm.group(2) == var:
                        cargs = [norm(a) for a in split_top(rm.group(4), ",") if a.strip()]
                        arms[mode] = ("call", rm.group(3), cargs)
                    else:
                        arms[mode] = ("unparsed", arm)
        elif il and il.group(1) == il.group(3) and il.group(2) == il.group(4):
            for mode in MODES:
                arms[mode] = ("noop",)
            arms[il.group(1)] = ("call", il.group(5), [norm(a) for a in split_top(il.group(6), ",") if a.strip()])
        else:
            for mode in MODES:
                arms[mode] = ("unparsed", b[:80])
        for mode in MODES:
            a = arms.get(mode, ("unparsed", "missing arm"))
            if a[0] == "noop":
                tgt = "DNoop"
            elif a[0] == "call":
                # arguments: same names in the same order, possibly `.into()`-wrapped
                cargs = [re.sub(r"\.into\(\)$", "", x) for x in a[2]]
                ok = cargs == args
                tgt = f"DCall {coq_str(a[1])} {'true' if ok else 'false'}"
            else:
                tgt = f"DUnparsed {coq_str(a[1][:60])}"
            rows.append(f"({coq_str(name)}, {mode}, {tgt})")
        # documented relevance: "Only relevant for osu! and osu!catch." / "Irrelevant for osu!mania"
        rel = []
        dm = re.search(r"[Oo]nly relevant for ([^.]*)\.", doc)
        irr = re.search(r"[Ii]rrelevant for ([^.]*)\.", doc)
        names = {"osu!taiko": "Taiko", "osu!catch": "Catch", "osu!mania": "Mania"}
        def modes_in(text):
            found = []
            t = text
            for k, v in names.items():
                if k in t:
                    found.append(v)
                    t = t.replace(k, "")
            if re.search(r"osu!(?!\w)", t) or "osu!standard" in t or "osu!std" in t:
                found.append("Osu")
            return found
        if dm:
            rel = modes_in(dm.group(1))
            docrows.append(f"({coq_str(name)}, DocOnly {coq_list(rel)})")
        elif irr:
            docrows.append(f"({coq_str(name)}, DocNot {coq_list(modes_in(irr.group(1)))})")
        else:
            docrows.append(f"({coq_str(name)}, DocAll)")
    return rows, docrows


# ------------------------------------------------------------------ mode builders

def parse_mode_builders():
    rows = []
    for mode in MODES:
        nc = strip_comments(read(f"src/{MODE_DIR[mode]}/performance/mod.rs"))
        m = re.search(r"impl<'map>\s+" + mode + r"Performance<'map>\s*\{", nc)
        if not m:
            rows.append(f"({mode}, {coq_str('?')}, BUnparsed {coq_str('impl block not found')})")
            continue
        end = match_brace(nc, m.end() - 1)
        for name, params, ret, body, _ in functions(nc[m.end():end]):
            if not re.search(r"(^|\s)Self$", ret.replace("->", " ").strip()) or "self" not in params:
                continue
            if name in ("new", "try_new", "from_map_or_attrs"):
                continue
            args = params_of(params)
            b = norm(body)
            fm = re.match(r"^self\.difficulty = self\.difficulty\.(\w+)\(([^()]*)\); self$", b)
            sd = re.match(r"^self\.difficulty = (\w+); self$", b)
            sf = re.match(r"^self\.(\w+) = Some\((\w+)\); self$", b)
            sp = re.match(r"^self\.(\w+) = (\w+); self$", b)
            if fm:
                cargs = [norm(a) for a in split_top(fm.group(2), ",") if a.strip()]
                kind = f"BForward {coq_str(fm.group(1))} {'true' if cargs == args else 'false'}"
            elif sd and sd.group(1) in args:
                kind = "BSetDifficulty"
            elif sf and sf.group(2) in args:
                kind = f"BField {coq_str(sf.group(1))}"
            elif sp and sp.group(2) in args and sp.group(1) != "difficulty":
                kind = f"BField {coq_str(sp.group(1))}"
            elif "self.difficulty" in b:
                kind = f"BUnparsed {coq_str(b[:60])}"
            else:
                kind = "BScore"          # writes score-specification fields only (state, accuracy)
            rows.append(f"({mode}, {coq_str(name)}, {kind})")
    return rows


# ------------------------------------------------------------------ Difficulty

def parse_difficulty():
    nc = strip_comments(read("src/any/difficulty/mod.rs"))
    m = re.search(r"impl\s+Difficulty\s*\{", nc)
    setters, getters = [], []
    fields = []
    sm = re.search(r"pub struct Difficulty\s*\{([^}]*)\}", nc)
    if sm:
        fields = [f.strip().split(":")[0].strip() for f in sm.group(1).split(",") if f.strip()]
    if m:
        end = match_brace(nc, m.end() - 1)
        for name, params, ret, body, _ in functions(nc[m.end():end]):
            b = norm(body)
            args = params_of(params)
            if re.search(r"(^|\s)Self$", ret.replace("->", " ").strip()) and "self" in params and name != "new":
                # forms: Self { f: expr, ..self } | self.f = Some(x); self | let x = ...; Self {..}
                fm = re.search(r"Self \{ (\w+): (.*), \.\.self \}$", b)
                sm2 = re.match(r"^self\.(\w+) = Some\((\w+)\); self$", b)
                clamp = re.search(r"\.clamp\(\s*(-?[\d.]+)\s*,\s*(-?[\d.]+)\s*\)", b)
                field = fm.group(1) if fm else sm2.group(1) if sm2 else None
                if field is None:
                    setters.append(f"({coq_str(name)}, {coq_str('?')}, ClampUnparsed {coq_str(b[:60])})")
                else:
                    cl = f"Clamp {coq_str(clamp.group(1))} {coq_str(clamp.group(2))}" if clamp else "NoClamp"
                    setters.append(f"({coq_str(name)}, {coq_str(field)}, {cl})")
            elif name.startswith("get_"):
                # default when unset
                dm = re.search(r"map_or\(([^,]+),", b) or re.search(r"unwrap_or\(([^)]+)\)", b) \
                    or re.search(r"unwrap_or_else\(\|\| (.*)\)$", b)
                plain = re.match(r"^&?self\.\w+$", b) is not None
                dflt = norm(dm.group(1)) if dm else ("field" if plain else "?")
                getters.append(f"({coq_str(name)}, {coq_str(dflt)})")
    # inspect(): field-to-field map;  into_difficulty(): which setter is called per field
    insp = []
    for name, params, ret, body, _ in functions(nc):
        if name == "inspect":
            im = re.search(r"InspectDifficulty \{(.*)\}", norm(body))
            if im:
                for part in split_top(im.group(1), ","):
                    part = part.strip()
                    if not part:
                        continue
                    if ":" in part:
                        f, e = part.split(":", 1)
                        insp.append(f"({coq_str(f.strip())}, {coq_str(norm(e))})")
                    else:
                        insp.append(f"({coq_str(part)}, {coq_str(part)})")
    inc = strip_comments(read("src/any/difficulty/inspect.rs"))
    into = []
    for name, params, ret, body, _ in functions(inc):
        if name == "into_difficulty":
            b = norm(body)
            mm = re.search(r"Difficulty::new\(\)\.(\w+)\((\w+)\)", b)
            if mm:
                into.append(f"({coq_str(mm.group(2))}, {coq_str(mm.group(1))}, {coq_str(mm.group(2))})")
            for mm in re.finditer(r"if let Some\((\w+)\) = (\w+) \{ difficulty = difficulty\.(\w+)\(([^()]*)\); \}", b):
                into.append(f"({coq_str(mm.group(2))}, {coq_str(mm.group(3))}, {coq_str(norm(mm.group(4)))})")
    return fields, setters, getters, insp, into


# ------------------------------------------------------------------ mods

def parse_mods():
    raw = read("src/model/mods.rs")
    nc = strip_comments(raw)
    has_rows, attr_rows, macro_rows, key_rows, rate_rows = [], [], [], [], []
    # macro arms of impl_has_mod!
    mdef = re.search(r"macro_rules!\s+impl_has_mod\s*\{", nc)
    if mdef:
        end = match_brace(nc, mdef.end() - 1)
        body = norm(nc[mdef.end():end])
        la = re.search(r"Self::Lazer\(ref mods\) => \{ mods\.(\w+)\(GameModIntermode::\$name\) \}", body)
        ia = re.search(r"Self::Intermode\(ref mods\) => \{ mods\.(\w+)\(GameModIntermode::\$name\) \}", body)
        lp = re.search(r"\( LEGACY \+ \$name:ident \$mods:ident \) => \{ \$mods\.(\w+)\(GameModsLegacy::\$name\) \}", body)
        lm = re.search(r"\( LEGACY - \$name:ident \$mods:ident \) => \{ (\w+) \}", body)
        macro_rows.append(f"({coq_str('lazer')}, {coq_str(la.group(1) if la else '?')})")
        macro_rows.append(f"({coq_str('intermode')}, {coq_str(ia.group(1) if ia else '?')})")
        macro_rows.append(f"({coq_str('legacy+')}, {coq_str(lp.group(1) if lp else '?')})")
        macro_rows.append(f"({coq_str('legacy-')}, {coq_str(lm.group(1) if lm else '?')})")
    inv = re.search(r"\bimpl_has_mod!\s*\{", nc[mdef.end() if mdef else 0:])
    if inv:
        start = (mdef.end() if mdef else 0) + inv.end() - 1
        end = match_brace(nc, start)
        for row in split_top(nc[start + 1:end], ","):
            row = norm(row)
            if not row:
                continue
            rm = re.match(r"^(\w+): ([+-]) (\w+) \[ ?\"(\w+)\" ?\]$", row)
            if rm:
                has_rows.append(f"({coq_str(rm.group(1))}, {'true' if rm.group(2) == '+' else 'false'}, {coq_str(rm.group(3))})")
            else:
                has_rows.append(f"({coq_str('?' + row[:40])}, false, {coq_str('?')})")
    inv = re.search(r"\bimpl_map_attr!\s*\{\s*\w+:", nc)
    if inv:
        start = nc.find("{", inv.start())
        end = match_brace(nc, start)
        for row in split_top(nc[start + 1:end], ";"):
            row = norm(row)
            if not row:
                continue
            rm = re.match(r"^(\w+): (\w+) \[ ?([\w, ]*) ?\] \[ ?\"(\w+)\" ?\]$", row)
            if rm:
                modes = [x.strip() for x in rm.group(3).split(",") if x.strip()]
                attr_rows.append(f"({coq_str(rm.group(1))}, {coq_str(rm.group(2))}, {coq_list(modes)})")
            else:
                attr_rows.append(f"({coq_str('?' + row[:40])}, {coq_str('?')}, [])")
    for name, params, ret, body, _ in functions(nc):
        b = norm(body)
        if name == "mania_keys":
            for rep, pat in (("RLazer", r"Self::Lazer\(ref mods\) => \{(.*?)\} Self::Intermode"),
                             ("RIntermode", r"Self::Intermode\(ref mods\) => \{(.*?)\} Self::Legacy"),
                             ("RLegacy", r"Self::Legacy\(ref mods\) => \{(.*)\} \}$")):
                am = re.search(pat, b)
                chain = []
                if am:
                    for cm in re.finditer(r"if mods\.(\w+)\((\w+)::(\w+)\) \{ Some\(([\d.]+)\) \}", am.group(1)):
                        chain.append(f"({coq_str(cm.group(1))}, {coq_str(cm.group(3))}, {int(float(cm.group(4)))}%Z)")
                key_rows.append(f"({rep}, {coq_list(chain)})")
        if name == "clock_rate" and "Self::Lazer" in b:
            # lazer arm: which mods return their own rate, which go through default*(rate/default)
            own = re.search(r"((?:GameModIntermode::\w+ ?\|? ?)+)=> (?:\{ return m\.clock_rate\(\) \}|m\.clock_rate\(\),)", b)
            if own:
                for n in re.findall(r"GameModIntermode::(\w+)", own.group(1)):
                    rate_rows.append(f"({coq_str(n)}, RateOwn)")
            for dm in re.finditer(r"GameModIntermode::(\w+) => ([\d.]+),", b):
                rate_rows.append(f"({coq_str(dm.group(1))}, RateScaled {coq_str(dm.group(2))})")
            if re.search(r"default \* \(", b) or re.search(r"\* ?\(m\.clock_rate", b):
                rate_rows.append(f"({coq_str('_scaled_formula')}, RateScaled {coq_str('default*(rate/default)')})")
            # anything in the lazer arm besides the recognised shape is reported
            lz = re.search(r"Self::Lazer\(ref mods\) => (.*?)\.unwrap_or\(1\.0\),", b)
            if not lz or not re.match(r"^mods \.iter\(\) \.find_map\(\|m\| match m\.intermode\(\) \{ ((?:\| )?GameModIntermode::\w+ ?)+=> m\.clock_rate\(\), _ => None, \}\)$", norm(lz.group(1))):
                if not any("RateScaled" in r for r in rate_rows):
                    rate_rows.append(f"({coq_str('_lazer_arm_shape')}, RateScaled {coq_str('unrecognised')})")
            im = re.search(r"Self::Intermode\(ref mods\) => mods\.(\w+)\(\)", b)
            lm = re.search(r"Self::Legacy\(mods\) => mods\.(\w+)\(\)", b)
            rate_rows.append(f"({coq_str('_intermode')}, RateFn {coq_str(im.group(1) if im else '?')})")
            rate_rows.append(f"({coq_str('_legacy')}, RateFn {coq_str(lm.group(1) if lm else '?')})")
    return has_rows, attr_rows, macro_rows, key_rows, rate_rows


# ------------------------------------------------------------------ conversion

def cond_coq(c):
    c = norm(c)
    table = {
        "self.mode == mode": "mode_eqb self_mode target",
        "self.mode != mode": "negb (mode_eqb self_mode target)",
        "self.is_convert": "is_convert",
        "!self.is_convert": "negb is_convert",
        "self.mode != GameMode::Osu": "negb (mode_eqb self_mode Osu)",
        "self.mode == GameMode::Osu": "mode_eqb self_mode Osu",
    }
    return table.get(c)


def ret_coq(r):
    r = norm(r).rstrip(";").strip()
    r = re.sub(r"^return ", "", r)
    if r in ("Ok(Cow::Borrowed(self))", "Ok(())", "Ok(self)"):
        return "CIdentity"
    if r == "Err(ConvertError::AlreadyConverted)":
        return "CErrAlready"
    if re.match(r"^Err\(ConvertError::Convert \{ from: self\.mode, to: mode,? \}\)$", r):
        return "CErrConvert"
    return None


def parse_convert_tree(body):
    """if c1 { return r1; } else if c2 {...} ... ; match mode { GameMode::X => X::convert(..), } ; Ok(..)"""
    b = norm(body)
    conds = []
    pos = 0
    m = re.match(r"^if (.*?) \{ (return [^;]*;) \}", b)
    while m:
        conds.append((m.group(1), m.group(2)))
        pos += m.end()
        rest = b[pos:]
        m2 = re.match(r"^ else if (.*?) \{ (return [^;]*;) \}", rest)
        if not m2:
            break
        m = m2
    rest = b[pos:]
    arms = {}
    mm = re.search(r"match mode \{(.*?)\} Ok\(", rest)
    if mm:
        for arm in split_top(mm.group(1), ","):
            arm = arm.strip()
            am = re.match(r"^GameMode::(\w+) => (\w+)::convert\((&mut map|self)(, mods)?\)$", arm)
            um = re.match(r"^GameMode::(\w+) => unreachable!\(\)$", arm)
            if am:
                arms[am.group(1)] = f"CConverted {am.group(2)}" if am.group(1) in MODES and am.group(2) in MODES else "CUnparsed"
            elif um:
                arms[um.group(1)] = "CUnreachable"
            elif arm:
                arms["?"] = "CUnparsed"
    expr = "match target with " + " ".join(f"| {k} => {arms.get(k, 'CUnparsed')}" for k in MODES) + " end"
    for c, r in reversed(conds):
        cc, rr = cond_coq(c), ret_coq(r)
        if cc is None or rr is None:
            return "CUnparsed"
        expr = f"if {cc} then {rr} else {expr}"
    if not conds or not mm:
        return "CUnparsed"
    return expr


def parse_conversion():
    nc = strip_comments(read("src/model/beatmap/mod.rs"))
    trees = {}
    delegate = "false"
    for name, params, ret, body, _ in functions(nc):
        if name in ("convert_ref", "convert_mut"):
            trees[name] = parse_convert_tree(body)
        if name == "convert":
            delegate = "true" if norm(body) == "self.convert_mut(mode, mods)?; Ok(self)" else "false"
    # what the three convert functions assign
    flags = []
    for mode, rel in (("Taiko", "src/taiko/convert.rs"), ("Catch", "src/catch/convert.rs"),
                      ("Mania", "src/mania/convert/mod.rs")):
        fnc = strip_comments(read(rel))
        found = False
        for name, params, ret, body, _ in functions(fnc):
            if name == "convert" and "map" in params:
                found = True
                b = norm(body)
                mm = re.search(r"map\.mode = GameMode::(\w+);", b)
                ic = re.search(r"map\.is_convert = (\w+);", b)
                flags.append(f"({mode}, {mm.group(1) if mm and mm.group(1) in MODES else 'Osu'}, "
                             f"{'true' if ic and ic.group(1) == 'true' else 'false'})")
                break
        if not found:
            flags.append(f"({mode}, Osu, false)")
    # mode entry points: the first conversion call
    entries = []
    files = {"difficulty": "difficulty/mod.rs", "strains": "strains.rs", "gradual": "difficulty/gradual.rs"}
    fn_names = {"difficulty": "difficulty", "strains": "strains", "gradual": "new"}
    for mode in MODES:
        for kind, rel in files.items():
            fnc = strip_comments(read(f"src/{MODE_DIR[mode]}/{rel}"))
            row = None
            for name, params, ret, body, _ in functions(fnc):
                if name != fn_names[kind] or "map" not in params:
                    continue
                b = norm(body)
                cm = re.search(r"map\.convert_ref\(GameMode::(\w+), ([^)]*\)?)\)\?", b)
                if not cm:
                    continue
                # nothing but let-bindings of the difficulty's fields may precede the call
                pre = b[:cm.start()]
                mods_expr = norm(cm.group(2))
                mods_ok = mods_expr == "difficulty.get_mods()" or \
                    (mods_expr == "mods" and re.search(r"let mods = difficulty\.get_mods\(\);", pre) is not None)
                pre_ok = all(re.match(r"^let (mut )?\w+ = (difficulty\.\w+\(\)|map)$", norm(st)) or
                             re.match(r"^let (mut )?map$", norm(st)) or norm(st) == ""
                             for st in pre.split(";")[:-1]) and \
                    re.match(r"^(let (mut )?map =)?$", norm(pre.split(";")[-1])) is not None
                row = (f"({mode}, {coq_str(kind)}, {cm.group(1) if cm.group(1) in MODES else 'Osu'}, "
                       f"{'true' if mods_ok else 'false'}, {'true' if pre_ok else 'false'})")
                break
            entries.append(row or f"({mode}, {coq_str(kind)}, Osu, false, false)")
    return trees, delegate, flags, entries


# ------------------------------------------------------------------ attrs path (C04)

def parse_attrs_path():
    nc = strip_comments(read("src/util/map_or_attrs.rs"))
    b = norm(nc)
    diff_payload = re.search(r"fn from\(attrs: crate::\$module::\$diff\) -> Self \{ Self::Attrs\((\w+(?:\.\w+)*)\) \}", b)
    perf_payload = re.search(r"fn from\(attrs: crate::\$module::\$perf\) -> Self \{ Self::Attrs\((\w+(?:\.\w+)*)\) \}", b)
    inc = norm(strip_comments(read("src/any/performance/into.rs")))
    routes = len(re.findall(r"Performance::from_map_or_attrs\(", inc))
    perf_attr_arms = re.findall(r"Self::(\w+)\(attrs\) => Performance::(\w+)\(attrs\.difficulty\.into\(\)\)", inc)
    diff_attr_arms = re.findall(r"Self::(\w+)\(attrs\) => Performance::(\w+)\(attrs\.into\(\)\)", inc)
    map_arms = re.findall(r"GameMode::(\w+) => Performance::(\w+)\(self\.into\(\)\)", inc)
    # generate_state / calculate of every mode: Map arm computes attributes with self.difficulty
    calc = []
    for mode in MODES:
        fnc = strip_comments(read(f"src/{MODE_DIR[mode]}/performance/mod.rs"))
        for name, params, ret, body, _ in functions(fnc):
            if name in ("generate_state", "calculate") and "self" in params:
                bb = norm(body)
                mm = re.search(r"MapOrAttrs::Map\(ref map\) => \{ let attrs = self\.difficulty\.calculate_for_mode::<(\w+)>\(map\)\?;", bb) or \
                    re.search(r"MapOrAttrs::Map\(ref map\) => self\.difficulty\.calculate_for_mode::<(\w+)>\(map\)\?", bb) or \
                    re.search(r"MapOrAttrs::Map\(ref map\) => \{ self\.difficulty\.calculate_for_mode::<(\w+)>\(map\)\? \}", bb)
                calls_state = "self.generate_state()" in bb
                calc.append(f"({mode}, {coq_str(name)}, {mm.group(1) if mm and mm.group(1) in MODES else ('Osu' if mode != 'Osu' else 'Taiko')}, "
                            f"{'true' if mm else 'false'}, {'true' if calls_state else 'false'})")
    return (diff_payload.group(1) if diff_payload else "?", perf_payload.group(1) if perf_payload else "?",
            routes, perf_attr_arms, diff_attr_arms, map_arms, calc)


# ------------------------------------------------------------------ effect inventory (C01, C10, C11, C20)

EFFECT_KINDS = [
    ("hash-iteration", r"\b(HashMap|HashSet|RandomState)\b"),
    ("static-mut", r"\bstatic\s+mut\b"),
    ("static", r"^\s*(?:pub(?:\([a-z]+\))?\s+)?static\s+(?!mut\b)\w+\s*:"),
    ("thread-local", r"\bthread_local!|\bLocalKey\b"),
    ("lazy-init", r"\b(OnceCell|OnceLock|LazyLock|LazyCell|lazy_static!|Lazy<)"),
    ("interior-mutability", r"\b(Cell<|RefCell|UnsafeCell|Mutex|RwLock|Atomic\w+)"),
    ("clock", r"\b(Instant|SystemTime|UNIX_EPOCH)\b"),
    ("environment", r"\b(std::env|env::var|env::args|std::process)\b"),
    ("ambient-rng", r"\b(rand::|thread_rng|OsRng|getrandom)"),
    ("filesystem", r"\b(File::|fs::|read_to_string|from_path)\b"),
    ("address", r"as \*const [^;]* as usize|as_ptr\(\) as usize|\.addr\(\)|ptr::addr_of|{:p}"),
]


def strip_test_modules(nc):
    """removes `#[cfg(test)] mod name { ... }` blocks"""
    out = nc
    while True:
        m = re.search(r"#\[cfg\(test\)\]\s*(?:pub\s+)?mod\s+\w+\s*\{", out)
        if not m:
            return out
        end = match_brace(out, m.end() - 1)
        if end < 0:
            return out[:m.start()]
        out = out[:m.start()] + re.sub(r"[^\n]", " ", out[m.start():end + 1]) + out[end + 1:]


def source_files():
    res = []
    for root, _, files in os.walk(os.path.join(REPO, "src")):
        for f in sorted(files):
            if f.endswith(".rs"):
                res.append(os.path.relpath(os.path.join(root, f), REPO))
    return sorted(res)


def parse_effects():
    effects, unsafes, features = [], [], []
    for rel in source_files():
        if rel.endswith("verif.rs"):
            continue            # verification hooks, compiled only under cfg(rosu_pp_verif)
        nc = strip_test_modules(strip_comments(read(rel)))
        for kind, pat in EFFECT_KINDS:
            n = len(re.findall(pat, nc, flags=re.M))
            if n:
                effects.append(f"({coq_str(rel)}, {coq_str(kind)}, {n}%Z)")
        n = len(re.findall(r"\bunsafe\b", nc))
        if n:
            unsafes.append(f"({coq_str(rel)}, {n}%Z)")
        for fm in sorted(set(re.findall(r"feature\s*=\s*\"(\w+)\"", nc))):
            features.append(f"({coq_str(rel)}, {coq_str(fm)})")
    return effects, unsafes, features


# ------------------------------------------------------------------ lifetimes of the unsafe sites (C11)

def parse_lifetimes():
    facts = []

    def fact(name, ok):
        facts.append(f"({coq_str(name)}, {'true' if ok else 'false'})")
    # OsuGradualDifficulty: self-referential through boxed slices
    nc = strip_test_modules(strip_comments(read("src/osu/difficulty/gradual.rs")))
    sm = re.search(r"pub struct OsuGradualDifficulty\s*\{(.*?)\n\}", nc, flags=re.S)
    fields = [f.strip().split(":")[0].replace("pub(crate)", "").strip() for f in sm.group(1).split(",") if f.strip()] if sm else []
    fact("osu: diff_objects is declared (hence dropped) before osu_objects",
         "diff_objects" in fields and "osu_objects" in fields and fields.index("diff_objects") < fields.index("osu_objects"))
    fact("osu: diff_objects is a boxed slice", re.search(r"diff_objects:\s*Box<\[OsuDifficultyObject<'static>\]>", nc) is not None)
    nn = norm(nc)
    fact("osu: the referents are owned through a raw pointer (OsuObjects { objects: NonNull<[OsuObject]> }), not a Box that moves would re-tag",
         re.search(r"struct OsuObjects\s*\{\s*objects:\s*NonNull<\[OsuObject\]>,?\s*\}", nn) is not None)
    fact("osu: the pointer is leaked from a Box in new and released by Box::from_raw in Drop only",
         re.search(r"objects: NonNull::from\(Box::leak\(objects\)\)", nn) is not None and
         re.search(r"impl Drop for OsuObjects \{ fn drop\(&mut self\) \{ drop\(unsafe \{ Box::from_raw\(self\.objects\.as_ptr\(\)\) \}\); \} \}", nn) is not None and
         len(re.findall(r"Box::from_raw", nn)) == 1)
    fact("osu: OsuObjects hands out its objects only through iter_mut (Pin) and is_empty reads the length only",
         len(re.findall(r"self\.objects\b", nn)) == 3 and "self.objects.len() == 0" in nn)
    io = nn.find("osu_objects.iter_mut(), );")
    rest = nn[io + len("osu_objects.iter_mut(), );"):nn.find("fn increment_combo", io)] if io >= 0 else ""
    fact("osu: after the references into osu_objects are created it is only moved into the struct as is",
         io >= 0 and len(re.findall(r"\bosu_objects\b", rest)) == 1
         and re.search(r"Ok\(Self \{[^{}]*\bdiff_objects, osu_objects, _not_clonable: NotClonable,? \}\)", rest) is not None)
    fact("osu: no assignment to self.osu_objects / self.diff_objects after construction",
         re.search(r"self\.(osu_objects|diff_objects)\s*(=[^=]|\.push|\.clear|\.truncate|\.swap|\.sort|\.retain)", nc) is None)
    fact("osu: OsuGradualDifficulty is not Clone",
         re.search(r"impl[^{]*Clone\s+for\s+OsuGradualDifficulty", nc) is None and
         re.search(r"derive\([^)]*Clone[^)]*\)\s*pub struct OsuGradualDifficulty", norm(nc)) is None)
    fact("osu: mutable access to the objects only through Pin", "Pin<&mut OsuObject>" in nc)
    # TaikoGradualDifficulty: an iterator into its own vector
    nt = strip_test_modules(strip_comments(read("src/taiko/difficulty/gradual.rs")))
    fact("taiko: diff_objects_iter is an Iter<'static, _> over diff_objects",
         re.search(r"diff_objects_iter:\s*Iter<'static,", nt) is not None and
         re.search(r"extend_lifetime\(diff_objects\.iter\(\)\)", nt) is not None)
    fact("taiko: the referent is a Vec (raw pointer inside, not re-tagged by moves)",
         re.search(r"pub struct TaikoDifficultyObjects\s*\{\s*pub objects: Vec<RefCount<TaikoDifficultyObject>>", norm(strip_comments(read("src/taiko/difficulty/object.rs")))) is not None and
         re.search(r"diff_objects:\s*TaikoDifficultyObjects,", nt) is not None)
    fact("taiko: no assignment to / mutation of self.diff_objects after construction",
         re.search(r"self\.diff_objects\s*(=[^=]|\.push|\.clear|\.truncate|\.swap|\.sort|\.retain|\.objects)", nt) is None)
    nnt = norm(nt)
    im = nnt.find("let diff_objects_iter = extend_lifetime(diff_objects.iter());")
    seg = nnt[im:nnt.find("fn extend_lifetime", im)] if im >= 0 else ""
    fact("taiko: after the 'static iterator is created the vector is moved into the struct as is (no call on it, no rebinding)",
         re.match(r"^let diff_objects_iter = extend_lifetime\(diff_objects\.iter\(\)\); "
                  r"Ok\(Self \{[^{}]*\bdifficulty, diff_objects, diff_objects_iter,[^{}]*\}\) \} \} $", seg) is not None)
    fact("taiko: TaikoGradualDifficulty is not Clone",
         re.search(r"impl[^{]*Clone\s+for\s+TaikoGradualDifficulty", nt) is None and
         re.search(r"derive\([^)]*Clone[^)]*\)\s*pub struct TaikoGradualDifficulty", norm(nt)) is None)
    fact("taiko: TaikoDifficultyObjects::push is not called outside create_difficulty_objects",
         len(re.findall(r"diff_objects\.push\(", strip_test_modules(strip_comments(read("src/taiko/difficulty/mod.rs"))))) == 1 and
         "diff_objects.push(" not in nt)
    # decoder scratch buffer
    nd = strip_test_modules(strip_comments(read("src/model/beatmap/decode.rs")))
    body = None
    for name, params, ret, b, _ in functions(nd):
        if name == "point_split":
            body = norm(b)
    shape = (r"^self\.point_split\.extend\(point_split\.map\(std::ptr::from_ref\)\); let ptr = self\.point_split\.as_ptr\(\); "
             r"let len = self\.point_split\.len\(\); let point_split = unsafe \{ slice::from_raw_parts\(ptr\.cast\(\), len\) \}; "
             r"let res = f\(self, point_split\); self\.point_split\.clear\(\); res$")
    fact("decoder: point_split is extend / from_raw_parts / call / clear / return", body is not None and re.match(shape, body) is not None)
    fact("decoder: the scratch buffer is touched nowhere else (4 uses in point_split, 1 initialiser)",
         len(re.findall(r"(?:self|this|state)\.point_split\b(?!\()", nd)) == 4 and len(re.findall(r"\bpoint_split: Vec::with_capacity", nd)) == 1)
    # the remaining unsafe blocks
    na = strip_comments(read("src/any/difficulty/mod.rs"))
    fact("Difficulty::clock_rate: new_unchecked is applied to clamp(0.01, 100.0).to_bits()",
         re.search(r"let clock_rate = clock_rate\.clamp\(0\.01, 100\.0\)\.to_bits\(\);.*?NonZeroU64::new_unchecked\(clock_rate\)", na, flags=re.S) is not None)
    return facts


# ------------------------------------------------------------------ ScoreState conversions (C12 / C04)

def parse_score_conv():
    """the eight `impl From<A> for B` between ScoreState and the mode states: field -> source field or 0"""
    nc = strip_comments(read("src/any/score_state.rs"))
    rows = []
    for m in re.finditer(r"impl From<(\w+)> for (\w+) \{\s*fn from\(state: \w+\) -> Self \{\s*Self \{(.*?)\}\s*\}\s*\}", nc, flags=re.S):
        src_t, dst_t, body = m.group(1), m.group(2), m.group(3)
        fields = []
        for part in body.split(","):
            part = part.strip()
            if not part:
                continue
            fm = re.match(r"(\w+)\s*:\s*(.+)$", part, flags=re.S)
            if not fm:
                fields.append((part, "?" + part))
                continue
            dst, expr = fm.group(1), norm(fm.group(2))
            sm = re.match(r"state\.(\w+)$", expr)
            fields.append((dst, sm.group(1) if sm else ("0" if expr == "0" else "?" + expr)))
        rows.append(f"({coq_str(src_t)}, {coq_str(dst_t)}, {coq_list(['(' + coq_str(d) + ', ' + coq_str(e) + ')' for d, e in fields])})")
    return rows


# ------------------------------------------------------------------ TryFrom<OsuPerformance> (C07 / C04)

def parse_perf_conv():
    """`impl TryFrom<OsuPerformance> for {Taiko,Catch,Mania}Performance`: which field of the osu!
    builder each field of the target builder is initialised from ("None", "map", or "?..." if the
    shape is not the plain destructure-and-rebuild one)"""
    rows = []
    osu_fields = []
    no = norm(strip_comments(read("src/osu/performance/mod.rs")))
    sm = re.search(r"pub struct OsuPerformance<'map> \{(.*?)\}", no)
    if sm:
        osu_fields = [re.sub(r"pub(\([a-z]+\))? ", "", f.strip()).split(":")[0].strip() for f in sm.group(1).split(",") if ":" in f]
    for mode, path in (("Taiko", "src/taiko/performance/mod.rs"), ("Catch", "src/catch/performance/mod.rs"),
                       ("Mania", "src/mania/performance/mod.rs")):
        nc = norm(strip_test_modules(strip_comments(read(path))))
        im = re.search(r"impl<'map> TryFrom<OsuPerformance<'map>> for " + mode + r"Performance<'map> \{(.*?)\n?\} impl", nc + " impl")
        fields = []
        if not im:
            rows.append(f"({mode}, [(\"?\", \"?no impl\")])")
            continue
        body = im.group(1)
        dm = re.search(r"let OsuPerformance \{(.*?)\} = osu;", body)
        binds = {}
        if dm:
            for part in dm.group(1).split(","):
                part = part.strip()
                if not part:
                    continue
                if ":" in part:
                    k, v = [x.strip() for x in part.split(":", 1)]
                    binds[v] = k if v != "_" else None
                    if v == "_":
                        binds.pop(v, None)
                else:
                    binds[part] = part
        cm = re.search(r"Ok\(Self \{(.*?)\}\)", body)
        if not cm:
            rows.append(f"({mode}, [(\"?\", \"?no constructor\")])")
            continue
        for part in cm.group(1).split(","):
            part = part.strip()
            if not part:
                continue
            if part.startswith(".."):
                fields.append(("..", "?" + part))
                continue
            if ":" in part:
                dst, expr = [x.strip() for x in part.split(":", 1)]
            else:
                dst, expr = part, part
            if expr == "None":
                src = "None"
            elif expr == "MapOrAttrs::Map(map)":
                src = "map"
            elif expr in binds and binds[expr]:
                src = binds[expr]
            else:
                src = "?" + expr
            fields.append((dst, src))
        rows.append(f"({mode}, {coq_list(['(' + coq_str(d) + ', ' + coq_str(e) + ')' for d, e in fields])})")
    return rows, osu_fields


# ------------------------------------------------------------------ legacy sort call sites (C06 / C19)

def parse_sort_facts():
    """`util::sort::osu_legacy` reads its pivot by index, so it only re-orders ties of an already
    time-ordered slice; every call site must order the slice first"""
    facts = []
    nd = norm(strip_test_modules(strip_comments(read("src/model/beatmap/decode.rs"))))
    nm = norm(strip_test_modules(strip_comments(read("src/mania/convert/mod.rs"))))
    facts.append(("decode: hit objects are sorted stably by start time (TandemSorter) right before sort::osu_legacy",
                  re.search(r"let mut sorter = sort::TandemSorter::new_stable\(&state\.hit_objects, \|a, b\| \{ a\.start_time\.total_cmp\(&b\.start_time\) \}\); "
                            r"sorter\.sort\(&mut state\.hit_objects\); sorter\.sort\(&mut state\.hit_sounds\); "
                            r"if state\.mode == GameMode::Mania \{ sort::osu_legacy\(&mut state\.hit_objects\); \}", nd) is not None))
    facts.append(("mania convert: hit objects are sorted by start time right before sort::osu_legacy",
                  re.search(r"map\.hit_objects\.sort_by\(cmp_by_start_time\); sort::osu_legacy\(&mut map\.hit_objects\);", nm) is not None))
    n_calls = 0
    for rel in source_files():
        if rel.startswith("src/util/sort") or rel.endswith("verif.rs"):
            continue
        n_calls += len(re.findall(r"\bosu_legacy\(", strip_test_modules(strip_comments(read(rel)))))
    facts.append(("sort::osu_legacy has exactly these two call sites", n_calls == 2))
    return [f"({coq_str(n)}, {'true' if ok else 'false'})" for n, ok in facts]


# ------------------------------------------------------------------ skill set-up, one-shot vs gradual (C02 / C03)

def parse_setup_facts():
    """the gradual constructors build their skills from the same values as the one-shot calculation
    (the Coq machines assume one initial skill state s0 for both)"""
    facts = []

    def both(mode):
        a = norm(strip_test_modules(strip_comments(read(f"src/{mode}/difficulty/mod.rs"))))
        b = norm(strip_test_modules(strip_comments(read(f"src/{mode}/difficulty/gradual.rs"))))
        return a, b
    a, b = both("osu")
    call = "OsuSkills::new(mods, &scaling_factor, &map_attrs, time_preempt)"
    facts.append(("osu: one-shot and gradual both build " + call + " once", a.count(call) == 1 and b.count(call) == 1
                  and a.count("OsuSkills::new(") == 1 and b.count("OsuSkills::new(") == 1))
    a, b = both("taiko")
    facts.append(("taiko: TaikoSkills::new(<great hit window>, map.is_convert) on the converted map in both",
                  a.count("TaikoSkills::new(great_hit_window, map.is_convert)") == 1 and a.count("TaikoSkills::new(") == 1
                  and b.count("TaikoSkills::new(od_great, map.is_convert)") == 1 and b.count("TaikoSkills::new(") == 1
                  and re.search(r"let mut map = map\.convert_ref\(GameMode::Taiko, difficulty\.get_mods\(\)\)\?;", b) is not None
                  and len(re.findall(r"\blet (?:mut )?(\w+) = map\.convert_ref\(", b)) == 1))
    a, b = both("catch")
    w1 = "let mut half_catcher_width = Catcher::calculate_catch_width(map_attrs.cs as f32) * 0.5;"
    w2 = "half_catcher_width *= 1.0 - ((map_attrs.cs as f32 - 5.5).max(0.0) * 0.0625);"
    mv = "Movement::new(half_catcher_width, clock_rate)"

    def ordered(t):
        i1, i2, i3, i4 = t.find(w1), t.find(w2), t.find("create_difficulty_objects( clock_rate, half_catcher_width,"), t.find(mv)
        return 0 <= i1 < i2 < i3 and i2 < i4 and t.count("half_catcher_width *=") == 1 and t.count("Movement::new(") == 1
    facts.append(("catch: the catcher width is corrected for CS > 5.5 before the difficulty objects and Movement::new use it, in both",
                  ordered(a) and ordered(b)))
    a, b = both("mania")
    call = "Strain::new(total_columns as usize)"
    tc = "let total_columns = map.cs.round_ties_even().max(1.0);"
    facts.append(("mania: Strain::new(total_columns as usize) with the same total_columns in both",
                  a.count(call) == 1 and b.count(call) == 1 and a.count(tc) == 1 and b.count(tc) == 1))
    return [f"({coq_str(n)}, {'true' if ok else 'false'})" for n, ok in facts]


# ------------------------------------------------------------------ strain section loop (C16 / C05)

def parse_section_facts():
    """the section loop of `StrainSkill::process` that Model/Sections.v transcribes and
    Proofs/SecTerm.v proves terminating, and every section length in the crate"""
    lens = []
    for root, _, files in os.walk(os.path.join(REPO, "src")):
        for fn in sorted(files):
            if not fn.endswith(".rs"):
                continue
            rel = os.path.relpath(os.path.join(root, fn), REPO)
            t = strip_test_modules(strip_comments(read(rel)))
            for m in re.finditer(r"\bconst\s+(SECTION_LENGTH|SECTION_LEN)\s*:\s*(\w+)\s*=\s*([^;]+);", t):
                v = m.group(3).strip().replace("_", "")
                mm = re.fullmatch(r"(\d+)(?:\.0+)?", v)
                lens.append((f"{rel}: {m.group(1)}: {m.group(2)}", int(mm.group(1)) if mm else -1))
    lens.sort()
    facts = []
    mac = norm(strip_comments(read("src/util/macros.rs")))
    loop = ("let section_length = f64::from(Self::SECTION_LENGTH); "
            "if curr.idx == 0 { self.strain_skill_current_section_end = "
            "f64::ceil(curr.start_time / section_length) * section_length; } "
            "while curr.start_time > self.strain_skill_current_section_end { self.save_current_peak(); "
            "self.start_new_section_from( self.strain_skill_current_section_end, curr, objects ); "
            "self.strain_skill_current_section_end += section_length; }")
    facts.append(("macros.rs: process() sets the first end to ceil(t / L) * L and loops `while t > end { save; new section; end += L }`",
                  mac.count(loop) == 1))
    writes = 0
    for root, _, files in os.walk(os.path.join(REPO, "src")):
        for fn in files:
            if fn.endswith(".rs"):
                t = norm(strip_test_modules(strip_comments(read(os.path.relpath(os.path.join(root, fn), REPO)))))
                writes += len(re.findall(r"strain_skill_current_section_end\s*(?:[-+*/]?=)(?!=)", t))
    facts.append(("the section end is written only by those two statements", writes == 2))
    facts.append(("the section end starts at 0.0", "strain_skill_current_section_end f64 = 0.0," in mac))
    facts.append(("no skill implements process() by hand (all go through the macro)",
                  sum(1 for root, _, files in os.walk(os.path.join(REPO, "src")) for fn in files if fn.endswith(".rs")
                      and re.search(r"fn process<'a>\(", strip_test_modules(strip_comments(
                          read(os.path.relpath(os.path.join(root, fn), REPO)))))) == 2))
    return ([f"({coq_str(n)}, {v})" if v >= 0 else f"({coq_str(n)}, (-1))" for n, v in lens],
            [f"({coq_str(n)}, {'true' if ok else 'false'})" for n, ok in facts])


# ------------------------------------------------------------------ bpm comparator (C01)

def parse_bpm_facts():
    facts = []
    nb = norm(strip_comments(read("src/model/beatmap/bpm.rs")))
    facts.append((
        "bpm: the winner is chosen by max_by with the total order (duration by total_cmp, then first appearance)",
        re.search(r"\.max_by\(\|\(_, \(idx_a, a\)\), \(_, \(idx_b, b\)\)\| a\.total_cmp\(b\)\.then_with\(\|\| idx_b\.cmp\(idx_a\)\)\)", nb) is not None))
    facts.append((
        "bpm: one HashMap, keyed by the beat length's bits, holding (first index, accumulated duration)",
        len(re.findall(r"\bHashMap\b", nb)) == 3 and "map: HashMap<u64, (usize, f64)>" in nb))
    facts.append((
        "bpm: no other ordering / comparison of durations (partial_cmp, epsilon, sort) in the file",
        re.search(r"partial_cmp|EPSILON|\.sort|max_by_key|min_by|\.abs\(\)", nb) is None and len(re.findall(r"max_by", nb)) == 1))
    return [f"({coq_str(n)}, {'true' if ok else 'false'})" for n, ok in facts]



# ------------------------------------------------------------------ .NET generator (C19)

def parse_prng_facts():
    """the statements of util/random/csharp.rs that Model/Prng.v (cnew, csample_int, cnext_max) transcribes and
    Proofs/CRngProofs.v reasons about; compared as normalised text, so a rewrite of the file has to be mirrored here"""
    t = norm(strip_test_modules(strip_comments(read("src/util/random/csharp.rs"))))
    want = [
        ("csharp.rs: internal_sample subtracts the two table entries, maps i32::MAX to i32::MAX - 1, lifts negatives by i32::MAX and stores the result",
         "let mut ret_val = self.seed_array[loc_inext as usize] - self.seed_array[loc_inextp as usize]; "
         "if ret_val == i32::MAX { ret_val -= 1; } if ret_val < 0 { ret_val += i32::MAX; } "
         "self.seed_array[loc_inext as usize] = ret_val; self.inext = loc_inext; self.inextp = loc_inextp; ret_val"),
        ("csharp.rs: both cursors advance by one and wrap from 56 to 1",
         "let mut loc_inext = self.inext; loc_inext += 1; if loc_inext >= 56 { loc_inext = 1; } "
         "let mut loc_inextp = self.inextp; loc_inextp += 1; if loc_inextp >= 56 { loc_inextp = 1; }"),
        ("csharp.rs: initialize takes |seed| (i32::MAX for i32::MIN) off the golden-ratio constant",
         "let subtraction = if unlikely(seed == i32::MIN) { i32::MAX } else { i32::abs(seed) }; "
         "let mut mj = 161_803_398 - subtraction; seed_array[55] = mj; let mut mk = 1; let mut ii = 0;"),
        ("csharp.rs: first seeding loop (54 rounds, stride 21 mod 55, mk = mj - mk lifted by i32::MAX)",
         "for _ in 1..55 { ii += 21; if ii >= 55 { ii -= 55; } seed_array[ii] = mk; mk = mj - mk; "
         "if mk < 0 { mk += i32::MAX; } mj = seed_array[ii]; }"),
        ("csharp.rs: four mixing sweeps over 1..56 with a wrapping difference lifted by i32::MAX",
         "for _ in 1..5 { for i in 1..56 { let mut n = i + 30; if n >= 55 { n -= 55; } "
         "seed_array[i] = seed_array[i].wrapping_sub(seed_array[1 + n]); "
         "if seed_array[i] < 0 { seed_array[i] += i32::MAX; } } }"),
        ("csharp.rs: the cursors start at 0 and 21", "Self { seed_array, inext: 0, inextp: 21, }"),
        ("csharp.rs: sample = internal_sample * (1 / i32::MAX) in f64, next_max = (sample * max) as i32, next = internal_sample",
         None),
    ]
    facts = []
    for name, text in want:
        if text is None:
            ok = ("f64::from(self.internal_sample()) * (1.0 / f64::from(i32::MAX))" in t
                  and "(self.prng.sample() * f64::from(max)) as i32" in t
                  and re.search(r"fn next\(&mut self\) -> i32 \{ self\.prng\.internal_sample\(\) \}", t) is not None)
        else:
            ok = t.count(text) == 1
        facts.append((name, ok))
    o = norm(strip_test_modules(strip_comments(read("src/util/random/osu.rs"))))
    for name, text in [
        ("osu.rs: INT_TO_REAL = 1 / 2^31 and INT_MASK = 2^31 - 1",
         "const INT_TO_REAL: f64 = 1.0 / (i32::MAX as f64 + 1.0); const INT_MASK: u32 = 0x7F_FF_FF_FF;"),
        ("osu.rs: xorshift step (11 / 19 / 8) over x, y, z, w",
         "let t = self.x ^ (self.x << 11); self.x = self.y; self.y = self.z; self.z = self.w; "
         "self.w = self.w ^ (self.w >> 19) ^ t ^ (t >> 8); self.w"),
        ("osu.rs: next_int masks the sign bit, next_double scales it by 2^-31",
         "(INT_MASK & self.gen_unsigned()) as i32 } pub fn next_double(&mut self) -> f64 { INT_TO_REAL * f64::from(self.next_int()) }"),
        ("osu.rs: next_int_range = (min + next_double * (max - min)) as i32 in f64",
         "(f64::from(min) + self.next_double() * f64::from(max - min)) as i32"),
        ("osu.rs: next_bool refills its 32 bit buffer from gen_unsigned and shifts otherwise",
         "if self.bit_idx == 32 { self.bit_buf = self.gen_unsigned(); self.bit_idx = 1; } else { self.bit_idx += 1; "
         "self.bit_buf >>= 1; } (self.bit_buf & 1) == 1"),
        ("osu.rs: seeding constants", "x: seed as u32, y: 842_502_087, z: 3_579_807_591, w: 273_326_509, bit_buf: 0, bit_idx: 32,"),
    ]:
        facts.append((name, o.count(text) == 1))
    facts.append(("csharp.rs: the table is written only in initialize and internal_sample (5 assignments)",
                  len(re.findall(r"seed_array\[[^\]]+\]\s*(?:[-+]?=)(?!=)", t)) == 5))
    return [f"({coq_str(n)}, {'true' if ok else 'false'})" for n, ok in facts]

# ------------------------------------------------------------------ emit

def generate():
    perf_rows, doc_rows = parse_perf_dispatch()
    builder_rows = parse_mode_builders()
    fields, setters, getters, insp, into = parse_difficulty()
    has_rows, attr_rows, macro_rows, key_rows, rate_rows = parse_mods()
    trees, delegate, flags, entries = parse_conversion()
    dpay, ppay, routes, perf_arms, diff_arms, map_arms, calc = parse_attrs_path()
    effects, unsafes, features = parse_effects()
    lifetimes = parse_lifetimes()
    bpm_facts = parse_bpm_facts()
    prng_facts = parse_prng_facts()
    sort_facts = parse_sort_facts()
    setup_facts = parse_setup_facts()
    section_lengths, section_facts = parse_section_facts()
    score_conv = parse_score_conv()
    perf_conv, osu_perf_fields = parse_perf_conv()
    L = []
    A = L.append
    A("(* GENERATED by tools/extract.py from the repository's current source - do not edit.")
    A("   Regenerated on every check; Proofs/TablesProofs.v is re-checked against it. *)")
    A("From Coq Require Import String List Bool ZArith.")
    A("Import ListNotations.")
    A("Open Scope string_scope.")
    A("")
    A("Inductive mode := Osu | Taiko | Catch | Mania.")
    A("Definition mode_eqb (a b : mode) : bool :=")
    A("  match a, b with Osu, Osu | Taiko, Taiko | Catch, Catch | Mania, Mania => true | _, _ => false end.")
    A("")
    A("(* ---- src/any/performance/mod.rs: Performance::<setter> per mode ---- *)")
    A("Inductive dtarget := DNoop | DCall (method : string) (same_args : bool) | DUnparsed (what : string).")
    A("Definition perf_dispatch : list (string * mode * dtarget) :=\n  " + coq_list(perf_rows).replace("; (", ";\n   (") + ".")
    A("Inductive docrel := DocAll | DocOnly (modes : list mode) | DocNot (modes : list mode).")
    A("Definition perf_doc : list (string * docrel) :=\n  " + coq_list(doc_rows).replace("; (", ";\n   (") + ".")
    A("")
    A("(* ---- src/<mode>/performance/mod.rs: builder methods ---- *)")
    A("Inductive bkind := BForward (setter : string) (same_args : bool) | BSetDifficulty | BField (field : string)")
    A("                 | BScore | BUnparsed (what : string).")
    A("Definition mode_builders : list (mode * string * bkind) :=\n  " + coq_list(builder_rows).replace("; (", ";\n   (") + ".")
    A("")
    A("(* ---- src/any/difficulty/mod.rs ---- *)")
    A("Inductive clampk := NoClamp | Clamp (lo hi : string) | ClampUnparsed (what : string).")
    A("Definition difficulty_fields : list string := " + coq_list([coq_str(f) for f in fields]) + ".")
    A("Definition difficulty_setters : list (string * string * clampk) :=\n  " + coq_list(setters).replace("; (", ";\n   (") + ".")
    A("Definition difficulty_getter_defaults : list (string * string) :=\n  " + coq_list(getters).replace("; (", ";\n   (") + ".")
    A("Definition inspect_fields : list (string * string) :=\n  " + coq_list(insp).replace("; (", ";\n   (") + ".")
    A("Definition into_difficulty_calls : list (string * string * string) :=\n  " + coq_list(into).replace("; (", ";\n   (") + ".")
    A("")
    A("(* ---- src/model/mods.rs ---- *)")
    A("Definition has_mod_table : list (string * bool * string) :=\n  " + coq_list(has_rows).replace("; (", ";\n   (") + ".")
    A("Definition has_mod_macro : list (string * string) := " + coq_list(macro_rows) + ".")
    A("Definition map_attr_table : list (string * string * list mode) := " + coq_list(attr_rows) + ".")
    A("Inductive mrepr := RLazer | RIntermode | RLegacy.")
    A("Definition mania_keys_chains : list (mrepr * list (string * string * Z)) :=\n  " + coq_list(key_rows).replace("; (R", ";\n   (R") + ".")
    A("Inductive ratek := RateOwn | RateScaled (default : string) | RateFn (f : string).")
    A("Definition clock_rate_arms : list (string * ratek) := " + coq_list(rate_rows) + ".")
    A("")
    A("(* ---- src/model/beatmap/mod.rs: conversion decision trees ---- *)")
    A("Inductive cres := CIdentity | CErrAlready | CErrConvert | CConverted (m : mode) | CUnreachable | CUnparsed.")
    for nm in ("convert_ref", "convert_mut"):
        A(f"Definition {nm}_tree (self_mode : mode) (is_convert : bool) (target : mode) : cres :=\n  {trees.get(nm, 'CUnparsed')}.")
    A(f"Definition convert_delegates_to_convert_mut : bool := {delegate}.")
    A("(* (converter, mode it assigns, is_convert it assigns) *)")
    A("Definition convert_flags : list (mode * mode * bool) := " + coq_list(flags) + ".")
    A("(* (mode, entry point, mode passed to convert_ref, mods are the caller's, nothing precedes the call) *)")
    A("Definition entry_points : list (mode * string * mode * bool * bool) :=\n  " + coq_list(entries).replace("; (", ";\n   (") + ".")
    A("")
    A("(* ---- src/util/map_or_attrs.rs, src/any/performance/into.rs, */performance/mod.rs ---- *)")
    A(f"Definition attrs_payload_of_difficulty_attrs : string := {coq_str(dpay)}.")
    A(f"Definition attrs_payload_of_performance_attrs : string := {coq_str(ppay)}.")
    A(f"Definition from_map_or_attrs_routes : Z := {routes}%Z.")
    A("Definition into_perf_attr_arms : list (mode * mode) := " + coq_list(f"({a}, {b})" for a, b in perf_arms if a in MODES and b in MODES) + ".")
    A("Definition into_diff_attr_arms : list (mode * mode) := " + coq_list(f"({a}, {b})" for a, b in diff_arms if a in MODES and b in MODES) + ".")
    A("Definition into_map_arms : list (mode * mode) := " + coq_list(f"({a}, {b})" for a, b in map_arms if a in MODES and b in MODES) + ".")
    A("(* (mode, function, mode the Map arm calculates for, Map arm found, calls generate_state) *)")
    A("Definition perf_map_arms : list (mode * string * mode * bool * bool) :=\n  " + coq_list(calc).replace("; (", ";\n   (") + ".")
    A("")
    A("(* ---- every non-test source file: ambient-effect sites, unsafe, cfg(feature) ---- *)")
    A("Definition effect_sites : list (string * string * Z) :=\n  " + coq_list(effects).replace("; (", ";\n   (") + ".")
    A("Definition unsafe_sites : list (string * Z) :=\n  " + coq_list(unsafes).replace("; (", ";\n   (") + ".")
    A("Definition feature_sites : list (string * string) :=\n  " + coq_list(features).replace("; (", ";\n   (") + ".")
    A("(* `impl From<A> for B` between ScoreState and the four mode states: (A, B, [(field of B, field of A or 0)]) *)")
    A("Definition score_conv : list (string * string * list (string * string)) :=\n  " + coq_list(score_conv).replace("; (\"", ";\n   (\"") + ".")
    A("(* TryFrom<OsuPerformance> for the other modes' builders: (target mode, [(target field, osu! field | None | map)]) *)")
    A("Definition perf_conv : list (mode * list (string * string)) :=\n  " + coq_list(perf_conv).replace("; (", ";\n   (") + ".")
    A("Definition osu_perf_fields : list string := " + coq_list([coq_str(f) for f in osu_perf_fields]) + ".")
    A("(* the legacy tie re-ordering sort is only applied to slices that are already ordered by start time *)")
    A("Definition sort_facts : list (string * bool) :=\n  " + coq_list(sort_facts).replace("; (", ";\n   (") + ".")
    A("(* one-shot and gradual calculators start from the same skill state (the s0 of the Coq machines) *)")
    A("Definition setup_facts : list (string * bool) :=\n  " + coq_list(setup_facts).replace("; (", ";\n   (") + ".")
    A("(* every section length constant of the crate, and the shape of the section loop (Model/Sections.v, Proofs/SecTerm.v) *)")
    A("Definition section_lengths : list (string * Z) :=\n  " + coq_list(section_lengths).replace("; (", ";\n   (") + "%Z.")
    A("Definition section_facts : list (string * bool) :=\n  " + coq_list(section_facts).replace("; (", ";\n   (") + ".")
    A("(* the comparator of Beatmap::bpm that Model/Bpm.v transcribes *)")
    A("Definition bpm_facts : list (string * bool) :=\n  " + coq_list(bpm_facts).replace("; (", ";\n   (") + ".")
    A("Definition prng_facts : list (string * bool) :=\n  " + coq_list(prng_facts).replace("; (", ";\n   (") + ".")
    A("(* facts the ownership argument of C11 rests on, each checked against the current source *)")
    A("Definition lifetime_facts : list (string * bool) :=\n  " + coq_list(lifetimes).replace("; (", ";\n   (") + ".")
    return "\n".join(L) + "\n"


def main():
    text = generate()
    os.makedirs(os.path.dirname(OUT), exist_ok=True)
    old = open(OUT).read() if os.path.exists(OUT) else None
    if old != text:
        open(OUT, "w").write(text)
        print("Generated/Tables.v rewritten")
    else:
        print("Generated/Tables.v unchanged")
    return 0


if __name__ == "__main__":
    if len(sys.argv) > 1 and sys.argv[1] == "--print":
        sys.stdout.write(generate())
    else:
        sys.exit(main())
