"""C01: bpm traces against the Coq model, in-process repetition/ordering oracle (vh det) and
cross-process comparison (two runs of the same workload: different hash seeds and addresses)."""
from vlib import *

HEADER = """From Coq Require Import ZArith NArith List Floats.
From V Require Import F64 Bpm.
Import ListNotations.
Open Scope Z_scope.
"""
MODES = ["osu", "taiko", "catch", "mania"]


def run_bpm(chk, binary, count):
    rc, out, err, dt = harness_run(binary, ["bpm", chk.seed, count], timeout=1200)
    if rc != 0:
        chk.violation("harness bpm crashed", {"stderr": err[-3000:]})
        return
    rows = [r for r in jsonl(out) if "skip" not in r]
    for r in rows:
        keys = {b for _, b in r["tps"]}
        chk.count(["bpm", r["map"]], len(r["tps"]) >= 2)
        chk.dist("bpm.timing_points=" + str(min(len(r["tps"]), 5)) + ("+" if len(r["tps"]) > 5 else ""))
        chk.dist("bpm.distinct_beat_lens=" + str(len(keys)))
        if len(r["distinct"]) > 1:
            chk.violation(f"Beatmap::bpm() returned {len(r['distinct'])} different values over 41 calls on the same map: {r['distinct']}",
                          {"map": r["map"], "values": r["distinct"], "replay": f"vh bpm {chk.seed} {count} (case id {r['id']})"})
    if rows:
        chk.sample({"model": "Bpm", "timing_points": rows[0]["tps"][:4], "last_end": rows[0]["last_end"], "bpm_word": rows[0]["bpm"]})
    shards, _ = balance_shards(rows, lambda r: 1 + len(r["tps"]))

    def case(r):
        tps = "[" + "; ".join(f"({a}, {b})" for a, b in r["tps"]) + "]"
        last = -1 if r["last_end"] is None else r["last_end"]
        return f"({r['id']}%N, {tps}, {z(last)}, {r['bpm']})"
    bodies = ["Definition cases := [\n  " + ";\n  ".join(case(r) for r in s) + "].\nEval vm_compute in bpm_bad cases."
              for s in shards]
    for (o, e), s in zip(coq_eval(f"{chk.pid}-bpm", bodies, HEADER), shards):
        if e is not None:
            chk.broken_obligation("correspondence", "coqc failed on bpm cases: " + e)
            continue
        bad = parse_eval_list(o)
        if bad is None:
            chk.broken_obligation("correspondence", "unparsable coqc output: " + o[-800:])
            continue
        byid = {r["id"]: r for r in s}
        for cid, _ in bad:
            chk.cov["correspondence_mismatches"] += 1
            r = byid[cid]
            chk.broken_obligation("correspondence", "Bpm model and Beatmap::bpm differ",
                                  {"map": r["map"], "tps": r["tps"], "last_end": r["last_end"], "bpm": r["bpm"]})
    chk.cov.setdefault("traces_validated_against_model", 0)
    chk.cov["traces_validated_against_model"] += len(rows)


def run_det(chk, binary, count, max_objects):
    # two separate processes: different RandomState keys, heap and stack addresses
    runs = []
    for k in range(2):
        rc, out, err, dt = harness_run(binary, ["det", chk.seed, count, max_objects], timeout=3000)
        if rc != 0:
            chk.violation("harness det crashed", {"stderr": err[-3000:], "cmd": f"vh det {chk.seed} {count} {max_objects}"})
            return
        runs.append(jsonl(out))
    for r in runs[0]:
        chk.count([r["map"], r["settings"], r["mode"], r["spec"]], r["n_objects"] >= 2)
        chk.cov["repeated_evaluations"] = chk.cov.get("repeated_evaluations", 0) + r["evaluations"]
        chk.dist(f"det.mode={MODES[r['mode']]}{'(convert)' if r['src_mode'] != r['mode'] else ''}")
        chk.dist(f"det.shape={r['shape']}")
        if r["settings"]["repr"] == 4 and r["settings"]["lazer_extra"]:
            chk.dist("det.lazer_conversion_mods")
        for f in r["fails"]:
            chk.violation(f"{MODES[r['mode']]}: {f}", {"mode": MODES[r["mode"]], "settings": r["settings"], "spec": r["spec"],
                                                      "map": r["map"], "replay": f"vh det {chk.seed} {count} {max_objects} (case id {r['id']})"})
    for a, b in zip(runs[0], runs[1]):
        if a["signature"] != b["signature"]:
            chk.violation(f"{MODES[a['mode']]}: results differ between two processes running the same workload "
                          f"({a['signature']} vs {b['signature']})",
                          {"mode": MODES[a["mode"]], "settings": a["settings"], "spec": a["spec"], "map": a["map"],
                           "replay": f"vh det {chk.seed} {count} {max_objects} twice (case id {a['id']})"})
    if runs[0]:
        r = runs[0][0]
        chk.sample({"oracle": "det", "mode": MODES[r["mode"]], "shape": r["shape"], "settings": r["settings"],
                    "evaluations": r["evaluations"], "signature": r["signature"]})
