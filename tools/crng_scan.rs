// Exhaustive search over every distinct seeding of the .NET generator model (sub = |seed| in 0..=i32::MAX; i32::MIN maps to i32::MAX):
// does the freshly seeded table hold an entry equal to i32::MAX or below 0?  A search supporting the partial theorem
// C19_csharp_seed_entries_partial (CRngProofs), not a proof; the same arithmetic as Model/Prng.v cnew (wrapping i32).
use std::thread;
fn table(sub: i32) -> [i32; 56] {
    let mut a = [0i32; 56];
    let mut mj = 161_803_398i32.wrapping_sub(sub);
    a[55] = mj; let mut mk = 1i32; let mut ii = 0usize;
    for _ in 1..55 { ii += 21; if ii >= 55 { ii -= 55; } a[ii] = mk; mk = mj.wrapping_sub(mk); if mk < 0 { mk = mk.wrapping_add(i32::MAX); } mj = a[ii]; }
    for _ in 1..5 { for i in 1..56usize { let mut n = i + 30; if n >= 55 { n -= 55; }
        let mut v = a[i].wrapping_sub(a[1 + n]); if v < 0 { v = v.wrapping_add(i32::MAX); } a[i] = v; } }
    a
}
fn main() {
    let nt = 16u64; let total: u64 = 1u64 << 31; // sub in 0..=i32::MAX
    let hs: Vec<_> = (0..nt).map(|t| thread::spawn(move || {
        let mut found = Vec::new();
        let lo = total * t / nt; let hi = total * (t + 1) / nt;
        for s in lo..hi { let a = table(s as i32);
            if a[1..].iter().any(|&v| v == i32::MAX || v < 0) { found.push((s, a.iter().filter(|&&v| v == i32::MAX).count(), a.iter().filter(|&&v| v < 0).count())); } }
        found })).collect();
    let mut all = Vec::new(); for h in hs { all.extend(h.join().unwrap()); }
    println!("seeds(sub) with an entry == i32::MAX or < 0 after seeding: {}", all.len());
    for x in all.iter().take(100) { println!("{:?}", x); }
}
