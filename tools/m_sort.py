"""Direct oracle on the two ported sorting routines (hooks csharp_sort / osu_legacy_sort)."""
from vlib import *


def run(chk, binary, count):
    rc, out, err, dt = harness_run(binary, ["sorts", chk.seed, count], timeout=1200)
    if rc != 0:
        chk.violation("harness sorts crashed", {"stderr": err[-2000:], "cmd": f"vh sorts {chk.seed} {count}"})
        return
    for r in jsonl(out):
        chk.count(["sorts", r["id"], r["n"], r["pattern"]], r["n"] >= 2)
        chk.dist(f"sorts.pattern={r['pattern']}")
        for f in r["fails"]:
            chk.violation(f"{f} ({r['pattern']}, {r['n']} keys)",
                          {"keys": r.get("keys"), "pattern": r["pattern"],
                           "replay": f"vh sorts {chk.seed} {count} (case id {r['id']})"})
