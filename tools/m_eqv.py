"""Direct equivalence oracles on the implementation (C04, C07, C08, C18): harness/src/eqv.rs
computes the same result through several entry points / representations / setter orders
and reports every pair that is not bitwise equal."""
from vlib import *

MODES = ["osu", "taiko", "catch", "mania"]


def run(chk, binary, prop, count, max_objects, classify=None):
    rc, out, err, dt = harness_run(binary, [prop, chk.seed, count, max_objects], timeout=3000)
    if rc != 0:
        chk.violation(f"harness {prop} crashed", {"stderr": err[-3000:], "cmd": f"vh {prop} {chk.seed} {count} {max_objects}"})
        return []
    rows = jsonl(out)
    kept = []
    for r in rows:
        if "skip" in r:
            chk.dist(f"{prop}.skipped(undecodable/inconvertible)")
            continue
        kept.append(r)
        chk.count([r["map"], r["settings"], r["mode"], r.get("spec"), r.get("setters")], r["n_objects"] >= 2, n=1)
        chk.cov["comparisons"] = chk.cov.get("comparisons", 0) + r["checks"]
        chk.dist(f"{prop}.mode={MODES[r['mode']]}{'(convert)' if r['src_mode'] != r['mode'] else ''}")
        chk.dist(f"{prop}.shape={r['shape']}")
        st = r["settings"]
        chk.dist(f"{prop}.repr={st['repr']}")
        if st.get("passed") is not None:
            chk.dist(f"{prop}.with_passed_objects")
        if "panic" in r:
            cls = classify(r, None) if classify else None
            chk.violation(f"{MODES[r['mode']]}: panicked: {r['panic']}",
                          {"finding_class": cls, "case": {k: r[k] for k in r if k != 'fails'},
                           "replay": f"vh {prop} {chk.seed} {count} {max_objects} (case id {r['id']})"})
        for f in r["fails"]:
            cls = classify(r, f) if classify else None
            chk.violation(f"{MODES[r['mode']]}: {f['name']}: {f['a'][:300]} != {f['b'][:300]}",
                          {"finding_class": cls, "mode": MODES[r["mode"]], "src_mode": r["src_mode"],
                           "settings": st, "spec": r.get("spec"), "setters": r.get("setters"), "map": r["map"],
                           "a": f["a"], "b": f["b"], "case_id": r["id"],
                           "replay": f"vh {prop} {chk.seed} {count} {max_objects} (case id {r['id']})"})
    if kept:
        r = kept[0]
        chk.sample({"oracle": prop, "mode": MODES[r["mode"]], "shape": r["shape"], "settings": r["settings"],
                    "spec": r.get("spec"), "setters": r.get("setters"), "comparisons": r["checks"]})
    return kept
