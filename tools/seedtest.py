#!/usr/bin/env python3
"""seedtest.py <seed-id> [<property> ...]

Applies /verif/seeded/<seed-id>/patch.diff to /repo, runs the quick checks of the given
properties (default: the one in meta.json), reverts /repo, and records which checks
raised a violation in /verif/seeded/<seed-id>/result.json.  Never leaves /repo modified."""
import json
import os
import subprocess
import sys
import time

VERIF = os.path.dirname(os.path.dirname(os.path.abspath(__file__)))


def main():
    sid = sys.argv[1]
    d = os.path.join(VERIF, "seeded", sid)
    meta = json.load(open(os.path.join(d, "meta.json")))
    props = sys.argv[2:] or meta.get("checks", [meta["property"]])
    patch = os.path.join(d, "patch.diff")
    st = subprocess.run(["git", "-C", "/repo", "status", "--porcelain", "--untracked-files=no"],
                        capture_output=True, text=True).stdout.strip()
    if st:
        print("refusing: /repo has local modifications:\n" + st)
        return 2
    rc = subprocess.call(["git", "-C", "/repo", "apply", patch])
    if rc != 0:
        print("patch does not apply")
        return 2
    results = {}
    try:
        for p in props:
            t0 = time.time()
            r = subprocess.run([sys.executable, os.path.join(VERIF, "tools", "check.py"), p, "--tier", "quick"],
                               capture_output=True, text=True, cwd=VERIF)
            viol = [l for l in r.stdout.splitlines() if l.startswith("VIOLATION")]
            results[p] = {"exit": r.returncode, "violations": len(viol), "first": viol[:3],
                          "summary": [l for l in r.stdout.splitlines() if l.startswith("[")][-1:],
                          "wall_s": round(time.time() - t0, 1)}
            # keep one replay as illustration
            if viol:
                rp = viol[0].split("replay=")[1].split()[0]
                try:
                    obj = json.load(open(rp))
                    results[p]["replay_excerpt"] = json.dumps(obj)[:1500]
                except Exception:
                    pass
            print(p, results[p]["exit"], results[p]["violations"], results[p]["summary"])
    finally:
        subprocess.call(["git", "-C", "/repo", "checkout", "--", "."])
    json.dump({"seed": sid, "results": results, "at_repo_commit": subprocess.run(
        ["git", "-C", "/repo", "rev-parse", "--short", "HEAD"], capture_output=True, text=True).stdout.strip()},
        open(os.path.join(d, "result.json"), "w"), indent=1)
    return 0


if __name__ == "__main__":
    sys.exit(main())
