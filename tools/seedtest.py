#!/usr/bin/env python3
"""seedtest.py <seed-id> [<property> ...] [--tier T]

Runs the checks of the given properties (default: those in meta.json) against a scratch
worktree of /repo with /verif/seeded/<seed-id>/patch.diff applied, and records which
checks raised a violation in /verif/seeded/<seed-id>/result.json.  /repo itself is never
touched (the checks are pointed at the worktree through VERIF_REPO; evidence and replays of
such runs go to the scratch cache, not to /verif/evidence).  The worktree and its build
output are removed afterwards."""
import json
import os
import shutil
import subprocess
import sys
import time

VERIF = os.path.dirname(os.path.dirname(os.path.abspath(__file__)))


def main():
    args = [a for a in sys.argv[1:]]
    tier = "quick"
    if "--tier" in args:
        i = args.index("--tier")
        tier = args[i + 1]
        del args[i:i + 2]
    sid = args[0]
    d = os.path.join(VERIF, "seeded", sid)
    meta = json.load(open(os.path.join(d, "meta.json")))
    props = args[1:] or meta.get("checks", [meta["property"]])
    patch = os.path.join(d, "patch.diff")
    wt = f"/tmp/seedrun_{sid}"
    cache = f"/tmp/seedcache_{sid}"
    subprocess.call(["git", "-C", "/repo", "worktree", "remove", "--force", wt], stderr=subprocess.DEVNULL)
    shutil.rmtree(wt, ignore_errors=True)
    shutil.rmtree(cache, ignore_errors=True)
    subprocess.check_call(["git", "-C", "/repo", "worktree", "add", "--detach", wt, "HEAD"],
                          stdout=subprocess.DEVNULL, stderr=subprocess.DEVNULL)
    results = {}
    try:
        rc = subprocess.call(["git", "-C", wt, "apply", patch])
        if rc != 0:
            print("patch does not apply")
            return 2
        env = dict(os.environ, VERIF_REPO=wt, VERIF_CACHE=cache)
        for p in props:
            t0 = time.time()
            r = subprocess.run([sys.executable, os.path.join(VERIF, "tools", "check.py"), p, "--tier", tier],
                               capture_output=True, text=True, cwd=VERIF, env=env)
            viol = [l for l in r.stdout.splitlines() if l.startswith("VIOLATION")]
            results[p] = {"exit": r.returncode, "violations": len(viol), "first": viol[:3],
                          "summary": [l for l in r.stdout.splitlines() if l.startswith("[")][-1:],
                          "wall_s": round(time.time() - t0, 1)}
            if viol:
                rp = viol[0].split("replay=")[1].split()[0]
                try:
                    results[p]["replay_excerpt"] = json.dumps(json.load(open(rp)))[:1500]
                except Exception:
                    pass
            print(sid, p, "exit", results[p]["exit"], "violations", results[p]["violations"], results[p]["summary"], flush=True)
    finally:
        subprocess.call(["git", "-C", "/repo", "worktree", "remove", "--force", wt])
        shutil.rmtree(cache, ignore_errors=True)
    json.dump({"seed": sid, "tier": tier, "results": results, "at_repo_commit": subprocess.run(
        ["git", "-C", "/repo", "rev-parse", "--short", "HEAD"], capture_output=True, text=True).stdout.strip()},
        open(os.path.join(d, "result.json"), "w"), indent=1)
    return 0


if __name__ == "__main__":
    sys.exit(main())
