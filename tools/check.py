#!/usr/bin/env python3
"""check.py <property> [--tier quick|thorough] [--replay path]

Exit 0 = property held on everything explored; exit 1 + `VIOLATION property=<id>
replay=<path>` otherwise.  Rewrites evidence/<id>.json on every run."""
import argparse
import importlib
import os
import sys

sys.path.insert(0, os.path.dirname(os.path.abspath(__file__)))
sys.path.insert(0, os.path.join(os.path.dirname(os.path.abspath(__file__)), "props"))
import vlib


def main():
    ap = argparse.ArgumentParser()
    ap.add_argument("pid")
    ap.add_argument("--tier", default=os.environ.get("VERIF_TIER", "quick"))
    ap.add_argument("--replay")
    a = ap.parse_args()
    seed = int(os.environ.get("VERIF_SEED", "20260930"))
    tier = a.tier if a.tier in ("quick", "thorough") else "quick"
    mod = importlib.import_module(a.pid.lower())
    if a.replay:
        return mod.replay(a.replay) if hasattr(mod, "replay") else vlib.generic_replay(a.replay)
    chk = vlib.Check(a.pid, tier, seed)
    try:
        mod.run(chk)
    except Exception as ex:  # a crash of the machinery is reported, never swallowed
        import traceback
        chk.broken_obligation("machinery", "check crashed: " + traceback.format_exc())
    return chk.finish()


if __name__ == "__main__":
    sys.exit(main())
