#!/bin/bash
# confirm_seed.sh <worktree> <demo-test-filter-or-file>
# Confirms a seeded change in a scratch worktree: with the change the existing suite passes
# (known failures aside) and the demo fails; without the change the demo passes.
wt=$1; kind=$2   # kind: "integration" (tests/seed_demo.rs) or "unit:<filter>"
feat=${SEED_FEATURES:+--features $SEED_FEATURES}   # e.g. SEED_FEATURES=sync for a demo gated on a cargo feature
export CARGO_NET_OFFLINE=true CARGO_TARGET_DIR=$wt/target
cd $wt || exit 2
run_demo() {
  if [ "$kind" = "integration" ]; then cargo test --offline $feat --test seed_demo 2>&1 | tail -3
  else cargo test --offline --lib "${kind#unit:}" 2>&1 | tail -3; fi
}
echo "== with change: existing suite"
if [ "$kind" = "integration" ]; then
  cargo test --offline --lib 2>&1 | grep -E "^test result|FAILED|failed" | head -5
else
  cargo test --offline --lib -- --skip "${kind#unit:}" 2>&1 | grep -E "^test result|FAILED|failed" | head -5
fi
for t in decode difficulty performance; do cargo test --offline --test $t 2>&1 | grep -E "^test result|^test .* FAILED" | head -4; done
echo "== with change: demo"; run_demo
echo "== without change: demo"
git apply -R patch.diff && run_demo; git apply patch.diff
rm -rf $wt/target
