"""C19: conversions of osu!standard maps — structural invariants (direct oracle) and the
Coq models of target_columns / ManiaObject::column."""
from vlib import *

HEADER = """From Coq Require Import ZArith NArith List Floats.
From V Require Import F64 F32 ManiaCols.
Import ListNotations.
Open Scope Z_scope.
"""
TARGETS = {1: "taiko", 2: "catch", 3: "mania"}


def run(chk, binary, count, max_objects):
    rc, out, err, dt = harness_run(binary, ["conv", chk.seed, count, max_objects], timeout=3000)
    if rc != 0:
        chk.violation("harness conv crashed", {"stderr": err[-3000:], "cmd": f"vh conv {chk.seed} {count} {max_objects}"})
        return
    rows = jsonl(out)
    tcases, ccases = [], []
    for r in rows:
        if "grid" in r:
            for t, x, c in r["grid"]:
                ccases.append((len(ccases), t, x, c))
            continue
        if "skip" in r:
            continue
        chk.count([r["map"], r["target"], r["mods"]], r["n_objects"] >= 2)
        chk.dist(f"conv.target={TARGETS[r['target']]}")
        chk.dist("conv.version=" + ("<8" if r["version"] < 8 else ">=8"))
        chk.dist(f"conv.shape={r['shape']}")
        if r["target"] == 3:
            chk.dist(f"conv.mods={r['mods']}")
        if "panic" in r:
            chk.violation(f"conversion to {TARGETS[r['target']]} panicked: {r['panic']}",
                          {"map": r["map"], "mods": r["mods"], "replay": f"vh conv {chk.seed} {count} {max_objects} (case id {r['id']})"})
        for f in r.get("fails", []):
            chk.violation(f"{TARGETS[r['target']]} convert ({r['mods']}): {f}",
                          {"map": r["map"], "mods": r["mods"], "target": TARGETS[r["target"]],
                           "replay": f"vh conv {chk.seed} {count} {max_objects} (case id {r['id']})"})
        m = r.get("mania")
        if m:
            tcases.append((len(tcases), m["keys"], m["rounded_cs"], m["rounded_od"], m["n_ss"], m["len"], m["columns"], r))
            for t, x, c in m["cols"][:6]:
                ccases.append((len(ccases), t, x, c))
    if tcases:
        t = tcases[0]
        chk.sample({"model": "ManiaCols.target_columns", "keys": t[1], "n_slider_spinner": t[4], "len": t[5], "columns": t[6]})
    body1 = ("Definition cases := [\n  " + ";\n  ".join(f"({i}%N, {z(k)}, {cs}, {od}, {n}, {ln}, {w})" for i, k, cs, od, n, ln, w, _ in tcases)
             + "].\nEval vm_compute in target_bad cases.")
    body2 = ("Definition cases := [\n  " + ";\n  ".join(f"({i}%N, {t}, {x}, {c})" for i, t, x, c in ccases)
             + "].\nEval vm_compute in column_bad cases.")
    res = coq_eval(f"{chk.pid}-conv", [body1, body2], HEADER)
    for k, (o, e) in enumerate(res):
        if e is not None:
            chk.broken_obligation("correspondence", "coqc failed on conversion cases: " + e)
            continue
        bad = parse_eval_list(o)
        if bad is None:
            chk.broken_obligation("correspondence", "unparsable coqc output: " + o[-800:])
            continue
        for cid, _ in bad:
            chk.cov["correspondence_mismatches"] += 1
            if k == 0:
                t = tcases[cid]
                chk.broken_obligation("correspondence", "ManiaCols.target_columns and the converted map's key count differ",
                                      {"keys": t[1], "rounded_cs_word": t[2], "rounded_od_word": t[3], "n_slider_spinner": t[4],
                                       "len": t[5], "columns": t[6], "map": t[7]["map"], "mods": t[7]["mods"]})
            else:
                chk.broken_obligation("correspondence", "ManiaCols.column and ManiaObject::column differ",
                                      {"total_columns_word": ccases[cid][1], "x_word": ccases[cid][2], "column": ccases[cid][3]})
    chk.cov.setdefault("traces_validated_against_model", 0)
    chk.cov["traces_validated_against_model"] += len(tcases) + len(ccases)
