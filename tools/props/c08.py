"""C08 — results do not depend on how equivalent settings are expressed."""
from vlib import *
import m_eqv


def run(chk):
    quick = chk.tier == "quick"
    chk.coq_obligations()
    binary, blog = harness_build()
    if binary is None:
        chk.broken_obligation("build", "harness does not build against /repo: " + blog)
        return
    m_eqv.run(chk, binary, "c08", 500 if quick else 8000, 30 if quick else 80)
    chk.cov["rule"] = ("maps x mode x legacy-representable mod selections (NF EZ TD HD HR DT NC HT FL SO RX AP, mania key mods, "
                       "mirror) x score specification; compared bitwise on difficulty, strains and performance: u32 bits vs "
                       "GameModsLegacy vs GameModsIntermode (owned, borrowed) vs lazer GameMods with default settings; lazer "
                       "DT/HT/NC/DC with speed_change r vs the legacy mod + clock_rate(r); lazer DifficultyAdjust vs "
                       "Difficulty::ar/cs/hp/od(v,false); non-trivial = at least 2 objects")
    chk.cov["trusted_base"] = [
        "Coq 8.16.1 kernel + vm_compute",
        "tools/extract.py (translator): the impl_has_mod!/impl_map_attr! tables and macro arms, the three mania_keys chains "
        "and the clock_rate arms of src/model/mods.rs are regenerated from source on every run",
        "Model/ModsRepr.v: a selection is a predicate on mod names; the correspondence between legacy bits, intermode and "
        "lazer variants is rosu-mods' (trusted, exercised by the direct oracle)",
        "harness/src/eqv.rs, tools/m_eqv.py"]
