"""C06 — decoding is total and always yields a well-formed beatmap."""
from vlib import *
import m_sort
import m_dec


def run(chk):
    quick = chk.tier == "quick"
    chk.coq_obligations()
    binary, blog = harness_build()
    if binary is None:
        chk.broken_obligation("build", "harness does not build against /repo: " + blog)
        return
    m_dec.run(chk, binary, 800 if quick else 12000, 500 if quick else 8000, 4000 if quick else 60000)
    m_sort.run(chk, binary, 300 if quick else 6000)
    chk.cov["rule"] = ("timing cases: 0-8 timing lines (uninherited / inherited, NaN beat lengths, times 0, -0, equal, "
                       "decreasing, within EPSILON) in all four modes, decoded control points vs the Coq model word for word; "
                       "object cases: up to 13 object lines with ties, negative and -0 times and distinct sounds, decoded order vs "
                       "the Coq tandem-sort model; byte cases: valid generated maps, line-level corruptions of generated and "
                       "shipped maps (duplicate/delete/swap/truncate lines, parser-limit numbers, NaN/inf tokens, section "
                       "headers), byte noise, UTF-8 BOM, UTF-16 LE/BE: no panic, only io errors, invariants on every decoded "
                       "map, from_bytes = from_str (= from_path for every 8th case); non-trivial = at least 2 lines / 1 object")
    chk.cov["trusted_base"] = [
        "Coq 8.16.1 kernel + vm_compute incl. primitive floats",
        "Model/Decode.v hand-written after src/model/beatmap/decode.rs, src/model/control_point/*.rs, "
        "src/util/sort/tandem.rs; tied word for word on every run",
        "NOT modelled: the line tokenisers, rosu-map's number parsers and reader (encodings), slider path parsing, the mania "
        "legacy sort — for those 'never panics / only I/O errors / finite fields' is decided by the byte-level oracle only",
        "harness/src/dec.rs, tools/m_dec.py"]
    chk.assumptions += ["control points are strictly ordered under f64::total_cmp by theorem; strictness under IEEE `<` "
                        "(no -0.0/0.0 pair) is checked by the direct oracle"]
