"""C20 — concurrent use is interference-free."""
from vlib import *
import m_feat


def run(chk):
    quick = chk.tier == "quick"
    chk.coq_obligations()
    m_feat.run_threads(chk, 60 if quick else 200, 25 if quick else 50, 2 if quick else 12)
    chk.cov["rule"] = ("a job list (map x mode/convert x settings, two thirds of the taiko/mania jobs with lazer Random seeds from a "
                       "pool of 6) evaluated sequentially and on scoped thread pools of 2, 4, 8, 16 and 3 threads with shuffled "
                       "assignment, sharing the maps by reference; in the 'dup' pools every thread evaluates every job, so the "
                       "same map and settings are calculated at the same time; default and sync builds; with sync the gradual "
                       "calculator is moved to a fresh thread for every step and compared with the single-thread sequence; "
                       "non-trivial = at least 2 objects")
    chk.cov["trusted_base"] = [
        "Coq 8.16.1 kernel + vm_compute",
        "Model/Interleave.v: calculations as deterministic steppers over private state; justified for the code by the effect "
        "inventory regenerated from source (tools/extract.py) — the OS scheduler, memory ordering and std's Arc/RwLock are "
        "outside the model and only exercised by the threaded oracle",
        "compile-time Send/Sync assertions in harness/src/conc.rs",
        "harness/src/conc.rs, tools/m_feat.py"]
    chk.assumptions += ["the threaded oracle samples OS schedules; it cannot enumerate them (partial)"]
