"""C10 — cargo features raw_strains and sync never change any result."""
from vlib import *
import m_feat
import m_sv


def run(chk):
    quick = chk.tier == "quick"
    chk.coq_obligations()
    m_feat.run_features(chk, 300 if quick else 4000, 30 if quick else 80)
    # the compact list against its model under both strain-list builds (raw_strains swaps the type)
    for fs in ((), ("raw_strains",)):
        b, blog = harness_build(features=fs)
        if b is None:
            chk.broken_obligation("build", "harness does not build: " + blog)
            return
        if not fs:
            m_sv.run(chk, b, 150 if quick else 2000, "default")
    chk.cov["rule"] = ("the same seeded workload (maps incl. 40% with breaks of 30 s - 20 min, all modes, native and converted, "
                       "settings, passed_objects prefixes, score specifications: difficulty, strains (length, zero and subnormal "
                       "counts, value hash), performance, both gradual calculators) run by four separately built harness "
                       "binaries (default, raw_strains, sync, both) and compared with -0.0 = 0.0 and NaN = NaN; plus the compact "
                       "strain list against its Coq model; non-trivial = at least 2 objects")
    chk.cov["trusted_base"] = [
        "Coq 8.16.1 kernel + vm_compute",
        "Model/StrainsVec.v (compact and raw variants) tied to src/util/strains_vec.rs by the op-sequence differential",
        "Model/Interleave.v cell state machines: hand-written abstraction of Rc<RefCell>/Arc<RwLock>; std's implementations trusted",
        "tools/extract.py: cfg(feature) sites regenerated from source",
        "`sum` may differ in the sign of a zero result between the two strain-list variants (std's float Sum starts at -0.0 and "
        "the compact list skips zeros); results are therefore compared numerically, as the property states",
        "harness/src/feat.rs, tools/m_feat.py"]
