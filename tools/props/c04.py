"""C04 — reusing computed attributes gives the same performance as using the map."""
from vlib import *
import m_eqv


def run(chk):
    quick = chk.tier == "quick"
    chk.coq_obligations()
    binary, blog = harness_build()
    if binary is None:
        chk.broken_obligation("build", "harness does not build against /repo: " + blog)
        return
    m_eqv.run(chk, binary, "c04", 600 if quick else 8000, 30 if quick else 80)
    chk.cov["rule"] = ("maps x mode (native and converted) x settings incl. passed_objects x score specifications (state, or "
                       "any subset of accuracy/combo/misses/n300/n100/n50/n_geki/n_katu/tick and slider-end hits/priority, "
                       "values up to beyond the object count); compared bitwise with Performance::new(&map): map by value, "
                       "difficulty attrs, performance attrs, attrs.performance(), map.performance(), the mode builders from "
                       "map/attrs/perf attrs, try_mode from the osu! map, calculate after generate_state; embedded difficulty "
                       "attributes vs the one-shot difficulty; non-trivial = at least 2 objects")
    chk.cov["trusted_base"] = [
        "Coq 8.16.1 kernel + vm_compute",
        "tools/extract.py (translator): the Map arm of generate_state/calculate of the four builders, the IntoPerformance "
        "arms and the MapOrAttrs payloads are regenerated from source on every run",
        "Model/AttrsPath.v: difficulty calculation, state generation and the pp formula are oracles shared by both paths",
        "harness/src/eqv.rs, tools/m_eqv.py"]
