"""C09 — stars, pp and all reported attributes are finite and non-negative."""
from vlib import *
import m_fin


def run(chk):
    quick = chk.tier == "quick"
    chk.coq_obligations()
    binary, blog = harness_build()
    if binary is None:
        chk.broken_obligation("build", "harness does not build against /repo: " + blog)
        return
    m_fin.run(chk, binary, 500 if quick else 8000, 30 if quick else 100)
    chk.cov["rule"] = ("maps with two thirds degenerate shapes (empty, 1-3 objects, all spinners, fully stacked, extremely dense, "
                       "sparse with 30 s - 20 min gaps, spinner first) and one third ordinary ones, all modes and conversions, "
                       "mods, clock rates in [0.5, 2], AR/CS/OD/HP overrides in [0, 11]; every passed_objects prefix (all for <= 12 "
                       "objects, 7 representative ones above) x 3 score states consistent with the object counts + an "
                       "accuracy/misses specification + the zero state; every f64 field of difficulty, strain and performance "
                       "attributes must be finite, ratings/pp/components/peaks non-negative, accuracy in [0,1], zero hits = 0 pp; "
                       "accuracies also compared with the exact model; non-trivial = every decoded case")
    chk.cov["trusted_base"] = [
        "Coq 8.16.1 kernel + vm_compute",
        "Model/Accuracy.v: exact accuracy fractions, tied to ScoreState::accuracy within 1e-12 on every recorded state",
        "finiteness of expressions through pow/ln/erf/sqrt (skill evaluators, pp formulas) is NOT provable with the installed "
        "tooling (no bit-exact libm in Coq): decided by the scan only",
        "harness/src/fin.rs, tools/m_fin.py"]
