"""C18 — builder settings mean the same thing wherever they are set."""
from vlib import *
import m_eqv


def run(chk):
    quick = chk.tier == "quick"
    chk.coq_obligations()
    binary, blog = harness_build()
    if binary is None:
        chk.broken_obligation("build", "harness does not build against /repo: " + blog)
        return
    m_eqv.run(chk, binary, "c18", 600 if quick else 8000, 30 if quick else 80)
    chk.cov["rule"] = ("maps (G1+G2) x mode x 1-7 random setter calls (mods, passed_objects, clock_rate incl. 0/-1/inf/1000, "
                       "ar/cs/hp/od incl. +-25/+-inf with both flags, hardrock_offsets, lazer) x score specification; compared: "
                       "Performance setters vs Performance::difficulty(Difficulty setters) (generic and mode builders), inspect "
                       "round trip (Debug and results), clamps, last-call-wins, shuffled independent setters, setters documented "
                       "as irrelevant for the mode vs not calling them; non-trivial = at least 2 objects")
    chk.cov["trusted_base"] = [
        "Coq 8.16.1 kernel + vm_compute incl. primitive binary64 comparisons",
        "tools/extract.py (translator): Generated/Tables.v is regenerated from src/any/performance/mod.rs, "
        "src/*/performance/mod.rs, src/any/difficulty/{mod,inspect}.rs on every run",
        "Model/Builder.v: Difficulty as a record, f32 overrides embedded in binary64, NaN payloads not distinguished",
        "harness/src/eqv.rs, tools/m_eqv.py"]
    chk.assumptions += ["what a mode's calculation reads from Difficulty is not modelled: that documented-irrelevant "
                        "Difficulty fields do not influence a mode's result is decided by the direct oracle only"]
