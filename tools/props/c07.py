"""C07 — mode dispatch and map conversion are mutually consistent."""
from vlib import *
import m_eqv
import m_grad


def classify(r, f):
    # gradual taiko values on maps of the recorded taiko classes are compared between two
    # constructors only; they never alarm here.  Nothing is classified as known.
    return None


def run(chk):
    quick = chk.tier == "quick"
    chk.coq_obligations()
    binary, blog = harness_build()
    if binary is None:
        chk.broken_obligation("build", "harness does not build against /repo: " + blog)
        return
    m_eqv.run(chk, binary, "c07", 600 if quick else 8000, 30 if quick else 80, classify)
    chk.cov["rule"] = ("maps of all four native modes (G1+G2), a quarter of the osu! maps converted once beforehand, x target "
                       "mode x settings (mania key mods, lazer HoldOff/Invert/Random seeds); compared: convert / convert_ref / "
                       "convert_mut (maps by Debug hash, errors by Debug), the specification (identity, AlreadyConverted, "
                       "Convert{from,to}, flagged convert), calculate_for_mode / strains_for_mode / GradualDifficulty::"
                       "new_with_mode / Performance::try_mode / mode_or_ignore (borrowed and owned) on the original map vs the "
                       "calculation on the explicitly converted map; non-trivial = at least 2 objects")
    chk.cov["trusted_base"] = [
        "Coq 8.16.1 kernel + vm_compute",
        "tools/extract.py (translator): decision trees of convert_ref/convert_mut, convert's delegation, the converters' "
        "mode/is_convert assignments and the first conversion call of the 12 mode entry points are regenerated from source",
        "Model/Convert.v: a map is (mode, is_convert, opaque payload); the converters' effect on the payload is an oracle",
        "harness/src/eqv.rs, tools/m_eqv.py"]
