"""C03 — gradual performance equals performance of the partial play."""
from vlib import *
import m_gperf


def run(chk):
    quick = chk.tier == "quick"
    chk.coq_obligations()
    binary, blog = harness_build()
    if binary is None:
        chk.broken_obligation("build", "harness does not build against /repo: " + blog)
        return
    m_gperf.run(chk, binary, 300 if quick else 3000, 30 if quick else 100)
    chk.cov["rule"] = ("structured .osu maps (G1) and mutated shipped maps (G2), native and converted, x G5 settings "
                       "(mods in five representations, clock rate, overrides, lazer flag) x 4 score states per map "
                       "(perfect prefix, zero, arbitrary/inconsistent) x 3 op sequences over next/nth(k)/last "
                       "(k in {0,1,small,total,beyond,usize::MAX}); every Some compared bitwise with the one-shot "
                       "Performance with passed_objects(reference position) and the same state; "
                       "non-trivial = at least 2 countable objects; distinct by (map, settings, mode, states)")
    chk.cov["trusted_base"] = [
        "Coq 8.16.1 kernel + vm_compute",
        "Model/GradPerf.v hand-written after the four performance/gradual.rs; the performance calculation is a "
        "Section variable (oracle) applied to (attributes, passed_objects, state), the same function in both paths",
        "Model/Gradual.v (gradual difficulty machine) and the hook views it is fed from",
        "tools/m_gperf.py, harness/src/gperf.rs"]
    chk.assumptions += ["the Difficulty handed to the gradual constructor carries no passed_objects",
                        "performance on previously computed attributes equals performance on the map (C04), "
                        "checked here only through the bitwise comparison"]
