"""C17 — the attribute builder is self-consistent and matches what calculators use."""
from vlib import *
import m_attrs


def run(chk):
    quick = chk.tier == "quick"
    chk.coq_obligations()
    binary, blog = harness_build()
    if binary is None:
        chk.broken_obligation("build", "harness does not build against /repo: " + blog)
        return
    m_attrs.run(chk, binary, 1500 if quick else 20000, 200 if quick else 3000)
    chk.cov["rule"] = ("builder cases: 4 modes x convert flag x map values and overrides (values in [0,10], a third in [-20,20], "
                       "both with_mods settings) x HR/EZ x DT/HT/NC x lazer DifficultyAdjust x explicit clock rates {0.01, 100, "
                       "[0.3,3]} x builder setters vs Difficulty path; every case: build()/hit_windows() bit-exact against the Coq "
                       "float model, the exact twin within 1e-6 of the float model, and the direct oracles (self-consistency, "
                       "round trip, monotone over a 21-point sweep, clock scaling, HR/EZ ordering); calc cases: AR/OD/HP/hit "
                       "windows of real osu!/taiko/catch difficulty attributes vs the builder for the same map and settings; "
                       "non-trivial = any override or mod")
    chk.cov["trusted_base"] = [
        "Coq 8.16.1 kernel + vm_compute incl. primitive binary64 floats; SpecFloat.binary_round for binary32 rounding",
        "Lib/F32.v: binary32 operations as binary64 operations rounded to binary32 (double rounding innocuous for + - * /)",
        "Model/Attributes.v hand-written after src/model/beatmap/attributes.rs; tied bit-for-bit on every run",
        "Model/AttributesQ.v: exact twin, validated numerically against the float model inside Coq (not proved equal)",
        "tools/m_attrs.py, harness/src/attrs.rs"]
    chk.assumptions += ["monotonicity, round trip, clock scaling and HR/EZ ordering are theorems about the exact twin; on the "
                        "floats they are checked by the direct oracle with a 1e-9 relative allowance",
                        "mania's hit window (floor/ceil, rate-compensated) is modelled bit-exactly but excluded from the "
                        "monotonicity/scaling theorems"]
