"""C02 — gradual difficulty equals difficulty of the played prefix."""
from vlib import *
import m_grad


def run(chk):
    quick = chk.tier == "quick"
    chk.coq_obligations()
    binary, blog = harness_build()
    if binary is None:
        chk.broken_obligation("build", "harness does not build against /repo: " + blog)
        return
    m_grad.run(chk, binary, 320 if quick else 3000, 40 if quick else 120, [m_grad.oracle_c02])
    chk.cov["rule"] = ("structured .osu maps (G1: 11 shapes x 4 modes x versions 3-14) and mutated shipped maps (G2), "
                       "native and converted, x G5 settings; every prefix compared bitwise gradual vs one-shot; "
                       "non-trivial = at least 2 countable objects; distinct by (map text, settings, mode)")
    chk.cov["trusted_base"] = TB
    chk.assumptions += ASSUME


TB = ["Coq 8.16.1 kernel + vm_compute",
      "Model/Gradual.v hand-written after the four gradual.rs / difficulty/mod.rs; skill evaluation is a Section variable (oracle)",
      "abstract object views from the cfg(rosu_pp_verif) hooks (osu object summary, catch record events, mania spans, taiko hit flags)",
      "tools/m_grad.py, harness/src/grad.rs"]
ASSUME = ["the Difficulty handed to a gradual constructor carries no passed_objects",
          "skill process functions only depend on the difficulty objects (same objects in both paths; checked bitwise on the implementation)"]
