"""C05 — no panic, abort or hang on any decodable map that is not suspicious."""
from vlib import *
import m_nop


def run(chk):
    quick = chk.tier == "quick"
    chk.coq_obligations()
    binary, blog = harness_build()
    if binary is None:
        chk.broken_obligation("build", "harness does not build against /repo: " + blog)
        return
    debug, dlog = harness_build(profile="debug")
    if debug is None:
        chk.broken_obligation("build", "harness does not build in the debug profile: " + dlog)
        return
    m_nop.run_banana(chk, binary, 300 if quick else 3000)
    m_nop.run(chk, binary, 400 if quick else 10000, 200 if quick else 5000, debug, 120 if quick else 3000)
    chk.cov["rule"] = ("adversarial domain (release): generated maps with unbounded-but-legal sliders, line/byte-level "
                       "corruptions of generated and shipped maps (parser-limit numbers, NaN/inf tokens, shuffled/duplicated/"
                       "truncated lines), single objects at the parser's time limits; kept when the text decodes, passes "
                       "check_suspicion, has <= 300 objects, <= 100 repeats and <= 20000 px per slider and <= 200k predicted "
                       "nested objects in total; realistic domain (release and debug with overflow checks and debug assertions): "
                       "generated maps with times in [0, 3h]; every case in a child process under a 60 s watchdog and a 4 GiB "
                       "address-space limit; non-trivial = the case was inside the domain and all calculations ran")
    chk.cov["trusted_base"] = [
        "Coq 8.16.1 kernel + vm_compute; Lib/F32.v",
        "Model/Banana.v tied to BananaShower::new through the cfg(rosu_pp_verif) hook on a grid incl. the parser's time limits",
        "panics, aborts and hangs inside slider geometry (rosu-map), skill evaluators, pp formulas and the allocator are NOT "
        "modelled: for those the isolated-worker run is the only evidence",
        "harness/src/nop.rs, tools/m_nop.py (watchdog, RLIMIT_AS)"]
    chk.assumptions += ["'small time and memory budget' is read as: every case (20-90 public calls) finishes within 60 s and "
                        "4 GiB; the slowest case of the run is recorded in coverage.slowest_case_ms"]
