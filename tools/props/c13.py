"""C13 — accuracy-driven hit results are the closest achievable to the target."""
from vlib import *
import m_gs
from c12 import TB, ASSUME


def run(chk):
    quick = chk.tier == "quick"
    chk.coq_obligations()
    binary, blog = harness_build()
    if binary is None:
        chk.broken_obligation("build", "harness does not build against /repo: " + blog)
        return
    stride = 11 if quick else 1
    jobs = [["gs_exh", m, stride, chk.seed % stride] for m in range(4)]
    jobs += [["gs_rand", chk.seed, 3000 if quick else 30000]]
    rows = m_gs.run(chk, binary, jobs, [m_gs.oracle_c13])
    m_gs.twin_run(chk, rows)
    chk.cov["exhaustive"] = (stride == 1)
    chk.cov["rule"] = ("the property's small domain (osu: <=8 objects, <=3 sliders, <=2 ticks, 3 origins; taiko <=8; catch <=6 "
                       "fruits, <=3 droplets, <=6 tiny droplets; mania <=8 objects, <=3 holds, classic/lazer) x every miss "
                       "count x 23 target accuracies x both priorities" + (" enumerated completely" if stride == 1 else
                                                                          f" (every {stride}th case in the quick tier)") +
                       ", brute force over all distributions with exact rationals (tolerance 1e-12); plus sampled large "
                       "shapes; non-trivial = at least 2 objects")
    chk.cov["trusted_base"] = TB
    chk.assumptions += ASSUME
