"""C11 — unsafe code never performs an invalid memory access."""
from vlib import *
import m_sv


def run(chk):
    quick = chk.tier == "quick"
    chk.coq_obligations()
    binary, blog = harness_build()
    if binary is None:
        chk.broken_obligation("build", "harness does not build against /repo: " + blog)
        return
    m_sv.run(chk, binary, 400 if quick else 6000, "default")
    # decoder scratch buffer, observable side: rejected slider lines leave nothing behind
    rc, out, err, dt = harness_run(binary, ["psplit", chk.seed, 600 if quick else 20000], timeout=1200)
    if rc != 0:
        chk.violation("harness psplit crashed", {"stderr": err[-2000:]})
    else:
        for r in jsonl(out):
            chk.count(["psplit", r["id"], r["curves"]], r["n_malformed"] >= 1)
            chk.dist(f"psplit.malformed_lines={min(r['n_malformed'], 4)}")
            if not r["equal"]:
                chk.violation("hit objects differ when rejected slider lines are inserted between valid lines "
                              "(the curve-point scratch buffer leaks across a line boundary)",
                              {"text": r["text"], "rejected_curves": r["curves"],
                               "without_them": r.get("clean", "")[:1500], "with_them": r.get("dirty", "")[:1500],
                               "replay": f"vh psplit {chk.seed} (case id {r['id']}); decode `text` and the same text without the rejected lines"})
    # Miri over every unsafe block through the public API (moves, boxes, swaps, drops mid-way,
    # malformed curve lists): Stacked Borrows on every run, Tree Borrows as well in the thorough tier
    for name, flags in ([("stacked-borrows", "")] if quick else [("stacked-borrows", ""), ("tree-borrows", "-Zmiri-tree-borrows")]):
        ok, text = miri_run(flags)
        chk.dist(f"miri.{name}={'ok' if ok else 'UB-or-failure'}")
        chk.cov["evaluations"] = chk.cov.get("evaluations", 0) + 1
        if not ok:
            lines = [l for l in text.splitlines() if not l.lstrip().startswith(("Compiling", "Finished", "Running"))]
            chk.violation(f"Miri ({name}) rejects a history of public API calls: " + next((l for l in lines if "error" in l), "no miri-ok line"),
                          {"replay": f"cd /verif/miri && MIRIFLAGS='{flags}' cargo +nightly miri run --offline",
                           "program": "/verif/miri/src/main.rs", "miri_output": "\n".join(lines)[:6000]})
    chk.cov["rule"] = ("op sequences over {push(any 64-bit word), retain, sort, retain_sort} from a corner pool "
                       "(zeros, -0, subnormals, +-inf, +-NaN) and random words; non-trivial = at least two pushes "
                       "and at least one zero-like push or structural op; distinct by op list")
    chk.cov["trusted_base"] = [
        "Coq 8.16.1 kernel + vm_compute (primitive floats for sum/difficulty_value only)",
        "hand-written model Model/StrainsVec.v tied to src/util/strains_vec.rs by bit-exact op-sequence differential",
        "rustc layout of Vec<StrainsEntry> vs Vec<f64> (the transmute) is trusted",
        "tools/m_sv.py (trace -> Coq literals), harness/src/sv.rs",
        "Model/Owner.v is a hand-written heap/ownership/tag model of the three lifetime-extending sites; it is tied to the source by the translator's lifetime_facts (tools/extract.py parse_lifetimes, regex-level) and supported by Miri runs of /verif/miri (nightly Miri, Stacked + Tree Borrows) — Miri samples histories, the theorem covers all of them within the model",
    ]
    chk.assumptions += [
        "len < 2^63 (usize on 64-bit, bounded by memory)",
        "sort_desc is only called while no zero is stored (its debug assertion); the only callers go through retain_non_zero_and_sort",
    ]
