"""C11 — unsafe code never performs an invalid memory access."""
from vlib import *
import m_sv


def run(chk):
    quick = chk.tier == "quick"
    chk.coq_obligations()
    binary, blog = harness_build()
    if binary is None:
        chk.broken_obligation("build", "harness does not build against /repo: " + blog)
        return
    m_sv.run(chk, binary, 400 if quick else 6000, "default")
    chk.cov["rule"] = ("op sequences over {push(any 64-bit word), retain, sort, retain_sort} from a corner pool "
                       "(zeros, -0, subnormals, +-inf, +-NaN) and random words; non-trivial = at least two pushes "
                       "and at least one zero-like push or structural op; distinct by op list")
    chk.cov["trusted_base"] = [
        "Coq 8.16.1 kernel + vm_compute (primitive floats for sum/difficulty_value only)",
        "hand-written model Model/StrainsVec.v tied to src/util/strains_vec.rs by bit-exact op-sequence differential",
        "rustc layout of Vec<StrainsEntry> vs Vec<f64> (the transmute) is trusted",
        "tools/m_sv.py (trace -> Coq literals), harness/src/sv.rs",
    ]
    chk.assumptions += [
        "len < 2^63 (usize on 64-bit, bounded by memory)",
        "sort_desc is only called while no zero is stored (its debug assertion); the only callers go through retain_non_zero_and_sort",
    ]
