"""C12 — generated score states are consistent, stable and what calculate() uses."""
from vlib import *
import m_gs

TB = ["Coq 8.16.1 kernel + vm_compute incl. primitive binary64 floats (float estimates of the accuracy-driven branches)",
      "Model/GenState.v hand-written after the osu/taiko/catch generate_state functions; mania's generate_state is not "
      "modelled yet (direct oracle only)",
      "tools/m_gs.py (trace -> Coq literals, python oracles), harness/src/gs.rs"]
ASSUME = ["accuracy is a number (not NaN); counts stay far below u32::MAX / 300 (no u32 overflow in release builds)"]


def run(chk):
    quick = chk.tier == "quick"
    chk.coq_obligations()
    binary, blog = harness_build()
    if binary is None:
        chk.broken_obligation("build", "harness does not build against /repo: " + blog)
        return
    jobs = [["gs_rand", chk.seed, 6000 if quick else 60000]]
    jobs += [["gs_exh", m, 23 if quick else 3, chk.seed % (23 if quick else 3)] for m in range(4)]
    m_gs.run(chk, binary, jobs, [m_gs.oracle_c12])
    chk.cov["rule"] = ("random attribute shapes (scales 3..3000, zero counts included) x every subset of provided results with "
                       "values inside / at / beyond the object count x accuracy given or not x priority x lazer/classic x "
                       "passed_objects, plus a stride of the exhaustive small domain; non-trivial = at least 2 objects; "
                       "distinct by full input")
    chk.cov["trusted_base"] = TB
    chk.assumptions += ASSUME
