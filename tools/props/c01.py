"""C01 — calculations are deterministic, pure functions of their inputs."""
from vlib import *
import m_det


def run(chk):
    quick = chk.tier == "quick"
    chk.coq_obligations()
    binary, blog = harness_build()
    if binary is None:
        chk.broken_obligation("build", "harness does not build against /repo: " + blog)
        return
    m_det.run_bpm(chk, binary, 600 if quick else 10000)
    m_det.run_det(chk, binary, 300 if quick else 5000, 25 if quick else 60)
    chk.cov["rule"] = ("bpm: tie-heavy timing sections (equal durations, beat lengths that collide after rounding), 41 calls "
                       "per map incl. clones, result vs the Coq model; det: groups of 6 jobs (map x mode/convert x settings, half "
                       "of the taiko/mania jobs with lazer Random/HoldOff/Invert) each evaluated 4 times in shuffled order, "
                       "alternating fresh and reused Difficulty values: decode, convert, bpm, difficulty, strains, performance, "
                       "both gradual calculators; map Debug-hash before/after every call; the whole workload twice in separate "
                       "processes; non-trivial = at least 2 objects / 2 timing points")
    chk.cov["trusted_base"] = [
        "Coq 8.16.1 kernel + vm_compute incl. primitive floats",
        "tools/extract.py: the inventory of ambient-effect sites is regenerated from every non-test source file on each run "
        "(regular expressions over comment-stripped source; a site spelled in a way the patterns miss is not seen)",
        "Model/Bpm.v hand-written after src/model/beatmap/bpm.rs, tied bit-for-bit on every run",
        "std::collections::HashMap iterates over a permutation of its entries",
        "harness/src/det.rs, tools/m_det.py"]
    chk.assumptions += ["purity of the unmodelled numerics (skills, pp, conversions) rests on the effect inventory and on the "
                        "repetition oracle, not on a model"]
