"""C16 — strain output is consistent with the star rating it explains."""
from vlib import *
import m_strains
import m_sv


def run(chk):
    quick = chk.tier == "quick"
    chk.coq_obligations()
    binary, blog = harness_build()
    if binary is None:
        chk.broken_obligation("build", "harness does not build against /repo: " + blog)
        return
    m_strains.run(chk, binary, 400 if quick else 4000, 40 if quick else 150,
                  budget=2_500_000 if quick else 40_000_000, per_item=120_000 if quick else 2_000_000)
    m_sv.run(chk, binary, 150 if quick else 2000, "default")
    chk.cov["rule"] = ("G1+G2 maps (long breaks and negative start times emphasised) x G5 settings x passed_objects prefixes; "
                       "catch/mania stars and the osu flashlight rating recomputed INSIDE Coq from the exported peaks "
                       "(bit-exact up to the sign of zero), section counts recomputed from the object times; peaks finite, "
                       "non-negative, equal lengths per mode; non-trivial = at least 2 objects")
    chk.cov["trusted_base"] = [
        "Coq 8.16.1 kernel + vm_compute incl. primitive binary64 floats (+ * / sqrt only)",
        "Model/Aggregate.v, Model/Sections.v, Model/StrainsVec.v hand-written; tied to the code by evaluating them on the real strains() output",
        "osu TouchDevice (powf) is excluded from the exact comparison",
        "tools/m_strains.py, harness/src/strains.rs"]
    chk.assumptions += ["object start times are below 2^31 ms (parser limit), so the section loop terminates within the computed fuel"]
