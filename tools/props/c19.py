"""C19 — converted maps are well-formed inputs of their target mode."""
from vlib import *
import m_sort
import m_conv
import m_rng
import m_tsplit


def crng_scan(chk):
    """thorough only: every distinct seeding of the .NET generator (2^31 tables) searched for a table that does not meet
    the strict invariant CInv; supports C19_csharp_seed_entries_partial, recorded in the evidence, never a violation by
    itself (no property forbids an entry equal to i32::MAX)."""
    import subprocess, tempfile, shutil, os
    d = tempfile.mkdtemp(prefix="crngscan")
    try:
        exe = os.path.join(d, "scan")
        c = subprocess.run(["rustc", "-O", os.path.join(VERIF, "tools", "crng_scan.rs"), "-o", exe],
                           capture_output=True, text=True, timeout=300)
        if c.returncode != 0:
            chk.dist("crng_scan.not_run")
            return
        r = subprocess.run([exe], capture_output=True, text=True, timeout=1800)
        first = r.stdout.splitlines()[0] if r.stdout else ""
        n = int(first.rsplit(":", 1)[1]) if ":" in first else -1
        chk.dist("crng_scan.seedings_searched", 2 ** 31)
        chk.dist("crng_scan.seedings_outside_strict_invariant", max(n, 0))
        if n > 0:
            chk.sample({"crng_scan": r.stdout.splitlines()[1:6]})
    except Exception as e:  # the search is supporting material only
        chk.dist("crng_scan.not_run")
    finally:
        shutil.rmtree(d, ignore_errors=True)


def run(chk):
    quick = chk.tier == "quick"
    chk.coq_obligations()
    binary, blog = harness_build()
    if binary is None:
        chk.broken_obligation("build", "harness does not build against /repo: " + blog)
        return
    m_conv.run(chk, binary, 2500 if quick else 40000, 40 if quick else 120)
    m_sort.run(chk, binary, 300 if quick else 6000)
    m_rng.run(chk, binary, 400 if quick else 8000)
    m_tsplit.run(chk, binary, 400 if quick else 8000)
    if not quick:
        crng_scan(chk)
    chk.cov["rule"] = ("osu!standard maps (G1: all shapes, format versions 3-14, all object mixes, slider lengths/repeats, hit "
                       "sound flags, timing setups; G2 mutations of the shipped map) x target taiko/catch/mania x key mods 1K-9K "
                       "(legacy bits), 10K (intermode), none; checked on every converted map: objects non-decreasing, "
                       "durations >= 0, taiko one sound per object and no hold notes, mania key count = key mod or within 4..7 "
                       "and every note in a column below it on the integer x grid, catch objects and control points untouched, "
                       "control points strictly ordered, mode/is_convert set; target_columns and column() vs the Coq model; "
                       "generator call sequences (seeds incl. 0, i32::MIN/MAX; gen/int/double/range/bool resp. next/next_max) vs the Coq "
                       "models; non-trivial = at least 2 objects")
    chk.cov["trusted_base"] = [
        "Coq 8.16.1 kernel + vm_compute incl. primitive floats; Lib/F32.v for the f32 steps",
        "Model/ManiaCols.v, Model/Decode.v hand-written; tied by the column/target_columns traces and the decoder traces",
        "Model/TaikoSplit.v (taiko slider splitting, bit-exact binary64) tied to the real conversion of generated osu! maps on "
        "every run; its inputs (velocity / beat length active at the slider) are read off the decoded map by the harness",
        "NOT modelled: which pattern the mania generators choose, slider path lengths — decided by the direct oracle only",
        "random columns: Model/Prng.v (both generators) tied to util/random/{osu,csharp}.rs by recorded call sequences on every "
        "run (hook re-exports OsuRandom / CsharpRandom); next_int_range is proved exact and in range for every generator state "
        "with Flocq (FloatAxioms, Reals axioms, classic, functional extensionality - standard library)",
        "harness/src/conv.rs, tools/m_conv.py"]
