"""C19 — converted maps are well-formed inputs of their target mode."""
from vlib import *
import m_sort
import m_conv


def run(chk):
    quick = chk.tier == "quick"
    chk.coq_obligations()
    binary, blog = harness_build()
    if binary is None:
        chk.broken_obligation("build", "harness does not build against /repo: " + blog)
        return
    m_conv.run(chk, binary, 2500 if quick else 40000, 40 if quick else 120)
    m_sort.run(chk, binary, 300 if quick else 6000)
    chk.cov["rule"] = ("osu!standard maps (G1: all shapes, format versions 3-14, all object mixes, slider lengths/repeats, hit "
                       "sound flags, timing setups; G2 mutations of the shipped map) x target taiko/catch/mania x key mods 1K-9K "
                       "(legacy bits), 10K (intermode), none; checked on every converted map: objects non-decreasing, "
                       "durations >= 0, taiko one sound per object and no hold notes, mania key count = key mod or within 4..7 "
                       "and every note in a column below it on the integer x grid, catch objects and control points untouched, "
                       "control points strictly ordered, mode/is_convert set; target_columns and column() vs the Coq model; "
                       "non-trivial = at least 2 objects")
    chk.cov["trusted_base"] = [
        "Coq 8.16.1 kernel + vm_compute incl. primitive floats; Lib/F32.v for the f32 steps",
        "Model/ManiaCols.v, Model/Decode.v hand-written; tied by the column/target_columns traces and the decoder traces",
        "NOT modelled: which pattern the mania generators choose, slider path lengths, the taiko hit-splitting arithmetic — "
        "decided by the direct oracle only",
        "random columns: only the end points of Random::next_int_range are proved in range (monotonicity in between assumed)",
        "harness/src/conv.rs, tools/m_conv.py"]
