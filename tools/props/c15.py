"""C15 — gradual calculators obey the iterator protocol."""
from vlib import *
import m_grad
import m_gperf
from c02 import TB, ASSUME


def run(chk):
    quick = chk.tier == "quick"
    chk.coq_obligations()
    binary, blog = harness_build()
    if binary is None:
        chk.broken_obligation("build", "harness does not build against /repo: " + blog)
        return
    m_grad.run(chk, binary, 320 if quick else 3000, 40 if quick else 120, [m_grad.oracle_c15])
    # the performance iterators' half of the protocol (nth/last process min(n+1, remaining), None iff
    # nothing remains; also for a Difficulty that already carries passed_objects)
    m_gperf.run(chk, binary, 300 if quick else 2000, 30 if quick else 100)
    chk.cov["rule"] = ("G1+G2 maps x G5 settings; per map plain iteration (len after every next, calls after exhaustion) "
                       "and 3 random op sequences over {next, nth(k), len} with k in {0,1,2,random,total-1,total,usize::MAX}, "
                       "each compared with a reference iterator over the one-shot values and with the Coq machine; "
                       "non-trivial = at least 2 countable objects; plus the gradual performance op sequences of C03 (next/nth/last)")
    chk.cov["trusted_base"] = TB
    chk.assumptions += ASSUME + ["std adaptors (skip, step_by, zip, collect) are defined from next/nth/size_hint"]
