"""C14 — reported object counts and max combo account for exactly the objects of the map."""
from vlib import *
import m_grad
from c02 import TB, ASSUME


def run(chk):
    quick = chk.tier == "quick"
    chk.coq_obligations()
    binary, blog = harness_build()
    if binary is None:
        chk.broken_obligation("build", "harness does not build against /repo: " + blog)
        return
    m_grad.run(chk, binary, 320 if quick else 3000, 40 if quick else 120, [m_grad.oracle_c14])
    chk.cov["rule"] = ("G1+G2 maps x G5 settings (HR/mirror reflections, key mods, lazer HoldOff/Invert/Random); for every n in "
                       "0..total+2 the one-shot counts are compared with an independent count over the hook view of the "
                       "converted objects and with the Coq one-shot model; monotone in n; n > total equals unlimited; "
                       "is_convert == (source mode is osu and target is not); non-trivial = at least 2 countable objects")
    chk.cov["trusted_base"] = TB
    chk.assumptions += ASSUME
