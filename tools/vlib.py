"""Common machinery for the per-property checks (see DESIGN.md §1, §7).

A check does three things:
  A  re-check the property's Coq obligations (Properties/<id>.v, full .vo build),
     with the `Print Assumptions` output compared against an allow-list;
  B  model-vs-implementation correspondence: the harness records traces of the real
     crate, they are turned into Coq literals and evaluated with vm_compute;
  C  direct evaluation of the property on the implementation (search for a failing input).
"""
import concurrent.futures
import hashlib
import json
import os
import re
import shutil
import subprocess
import sys
import time

VERIF = os.path.dirname(os.path.dirname(os.path.abspath(__file__)))
REPO = os.environ.get("VERIF_REPO", "/repo")
CACHE = os.environ.get("VERIF_CACHE", os.path.join(VERIF, ".cache"))
COQ = os.path.join(VERIF, "coq")
if REPO != "/repo":
    # development runs against a scratch repository (tools/seedtest.py) work on a private copy
    # of the Coq development, so the regenerated tables never leak into /verif/coq
    COQ = os.path.join(CACHE, "coq")
    if not os.path.exists(COQ):
        os.makedirs(CACHE, exist_ok=True)
        shutil.copytree(os.path.join(VERIF, "coq"), COQ, symlinks=True)
HARNESS = os.path.join(VERIF, "harness")
TARGET = os.path.join(CACHE, "target")
BIN = os.path.join(CACHE, "bin")
# evidence/ and replays/ live in /verif; a development run against a scratch repository
# (VERIF_REPO set, tools/seedtest.py) writes them next to its cache instead
OUT = VERIF if REPO == "/repo" else CACHE
GUARD = "rosu_pp_verif"
NCPU = min(16, os.cpu_count() or 4)

# Axioms that may appear under a property theorem (all declared by Coq's standard
# library; none by this development).  Kernel primitives (floats, 63-bit integers) are
# reported by Print Assumptions as well and are matched by prefix.
AXIOM_ALLOW = {
    "FloatAxioms.Prim2SF_valid", "FloatAxioms.SF2Prim_Prim2SF", "FloatAxioms.Prim2SF_SF2Prim",
    "FloatAxioms.Prim2SF_inj", "FloatAxioms.opp_spec", "FloatAxioms.abs_spec",
    "FloatAxioms.eqb_spec", "FloatAxioms.ltb_spec", "FloatAxioms.leb_spec",
    "FloatAxioms.compare_spec", "FloatAxioms.classify_spec", "FloatAxioms.mul_spec",
    "FloatAxioms.add_spec", "FloatAxioms.sub_spec", "FloatAxioms.div_spec",
    "FloatAxioms.sqrt_spec", "FloatAxioms.of_uint63_spec", "FloatAxioms.normfr_mantissa_spec",
    "FloatAxioms.frshiftexp_spec", "FloatAxioms.ldshiftexp_spec",
    "FloatAxioms.next_up_spec", "FloatAxioms.next_down_spec",
    "ClassicalDedekindReals.sig_not_dec", "ClassicalDedekindReals.sig_forall_dec",
    "FunctionalExtensionality.functional_extensionality_dep", "Classical_Prop.classic",
    "functional_extensionality_dep", "classic", "sig_not_dec", "sig_forall_dec",
    "Eqdep.Eq_rect_eq.eq_rect_eq", "JMeq.JMeq_eq", "ProofIrrelevance.proof_irrelevance",
}
PRIMITIVE_PREFIXES = ("PrimFloat.", "PrimInt63.", "Uint63.", "Sint63.", "float", "int",
                      "FloatOps.", "CarryType.", "PrimArray.")

FORBIDDEN_RE = re.compile(
    r"\b(Admitted|admit|Axiom|Axioms|Parameter|Parameters|Conjecture|Conjectures|"
    r"Unset\s+Guard\s+Checking|Unset\s+Positivity\s+Checking|Unset\s+Universe\s+Checking|"
    r"bypass_check|type-in-type|impredicative-set|Admit\s+Obligations)\b")


def log(*a):
    print(*a, file=sys.stderr, flush=True)


def sh(cmd, cwd=None, timeout=None, env=None, input=None):
    e = dict(os.environ)
    e.setdefault("CARGO_NET_OFFLINE", "true")
    if env:
        e.update(env)
    t0 = time.time()
    try:
        p = subprocess.run(cmd, cwd=cwd, env=e, timeout=timeout, input=input,
                           stdout=subprocess.PIPE, stderr=subprocess.PIPE, text=True,
                           errors="replace")
        return p.returncode, p.stdout, p.stderr, time.time() - t0
    except subprocess.TimeoutExpired as ex:
        out = ex.stdout.decode(errors="replace") if isinstance(ex.stdout, bytes) else (ex.stdout or "")
        err = ex.stderr.decode(errors="replace") if isinstance(ex.stderr, bytes) else (ex.stderr or "")
        return -9, out, err + "\nTIMEOUT", time.time() - t0


# --------------------------------------------------------------------------- Coq side

def coq_sources():
    out = []
    for root, _, files in os.walk(COQ):
        for f in files:
            if f.endswith(".v") and not f.startswith("_goal_"):
                out.append(os.path.join(root, f))
    return sorted(out)


def coq_forbidden_scan():
    """grep for anything that would declare an axiom or switch off a kernel check."""
    hits = []
    for p in coq_sources():
        txt = open(p, errors="replace").read()
        # strip comments (non-nested is enough for our sources; nested handled by loop)
        prev = None
        while prev != txt:
            prev = txt
            txt = re.sub(r"\(\*[^()]*?\*\)", " ", txt, flags=re.S)
        txt = re.sub(r"\(\*.*?\*\)", " ", txt, flags=re.S)
        for m in FORBIDDEN_RE.finditer(txt):
            hits.append(f"{os.path.relpath(p, COQ)}: {m.group(0)}")
    return hits


def coq_project_files():
    files = []
    for line in open(os.path.join(COQ, "_CoqProject")):
        line = line.strip()
        if line.endswith(".v"):
            files.append(line)
    return files


class coq_lock:
    """Serialises everything that writes .vo files under coq/ (translator output + make): two checks
    started at the same time would otherwise compile dependents against half-rebuilt libraries
    ("inconsistent assumptions over library")."""

    def __init__(self, shared=False):
        self.shared = shared

    def __enter__(self):
        import fcntl
        os.makedirs(COQ, exist_ok=True)
        self.f = open(os.path.join(COQ, ".build.lock"), "a")
        # readers of the compiled libraries (property files, case evaluation) share the lock
        fcntl.flock(self.f, fcntl.LOCK_SH if self.shared else fcntl.LOCK_EX)
        return self

    def __exit__(self, *a):
        import fcntl
        fcntl.flock(self.f, fcntl.LOCK_UN)
        self.f.close()


def coq_generate():
    """Runs the translator: coq/Generated/Tables.v is regenerated from REPO's current source
    (rewritten only when its content changes, so unchanged sources cost no rebuild)."""
    with coq_lock():
        rc, out, err, _ = sh([sys.executable, os.path.join(VERIF, "tools", "extract.py")], cwd=VERIF, timeout=300,
                             env={"VERIF_REPO": REPO, "VERIF_COQ": COQ})
    return rc == 0, (out + err)


def coq_modules_of(text):
    """.vo targets (relative to coq/) of the `From V Require Import A B.` lines in [text]."""
    names = []
    for m in re.finditer(r"From\s+V\s+Require\s+(?:Import|Export)\s+([^.]*)\.", text):
        names += m.group(1).split()
    index = {os.path.basename(p)[:-2]: os.path.relpath(p, COQ) for p in coq_sources()
             if not os.path.relpath(p, COQ).startswith("Properties")}
    return sorted({index[n] + "o" for n in names if n in index})


def coq_make(jobs=NCPU, timeout=3000, targets=None):
    """Full .vo build (never -vos/-vok) of everything listed in _CoqProject, or of the given
    .vo targets and what they depend on."""
    with coq_lock():
        if not os.path.exists(os.path.join(COQ, "Makefile")) or \
                os.path.getmtime(os.path.join(COQ, "Makefile")) < os.path.getmtime(os.path.join(COQ, "_CoqProject")):
            rc, out, err, _ = sh(["coq_makefile", "-f", "_CoqProject", "-o", "Makefile"], cwd=COQ, timeout=120)
            if rc != 0:
                return False, out + err
        rc, out, err, dt = sh(["make", f"-j{jobs}"] + list(targets or []), cwd=COQ, timeout=timeout)
        if rc != 0 and "inconsistent assumptions" in (out + err):
            # compiled libraries left behind by an interrupted or overlapping build: their time stamps
            # look current, so make keeps them; rebuild from the sources once
            for root, _, files in os.walk(COQ):
                for f in files:
                    if f.endswith((".vo", ".vok", ".vos", ".glob")):
                        os.remove(os.path.join(root, f))
            rc, out, err, dt = sh(["make", f"-j{jobs}"] + list(targets or []), cwd=COQ, timeout=timeout)
    return rc == 0, (out + err)


# kernel primitives as Print Assumptions shows them when PrimFloat / PrimInt63 are imported:
# (name, normalised type).  They are the kernel's, not declared by this development.
PRIMITIVES = {
    ("float", "Set"), ("int", "Set"),
    ("abs", "float -> float"), ("opp", "float -> float"), ("sqrt", "float -> float"),
    ("add", "float -> float -> float"), ("sub", "float -> float -> float"),
    ("mul", "float -> float -> float"), ("div", "float -> float -> float"),
    ("eqb", "float -> float -> bool"), ("ltb", "float -> float -> bool"),
    ("leb", "float -> float -> bool"), ("compare", "float -> float -> float_comparison"),
    ("classify", "float -> float_class"),
    ("frshiftexp", "float -> float * PrimInt63.int"), ("frshiftexp", "float -> float * int"),
    ("ldshiftexp", "float -> PrimInt63.int -> float"), ("ldshiftexp", "float -> int -> float"),
    ("normfr_mantissa", "float -> PrimInt63.int"), ("normfr_mantissa", "float -> int"),
    ("of_uint63", "PrimInt63.int -> float"), ("of_uint63", "int -> float"),
    ("next_up", "float -> float"), ("next_down", "float -> float"),
}


def parse_assumptions(output):
    """Returns list of (name, type) printed by all `Print Assumptions` in [output]."""
    axioms = []
    in_block = False
    cur = None
    for line in output.splitlines():
        if line.startswith("Axioms:"):
            in_block = True
            continue
        if in_block:
            m = re.match(r"^([A-Za-z_][\w.']*)\s*:\s*(.*)$", line)
            if m:
                cur = [m.group(1), m.group(2).strip()]
                axioms.append(cur)
            elif (line.startswith(" ") or line.startswith("\t")) and cur is not None:
                cur[1] = (cur[1] + " " + line.strip()).strip()
            elif not line.strip():
                continue
            else:
                in_block = False
                cur = None
    return [(a, " ".join(t.split())) for a, t in axioms]


def axioms_not_allowed(axioms):
    bad = []
    for a, t in axioms:
        if a in AXIOM_ALLOW or a.split(".")[-1] in AXIOM_ALLOW:
            continue
        if a.startswith(PRIMITIVE_PREFIXES):
            continue
        # with Flocq's Core imported the kernel's `float` is printed qualified
        if (a, t) in PRIMITIVES or (a, t.replace("PrimFloat.float", "float")) in PRIMITIVES:
            continue
        bad.append(f"{a} : {t}")
    return bad


def coq_check_property_file(pid, timeout=1800):
    """Recompiles Properties/<pid>.v from scratch.  Returns dict with obligations,
    discharged, axioms, errors."""
    rel = f"Properties/{pid}.v"
    path = os.path.join(COQ, rel)
    res = {"file": rel, "obligations": 0, "discharged": 0, "axioms": [], "errors": [],
           "theorems": [], "cmd": f"cd coq && make -j{NCPU} && coqc -Q . V {rel}"}
    if not os.path.exists(path):
        res["errors"].append(f"{rel} missing")
        return res
    src = open(path).read()
    thms = re.findall(r"^\s*(?:Theorem|Lemma|Corollary)\s+([\w']+)", src, flags=re.M)
    res["theorems"] = thms
    res["obligations"] = len(thms)
    n_pa = len(re.findall(r"^\s*Print Assumptions\s+", src, flags=re.M))
    if n_pa < len(thms):
        res["errors"].append(f"{rel}: {len(thms)} theorems but only {n_pa} Print Assumptions")
    for f in (path + "o", path[:-2] + ".glob"):
        if os.path.exists(f):
            os.remove(f)
    with coq_lock():
        rc, out, err, dt = sh(["coqc", "-Q", ".", "V", "-w",
                               "-notation-overridden,-deprecated-hint-without-locality",
                               rel], cwd=COQ, timeout=timeout)
    res["wall_s"] = round(dt, 2)
    if rc != 0:
        res["errors"].append(f"coqc {rel} failed: " + (err or out)[-1500:])
        return res
    axs = sorted(set(parse_assumptions(out)))
    res["axioms"] = sorted(set(a for a, _ in axs))
    bad = axioms_not_allowed(axs)
    if bad:
        res["errors"].append("axioms outside the allow-list: " + ", ".join(bad))
        return res
    res["discharged"] = len(thms)
    return res


COQCHK_ALLOW_PREFIXES = (
    "Coq.Floats.FloatAxioms.", "Coq.Floats.PrimFloat.", "Coq.Floats.FloatOps.", "Coq.Numbers.Cyclic.Int63.",
    "Coq.Reals.", "Coq.Logic.Classical", "Coq.Logic.FunctionalExtensionality.", "Coq.Logic.Eqdep.",
    "Coq.Logic.JMeq.", "Coq.Logic.ProofIrrelevance.", "Coq.Logic.ClassicalEpsilon.", "Coq.Logic.Epsilon.",
    "Coq.Logic.ChoiceFacts.", "Coq.Logic.Description", "Coq.Logic.IndefiniteDescription", "Coq.Array.PrimArray.",
    "Coq.Strings.PrimString.")


def coq_chk(pid, timeout=1200):
    """Independent re-check (coqchk) of Properties/<pid>.vo and everything it depends on; the axioms
    it reports must all be standard-library ones, and no kernel check may be switched off."""
    rc, out, err, dt = sh(["coqchk", "-silent", "-o", "-Q", ".", "V", f"V.Properties.{pid}"], cwd=COQ, timeout=timeout)
    res = {"cmd": f"coqchk -silent -o -Q . V V.Properties.{pid}", "wall_s": round(dt, 1), "errors": [], "axioms": []}
    text = out + err
    if rc == -9 and text.rstrip().endswith("TIMEOUT"):
        # coqchk re-evaluates every `vm_compute` proof with its own, much slower evaluator; running
        # out of time on the exhaustive-domain lemmas says nothing against them (coqc checked them)
        res["timed_out"] = True
        return res
    if rc != 0:
        res["errors"].append("coqchk failed: " + text[-1500:])
        return res
    m = re.search(r"\* Axioms:(.*?)\n\s*\n\* Constants/Inductives relying on type-in-type:(.*?)\n\s*\n"
                  r"\* Constants/Inductives relying on unsafe \(co\)fixpoints:(.*?)\n\s*\n"
                  r"\* Inductives whose positivity is assumed:(.*?)(?:\n\s*\n|$)", text, flags=re.S)
    if not m:
        res["errors"].append("unparsable coqchk summary: " + text[-800:])
        return res
    axioms = [a.strip() for a in m.group(1).split("\n") if a.strip() and a.strip() != "<none>"]
    res["axioms"] = axioms
    bad = [a for a in axioms if not a.startswith(COQCHK_ALLOW_PREFIXES)]
    if bad:
        res["errors"].append("coqchk reports axioms outside the standard library: " + ", ".join(bad))
    for name, grp in (("type-in-type", 2), ("unsafe fixpoints", 3), ("assumed positivity", 4)):
        if m.group(grp).strip() != "<none>":
            res["errors"].append(f"coqchk: {name}: {m.group(grp).strip()[:300]}")
    return res


def coq_eval(pid, shards, header, timeout=1500):
    """shards: list of strings (Coq source bodies, each ending in `Eval vm_compute in ...`).
    Runs them in parallel; returns list of (stdout, error-or-None)."""
    d = os.path.join(CACHE, "cases", pid)
    shutil.rmtree(d, ignore_errors=True)
    os.makedirs(d, exist_ok=True)
    ok, mlog = coq_make(targets=coq_modules_of(header))
    if not ok:
        return [("", "model files do not build: " + mlog[-1500:]) for _ in shards]
    paths = []
    for i, body in enumerate(shards):
        p = os.path.join(d, f"cases_{i}.v")
        with open(p, "w") as f:
            f.write(header + "\n" + body + "\n")
        paths.append(p)

    def run(p, tmo=timeout):
        # big list literals (thousands of strain sections) need a deep stack in coqc
        rc, out, err, dt = sh(["bash", "-c", f"ulimit -s unlimited 2>/dev/null || ulimit -s 1000000; "
                                             f"exec coqc -noglob -Q {COQ} V -Q {d} Cases {p}"],
                              cwd=d, timeout=tmo)
        if rc != 0:
            text = (err or out)
            # killed by the watchdog or by the kernel (out of memory) without a Coq error: the machine
            # was short of resources, which says nothing about the cases
            starved = "Error" not in text and (rc < 0 or rc >= 128 or "TIMEOUT" in text[-200:])
            return out, text[-1500:] or f"coqc exited with {rc}", starved
        return out, None, False

    with coq_lock(shared=True):
        with concurrent.futures.ThreadPoolExecutor(max_workers=NCPU) as ex:
            first = list(ex.map(run, paths))
        res = []
        for p, (out, e, starved) in zip(paths, first):
            if starved:
                # once more, alone and with three times the budget
                log(f"coq_eval: {os.path.basename(p)} ran out of time or memory under load; retrying it alone")
                out, e, starved = run(p, timeout * 3)
            res.append((out, e))
        return res


def balance_shards(items, size, nshards=None, budget=None, per_item=None):
    """Greedy longest-first packing of [items] into at most [nshards] shards by size(item).
    Items larger than [per_item], or beyond the total [budget], are returned as skipped."""
    nshards = nshards or NCPU
    kept, skipped, tot = [], [], 0
    for it in items:
        sz = size(it)
        if (per_item and sz > per_item) or (budget and tot + sz > budget):
            skipped.append(it)
        else:
            kept.append((sz, it))
            tot += sz
    order = sorted(range(len(kept)), key=lambda i: -kept[i][0])
    bins = [[0, []] for _ in range(min(nshards, max(1, len(kept))))]
    for i in order:
        b = min(bins, key=lambda b: b[0])
        b[0] += kept[i][0]
        b[1].append(i)
    shards = [[kept[i][1] for i in sorted(b[1])] for b in bins if b[1]]
    return shards, skipped


def parse_eval_list(out):
    """Parses the `= [...] : list ...` printed by Eval vm_compute into a python list of
    tuples of ints (numbers only)."""
    m = re.search(r"=\s*(.*?)\n\s*:\s*list", out, flags=re.S)
    if not m:
        return None
    body = m.group(1)
    body = re.sub(r"%[NZ]|%nat|%positive", "", body)
    body = body.strip()
    if body == "[]" or body == "nil":
        return []
    items = []
    # split top-level on ';'
    depth = 0
    cur = ""
    inner = body[1:-1] if body.startswith("[") else body
    for ch in inner:
        if ch in "([":
            depth += 1
        elif ch in ")]":
            depth -= 1
        if ch == ";" and depth == 0:
            items.append(cur)
            cur = ""
        else:
            cur += ch
    if cur.strip():
        items.append(cur)
    res = []
    for it in items:
        nums = re.findall(r"-?\d+", it)
        res.append(tuple(int(x) for x in nums))
    return res


# --------------------------------------------------------------------------- Rust side

def harness_build(features=(), profile="release", timeout=3000):
    """Builds the harness against /repo's current working tree with hooks on.
    Returns (binary path or None, log)."""
    os.makedirs(BIN, exist_ok=True)
    hdir = HARNESS
    if REPO != "/repo":
        # development aid (tools/seedtest.py): run the same harness against a scratch copy
        # of the repository; registered commands always use /repo itself
        hdir = os.path.join(CACHE, "harness-src")
        shutil.rmtree(hdir, ignore_errors=True)
        shutil.copytree(HARNESS, hdir)
        ct = open(os.path.join(hdir, "Cargo.toml")).read().replace('path = "/repo"', f'path = "{REPO}"')
        open(os.path.join(hdir, "Cargo.toml"), "w").write(ct)
        cfgp = os.path.join(hdir, ".cargo", "config.toml")
        if os.path.exists(cfgp):
            open(cfgp, "w").write("[net]\noffline = true\n")
    lock = os.path.join(hdir, "Cargo.lock")
    if not os.path.exists(lock):
        shutil.copy(os.path.join(REPO, "Cargo.lock"), lock)
    cmd = ["cargo", "build", "--offline"]
    if profile == "release":
        cmd.append("--release")
    if features:
        cmd += ["--features", ",".join(features)]
    env = {"RUSTFLAGS": f"--cfg {GUARD}", "CARGO_TARGET_DIR": TARGET}
    rc, out, err, dt = sh(cmd, cwd=hdir, timeout=timeout, env=env)
    if rc != 0:
        return None, (out + err)[-4000:]
    src = os.path.join(TARGET, "release" if profile == "release" else "debug", "vh")
    tag = "-".join(["vh", profile] + sorted(features))
    dst = os.path.join(BIN, tag)
    # atomic replace: another check may be executing the previous copy right now
    tmp = f"{dst}.{os.getpid()}.tmp"
    shutil.copy2(src, tmp)
    os.replace(tmp, dst)
    return dst, (out + err)[-2000:]


MIRI_CRATE = os.path.join(VERIF, "miri")


def miri_run(flags="", timeout=3000):
    """Runs /verif/miri (a program that drives every unsafe block of the crate through the
    public API on embedded maps) under Miri against the current source tree.
    Returns (ok, output).  Supporting evidence for C11, not a proof."""
    mdir = MIRI_CRATE
    if REPO != "/repo":
        mdir = os.path.join(CACHE, "miri-src")
        shutil.rmtree(mdir, ignore_errors=True)
        shutil.copytree(MIRI_CRATE, mdir)
        ct = open(os.path.join(mdir, "Cargo.toml")).read().replace('path = "/repo"', f'path = "{REPO}"')
        open(os.path.join(mdir, "Cargo.toml"), "w").write(ct)
    env = {"CARGO_TARGET_DIR": TARGET + "-miri", "CARGO_NET_OFFLINE": "true"}
    if flags:
        env["MIRIFLAGS"] = flags
    rc, out, err, dt = sh(["cargo", "+nightly", "miri", "run", "--offline"], cwd=mdir, timeout=timeout, env=env)
    text = out + err
    ok = rc == 0 and "miri-ok" in out and "Undefined Behavior" not in text
    return ok, text


def harness_run(binary, args, timeout=1800, input=None, env=None):
    # development aid (tools/coverage.sh): run an instrumented copy of the default binary instead
    if os.environ.get("VERIF_HARNESS_OVERRIDE") and os.path.basename(binary) == "vh-release":
        binary = os.environ["VERIF_HARNESS_OVERRIDE"]
    rc, out, err, dt = sh([binary] + [str(a) for a in args], timeout=timeout, input=input, env=env)
    return rc, out, err, dt


def jsonl(out):
    rows = []
    for line in out.splitlines():
        line = line.strip()
        if line.startswith("{"):
            rows.append(json.loads(line))
    return rows


# --------------------------------------------------------------------------- Coq literals

def z(n):
    n = int(n)
    return f"({n})" if n < 0 else str(n)


def zlist(xs):
    return "[" + "; ".join(z(x) for x in xs) + "]"


def nlist(xs):
    return "[" + "; ".join(f"{int(x)}%N" for x in xs) + "]"


def cbool(b):
    return "true" if b else "false"


def f64_hex(bits):
    """Exact Coq float literal for a binary64 bit pattern (not NaN/inf)."""
    import struct
    x = struct.unpack("<d", struct.pack("<Q", bits))[0]
    if x != x:
        return "nan"
    if x in (float("inf"), float("-inf")):
        return "infinity" if x > 0 else "neg_infinity"
    h = x.hex()
    if h.startswith("-"):
        return f"(-{h[1:]})"
    return h


# --------------------------------------------------------------------------- findings / evidence

def known_findings(pid):
    p = os.path.join(VERIF, "known_findings.json")
    if not os.path.exists(p):
        return []
    data = json.load(open(p))
    return [f for f in data.get("findings", []) if f.get("property") == pid and f.get("status", "open") == "open"]


class Check:
    """Accumulates what a check run covered and renders evidence + exit status."""

    def __init__(self, pid, tier, seed):
        self.pid, self.tier, self.seed = pid, tier, seed
        self.t0 = time.time()
        self.violations = []       # (replay_path, no_input_found)
        self.known_hits = {}       # finding id -> count
        self.cov = {"evaluations": 0, "distinct_nontrivial": 0, "samples": [],
                    "obligations": 0, "discharged": 0, "checker_cmd": "", "trusted_base": [],
                    "rule": "", "correspondence_mismatches": 0, "input_distribution": {}}
        self.assumptions = []
        self._distinct = set()
        self.replay_n = 0
        self.findings = known_findings(pid)

    # -- obligations
    def coq_obligations(self):
        bad = coq_forbidden_scan()
        gok, glog = coq_generate()
        ppath = os.path.join(COQ, "Properties", f"{self.pid}.v")
        targets = coq_modules_of(open(ppath).read()) if os.path.exists(ppath) else None
        ok, mlog = coq_make(targets=targets)
        if not gok:
            ok, mlog = False, "translator tools/extract.py failed: " + glog[-1500:]
        res = coq_check_property_file(self.pid) if ok else {
            "obligations": 1, "discharged": 0, "errors": ["make failed: " + mlog[-2500:]],
            "axioms": [], "theorems": [], "cmd": "make", "file": f"Properties/{self.pid}.v"}
        if bad:
            res["errors"].append("forbidden constructs: " + "; ".join(bad))
            res["discharged"] = 0
        self.cov["obligations"] += res["obligations"]
        self.cov["discharged"] += res["discharged"]
        self.cov["checker_cmd"] = res["cmd"]
        self.cov["theorems"] = res.get("theorems", [])
        self.cov["axioms_reported"] = res.get("axioms", [])
        self.cov["forbidden_scan"] = "clean" if not bad else bad
        if res["errors"]:
            self.broken_obligation("coq", "\n".join(res["errors"]), res)
        elif self.tier == "thorough":
            chk = coq_chk(self.pid)
            self.cov["coqchk"] = {"cmd": chk["cmd"], "wall_s": chk["wall_s"], "axioms_reported": len(chk["axioms"]),
                                  "all_standard_library": not chk["errors"] and not chk.get("timed_out"),
                                  "finished": not chk.get("timed_out")}
            if chk["errors"]:
                self.broken_obligation("coqchk", "\n".join(chk["errors"]), chk)
        return res

    # -- bookkeeping
    def count(self, key, nontrivial=True, n=1):
        self.cov["evaluations"] += n
        if nontrivial:
            h = hashlib.sha1(json.dumps(key, sort_keys=True, default=str).encode()).hexdigest()
            self._distinct.add(h)

    def dist(self, k, n=1):
        d = self.cov["input_distribution"]
        d[k] = d.get(k, 0) + n

    def sample(self, s, limit=4):
        if len(self.cov["samples"]) < limit:
            self.cov["samples"].append(s)

    def replay_path(self, suffix="json"):
        d = os.path.join(OUT, "replays", self.pid)
        os.makedirs(d, exist_ok=True)
        self.replay_n += 1
        return os.path.join(d, f"{self.seed}-{self.tier}-{self.replay_n}.{suffix}")

    def known_class(self, cls):
        """True (and counted) when [cls] is the class of a listed open finding of this property."""
        for f in self.findings:
            if cls and cls == f.get("class"):
                self.known_hits[f["id"]] = self.known_hits.get(f["id"], 0) + 1
                return True
        return False

    def violation(self, what, replay_obj):
        """A concrete failing input against the implementation."""
        # known-finding classification
        for f in self.findings:
            cls = replay_obj.get("finding_class")
            if cls and cls == f.get("class"):
                self.known_hits[f["id"]] = self.known_hits.get(f["id"], 0) + 1
                return False
        if len(self.violations) >= 20:
            self.violations.append((None, False))
            return True
        p = self.replay_path()
        replay_obj = dict(replay_obj)
        replay_obj.update({"property": self.pid, "what": what, "seed": self.seed, "tier": self.tier})
        json.dump(replay_obj, open(p, "w"), indent=1, default=str)
        self.violations.append((p, False))
        return True

    def broken_obligation(self, kind, detail, extra=None):
        """A theorem or the correspondence no longer checks; no failing input yet."""
        p = self.replay_path()
        json.dump({"property": self.pid, "kind": kind, "detail": detail, "extra": extra,
                   "note": "theorem/correspondence no longer checks; see detail"},
                  open(p, "w"), indent=1, default=str)
        self.violations.append((p, True))

    def finish(self):
        self.cov["distinct_nontrivial"] = len(self._distinct)
        # concrete failing inputs take precedence over no-failing-input-found reports
        concrete = [v for v in self.violations if not v[1]]
        broken = [v for v in self.violations if v[1]]
        ev = {
            "property_id": self.pid, "tier": self.tier, "seed": self.seed, "level": "proof",
            "coverage": self.cov, "assumptions": self.assumptions,
            "wall_s": round(time.time() - self.t0, 2),
            "violations": len(self.violations),
        }
        self.cov["known_findings_hit"] = self.known_hits
        os.makedirs(os.path.join(OUT, "evidence"), exist_ok=True)
        json.dump(ev, open(os.path.join(OUT, "evidence", f"{self.pid}.json"), "w"), indent=1, default=str)
        for f in self.findings:
            print(f"KNOWN-FINDING: property={self.pid} {f['id']}: {f['description']}"
                  f" (hit {self.known_hits.get(f['id'], 0)}x this run)")
        for p, _ in concrete:
            if p:
                print(f"VIOLATION property={self.pid} replay={p}")
        if not concrete:
            for p, _ in broken:
                print(f"VIOLATION property={self.pid} replay={p} no-failing-input-found")
        else:
            for p, _ in broken:
                log(f"(also broken obligation/correspondence: {p})")
        print(f"[{self.pid}] tier={self.tier} seed={self.seed} obligations={self.cov['discharged']}/"
              f"{self.cov['obligations']} evaluations={self.cov['evaluations']} "
              f"distinct={self.cov['distinct_nontrivial']} mismatches={self.cov['correspondence_mismatches']} "
              f"violations={len(self.violations)} wall={ev['wall_s']}s")
        return 1 if self.violations else 0


def generic_replay(path):
    """Replays a violation: prints the recorded case and re-runs the property's check with
    the recorded seed and tier (every random choice derives from the seed)."""
    obj = json.load(open(path))
    print(json.dumps(obj, indent=1)[:6000])
    pid = obj.get("property")
    env = dict(os.environ, VERIF_SEED=str(obj.get("seed", 0)))
    rc = subprocess.call([sys.executable, os.path.join(VERIF, "tools", "check.py"), pid,
                          "--tier", obj.get("tier", "quick")], env=env)
    return rc
