"""M4: generate_state — harness traces, direct oracles (C12/C13), Coq-model correspondence."""
import struct
from fractions import Fraction
from vlib import *

HEADER = """From Coq Require Import ZArith NArith List Floats.
From V Require Import F64 Gradual SvCases GenState GenStateMania GsCases GsAccept.
Import ListNotations.
Open Scope Z_scope.
"""
U32_MAX = (1 << 32) - 1
MODES = ["osu", "taiko", "catch", "mania"]


def oz(v):
    return "None" if v is None else f"(Some {z(v)})"


def of(bits):
    return "None" if bits is None else f"(Some {f64_hex(bits)}%float)"


def eff(r):
    lazer = True if r["lazer"] is None else r["lazer"]
    classic = r["cl"] or not lazer
    return lazer, classic


def case_coq(r):
    m = r["mode"]
    passed = U32_MAX if r["passed"] is None else r["passed"]
    o = r["opts"]
    best = cbool(r["prio"] == 0)
    lazer, classic = eff(r)
    a = r["attrs"]
    if m == 0:
        g = (f"GOsu (mk_osu_in {a[0] + a[1] + a[2]} {a[1]} {a[3]} {a[4]} {passed} {oz(o[0])} {oz(o[1])} {oz(o[2])} "
             f"{oz(o[3])} {oz(o[4])} {oz(o[5])} {oz(o[6])} {oz(o[7])} {of(r['acc01'])} {best} {cbool(lazer)} {cbool(classic)})")
    elif m == 1:
        g = (f"GTaiko (mk_taiko_in {a[0]} {passed} {oz(o[0])} {oz(o[1])} {oz(o[2])} {oz(o[3])} {of(r['acc01'])} {best})")
    elif m == 2:
        g = (f"GCatch (mk_catch_in {a[0]} {a[1]} {a[2]} {oz(o[0])} {oz(o[1])} {oz(o[2])} {oz(o[3])} {oz(o[4])} {oz(o[5])} "
             f"{of(r['acc01'])})")
    else:
        g = (f"GMania (mk_mania_in {a[0]} {a[1]} {passed} {oz(o[0])} {oz(o[1])} {oz(o[2])} {oz(o[3])} {oz(o[4])} {oz(o[5])} "
             f"{of(r['acc01'])} {best} {cbool(classic)})")
    return f"({r['id']}%N, {g}, {zlist(r['out'])}, {zlist(r['out2'])})"


def shard_body(rows):
    cs = [c for c in (case_coq(r) for r in rows) if c]
    return ("Definition cases : list (N * gs_case * list Z * list Z) := [\n  " + ";\n  ".join(cs) + "].\n"
            "Eval vm_compute in (gs_bad cases ++ accept_bad cases).")


# --------------------------------------------------------------------------- oracles

def fbits(bits):
    return struct.unpack("<d", struct.pack("<Q", bits))[0]


def shape(r):
    """(n_objects considered, caps) per mode"""
    m, a = r["mode"], r["attrs"]
    passed = U32_MAX if r["passed"] is None else r["passed"]
    lazer, classic = eff(r)
    if m == 0:
        return min(passed, a[0] + a[1] + a[2])
    if m == 1:
        return min(passed, a[0])
    if m == 2:
        return a[0] + a[1]
    n = min(passed, a[0])
    return n if classic else n + a[1]


def miss_cap(r):
    """objects that can be missed (mania: long-note tails are added after the clamp)"""
    m, a = r["mode"], r["attrs"]
    passed = U32_MAX if r["passed"] is None else r["passed"]
    if m == 3:
        return min(passed, a[0])
    return shape(r)


def hits_only_acc(r):
    """C13's domain: accuracy (+ misses, + combo) and no individual hit results"""
    m, o = r["mode"], r["opts"]
    if m == 0:
        return all(v is None for k, v in enumerate(o) if k not in (0, 4))
    if m == 1:
        return o[1] is None and o[2] is None
    if m == 2:
        return all(v is None for v in o[1:5])
    return all(v is None for v in o[:5])


def oracle_c12(r):
    """misses <= objects; provided results kept; sum = objects when it fits; combo <= achievable;
    second generation identical; calculate() == state(generated).calculate()"""
    out = []
    m, a, o, s = r["mode"], r["attrs"], r["opts"], r["out"]
    n = shape(r)
    nan_acc = r["acc01"] is not None and fbits(r["acc01"]) != fbits(r["acc01"])
    if r["out2"] != s:
        out.append((None, f"generating twice differs: {s} then {r['out2']}"))
    if not r["calc_eq"]:
        out.append((None, "calculate() differs from state(generated).calculate()"))
    if r.get("enum_eq") is False:
        out.append((None, "the state generated through the mode-agnostic Performance enum (lazer set with the enum's setter) "
                          "differs from the mode's own builder"))
    if "panic_enum" in r:
        out.append((None, "generate_state through the Performance enum panicked: " + r["panic_enum"]))
    if m == 0:
        combo, large, small, ends, n300, n100, n50, misses = s
        hits = [n300, n100, n50]
        prov = [o[1], o[2], o[3]]
        max_combo = a[4]
        p_misses, p_combo = o[4], o[0]
    elif m == 1:
        combo, n300, n100, misses = s
        hits = [n300, n100]
        prov = [o[1], o[2]]
        max_combo = a[0]
        p_misses, p_combo = o[3], o[0]
    elif m == 2:
        combo, fruits, droplets, tiny, tiny_m, misses = s
        hits = [fruits, droplets]
        prov = [o[1], o[2]]
        max_combo = a[0] + a[1]
        p_misses, p_combo = o[5], o[0]
    else:
        n320, n300, n200, n100, n50, misses = s
        hits = [n320, n300, n200, n100, n50]
        prov = o[:5]
        max_combo = None
        p_misses, p_combo = o[5], None
    if misses > n:
        out.append((None, f"misses {misses} > objects {n}"))
    exp_m = 0 if p_misses is None else min(p_misses, miss_cap(r))
    if misses != exp_m:
        out.append((None, f"misses {misses} but provided {p_misses} with {n} objects"))
    remaining = n - misses
    clamped = [None if p is None else min(p, remaining) for p in prov]
    prov_sum = sum(c for c in clamped if c is not None) + misses
    if m != 2:
        # provided results are never reduced below their clamp, kept exactly when another
        # category is free to absorb the remainder
        for k, (c, h) in enumerate(zip(clamped, hits)):
            if c is not None and h < c:
                out.append((None, f"provided hit result #{k} = {prov[k]} reduced to {h} (clamp {c})"))
            if c is not None and any(p is None for p in prov) and h != c:
                out.append((None, f"provided hit result #{k} = {prov[k]} changed to {h} although another result is free"))
        if prov_sum <= n and sum(hits) + misses != n:
            out.append((None, f"hit results {hits} + misses {misses} do not add up to {n} objects"))
    else:
        # catch: categories are capped per kind
        if fruits > a[0] + a[1] or droplets > a[0] + a[1]:
            out.append((None, f"catch fruits/droplets {fruits}/{droplets} exceed the total"))
        pf = None if prov[0] is None else min(prov[0], a[0])
        pd = None if prov[1] is None else min(prov[1], a[1])
        psum = (pf or 0) + (pd or 0) + misses
        if prov[0] is not None and prov[1] is not None and prov[0] <= a[0] and prov[1] <= a[1]:
            if psum <= n and fruits + droplets + misses != n:
                out.append((None, f"catch fruits {fruits} + droplets {droplets} + misses {misses} != {n}"))
        elif fruits + droplets + misses != n and (prov[0] is None or prov[1] is None):
            out.append((None, f"catch fruits {fruits} + droplets {droplets} + misses {misses} != {n}"))
        if tiny + tiny_m > max(a[2], (o[3] or 0) + (o[4] or 0)):
            out.append((None, f"catch tiny droplets {tiny}+{tiny_m} exceed {a[2]}"))
    if max_combo is not None:
        achievable = max(0, max_combo - misses)
        if combo > achievable:
            out.append(("catch-combo-unclamped" if m == 2 and p_combo is not None and p_combo > achievable else None,
                        f"combo {combo} above the achievable {achievable}"))
    return out


def acc_frac(m, r, hits, misses):
    """accuracy of a distribution as an exact fraction (mode's own formula)"""
    a = r["attrs"]
    lazer, classic = eff(r)
    if m == 0:
        n300, n100, n50 = hits
        num = 300 * n300 + 100 * n100 + 50 * n50
        den = 300 * (n300 + n100 + n50 + misses)
        if lazer and not classic:
            num += 150 * r["out"][3] + 30 * r["out"][1]
            den += 150 * a[1] + 30 * a[3]
        elif lazer and classic:
            num += 30 * r["out"][1] + 10 * r["out"][2]
            den += 30 * (a[1] + a[3]) + 10 * a[1]
    elif m == 1:
        n300, n100 = hits
        num, den = 2 * n300 + n100, 2 * (n300 + n100 + misses)
    elif m == 2:
        fruits, droplets, tiny, tiny_m = hits
        num = fruits + droplets + tiny
        den = num + tiny_m + misses
    else:
        n320, n300, n200, n100, n50 = hits
        w = 60 if classic else 61
        num = w * n320 + 60 * n300 + 40 * n200 + 20 * n100 + 10 * n50
        den = w * (sum(hits) + misses)
    return Fraction(num, den) if den else Fraction(0)


def compositions(total, k):
    if k == 1:
        yield (total,)
        return
    for i in range(total + 1):
        for rest in compositions(total - i, k - 1):
            yield (i,) + rest


def oracle_c13(r):
    """accuracy + misses only: generated state has the given misses and is at least as
    close to the target as every other distribution"""
    out = []
    m, s = r["mode"], r["out"]
    if r["acc01"] is None or not hits_only_acc(r):
        return out
    target = Fraction(fbits(r["acc01"]))
    n = shape(r)
    if m == 0:
        hits, misses = s[4:7], s[7]
        k = 3
    elif m == 1:
        hits, misses = s[1:3], s[3]
        k = 2
    elif m == 2:
        hits, misses = s[1:5], s[5]
        k = None
    else:
        hits, misses = s[0:5], s[5]
        k = 5
    want_m = min(r["opts"][5 if m in (2, 3) else 4 if m == 0 else 3] or 0, miss_cap(r))
    if misses != want_m:
        out.append((None, f"misses {misses} != requested {want_m}"))
        return out
    gen = abs(target - acc_frac(m, r, hits, misses))
    best, best_h = None, None
    if m == 2:
        fruits, droplets = s[1], s[2]
        for t in range(r["attrs"][2] + 1):
            h = (fruits, droplets, t, r["attrs"][2] - t)
            d = abs(target - acc_frac(m, r, h, misses))
            if best is None or d < best:
                best, best_h = d, h
    else:
        for h in compositions(n - misses, k):
            d = abs(target - acc_frac(m, r, h, misses))
            if best is None or d < best:
                best, best_h = d, h
    if best is not None and gen > best + Fraction(1, 10 ** 12):
        out.append((None, f"generated {list(hits)} (|acc-target|={float(gen):.6g}) is farther from "
                          f"{float(target):.6g} than {list(best_h)} ({float(best):.6g})"))
    # the same comparison measured with the crate's PUBLIC accuracy functions (brute force in the harness)
    if "panic_public_measure" in r:
        out.append((None, "accuracy() of a redistributed state panicked: " + r["panic_public_measure"]))
    if "pub_gen" in r:
        pg, pb = fbits(r["pub_gen"]), fbits(r["pub_best"])
        if not (pg <= pb + 1e-12):
            out.append((None, f"measured with the public accuracy(): generated {list(hits)} is at distance {pg:.9g} from "
                              f"the target {float(target):.6g}, another distribution of the same objects reaches {pb:.9g}"))
        if abs(pg - float(gen)) > 1e-9:
            out.append((None, f"the public accuracy() of the generated state {list(hits)} is at distance {pg:.9g} from the target, "
                              f"the documented formula gives {float(gen):.9g}"))
    return out


# --------------------------------------------------------------------------- exact twins (C13)

TWIN_HEADER = """From Coq Require Import ZArith NArith List.
From V Require Import OptTwin.
Import ListNotations.
Open Scope Z_scope.
"""


def twin_run(chk, rows):
    """taiko / catch accuracy-only traces against the exact-arithmetic twins whose global optimality
    is a theorem for every object count (Proofs/OptTwinProofs.v)"""
    taiko, catch, byid = [], [], {}
    for k, r in enumerate(rows):
        if r.get("acc01") is None or "out" not in r:
            continue
        f = fbits(r["acc01"])
        if f != f or f in (float("inf"), float("-inf")):
            continue
        fr = Fraction(f)
        a, b = fr.numerator, fr.denominator
        m, o, s = r["mode"], r["opts"], r["out"]
        if m == 1 and o[1] is None and o[2] is None:
            T = shape(r)
            if T > 0:
                taiko.append(f"({k}%N, {T}, {s[3]}, {z(a)}, {b}, {s[1]})")
                byid[k] = r
        elif m == 2 and o[3] is None and o[4] is None:
            fd = s[1] + s[2]
            if fd + r["attrs"][2] + s[5] > 0:
                catch.append(f"({k}%N, {fd}, {r['attrs'][2]}, {s[5]}, {z(a)}, {b}, {s[3]})")
                byid[k] = r
    bodies = []
    for name, cs in (("taiko_twin_bad", taiko), ("catch_twin_bad", catch)):
        for i in range(0, len(cs), 1500):
            bodies.append("Definition cases := [\n  " + ";\n  ".join(cs[i:i + 1500]) + "].\n"
                          f"Eval vm_compute in {name} cases.")
    if not bodies:
        return
    for (o, e) in coq_eval(f"{chk.pid}-twin", bodies, TWIN_HEADER):
        if e is not None:
            chk.broken_obligation("correspondence", "coqc failed on twin cases: " + e)
            continue
        bad = parse_eval_list(o)
        if bad is None:
            chk.broken_obligation("correspondence", "unparsable coqc output: " + o[-800:])
            continue
        for cid, _ in bad:
            r = byid[cid]
            chk.cov["correspondence_mismatches"] += 1
            chk.broken_obligation("correspondence",
                                  f"{MODES[r['mode']]}: the generated state is farther from the target accuracy than the "
                                  f"exact twin's choice (which is proved optimal for every object count)", {"case": r})
    chk.cov.setdefault("traces_validated_against_twin", 0)
    chk.cov["traces_validated_against_twin"] += len(taiko) + len(catch)
    chk.dist("twin.taiko", len(taiko))
    chk.dist("twin.catch", len(catch))


# --------------------------------------------------------------------------- runner

def run(chk, binary, jobs, oracles, model=True, sample_limit=3):
    """jobs: list of harness argument lists (e.g. ['gs_rand', seed, count])"""
    allrows = []
    for args in jobs:
        rc, out, err, dt = harness_run(binary, args, timeout=3000)
        if rc != 0:
            chk.violation("harness gs crashed", {"stderr": err[-3000:], "cmd": "vh " + " ".join(map(str, args))})
            continue
        rows = jsonl(out)
        tag = args[0] + (f":{MODES[int(args[1])]}" if args[0] == "gs_exh" else "")
        for r in rows:
            r["_job"] = "vh " + " ".join(map(str, args))
            nontrivial = shape(r) >= 2
            chk.count([r["mode"], r["attrs"], r["opts"], r["acc"], r["prio"], r["lazer"], r["cl"], r["passed"]], nontrivial)
            chk.dist(f"{tag}.{MODES[r['mode']]}")
            chk.dist("gs.provided=" + str(sum(1 for v in r["opts"] if v is not None)))
            chk.dist("gs.acc=" + ("none" if r["acc"] is None else "given"))
            if "panic" in r:
                chk.violation(f"{MODES[r['mode']]} generate_state/calculate panicked: {r['panic']}",
                              {"case": r, "replay": r["_job"] + f" (case id {r['id']})"})
                continue
            for orc in oracles:
                for cls, msg in orc(r):
                    chk.violation(f"{MODES[r['mode']]}: {msg}", {"finding_class": cls, "case": r,
                                                                 "replay": r["_job"] + f" (case id {r['id']})"})
        allrows += [r for r in rows if "out" in r]
    for r in allrows[:sample_limit]:
        chk.sample({k: r[k] for k in ("mode", "attrs", "opts", "acc", "prio", "lazer", "cl", "passed", "out")})
    if model and allrows:
        mrows = list(allrows)
        for k, r in enumerate(mrows):
            r["id"] = k
        per = max(1, (len(mrows) + NCPU - 1) // NCPU)
        per = min(per, 1500)
        shards = [mrows[i:i + per] for i in range(0, len(mrows), per)]
        results = coq_eval(f"{chk.pid}-gs", [shard_body(s) for s in shards], HEADER)
        for (o, e), srows in zip(results, shards):
            if e is not None:
                chk.broken_obligation("correspondence", "coqc failed on generate_state cases: " + e)
                continue
            bad = parse_eval_list(o)
            if bad is None:
                chk.broken_obligation("correspondence", "unparsable coqc output: " + o[-800:])
                continue
            byid = {r["id"]: r for r in srows}
            for cid, which in bad:
                r = byid[cid]
                if which == 9:
                    # a hypothesis of the C12 theorems (the accuracy search accepted a candidate) is false here
                    if r["acc01"] is not None and fbits(r["acc01"]) != fbits(r["acc01"]):
                        chk.dist("gs.nan_accuracy_outside_theorem")
                        continue
                    chk.broken_obligation("hypothesis",
                                          f"the acceptance hypothesis of the {MODES[r['mode']]} generate_state theorem "
                                          f"is false on a reachable input", {"case": r})
                    continue
                chk.cov["correspondence_mismatches"] += 1
                chk.broken_obligation("correspondence",
                                      f"GenState model ({MODES[r['mode']]}) and implementation differ on "
                                      f"{'first' if which == 1 else 'second'} generation", {"case": r})
        chk.cov.setdefault("traces_validated_against_model", 0)
        chk.cov["traces_validated_against_model"] += len(mrows)
    return allrows
