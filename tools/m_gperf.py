"""M3: gradual performance vs one-shot performance of the partial play (C03, C15) — harness
traces, direct oracle and the Coq-model correspondence."""
from vlib import *
import m_grad

HEADER = """From Coq Require Import ZArith NArith List Floats.
From V Require Import F64 Gradual SvCases GradCases GradPerf GradPerfCases.
Import ListNotations.
Open Scope Z_scope.
"""
MODES = m_grad.MODES


def pop_coq(o):
    if o[0] == "next":
        return f"PNext {o[1]}"
    if o[0] == "last":
        return f"PLast {o[1]}"
    return f"PNth {o[1]} {o[2]}"


def case_coq(r):
    m = r["mode"]
    n_ints = m_grad.N_INTS[m]
    seqs = []
    for s in r["seqs"]:
        if "outs" not in s:
            continue
        ops, outs, passed = ["PLen"], [f"GLen {s['len0']}"], [f"GLen {s['len0']}"]
        for op, o in zip(s["ops"], s["outs"]):
            ops += [pop_coq(op), "PLen"]
            if o["some"]:
                outs.append("GSome " + zlist(o["ints"][:n_ints] + [op[1]]))
                passed.append(f"GSome [{o['p']}]")
            else:
                outs.append("GNone")
                passed.append("GNone")
            outs.append(f"GLen {o['len']}")
            passed.append(f"GLen {o['len']}")
        seqs.append(f"([{'; '.join(ops)}], [{'; '.join(outs)}], [{'; '.join(passed)}])")
    return f"({r['id']}%N, {m_grad.view_coq(r)}, [{'; '.join(seqs)}])"


def shard_body(rows):
    return ("Definition cases := [\n  " + ";\n  ".join(case_coq(r) for r in rows) + "].\n"
            "Eval vm_compute in perf_bad cases.")


def oracle_c03(r):
    """every Some equals the one-shot performance for the reference position; Some/None and
    len follow the reference (min(n+1, remaining) objects processed, None iff nothing remains)"""
    out = []
    m = r["mode"]
    cls_t = None
    total = r["total"]
    for s in r["seqs"]:
        if "panic" in s:
            out.append((cls_t, f"op sequence {s['ops']} panicked: {s['panic']}"))
            continue
        if "outs" not in s:
            continue
        if s["len0"] != total:
            out.append((cls_t, f"len() at creation is {s['len0']} but {total} objects can be processed"))
        p = 0
        for k, (op, o) in enumerate(zip(s["ops"], s["outs"])):
            n = 0 if op[0] == "next" else (1 << 64) - 1 if op[0] == "last" else op[2]
            remaining = total - p
            step = min(n + 1, remaining)
            p += step
            want_some = remaining > 0
            if o["some"] != want_some:
                out.append((cls_t, f"op #{k} {op} of {s['ops'][:k + 1]}: returned "
                                   f"{'Some' if o['some'] else 'None'} with {remaining} objects remaining"))
                break
            if o["len"] != total - p:
                out.append((cls_t, f"op #{k} {op} of {s['ops'][:k + 1]}: len() afterwards is {o['len']}, "
                                   f"expected {total - p} (processed min(n+1, remaining) = {step})"))
                break
            if o["some"] and not o["eq"]:
                out.append((cls_t, f"op #{k} {op} of {s['ops'][:k + 1]} with state {r['states'][op[1]]}: gradual "
                                   f"performance differs from one-shot passed_objects({p}): got {o['got']} want {o['want']}"))
                break
    return out


def oracle_preset(r):
    """a Difficulty that already carries passed_objects(k): the calculator follows the protocol
    relative to the len() it announced (never more than the map holds), and every value is the
    one-shot result for the position reached"""
    s = r.get("preset")
    if not s:
        return []
    pre = f"Difficulty with passed_objects({s['k']}) preset: "
    if "panic" in s:
        return [pre + f"op sequence {s['ops']} panicked: {s['panic']}"]
    if "outs" not in s:
        return []
    out = []
    len0 = s["len0"]
    if len0 > r["total"]:
        out.append(pre + f"len() at creation is {len0} but the map has only {r['total']} objects")
    p = 0
    for k, (op, o) in enumerate(zip(s["ops"], s["outs"])):
        n = 0 if op[0] == "next" else (1 << 64) - 1 if op[0] == "last" else op[2]
        remaining = len0 - p
        step = min(n + 1, remaining)
        p += step
        if o["some"] != (remaining > 0):
            out.append(pre + f"op #{k} {op} of {s['ops'][:k + 1]}: returned {'Some' if o['some'] else 'None'} "
                             f"with {remaining} of the announced {len0} objects remaining")
            break
        if o["len"] != len0 - p:
            out.append(pre + f"op #{k} {op} of {s['ops'][:k + 1]}: len() afterwards is {o['len']}, expected "
                             f"{len0 - p} (announced {len0}, processed min(n+1, remaining) = {step})")
            break
        if o["some"] and not o["eq"]:
            out.append(pre + f"op #{k} {op} of {s['ops'][:k + 1]} with state {r['states'][op[1]]}: gradual "
                             f"performance differs from one-shot passed_objects({p}): got {o['got']} want {o['want']}")
            break
    return out


def run(chk, binary, count, max_objects, model=True):
    rc, out, err, dt = harness_run(binary, ["gperf", chk.seed, count, max_objects], timeout=3000)
    if rc != 0:
        chk.violation("harness gperf crashed", {"stderr": err[-3000:], "cmd": f"vh gperf {chk.seed} {count} {max_objects}"})
        return []
    rows = []
    for r in jsonl(out):
        if "decode_error" in r or "convert_error" in r:
            chk.dist("gperf.undecodable")
            continue
        if "panic_view" in r:
            chk.violation("panic_view: " + r["panic_view"], {"case": r})
        if "panic_mode_specific" in r:
            chk.violation("the mode-specific gradual performance calculator panicked: " + r["panic_mode_specific"],
                          {"map": r["map"], "settings": r["settings"], "states": r["states"]})
        if r.get("mode_specific_eq") is False:
            chk.violation("next / next / last of the mode-specific gradual performance calculator differ from the "
                          "mode-agnostic GradualPerformance on the same states",
                          {"map": r["map"], "settings": r["settings"], "states": r["states"][:3], "mode": r["mode"]})
            continue
        rows.append(r)
    for r in rows:
        chk.count([r["map"], r["settings"], r["mode"], r["states"]], r["total"] >= 2)
        chk.dist(f"gperf.mode={MODES[r['mode']]}{'(convert)' if r['src_mode'] != r['mode'] else ''}")
        chk.dist(f"gperf.shape={r['shape']}")
        for s in r["seqs"]:
            for op in s["ops"]:
                chk.dist("gperf.op=" + op[0])
        if r.get("preset"):
            chk.dist("gperf.preset_passed_objects")
        for cls, msg in [(None, m) for m in oracle_preset(r)] + oracle_c03(r):
            chk.violation(f"{MODES[r['mode']]}: {msg}",
                          {"finding_class": cls, "mode": MODES[r["mode"]], "settings": r["settings"],
                           "map": r["map"], "view": r["view"], "states": r["states"], "case_id": r["id"],
                           "replay": f"vh gperf {chk.seed} {count} {max_objects} (case id {r['id']})"})
    if rows:
        r = rows[0]
        chk.sample({"model": "GradPerf", "mode": MODES[r["mode"]], "shape": r["shape"], "total": r["total"],
                    "states": r["states"][:2], "ops": [s["ops"][:5] for s in r["seqs"]][:2]})
    if model and rows:
        shards, _ = balance_shards(rows, lambda r: 200 + 40 * sum(len(s["ops"]) for s in r["seqs"]) + 20 * r["total"])
        results = coq_eval(f"{chk.pid}-gperf", [shard_body(s) for s in shards], HEADER)
        for (o, e), srows in zip(results, shards):
            if e is not None:
                chk.broken_obligation("correspondence", "coqc failed on gradual performance cases: " + e)
                continue
            bad = parse_eval_list(o)
            if bad is None:
                chk.broken_obligation("correspondence", "unparsable coqc output: " + o[-800:])
                continue
            byid = {r["id"]: r for r in srows}
            for cid, which in bad:
                r = byid[cid]
                cls = None
                if which >= 300 and chk.known_class(cls):
                    # the model reproduces the recorded taiko finding: its idx differs from the reference
                    continue
                chk.cov["correspondence_mismatches"] += 1
                what = (f"outputs of op sequence #{which - 100}" if which < 300
                        else f"passed_objects of op sequence #{which - 300} (model idx vs reference position)")
                chk.broken_obligation(
                    "correspondence", f"GradPerf model ({MODES[r['mode']]}) and implementation differ on {what}",
                    {"case_id": cid, "mode": MODES[r["mode"]], "view": r["view"], "settings": r["settings"],
                     "map": r["map"], "seqs": r["seqs"]})
        chk.cov.setdefault("traces_validated_against_model", 0)
        chk.cov["traces_validated_against_model"] += len(rows)
    return rows
