#!/usr/bin/env python3
"""mkprompt.py <property-id> <round> — writes /tmp/prompt<round>_<id>.txt: the brief given to a fresh
seeding sub-agent (property text only, its own scratch worktree /tmp/seed<round>_<id>, nothing from
/verif).  Files touched by earlier seeds of the property are listed as off-limits for variety."""
import glob
import json
import os
import re
import sys

VERIF = os.path.dirname(os.path.dirname(os.path.abspath(__file__)))
pid, rnd = sys.argv[1], sys.argv[2]
prop = next(json.loads(l) for l in open(os.path.join(VERIF, "properties.jsonl")) if json.loads(l)["id"] == pid)
wt = f"/tmp/seed{rnd}_{pid}"
touched = set()
for d in glob.glob(os.path.join(VERIF, "seeded", f"S-{pid}-*")):
    for l in open(os.path.join(d, "patch.diff")):
        m = re.match(r"\+\+\+ b/(\S+)", l)
        if m:
            touched.add(m.group(1))
extra = ""
if pid == "C11":
    extra = ("\nNote for this property: an invalid access may be silent in a normal test run. The demonstration may therefore be a "
             "test that only fails when run under Miri (`cargo +nightly miri test --offline --test seed_demo` works offline in this "
             "sandbox; keep the embedded map tiny because Miri is slow) or in a debug build with debug assertions; say which in your reply.\n")
if pid in ("C10", "C20"):
    extra = ("\nNote: if the demonstration needs a cargo feature (`--features sync` / `raw_strains`), gate the test file on it with "
             "`#![cfg(feature = \"...\")]` and say so in your reply.\n")
text = f"""You are helping to evaluate a verification framework by writing a realistic faulty change ("seeded bug") for a Rust library.

Work ONLY inside the scratch git worktree {wt} (a checkout of the crate rosu-pp: osu! difficulty / performance calculator). Do NOT read, list or modify anything under /verif, and do NOT modify /repo. No network is available: always run cargo with --offline (export CARGO_NET_OFFLINE=true) and use `export CARGO_TARGET_DIR={wt}/target`.

The property the library is supposed to satisfy:

  id: {pid}
  title: {prop['title']}
  statement: {prop['statement']}
  quantified over: {prop['quantifier']['text']}
  code it is anchored in: {', '.join(prop['anchors']['files'])}

Your task: make ONE small change to the library source under {wt}/src (a few lines, the kind of mistake a maintainer could plausibly make during a refactor or optimisation: wrong variable, off-by-one, dropped call, missed case, a cache that goes stale, two sites that each look fine alone, ...) such that
  1. the crate still compiles (default features; ideally all of `--features raw_strains`, `--features sync` too),
  2. the existing test suite still passes: `cargo test --offline --lib` and `cargo test --offline --no-fail-fast --test decode --test difficulty --test performance` (on the UNCHANGED tree the test `basic_osu` in tests/difficulty.rs already fails and `rng_mania_hitresults` is flaky - ignore exactly those two),
  3. the property above is violated, but only for inputs / call sequences that need something specific to manifest (an unusual input, a particular multi-step sequence of operations, specific mods or settings, a particular interleaving) - NOT something every ordinary use would expose at once, and not a change of the 4 shipped maps' results that the existing tests pin.

IMPORTANT for variety: other people already wrote seeded bugs for this property that modify {', '.join(sorted(touched)) or '(none)'}. Do NOT touch those files; pick a DIFFERENT clause of the property and a different mechanism in a different part of the code (look beyond the anchor files too: helpers, conversions, per-mode code the property's behaviour depends on). Prefer a bug that is HARD to hit by random testing: it should need a conjunction of two or three specific conditions.
{extra}
Also write a demonstration: an integration test file {wt}/tests/seed_demo.rs using only the public API of the crate (it may embed .osu text as string literals; rosu-map and rosu-mods are regular dependencies) which FAILS with your change and PASSES without it (verify both with `git apply -R patch.diff` / `git apply patch.diff`). The demo should state in a comment which clause of the property it exercises.

When done:
  - save the source change only (not the demo) as {wt}/patch.diff  (`git diff -- src > patch.diff`), leave the change applied and the demo in tests/seed_demo.rs,
  - delete the build output (`rm -rf {wt}/target`),
  - reply with: a one-paragraph summary of the change, what exactly it needs in order to manifest, and the commands you ran with their pass/fail outcome (existing suite with the change; demo with and without the change).
Avoid trivial or cosmetic variants such as changing a numeric constant in a formula only. Prefer logic/bookkeeping/dispatch mistakes relevant to the property's mechanism.
"""
open(f"/tmp/prompt{rnd}_{pid}.txt", "w").write(text)
print(f"/tmp/prompt{rnd}_{pid}.txt", sorted(touched))
