"""M5: BeatmapAttributesBuilder — harness traces, direct oracles (C17) and the bit-exact
Coq-model correspondence."""
from vlib import *

HEADER = """From Coq Require Import ZArith NArith List Floats.
From V Require Import F64 F32 Attributes AttributesQ.
Import ListNotations.
Open Scope Z_scope.
"""
AMODES = ["AOsu", "ATaiko", "ACatch", "AMania"]
MODES = ["osu", "taiko", "catch", "mania"]


def kind(c, i):
    cu = c["custom"][i]
    if cu is not None:
        return f"(mk_mdk true (f32_of_bits {cu[0]}) {cbool(cu[1])})"
    v = f"(f32_of_bits {c['map'][i]})"
    if i in (0, 1):        # BeatmapAttributesBuilder::map clamps ar and od to [0, 10]
        v = f"(F64.fclamp {v} 0%float 10%float)"
    return f"(mk_mdk false {v} false)"


def optf(b):
    return "None" if b is None else f"(Some (of_bits {b}))"


def case_coq(r):
    c = r["case"]
    ar, od, cs, hp = (kind(c, i) for i in range(4))
    da = c["da"]
    b = (f"(mk_builder {AMODES[c['mode']]} {cbool(c['conv'])} {ar} {od} {cs} {hp} "
         f"{cbool(bool(c['bits'] & 16))} {cbool(bool(c['bits'] & 2))} "
         f"{optf(da[0])} {optf(da[1])} {optf(da[2])} {optf(da[3])} (of_bits {r['build'][4]}))")
    nz = lambda xs: "[" + "; ".join(z(-1 if x is None else x) for x in xs) + "]"
    return f"({r['id']}%N, {b}, {nz(r['build'])}, {nz(r['hw'])})"


def run(chk, binary, count, calc_count):
    rc, out, err, dt = harness_run(binary, ["attrs", chk.seed, count, calc_count], timeout=3000)
    if rc != 0:
        chk.violation("harness attrs crashed", {"stderr": err[-3000:], "cmd": f"vh attrs {chk.seed} {count} {calc_count}"})
        return
    rows = jsonl(out)
    builder_rows = []
    for r in rows:
        if "skip" in r:
            continue
        if r["kind"] == "builder":
            c = r["case"]
            chk.count(c, any(x is not None for x in c["custom"]) or c["bits"] != 0)
            chk.dist(f"attrs.mode={MODES[c['mode']]}{'(convert)' if c['conv'] else ''}")
            chk.dist("attrs.mods=" + ("HR" if c["bits"] & 16 else "EZ" if c["bits"] & 2 else "-") +
                     ("+rate" if c["bits"] & (64 | 256) else "") + ("+DA" if any(x is not None for x in c["da"]) else ""))
            chk.dist("attrs.clock=" + ("explicit" if c["clock"] is not None else "mods"))
            chk.dist("attrs.path=" + ("Difficulty" if c["via_difficulty"] else "builder setters"))
            if "build" in r:
                builder_rows.append(r)
        else:
            chk.count([r["map"], r["settings"], r["mode"]], True)
            chk.dist(f"attrs.calc.mode={MODES[r['mode']]}")
        if "panic" in r:
            chk.violation("attribute builder panicked: " + r["panic"], {"case": r})
        for f in r.get("fails", []):
            chk.violation(f, {"case": r.get("case"), "settings": r.get("settings"), "map": r.get("map"),
                              "replay": f"vh attrs {chk.seed} {count} {calc_count} ({r['kind']} case id {r['id']})"})
    if builder_rows:
        chk.sample({"model": "Attributes", "case": builder_rows[0]["case"], "build_words": builder_rows[0]["build"]})
    shards, _ = balance_shards(builder_rows, lambda r: 1)
    bodies = ["Definition cases := [\n  " + ";\n  ".join(case_coq(r) for r in s) + "].\nEval vm_compute in (attr_bad cases ++ twin_bad cases)."
              for s in shards]
    results = coq_eval(f"{chk.pid}-attrs", bodies, HEADER)
    for (o, e), s in zip(results, shards):
        if e is not None:
            chk.broken_obligation("correspondence", "coqc failed on attribute cases: " + e)
            continue
        bad = parse_eval_list(o)
        if bad is None:
            chk.broken_obligation("correspondence", "unparsable coqc output: " + o[-800:])
            continue
        byid = {r["id"]: r for r in s}
        for cid, which in bad:
            chk.cov["correspondence_mismatches"] += 1
            r = byid[cid]
            what = ("Attributes model and BeatmapAttributesBuilder::build differ" if which == 1 else
                    "Attributes model and BeatmapAttributesBuilder::hit_windows differ" if which == 2 else
                    "exact twin (AttributesQ) and float model differ by more than 1e-6 (twin validation)")
            chk.broken_obligation("correspondence", what,
                                  {"case": r["case"], "build": r["build"], "hw": r["hw"], "coq_case": case_coq(r)})
    chk.cov.setdefault("traces_validated_against_model", 0)
    chk.cov["traces_validated_against_model"] += len(builder_rows)
