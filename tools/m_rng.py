"""The two pseudo random generators (hooks OsuRandom / CsharpRandom): recorded call sequences against
the Coq models (Model/Prng.v) and a direct range oracle (C19, C05)."""
import struct
from vlib import *

HEADER = """From Coq Require Import ZArith NArith List.
From V Require Import Prng.
Import ListNotations.
Open Scope Z_scope.
"""
ONAMES = {0: "OGen", 1: "OInt", 2: "ODouble", 4: "OBool"}


def z(v):
    return str(v) if v >= 0 else f"({v})"


def oop(o):
    return f"ORange {z(o[1])} {z(o[2])}" if o[0] == 3 else ONAMES[o[0]]


def cop(o):
    return "CNext" if o[0] == 0 else f"CMax {z(o[1])}"


def direct(r):
    out = []
    if r["kind"] == "osu":
        for k, (o, v) in enumerate(zip(r["ops"], r["out"])):
            if o[0] == 1 and not 0 <= v < 2 ** 31:
                out.append(f"call #{k}: next_int returned {v}, outside [0, 2^31)")
            elif o[0] == 2:
                d = struct.unpack("<d", struct.pack("<Q", v & (2 ** 64 - 1)))[0]
                if not 0.0 <= d < 1.0:
                    out.append(f"call #{k}: next_double returned {d}, outside [0, 1)")
            elif o[0] == 3:
                lo, hi = o[1], o[2]
                if lo < hi and not lo <= v < hi:
                    out.append(f"call #{k}: next_int_range({lo}, {hi}) returned {v}")
                if lo == hi and v != lo:
                    out.append(f"call #{k}: next_int_range({lo}, {hi}) returned {v}")
    else:
        for k, (o, v) in enumerate(zip(r["ops"], r["out"])):
            if o[0] == 0 and not 0 <= v < 2 ** 31 - 1:
                out.append(f"call #{k}: next() returned {v}, outside [0, i32::MAX)")
            if o[0] == 1 and not 0 <= v < o[1]:
                out.append(f"call #{k}: next_max({o[1]}) returned {v}")
    return out


def run(chk, binary, count):
    rc, out, err, dt = harness_run(binary, ["rngs", chk.seed, count], timeout=600)
    if rc != 0:
        chk.violation("harness rngs crashed", {"stderr": err[-2000:], "cmd": f"vh rngs {chk.seed} {count}"})
        return
    rows = jsonl(out)
    ocases, ccases, byid = [], [], {}
    for r in rows:
        byid[r["id"]] = r
        chk.count(["rngs", r["kind"], r["seed"], r["ops"]], len(r["ops"]) >= 2)
        chk.dist(f"rngs.kind={r['kind']}")
        rep = f"vh rngs {chk.seed} {count} (case id {r['id']})"
        if "panic" in r:
            chk.violation(f"{r['kind']} generator panicked: {r['panic']}", {"seed": r["seed"], "ops": r["ops"], "replay": rep})
            continue
        for msg in direct(r):
            chk.violation(f"{r['kind']} generator, seed {r['seed']}: {msg}", {"seed": r["seed"], "ops": r["ops"], "replay": rep})
        if r["kind"] != "osu":
            chk.dist("rngs.csharp_seed_invariant=evaluated")
        if r["kind"] == "osu":
            ocases.append(f"({r['id']}%N, {z(r['seed'])}, [{'; '.join(oop(o) for o in r['ops'])}], {zlist(r['out'])})")
        else:
            ccases.append(f"({r['id']}%N, {z(r['seed'])}, [{'; '.join(cop(o) for o in r['ops'])}], {zlist(r['out'])})")
    if rows:
        r = rows[0]
        chk.sample({"model": "Prng", "kind": r["kind"], "seed": r["seed"], "ops": r["ops"][:6]})

    def shards(cs, n):
        per = max(1, (len(cs) + n - 1) // n)
        return [cs[i:i + per] for i in range(0, len(cs), per)]
    bodies = [f"Definition cases := [\n  " + ";\n  ".join(s) + "].\nEval vm_compute in orng_bad cases."
              for s in shards(ocases, NCPU // 2)]
    n_o = len(bodies)
    bodies += [f"Definition cases := [\n  " + ";\n  ".join(s) + "].\nEval vm_compute in crng_bad cases."
               for s in shards(ccases, NCPU // 2)]
    n_oc = len(bodies)
    bodies += [f"Definition cases := [\n  " + ";\n  ".join(s) + "].\nEval vm_compute in crng_noinv cases."
               for s in shards(ccases, NCPU // 2)]
    results = coq_eval(f"{chk.pid}-rngs", bodies, HEADER)
    for k, (o, e) in enumerate(results):
        if k >= n_oc:
            # hypothesis of C19_csharp_run_in_range on the seeds actually run (CRngProofs.cinvb_sound)
            bad = None if e is not None else parse_eval_list(o)
            if bad is None:
                chk.broken_obligation("correspondence", "coqc failed on the seed invariant cases: " + str(e or o[-800:]))
                continue
            chk.dist("rngs.csharp_seed_invariant=fails", len(bad))
            continue
        if e is not None:
            chk.broken_obligation("correspondence", "coqc failed on generator cases: " + e)
            continue
        bad = parse_eval_list(o)
        if bad is None:
            chk.broken_obligation("correspondence", "unparsable coqc output: " + o[-800:])
            continue
        for cid in bad:
            cid = cid[0] if isinstance(cid, (list, tuple)) else cid
            r = byid[cid]
            chk.cov["correspondence_mismatches"] += 1
            chk.broken_obligation("correspondence",
                                  f"{r['kind']} generator: the model (Model/Prng.v) computes other values than the "
                                  f"implementation for seed {r['seed']}",
                                  {"seed": r["seed"], "ops": r["ops"], "impl": r["out"],
                                   "replay": f"vh rngs {chk.seed} {count} (case id {r['id']})"})
    chk.cov.setdefault("traces_validated_against_model", 0)
    chk.cov["traces_validated_against_model"] += len(ocases) + len(ccases)
