"""M1 correspondence: StrainsVec op sequences, real type vs Coq model (vm_compute)."""
from vlib import *

HEADER = """From Coq Require Import ZArith NArith List Floats.
From V Require Import F64 StrainsVec Aggregate SvCases.
Import ListNotations.
Open Scope Z_scope.
"""


def op_coq(o):
    if isinstance(o, list):
        return f"OPush {z(o[1])}"
    return {"retain": "ORetain", "sort": "OSort", "retain_sort": "ORetainSort"}[o]


def case_coq(r):
    ops = "[" + "; ".join(op_coq(o) for o in r["ops"]) + "]"
    e = (f"mk_sv_expect {z(r['len'])} {zlist(r['iter'])} {zlist(r['into_vec'])} {z(r['sum'])} "
         f"{zlist(r['sorted'])} {zlist(r['iter_mut'])} {z(r['dv'])}")
    return f"({r['id']}%N, {ops}, {e})"


def shard_body(rows):
    return ("Definition cases : list (N * list op * sv_expect) := [\n  "
            + ";\n  ".join(case_coq(r) for r in rows) + "].\n"
            "Eval vm_compute in sv_bad cases.")


WHICH = {1: "overflow flag", 2: "len", 3: "iter", 4: "into_vec", 5: "sum", 6: "transmute(sorted)",
         7: "sorted_non_zero_iter_mut", 8: "difficulty_value", 9: "difficulty_value transmute"}


def direct_oracle(r):
    """Property evaluated directly on the implementation's outputs: the vector must behave
    like a plain list of the canonical elements (independent python reference)."""
    l = []
    SIGN = 1 << 63

    def key(w):
        return w if w < SIGN else -(w - SIGN) - 1
    for o in r["ops"]:
        if isinstance(o, list):
            w = o[1]
            l.append(w if 0 < w < SIGN else 0)
        elif o == "retain":
            l = [w for w in l if w != 0]
        elif o == "sort":
            l = sorted(l, key=key, reverse=True)
        else:
            l = sorted([w for w in l if w != 0], key=key, reverse=True)
    n_push = sum(1 for o in r["ops"] if isinstance(o, list))
    errs = []
    if r["iter"] != l:
        errs.append("iter differs from plain list")
    if r["into_vec"] != l:
        errs.append("into_vec differs from plain list")
    srt = sorted([w for w in l if w != 0], key=key, reverse=True)
    if r["sorted"] != srt:
        errs.append("retain+sort+transmute differs from plain list")
    if r["iter_mut"] != srt:
        errs.append("sorted_non_zero_iter_mut differs")
    # the plain list's length (before the fix of `retain_non_zero` the compact list kept reporting
    # the number of pushes, and this oracle had copied that)
    if r["len"] != len(l):
        errs.append(f"len() is {r['len']} but the plain list has {len(l)} elements")
    return errs


def run(chk, binary, count, tag="default"):
    """Runs `count` generated op sequences through [binary]; B and C."""
    rc, out, err, dt = harness_run(binary, ["sv", chk.seed, count])
    if rc != 0:
        chk.violation("harness sv crashed (panic/abort in StrainsVec driver)",
                      {"stderr": err[-3000:], "cmd": f"vh sv {chk.seed} {count}", "build": tag})
        return
    rows = jsonl(out)
    for r in rows:
        npush = sum(1 for o in r["ops"] if isinstance(o, list))
        nontrivial = npush >= 2 and any((not isinstance(o, list)) or not (0 < o[1] < (1 << 63)) for o in r["ops"])
        chk.count(r["ops"], nontrivial)
        chk.dist(f"sv[{tag}].len<{10 if len(r['ops']) < 10 else 50 if len(r['ops']) < 50 else 1000}")
        chk.dist(f"sv[{tag}].realistic={r['realistic']}")
        for e in direct_oracle(r):
            chk.violation(f"StrainsVec[{tag}]: {e}", {"case": r, "build": tag,
                                                     "replay": f"vh sv {chk.seed} (case id {r['id']})"})
    if rows:
        chk.sample({"model": "StrainsVec", "build": tag, "ops": rows[0]["ops"][:12], "len": rows[0]["len"]})
    # B: model correspondence
    per = max(1, (len(rows) + NCPU - 1) // NCPU)
    shards = [rows[i:i + per] for i in range(0, len(rows), per)]
    results = coq_eval(f"{chk.pid}-sv-{tag}", [shard_body(s) for s in shards], HEADER)
    for (o, e), srows in zip(results, shards):
        if e is not None:
            chk.broken_obligation("correspondence", "coqc failed on StrainsVec cases: " + e)
            continue
        bad = parse_eval_list(o)
        if bad is None:
            chk.broken_obligation("correspondence", "unparsable coqc output: " + o[-800:])
            continue
        byid = {r["id"]: r for r in srows}
        for (cid, which) in bad:
            chk.cov["correspondence_mismatches"] += 1
            r = byid.get(cid)
            # a mismatch that the direct oracle did not flag: model and code disagree on
            # a float-level observation (sum / difficulty_value) or the model is off
            chk.broken_obligation("correspondence",
                                  f"StrainsVec model and implementation differ on {WHICH.get(which, which)}",
                                  {"case": r, "build": tag})
    chk.cov.setdefault("traces_validated_against_model", 0)
    chk.cov["traces_validated_against_model"] += len(rows)
