"""C10 / C20: the same seeded workload under the four feature builds; threaded oracle."""
from vlib import *

MODES = ["osu", "taiko", "catch", "mania"]
FEATURE_SETS = [(), ("raw_strains",), ("sync",), ("raw_strains", "sync")]


def builds(chk, sets=FEATURE_SETS):
    out = {}
    for fs in sets:
        b, log_ = harness_build(features=fs)
        if b is None:
            chk.broken_obligation("build", f"harness does not build with features {fs}: " + log_)
            return None
        out[fs] = b
    return out


def run_features(chk, count, max_objects):
    bins = builds(chk)
    if bins is None:
        return
    outs = {}
    for fs, b in bins.items():
        rc, out, err, dt = harness_run(b, ["feat", chk.seed, count, max_objects], timeout=3000)
        if rc != 0:
            chk.violation(f"workload crashed in the build with features {list(fs)}", {"stderr": err[-3000:]})
            return
        outs[fs] = [r for r in jsonl(out)]
    base = outs[()]
    for r in base:
        if "skip" in r:
            continue
        chk.count([r["map"], r["settings"], r["mode"], r["spec"]], r["n_objects"] >= 2)
        chk.dist(f"feat.mode={MODES[r['mode']]}{'(convert)' if r['src_mode'] != r['mode'] else ''}")
        chk.dist(f"feat.shape={r['shape']}")
        s = r["results"].get("strains", "")
        chk.dist("feat.zero_sections=" + ("some" if any(seg.split(":")[1] not in ("0z",) for seg in s.split() if ":" in seg) else "none"))
        if any(seg.split(":")[2] != "0s" for seg in s.split() if seg.count(":") >= 3):
            chk.dist("feat.subnormal_peaks")
    for fs in FEATURE_SETS[1:]:
        for a, b in zip(base, outs[fs]):
            if "skip" in a:
                continue
            if a["results"] != b.get("results"):
                diff = [k for k in a["results"] if a["results"].get(k) != b.get("results", {}).get(k)]
                chk.violation(f"{MODES[a['mode']]}: results differ between the default build and --features {','.join(fs)}: "
                              + "; ".join(f"{k}: {str(a['results'].get(k))[:200]} vs {str(b.get('results', {}).get(k))[:200]}" for k in diff[:2]),
                              {"mode": MODES[a["mode"]], "features": list(fs), "settings": a["settings"], "spec": a["spec"],
                               "map": a["map"], "differing": diff,
                               "replay": f"vh feat {chk.seed} {count} {max_objects} in both builds (case id {a['id']})"})
    ok = [r for r in base if "skip" not in r]
    if ok:
        chk.sample({"oracle": "feat", "mode": MODES[ok[0]["mode"]], "shape": ok[0]["shape"], "settings": ok[0]["settings"],
                    "strains": ok[0]["results"].get("strains")})
    chk.cov["feature_builds"] = [",".join(fs) or "default" for fs in FEATURE_SETS]


def run_threads(chk, count, max_objects, repeats):
    bins = builds(chk, [(), ("sync",)])
    if bins is None:
        return
    for fs, b in bins.items():
        for rep in range(repeats):
            rc, out, err, dt = harness_run(b, ["conc", chk.seed + rep, count, max_objects], timeout=3000)
            if rc != 0:
                chk.violation(f"threaded workload crashed (features {list(fs)})", {"stderr": err[-3000:]})
                return
            rows = jsonl(out)
            for r in rows:
                chk.count([r["map"], r["settings"], r["mode"], fs, rep], r["n_objects"] >= 2)
                chk.dist(f"conc.mode={MODES[r['mode']]}")
                chk.dist("conc.features=" + (",".join(fs) or "default"))
                if r["settings"]["repr"] == 4 and r["settings"]["lazer_extra"] & 4:
                    chk.dist("conc.lazer_random_seed")
                for f in r["fails"]:
                    chk.violation(f"{MODES[r['mode']]} (features {list(fs)}): {f}",
                                  {"mode": MODES[r["mode"]], "features": list(fs), "settings": r["settings"], "spec": r["spec"],
                                   "map": r["map"], "replay": f"vh conc {chk.seed + rep} {count} {max_objects} (case id {r['id']})"})
            if rows and rep == 0:
                chk.sample({"oracle": "conc", "features": list(fs), "pools": rows[0]["pools"], "handover": rows[0]["handover"],
                            "mode": MODES[rows[0]["mode"]], "settings": rows[0]["settings"]})
