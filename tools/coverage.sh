#!/bin/bash
# Development aid, not a registered check: which lines of /repo/src does the quick tier of all 20
# checks never execute?  Builds the harness with -C instrument-coverage (nightly + llvm-tools), runs
# every check's quick tier against a scratch worktree (evidence and replays go to the scratch cache)
# and prints per-file line coverage plus the uncovered regions of the files the properties anchor in.
set -e
W=/tmp/cov
LLVM=$(dirname $(find ~/.rustup/toolchains/nightly-x86_64-unknown-linux-gnu -name llvm-cov | head -1))
rm -rf $W/prof $W/cache; mkdir -p $W/prof
rm -rf $W/h && cp -r /verif/harness $W/h && rm -rf $W/h/.cargo
( cd $W/h && RUSTFLAGS="--cfg rosu_pp_verif -C instrument-coverage" CARGO_TARGET_DIR=$W/target CARGO_NET_OFFLINE=true \
    cargo +nightly build --offline --release >/dev/null 2>&1 )
git -C /repo worktree remove --force $W/repo 2>/dev/null || true
git -C /repo worktree add --detach $W/repo HEAD >/dev/null 2>&1
export VERIF_REPO=$W/repo VERIF_CACHE=$W/cache VERIF_HARNESS_OVERRIDE=$W/target/release/vh LLVM_PROFILE_FILE="$W/prof/%p-%8m.profraw" VERIF_SEED=${1:-7}
for i in 01 02 03 04 05 06 07 08 09 10 11 12 13 14 15 16 17 18 19 20; do
  python3 /verif/tools/check.py C$i --tier quick 2>&1 | tail -1
done
git -C /repo worktree remove --force $W/repo
$LLVM/llvm-profdata merge -sparse $W/prof/*.profraw -o $W/all.profdata
$LLVM/llvm-cov report $W/target/release/vh -instr-profile=$W/all.profdata --ignore-filename-regex='(\.cargo|/rustc/|harness|/tmp/)' 2>/dev/null > $W/report.txt
$LLVM/llvm-cov show $W/target/release/vh -instr-profile=$W/all.profdata --ignore-filename-regex='(\.cargo|/rustc/|harness|/tmp/)' --show-line-counts-or-regions 2>/dev/null > $W/show.txt
tail -3 $W/report.txt
