"""The slider splitting of the osu! -> taiko conversion against the Coq model Model/TaikoSplit.v (C19)."""
from vlib import *

HEADER = """From Coq Require Import ZArith NArith List Floats.
From V Require Import F64 TaikoSplit.
Import ListNotations.
Open Scope Z_scope.
"""


def fb(w):
    return f"(of_bits {w})"


def obj_coq(o):
    k = o[0]
    if k == 0:
        return f"TCircle {fb(o[1])}"
    if k == 2:
        return f"TSpinner {fb(o[1])}"
    if k == 3:
        return f"THold {fb(o[1])}"
    dist = "None" if o[2] is None else f"(Some {fb(o[2])})"
    return f"TSlider {fb(o[1])} {dist} {o[3]} {fb(o[4])} {fb(o[5])}"


def case_coq(r):
    objs = "; ".join(obj_coq(o) for o in r["objs"])
    want = "; ".join(f"({k}, {t})" for k, t in r["conv"])
    return f"({r['id']}%N, {r['version']}, {r['sm']}, {r['tr']}, [{objs}], [{want}])"


def run(chk, binary, count):
    rc, out, err, dt = harness_run(binary, ["tsplit", chk.seed, count], timeout=900)
    if rc != 0:
        chk.violation("harness tsplit crashed", {"stderr": err[-2000:], "cmd": f"vh tsplit {chk.seed} {count}"})
        return
    rows = []
    for r in jsonl(out):
        rep = f"vh tsplit {chk.seed} {count} (case id {r['id']})"
        if "skip" in r:
            chk.dist("tsplit.skipped")
            continue
        if "panic" in r:
            chk.violation("the taiko conversion panicked: " + r["panic"], {"map": r["map"], "replay": rep})
            continue
        if "convert_error" in r:
            chk.violation("an osu! map could not be converted to taiko: " + r["convert_error"], {"map": r["map"], "replay": rep})
            continue
        n_sl = sum(1 for o in r["objs"] if o[0] == 1)
        kept = sum(1 for k, _ in r["conv"] if k == 1)
        chk.count(["tsplit", r["map"]], n_sl >= 1)
        chk.dist("tsplit.sliders", n_sl)
        chk.dist("tsplit.sliders_split", n_sl - kept)
        chk.dist("tsplit.version>=8" if r["version"] >= 8 else "tsplit.version<8")
        # direct: converted start times are non-decreasing and there is no hold note left
        ts = [fl(t) for _, t in r["conv"]]
        if any(a > b for a, b in zip(ts, ts[1:])):
            chk.violation("taiko convert: objects are not in non-decreasing time order", {"map": r["map"], "replay": rep})
        rows.append(r)
    if rows:
        r = rows[0]
        chk.sample({"model": "TaikoSplit", "version": r["version"], "objects": len(r["objs"]), "converted": len(r["conv"])})
    shards, _ = balance_shards(rows, lambda r: 200 + 60 * len(r["objs"]) + 30 * len(r["conv"]))
    bodies = ["Definition cases : list tcase := [\n  " + ";\n  ".join(case_coq(r) for r in s) +
              "].\nEval vm_compute in tsplit_bad cases." for s in shards]
    results = coq_eval(f"{chk.pid}-tsplit", bodies, HEADER)
    for (o, e), srows in zip(results, shards):
        if e is not None:
            chk.broken_obligation("correspondence", "coqc failed on taiko split cases: " + e)
            continue
        bad = parse_eval_list(o)
        if bad is None:
            chk.broken_obligation("correspondence", "unparsable coqc output: " + o[-800:])
            continue
        byid = {r["id"]: r for r in srows}
        for cid, which in bad:
            r = byid[cid]
            chk.cov["correspondence_mismatches"] += 1
            what = ("the model's fuel ran out (the tick loop needs more iterations than ceil((duration + tick/8)/tick) + 4)"
                    if which == 2 else "model and implementation produce different taiko objects")
            chk.broken_obligation("correspondence", "taiko slider splitting: " + what,
                                  {"map": r["map"], "inputs": r["objs"], "impl": r["conv"],
                                   "replay": f"vh tsplit {chk.seed} {count} (case id {r['id']})"})
    chk.cov.setdefault("traces_validated_against_model", 0)
    chk.cov["traces_validated_against_model"] += len(rows)


def fl(bits):
    import struct
    return struct.unpack("<d", struct.pack("<Q", bits))[0]
