//! `vh` — verification harness for rosu-pp (see /verif/DESIGN.md).
//!
//! Every subcommand prints JSON lines on stdout. Random choices derive from the seed
//! given on the command line.

mod attrs;
mod canon;
mod conc;
mod conv;
mod dec;
mod det;
mod eqv;
mod feat;
mod fin;
mod gen;
mod gperf;
mod grad;
mod gs;
mod json;
mod nop;
mod psplit;
mod rng;
mod settings;
mod rngs;
mod sorts;
mod tsplit;
mod strains;
mod sv;

fn arg<T: std::str::FromStr>(args: &[String], i: usize, default: T) -> T {
    args.get(i).and_then(|s| s.parse().ok()).unwrap_or(default)
}

fn main() {
    let args: Vec<String> = std::env::args().collect();
    let cmd = args.get(1).map(String::as_str).unwrap_or("");
    match cmd {
        "sv" => sv::main(arg(&args, 2, 0), arg(&args, 3, 100)),
        "gs_exh" => gs::main_exh(arg(&args, 2, 0), arg(&args, 3, 1), arg(&args, 4, 0)),
        "gs_rand" => gs::main_rand(arg(&args, 2, 0), arg(&args, 3, 100)),
        "strains" => strains::main(arg(&args, 2, 0), arg(&args, 3, 100), arg(&args, 4, 40)),
        "c04" | "c07" | "c08" | "c18" => eqv::main(cmd, arg(&args, 2, 0), arg(&args, 3, 100), arg(&args, 4, 40)),
        "attrs" => attrs::main(arg(&args, 2, 0), arg(&args, 3, 100), arg(&args, 4, 50)),
        "bpm" | "det" => det::main(cmd, arg(&args, 2, 0), arg(&args, 3, 100), arg(&args, 4, 30)),
        "feat" => feat::main(arg(&args, 2, 0), arg(&args, 3, 100), arg(&args, 4, 30)),
        "conc" => conc::main(arg(&args, 2, 0), arg(&args, 3, 100), arg(&args, 4, 30)),
        "dec" => dec::main(arg(&args, 2, 0), arg(&args, 3, 100), arg(&args, 4, 100), arg(&args, 5, 100)),
        "conv" => conv::main(arg(&args, 2, 0), arg(&args, 3, 100), arg(&args, 4, 40)),
        "nop" => nop::main(arg(&args, 2, 0), arg(&args, 3, 0), arg(&args, 4, 100), args.get(5).map_or(false, |s| s == "real")),
        "banana" => nop::banana_main(arg(&args, 2, 0), arg(&args, 3, 100)),
        "sorts" => sorts::main(arg(&args, 2, 0), arg(&args, 3, 100)),
        "rngs" => rngs::main(arg(&args, 2, 0), arg(&args, 3, 100)),
        "tsplit" => tsplit::main(arg(&args, 2, 0), arg(&args, 3, 100)),
        "psplit" => psplit::main(arg(&args, 2, 0), arg(&args, 3, 100)),
        "fin" => fin::main(arg(&args, 2, 0), arg(&args, 3, 100), arg(&args, 4, 30)),
        "gperf" => gperf::main(arg(&args, 2, 0), arg(&args, 3, 100), arg(&args, 4, 40)),
        "grad" => grad::main(arg(&args, 2, 0), arg(&args, 3, 100), arg(&args, 4, 40)),
        _ => {
            eprintln!("unknown subcommand {cmd:?}");
            std::process::exit(2);
        }
    }
}
