//! C11, decoder scratch buffer: a hit-object line whose curve list fails to parse is skipped
//! and must leave nothing behind — decoding a file with such lines inserted gives exactly the
//! hit objects of the file without them (a stale pointer kept across the line boundary would
//! be re-typed as `&str` for the next slider and garble or drop it).

use crate::json::{arr, esc, Obj};
use crate::rng::Rng;
use rosu_pp::Beatmap;

const HEADER: &str = "osu file format v14\n\n[General]\nMode: 0\n\n[Difficulty]\nHPDrainRate:5\nCircleSize:4\nOverallDifficulty:5\nApproachRate:5\nSliderMultiplier:1.4\nSliderTickRate:1\n\n[TimingPoints]\n0,500,4,2,0,100,1,0\n\n[HitObjects]\n";

fn valid_line(rng: &mut Rng, t: i64) -> String {
    let x = rng.range(0, 512);
    let y = rng.range(0, 384);
    match rng.below(5) {
        0 => format!("{x},{y},{t},1,0,0:0:0:0:"),
        1 => format!("{x},{y},{t},12,0,{},0:0:0:0:", t + 300),
        _ => {
            let kind = *rng.pick(&["B", "L", "P", "C"]);
            let cap = if rng.chance(1, 6) { 30 } else { 4 };
            let n = 1 + rng.below(cap);
            let mut pts = String::new();
            for _ in 0..n {
                pts.push_str(&format!("|{}:{}", rng.range(0, 512), rng.range(0, 384)));
                if rng.chance(1, 8) {
                    pts.push_str(&format!("|{}", rng.pick(&["B", "L", "P"])));
                }
            }
            format!("{x},{y},{t},2,0,{kind}{pts},{},{}", 1 + rng.below(3), 40 + rng.below(300))
        }
    }
}

/// Slider lines that pass the field split but fail inside the curve-list conversion.
fn malformed_line(rng: &mut Rng, t: i64) -> String {
    let x = rng.range(0, 512);
    let y = rng.range(0, 384);
    let curve = match rng.below(8) {
        0 => "B|200:200|300".to_string(),
        1 => "B|200:200||300:300".to_string(),
        2 => "L|abc:100|120:140".to_string(),
        3 => "P|100:abc|120:140".to_string(),
        4 => "B|100:100|200|L|300:300|310:310".to_string(),
        5 => "B|100:100|200:200|L|".to_string(),
        6 => {
            let m = rng.below(20) + 1;
            format!("B|{}|5", (0..m).map(|k| format!("{}:{}", k * 10, k * 7)).collect::<Vec<_>>().join("|"))
        }
        _ => "L|1e400:5|7:7".to_string(),
    };
    format!("{x},{y},{t},2,0,{curve},1,100")
}

fn objects(text: &str) -> Result<String, String> {
    std::panic::catch_unwind(|| Beatmap::from_bytes(text.as_bytes()).map(|m| format!("{:?} {:?}", m.hit_objects, m.hit_sounds)))
        .map_err(|_| "panic".to_string())?
        .map_err(|e| e.to_string())
}

pub fn main(seed: u64, count: u64) {
    for k in 0..count {
        let mut rng = Rng::fork(seed ^ 0x7073_706c, k);
        let n = 2 + rng.below(10) as i64;
        let mut clean = String::from(HEADER);
        let mut dirty = String::from(HEADER);
        let mut kinds = Vec::new();
        let mut n_bad = 0;
        for j in 0..n {
            let t = 1000 + j * 700;
            if rng.chance(1, 3) || (j == 0 && rng.chance(1, 2)) {
                let bad = malformed_line(&mut rng, t - 350);
                // only lines the decoder really rejects (some odd curve lists are accepted)
                let alone = Beatmap::from_bytes(format!("{HEADER}{bad}\n").as_bytes()).map(|m| m.hit_objects.len());
                if matches!(alone, Ok(0)) {
                    kinds.push(esc(bad.split(',').nth(5).unwrap_or("")));
                    dirty.push_str(&bad);
                    dirty.push('\n');
                    n_bad += 1;
                }
            }
            let line = valid_line(&mut rng, t);
            clean.push_str(&line);
            clean.push('\n');
            dirty.push_str(&line);
            dirty.push('\n');
        }
        // the malformed lines alone decode to nothing (they really are rejected)
        let a = objects(&clean);
        let b = objects(&dirty);
        let o = Obj::new()
            .raw("id", k)
            .raw("n_valid", n)
            .raw("n_malformed", n_bad)
            .raw("curves", arr(kinds))
            .raw("equal", a == b)
            .str("text", &dirty);
        let o = if a == b { o } else { o.str("clean", &format!("{a:?}")).str("dirty", &format!("{b:?}")) };
        println!("{}", o.done());
    }
}
